"""Thorough-tier extras: Kani discharge of the assumed std integer specs, unit-specific Kani jobs (bounded stand-ins,
labelled), the mutant battery, seed stability, counterexample search and replay.  See DESIGN.md 2.4, 2.5, 2.7."""
import concurrent.futures as cf
import json
import os
import re
import shutil
import subprocess
import time

from . import run as R


def kani(crate_dir, harness, timeout=90, extra=None):
    import signal
    cmd = ['cargo', 'kani', '--harness', harness] + (extra or [])
    env = dict(os.environ, CARGO_NET_OFFLINE='true')
    t0 = time.time()
    p = subprocess.Popen(cmd, cwd=crate_dir, stdout=subprocess.PIPE, stderr=subprocess.STDOUT, text=True, env=env,
                         start_new_session=True)
    try:
        out, _ = p.communicate(timeout=timeout)
    except subprocess.TimeoutExpired:
        # kill the whole process group (cargo-kani, cbmc, z3) — never pkill by pattern
        try:
            os.killpg(p.pid, signal.SIGKILL)
        except ProcessLookupError:
            pass
        p.wait()
        return {'harness': harness, 'status': 'timeout', 'wall': round(time.time() - t0, 1), 'out': ''}
    st = 'ok' if 'VERIFICATION:- SUCCESSFUL' in out else ('failed' if 'VERIFICATION:- FAILED' in out else 'error')
    return {'harness': harness, 'status': st, 'wall': round(time.time() - t0, 1), 'out': out[-3000:] if st != 'ok' else ''}


def discharge_int_ops(used_only=None, workers=6, timeout=90):
    """Run the generated full-domain harnesses for contracts/std/int_ops.rs.  used_only: iterable of 'type::op' names that
    the extracted code actually calls (those are the ones a current proof rests on); others are still run, best effort."""
    d = os.path.join(R.VERIF, 'kani', 'intops')
    names = [l.strip() for l in open(os.path.join(d, 'harnesses.list')) if l.strip()]
    # build once (serial) so the parallel runs only verify
    subprocess.run(['cargo', 'kani', '--only-codegen'], cwd=d, capture_output=True, text=True,
                   env=dict(os.environ, CARGO_NET_OFFLINE='true'))
    res = []
    with cf.ThreadPoolExecutor(max_workers=workers) as ex:
        for r in ex.map(lambda h: kani(d, h, timeout), names):
            res.append(r)
    return res


class KaniFailure:
    def __init__(self, unit, job, r, pid):
        self.unit, self.job, self.r, self.pid = unit, job, r, pid

    def name(self):
        return '%s:kani:%s' % (self.unit.uid, self.job['name'])

    def props(self):
        return self.job.get('props', self.unit.props)

    def write_replay(self, idx):
        os.makedirs(os.path.join(R.VERIF, 'replays'), exist_ok=True)
        path = os.path.join(R.VERIF, 'replays', '%s-%s-kani-%d.txt' % (self.pid, self.unit.uid, idx))
        with open(path, 'w') as o:
            o.write('property: %s\nfailed obligation: %s\nengine: Kani 0.68 / CBMC 6.11 (%s)\n\n' % (self.pid, self.name(), self.job.get('label', 'bounded')))
            o.write(self.r.get('detail', ''))
            if self.r.get('cex'):
                o.write('\n--- failing input (concrete playback) ---\n' + self.r['cex'] + '\n')
        return path, bool(self.r.get('cex'))


def run_kani_job(unit, job, workdir):
    """job: dict(name, crate_builder(workdir)->dir, harnesses=[..], timeout, label)."""
    try:
        d = job['build'](workdir)
    except Exception as e:
        return {'status': 'undecided', 'detail': 'kani crate generation failed: %r' % e, 'summary': {'name': job['name']}}
    results = []
    with cf.ThreadPoolExecutor(max_workers=job.get('workers', 4)) as ex:
        for r in ex.map(lambda h: kani(d, h, job.get('timeout', 300), job.get('extra')), job['harnesses']):
            results.append(r)
    bad = [r for r in results if r['status'] == 'failed']
    und = [r for r in results if r['status'] in ('timeout', 'error')]
    summary = {'name': job['name'], 'label': job.get('label', 'bounded'), 'bound': job.get('bound', ''),
               'harnesses': len(results), 'ok': sum(1 for r in results if r['status'] == 'ok'),
               'failed': [r['harness'] for r in bad], 'undecided': [r['harness'] + ':' + r['status'] for r in und],
               'wall_s': round(sum(r['wall'] for r in results), 1)}
    if bad:
        # ask Kani for the failing input of the first failed harness (concrete playback) — replayed on the extracted code by
        # the generated unit test text, which is put into the replay file
        try:
            r2 = kani(d, bad[0]['harness'], job.get('timeout', 300), ['-Z', 'concrete-playback', '--concrete-playback=print'])
            m = re.search(r'Concrete playback unit test for `[^`]*`:\n```\n(.*?)```', r2.get('out', ''), re.S)
            if m is None:
                # kani() trims output of successful runs only; failed runs keep the tail
                m = re.search(r'(#\[test\]\nfn kani_concrete_playback.*?\n\})', r2.get('out', ''), re.S)
            if m:
                job['_cex'] = 'harness %s (subject string and assertions: see the harness in the generated crate)\n%s' % (bad[0]['harness'], m.group(1))
        except Exception:
            pass
        expected = set(job.get('expected_failures', []))
        only_expected = bool(expected) and all(r['harness'] in expected for r in bad)
        return {'status': 'failed', 'detail': '\n\n'.join(r['harness'] + '\n' + r['out'] for r in bad), 'summary': summary,
                'only_expected': only_expected, 'cex': job.get('_cex')}
    if und:
        return {'status': 'undecided', 'detail': '; '.join(r['harness'] + ':' + r['status'] + ' ' + r['out'][-300:] for r in und), 'summary': summary}
    return {'status': 'ok', 'detail': '', 'summary': summary}


def thorough_extras(runs, findings, workdir, seed, pid):
    cov = {}
    und = []
    # 1. mutant battery of every unit of this property
    from . import mutants as M
    killed = 0
    total = 0
    survivors = []
    for ur in runs:
        try:
            res = M.run_battery(ur.unit.uid)
        except Exception as e:
            und.append('%s: mutant battery fault: %r' % (ur.unit.uid, e))
            continue
        for r in res:
            total += 1
            if r['status'] == 'killed':
                killed += 1
            else:
                survivors.append('%s/%s:%s' % (ur.unit.uid, r['mutant'], r['status']))
    cov['mutants_total'] = total
    cov['mutants_killed'] = killed
    cov['mutants_not_killed'] = survivors
    # 2. seed stability: re-run the main file of each unit with two more z3 seeds
    unstable = []
    for ur in runs:
        p = ur.files.get('main')
        if not p:
            continue
        for s in ((seed or 0) + 1, (seed or 0) + 2):
            r = R.run_verus(p, (ur.unit.rlimit or 10), s + 1000)
            v, e = R.verus_counts(r)
            bad = [d for d in r['diags'] if R.classify(d) in ('verif', 'rlimit')]
            if bad and not ur.failures.get('main'):
                unstable.append('%s seed %d: %s' % (ur.unit.uid, s, bad[0].get('message', '')[:80]))
    cov['seed_stability_runs'] = 2 * len(runs)
    cov['seed_unstable'] = unstable
    if unstable:
        und += ['unstable proof: ' + u for u in unstable]
    # 3. std integer specs discharged by Kani (only for properties whose units include the int-ops prelude)
    if any('std/int_ops.rs' in (ch.origin or '') for ur in runs for ch in ur.unit.chunks):
        res = discharge_int_ops()
        cov['std_int_specs_kani'] = {
            'harnesses': len(res), 'discharged': sum(1 for r in res if r['status'] == 'ok'),
            'failed': [r['harness'] for r in res if r['status'] == 'failed'],
            'not_discharged_timeout_or_error': [r['harness'] + ':' + r['status'] for r in res if r['status'] in ('timeout', 'error')],
            'solver_wall_s': round(sum(r['wall'] for r in res), 1),
            'note': 'loop-free full-domain harnesses (complete proofs, not bounded); 64-bit div/rem are checked against the language operators (truncation per the Rust reference is trusted)',
        }
        for r in res:
            if r['status'] == 'failed':
                und.append('assumed std spec REFUTED by Kani: %s' % r['harness'])
    return {'coverage': cov, 'undecided': und}


def find_counterexample(failure, workdir):
    """A unit may carry its own search for a failing input (`unit.counterexample(failure, workdir) -> text | None`); the text is only
    returned when the input was run against the real code and misbehaved there."""
    cb = getattr(failure.unit, 'counterexample', None)
    return cb(failure, workdir) if cb else None


def replay(pid, path):
    print(open(path).read())
    print('replay: re-run `./check %s` to re-verify the obligation on the current tree' % pid)
    return 0
