"""Thorough-tier extras and Kani jobs.  Filled in incrementally; see DESIGN.md 2.4, 2.5, 2.7."""
import os


class KaniFailure:
    pass


def run_kani_job(unit, job, workdir):
    return {'status': 'undecided', 'detail': 'kani runner not built yet', 'summary': {'name': job.get('name')}}


def thorough_extras(runs, findings, workdir, seed, pid):
    return {}


def find_counterexample(failure, workdir):
    return None
