"""Mechanical extractor: locates items in /repo's *current* sources, copies their bytes, applies only the
logged rewrite rules of DESIGN.md §2.1 and splices contract text (rule R7) as insert-only, sentinel-wrapped
regions, so that a fidelity pass can delete every splice again and compare token streams.

Nothing here re-types a function body.  An anchor that cannot be found raises ExtractError, which the
runner turns into exit code 2 (undecided) — never into a verdict.
"""
import hashlib
import os
import re

from .lex import lex_skip, match_brace, match_close, find_top, tokens

SP_OPEN = '/*+vx*/'
SP_CLOSE = '/*-vx*/'
ENS_END = '/*vx-ens-end*/'


class ExtractError(Exception):
    pass


def sp(text):
    return SP_OPEN + text + SP_CLOSE


def strip_splices(text):
    out = []
    i = 0
    while True:
        j = text.find(SP_OPEN, i)
        if j < 0:
            out.append(text[i:])
            break
        out.append(text[i:j])
        k = text.find(SP_CLOSE, j)
        if k < 0:
            raise ExtractError('unterminated splice sentinel')
        i = k + len(SP_CLOSE)
    return ''.join(out)


class Clause:
    """One contract clause.  `label` is '<PROPS> <id>' (PROPS comma separated property ids, or 'aux')."""

    def __init__(self, label, text):
        self.label = label
        self.text = text


def C(label, text):
    return Clause(label, text)


def _norm_clauses(cl):
    out = []
    for c in cl or []:
        if isinstance(c, Clause):
            out.append(c)
        elif isinstance(c, tuple):
            out.append(Clause(c[0], c[1]))
        else:
            out.append(Clause('aux', c))
    return out


class Source:
    def __init__(self, repo, rel):
        self.repo = repo
        self.rel = rel
        self.path = os.path.join(repo, rel)
        try:
            self.text = open(self.path, encoding='utf-8').read()
        except OSError as e:
            raise ExtractError('source file missing: %s (%s)' % (rel, e))

    def _line_of(self, pos):
        return self.text.count('\n', 0, pos) + 1

    def _attrs_begin(self, b):
        """Walk back from line start `b` over attributes and doc comments directly above."""
        src = self.text
        lines = src[:b].split('\n')
        # lines[-1] is '' (b is at a line start)
        k = len(lines) - 2
        while k >= 0:
            l = lines[k].strip()
            if l.startswith('///') or l.startswith('//!') or l.startswith('//'):
                k -= 1
                continue
            if l.startswith('#[') and l.count('[') <= l.count(']'):
                k -= 1
                continue
            if l.endswith(']') or l.endswith(')]'):
                # maybe the tail of a multi-line attribute: walk up to its '#['
                bal = 0
                kk = k
                ok = False
                while kk >= 0:
                    ll = lines[kk]
                    bal += ll.count(']') - ll.count('[')
                    if ll.strip().startswith('#[') and bal <= 0:
                        ok = True
                        break
                    kk -= 1
                    if k - kk > 12:
                        break
                if ok:
                    k = kk - 1
                    continue
            break
        begin = len('\n'.join(lines[:k + 1])) + (1 if k >= 0 else 0)
        return begin

    def item(self, header_re, name=None, start=0, with_attrs=True):
        """Top-level (or nested) item whose header line matches header_re (re.M).  Returns Item."""
        m = re.compile(header_re, re.M).search(self.text, start)
        if not m:
            raise ExtractError('anchor lost: %s !~ /%s/' % (self.rel, header_re))
        m2 = re.compile(header_re, re.M).search(self.text, m.end())
        if m2:
            raise ExtractError('anchor ambiguous: %s ~ /%s/ at lines %d and %d' % (
                self.rel, header_re, self._line_of(m.start()), self._line_of(m2.start())))
        b = self.text.rfind('\n', 0, m.start()) + 1
        begin = self._attrs_begin(b) if with_attrs else b
        src = self.text
        # header ends with ';' (tuple struct, const, type alias) or with a braced body
        o = find_top(src, '{', m.end() - 1 if src[m.end() - 1] in '({' else m.end())
        semi = find_top(src, ';', m.end() - 1 if src[m.end() - 1] in '({' else m.end())
        # the match may already include the opening token; be liberal
        if src[m.end() - 1] == '{':
            o = m.end() - 1
            semi = -1
        if semi != -1 and (o == -1 or semi < o):
            end = semi + 1
        else:
            if o == -1:
                raise ExtractError('no body for %s' % header_re)
            end = match_brace(src, o)
        return Item(name or header_re, self.rel, self._line_of(b), src[begin:end])

    def method(self, impl_re, fn_name, name=None):
        """A fn inside the impl block whose header matches impl_re; returned dedented as its own Item."""
        impl = self.item(impl_re, with_attrs=False)
        b, o, e = fn_span(impl.text, fn_name)
        # include attrs/docs above the fn inside the impl
        lines = impl.text[:b].split('\n')
        k = len(lines) - 2
        while k >= 0 and re.match(r'\s*(///|#\[|//)', lines[k]):
            k -= 1
        begin = len('\n'.join(lines[:k + 1])) + (1 if k >= 0 else 0)
        t = impl.text[begin:e]
        t = dedent(t)
        line = impl.line + impl.text.count('\n', 0, b)
        return Item(name or fn_name, self.rel, line, t)

    def method_anywhere(self, fn_name, name=None):
        """A method found by its name alone (the file has several impl blocks with the same header); the name
        must be defined exactly once in the file."""
        ms = list(re.finditer(_FN_HDR % re.escape(fn_name), self.text))
        if len(ms) != 1:
            raise ExtractError('anchor %s: fn %s defined %d times in %s' % ('lost' if not ms else 'ambiguous', fn_name, len(ms), self.rel))
        b, o, e = fn_span(self.text, fn_name)
        lines = self.text[:b].split('\n')
        k = len(lines) - 2
        while k >= 0 and re.match(r'\s*(///|#\[|//)', lines[k]):
            k -= 1
        begin = len('\n'.join(lines[:k + 1])) + (1 if k >= 0 else 0)
        t = self.text[begin:e]
        ind = len(re.match(r'[ \t]*', self.text[b:]).group(0))
        if ind:
            t = dedent(t, ind)
        return Item(name or fn_name, self.rel, self._line_of(b), t)

    def slice(self, fn_name, start_re, end_re, header, name, nth=None, tail=None, after_re=None):
        """R6: a contiguous statement range of fn_name's body, from the line matching start_re through the line
        matching end_re (inclusive; if that line opens a bracket the statement is taken to its matching close and `;`),
        wrapped as `header { <bytes> }`.  The bytes are copied verbatim and dedented."""
        ms = list(re.finditer(_FN_HDR % re.escape(fn_name), self.text))
        if nth is None and len(ms) != 1:
            raise ExtractError('slice: fn %s defined %d times in %s' % (fn_name, len(ms), self.rel))
        b, o, e = fn_span(self.text, fn_name, nth or 0)
        body = self.text[o + 1:e - 1]
        from_pos = 0
        if after_re:        # look for the start only after this landmark (e.g. the match arm the slice lives in)
            m0 = re.compile(after_re, re.M).search(body)
            if not m0:
                raise ExtractError('slice anchor lost: %s /%s/' % (self.rel, after_re))
            from_pos = m0.end()
        m1 = re.compile(start_re, re.M).search(body, from_pos)
        if not m1:
            raise ExtractError('slice anchor lost: %s /%s/' % (self.rel, start_re))
        s0 = body.rfind('\n', 0, m1.start()) + 1
        if end_re is None:
            e0 = len(body.rstrip())     # through the end of the function body
        else:
            m2 = re.compile(end_re, re.M).search(body, m1.start())
            if not m2:
                raise ExtractError('slice anchor lost: %s /%s/' % (self.rel, end_re))
            # end of the statement that starts on m2's line
            e0 = body.find('\n', m2.end() - 1)
            if e0 < 0:
                e0 = len(body)
            # if the statement on that line opens a bracket, take it to its matching close (and the rest of that line)
            depth, j = 0, s0
            while j < len(body):
                k = lex_skip(body, j)
                if k is not None:
                    j = k
                    continue
                if body[j] in '([{':
                    depth += 1
                elif body[j] in ')]}':
                    depth -= 1
                if j >= e0 - 1 and depth <= 0:
                    break
                j += 1
            if j >= e0:
                e0 = body.find('\n', j)
                if e0 < 0:
                    e0 = len(body)
            # the line that closes the bracket may open another one (`} else {`): go on until the brackets opened so far are closed
            def _depth(t):
                d, q = 0, 0
                while q < len(t):
                    kk = lex_skip(t, q)
                    if kk is not None:
                        q = kk
                        continue
                    d += 1 if t[q] in '([{' else (-1 if t[q] in ')]}' else 0)
                    q += 1
                return d
            guard = 0
            while _depth(body[s0:e0]) > 0 and e0 < len(body) and guard < 50:
                guard += 1
                d, q = _depth(body[s0:e0]), e0
                while q < len(body) and d > 0:
                    kk = lex_skip(body, q)
                    if kk is not None:
                        q = kk
                        continue
                    d += 1 if body[q] in '([{' else (-1 if body[q] in ')]}' else 0)
                    q += 1
                e0 = body.find('\n', q - 1)
                if e0 < 0:
                    e0 = len(body)
            # a statement continued on following lines: take it up to its terminating `;`
            if body[s0:e0].rstrip()[-1:] not in (';', '}'):
                semi = find_top(body, ';', e0)
                if semi >= 0:
                    e0 = body.find('\n', semi)
                    if e0 < 0:
                        e0 = len(body)
        seg = body[s0:e0]
        # balance check: the slice must be a whole number of statements at one nesting level
        depth = 0
        j = 0
        while j < len(seg):
            k = lex_skip(seg, j)
            if k is not None:
                j = k
                continue
            if seg[j] in '([{':
                depth += 1
            elif seg[j] in ')]}':
                depth -= 1
                if depth < 0:
                    raise ExtractError('slice %s is not balanced (closes more than it opens)' % name)
            j += 1
        if depth != 0:
            raise ExtractError('slice %s is not balanced (depth %d at end)' % (name, depth))
        ind = len(re.match(r'[ \t]*', seg).group(0))
        txt = '\n'.join((l[ind - 4:] if l.startswith(' ' * (ind - 4)) else l) for l in seg.split('\n')) if ind >= 4 else indent(seg, 4 - ind)
        if tail:     # the wrapper returns one of the slice's locals
            txt = txt + '\n    ' + tail
        item = Item(name, self.rel, self._line_of(o + 1 + s0), header + ' {\n' + txt + '\n}')
        item.orig = seg
        item.sha256 = hashlib.sha256(seg.encode()).hexdigest()
        item._log('R6', 'slice of fn %s, lines %d-%d, wrapped as `%s`' % (
            fn_name, self._line_of(o + 1 + s0), self._line_of(o + 1 + e0), ' '.join(header.split())[:80]))
        return item

    def block_slice(self, open_re, header, name, within_fn=None, wrap=None):
        """R6 (block form): the statements of the block opened at the end of the line matching open_re
        (e.g. a match arm `Self::Subshell(..) => {`), wrapped as `header { <bytes> }`.  within_fn restricts the search to one fn."""
        ms = list(re.compile(open_re, re.M).finditer(self.text))
        if within_fn:
            fb, fo, fe = fn_span(self.text, within_fn)
            ms = [m for m in ms if fo <= m.start() < fe]
        if len(ms) != 1:
            raise ExtractError('slice anchor %s: %s /%s/ (%d matches)' % ('lost' if not ms else 'ambiguous', self.rel, open_re, len(ms)))
        m = ms[0]
        le = self.text.find('\n', m.end() - 1)
        o = self.text.rfind('{', m.start(), le)
        if o < 0:
            raise ExtractError('slice anchor /%s/ does not open a block' % open_re)
        e = match_brace(self.text, o)
        seg = self.text[o + 1:e - 1].strip('\n').rstrip()
        ind = len(re.match(r'[ \t]*', seg).group(0))
        txt = '\n'.join((l[ind - 4:] if l.startswith(' ' * (ind - 4)) else l) for l in seg.split('\n')) if ind >= 4 else indent(seg, 4 - ind)
        if wrap:     # the block is an expression (e.g. a match arm's value): `header { PRE <bytes> POST }`
            txt = wrap[0] + '\n' + txt + '\n' + wrap[1]
        item = Item(name, self.rel, self._line_of(o + 1), header + ' {\n' + txt + '\n}')
        item.orig = seg
        item.sha256 = hashlib.sha256(seg.encode()).hexdigest()
        item._log('R6', 'block slice at /%s/ (line %d), wrapped as `%s`' % (open_re[:40], self._line_of(o), ' '.join(header.split())[:80]))
        return item

    def inline_block(self, line_re, header, name):
        """R6 (inline form): a block written on one line, e.g. the action of a PEG alternative `pattern {? EXPR } /`.  line_re must
        match exactly one line and its group 1 is the block's text, which becomes the body of `header { <text> }`."""
        ms = list(re.compile(line_re, re.M).finditer(self.text))
        if len(ms) != 1:
            raise ExtractError('slice anchor %s: %s /%s/ (%d matches)' % ('lost' if not ms else 'ambiguous', self.rel, line_re, len(ms)))
        m = ms[0]
        seg = m.group(1).strip()
        item = Item(name, self.rel, self._line_of(m.start(1)), header + ' {\n    ' + seg + '\n}')
        item.orig = seg
        item.sha256 = hashlib.sha256(seg.encode()).hexdigest()
        item._log('R6', 'inline block at /%s/ (line %d), wrapped as `%s`' % (line_re[:40], self._line_of(m.start(1)), ' '.join(header.split())[:80]))
        return item

    def has(self, regex):
        return re.compile(regex, re.M | re.S).search(self.text) is not None

    def require_text(self, regex, why):
        if not self.has(regex):
            raise ExtractError('text anchor lost in %s: /%s/ (%s)' % (self.rel, regex, why))


def dedent(t, n=4):
    pad = ' ' * n
    return '\n'.join(l[n:] if l.startswith(pad) else l for l in t.split('\n'))


def indent(t, n=4):
    pad = ' ' * n
    return '\n'.join((pad + l) if l.strip() else l for l in t.split('\n'))


_FN_HDR = r'(?m)^[ \t]*(?:pub(?:\([a-z]+\))? )?(?:const )?(?:async )?fn %s\b'


def fn_span(text, fn_name, nth=0):
    """(start of header line, index of body '{', index past body '}') of `fn fn_name` in text."""
    ms = list(re.finditer(_FN_HDR % re.escape(fn_name), text))
    if len(ms) <= nth:
        raise ExtractError('fn %s not found' % fn_name)
    m = ms[nth]
    p = text.find('(', m.end())
    # generic params may precede '(' — find_top from the fn name handles <> as plain chars
    close = match_close(text, p, '(', ')')
    # the body '{' is the first top-level '{' outside spliced contract text
    j = close
    while True:
        o = find_top(text, '{', j)
        so = text.find(SP_OPEN, j)
        if so >= 0 and (o < 0 or so < o):
            sc = text.find(SP_CLOSE, so)
            if sc < 0:
                raise ExtractError('unterminated splice')
            j = sc + len(SP_CLOSE)
            continue
        break
    semi = find_top(text, ';', close)
    if o < 0 or (0 <= semi < o and text.find(SP_OPEN, close, semi) < 0):
        raise ExtractError('fn %s has no body' % fn_name)
    e = match_brace(text, o)
    return m.start(), o, e


class Item:
    def __init__(self, name, rel, line, text):
        self.name = name
        self.rel = rel
        self.line = line
        self.orig = text
        self.text = text
        self.log = []           # (rule, detail)
        self.pre_splice = None  # text snapshot before the first R7 splice
        self.contracted = []    # fn names that got a contract (canary twins)
        self.table = []         # (marker_id, label, kind, fn) filled by splices
        self.sha256 = hashlib.sha256(text.encode()).hexdigest()

    # ------------------------------------------------------------------ logging helpers
    def _log(self, rule, detail):
        self.log.append((rule, detail))

    def _no_splice_yet(self):
        if self.pre_splice is not None:
            raise ExtractError('%s: rewrite rule applied after a splice' % self.name)

    # ------------------------------------------------------------------ rewrite rules
    def r1(self, keep_derive=('Clone', 'Copy', 'Default', 'PartialEq', 'Eq'), structural=True, plain=False):
        """Attributes and doc comments dropped; derive lists reduced; non-Copy derived Clone removed.
        plain=True (items compiled by rustc / Kani, not Verus): the std derives are all kept as written."""
        if plain:
            keep_derive = ('Clone', 'Copy', 'Debug', 'Default', 'PartialEq', 'Eq', 'Hash', 'PartialOrd', 'Ord')
            structural = False
        self._no_splice_yet()
        out = []
        lines = self.text.split('\n')
        i = 0
        n_doc = 0
        while i < len(lines):
            l = lines[i]
            if re.match(r'\s*(///|//!)', l):
                n_doc += 1
                i += 1
                continue
            if re.match(r'\s*#!?\[', l):
                buf = l
                while buf.count('[') > buf.count(']'):
                    i += 1
                    buf += '\n' + lines[i]
                keep = None
                flat = ' '.join(x.strip() for x in buf.split('\n'))
                m = re.match(r'\s*#\[derive\((.*)\)\]\s*$', flat)
                if m:
                    ds = [d.strip() for d in m.group(1).split(',') if d.strip()]
                    ds2 = [d for d in ds if d in keep_derive]
                    if 'Copy' not in ds2 and 'Clone' in ds2 and not plain:
                        ds2.remove('Clone')
                    if structural and 'PartialEq' in ds2 and 'Eq' in ds2:
                        ds2.append('Structural')
                    if ds2:
                        keep = re.match(r'\s*', buf).group(0) + '#[derive(' + ', '.join(ds2) + ')]'
                elif re.match(r'\s*#\[default\]\s*$', flat):
                    keep = buf
                self._log('R1', 'attr %s -> %s' % (flat.strip()[:70], keep.strip() if keep else 'dropped'))
                if keep:
                    out.append(keep)
                i += 1
                continue
            out.append(l)
            i += 1
        if n_doc:
            self._log('R1', '%d doc-comment lines dropped' % n_doc)
        self.text = '\n'.join(out)
        self.r26_let_chains()     # Verus takes no let chains; nesting is what one without an else branch means
        return self

    def r2(self):
        """tracing::*! statements dropped (logging only)."""
        self._no_splice_yet()
        t = self.text
        pat = re.compile(r'(?m)^[ \t]*tracing::(debug|warn|error|info|trace)!\(')
        n = 0
        while True:
            m = pat.search(t)
            if not m:
                break
            p = t.find('(', m.start())
            e = match_close(t, p, '(', ')')
            if t[e] != ';':
                raise ExtractError('%s: tracing macro not a statement' % self.name)
            e += 1
            if t[e] == '\n':
                e += 1
            self._log('R2', 'dropped %s' % ' '.join(t[m.start():e].split())[:80])
            t = t[:m.start()] + t[e:]
            n += 1
        self.text = t
        return self

    def r2_xtrace(self):
        """`if shell.options().print_commands_and_arguments { <only shell.trace_command(..) calls> }` dropped:
        `set -x` output goes to stderr and has no effect on status or control flow.  LOST: the xtrace text."""
        self._no_splice_yet()
        t = self.text
        pat = re.compile(r'(?m)^[ \t]*if shell\.options\(\)\.print_commands_and_arguments \{')
        n = 0
        while True:
            m = pat.search(t)
            if not m:
                break
            o = t.find('{', m.start())
            e = match_brace(t, o)
            body = t[o + 1:e - 1]
            # remove the trace_command calls, then only if-let/else scaffolding may remain
            rest = body
            while True:
                mm = re.search(r'shell\s*\.trace_command\(', rest)
                if not mm:
                    break
                pp = rest.find('(', mm.start())
                ee = match_close(rest, pp, '(', ')')
                tail = re.match(r'\s*(\.await)?\s*;', rest[ee:])
                if not tail:
                    raise ExtractError('%s: xtrace block: trace_command call is not a statement' % self.name)
                rest = rest[:mm.start()] + rest[ee + tail.end():]
            rest2 = re.sub(r'//[^\n]*', '', rest)
            rest2 = re.sub(r'if let Some\(\w+\) = &self_?\.\w+', '', rest2)
            rest2 = re.sub(r'\belse\b', '', rest2)
            if re.sub(r'[\s{}]', '', rest2):
                raise ExtractError('%s: xtrace block contains more than trace_command calls: %r' % (self.name, rest2.strip()[:60]))
            if t[e:e + 1] == '\n':
                e += 1
            ls = t.rfind('\n', 0, m.start()) + 1
            self._log('R2', 'xtrace block dropped: %s' % ' '.join(t[m.start():e].split())[:90])
            t = t[:ls] + t[e:]
            n += 1
        self.text = t
        return self

    def r3(self):
        """async fn -> fn, .await removed."""
        self._no_splice_yet()
        n = self.text.count('.await')
        t = self.text.replace('.await', '')
        t2 = re.sub(r'\basync fn\b', 'fn', t)
        t2 = re.sub(r'(?m)^[ \t]*#\[async_recursion::async_recursion\]\n', '', t2)
        self._log('R3', '%d .await removed, async dropped' % n)
        self.text = t2
        return self

    def r4(self):
        """ShellExtensions generics erased."""
        self._no_splice_yet()
        t = self.text
        n = 0
        for a, b in [('Shell<impl extensions::ShellExtensions>', 'Shell'),
                     ('Shell<impl crate::extensions::ShellExtensions>', 'Shell'),
                     ('Shell<impl brush_core::extensions::ShellExtensions>', 'Shell'),
                     ('Shell<impl brush_core::ShellExtensions>', 'Shell'),
                     ('Shell<SE>', 'Shell'),
                     ('<SE: extensions::ShellExtensions>', ''),
                     ('<SE: crate::extensions::ShellExtensions>', ''),
                     ('<SE: brush_core::extensions::ShellExtensions>', ''),
                     ('<SE: brush_core::ShellExtensions>', ''),
                     ('<SE: ShellExtensions>', ''),
                     ('<SE>', ''), ('::<SE>', '')]:
            c = t.count(a)
            if c:
                t = t.replace(a, b)
                n += c
        if n:
            self._log('R4', '%d extension-generic occurrences erased' % n)
        self.text = t
        return self

    def r5_self(self, selfty, new_name=None, old_name='execute', by_ref=True):
        """Trait method -> free function: `&self` becomes an explicit `self_` parameter."""
        self._no_splice_yet()
        t = self.text
        for pat in ('&self,', '&self)', '&mut self,', '&mut self)', 'self,', 'self)'):
            if pat in t:
                if pat.startswith('&mut'):
                    rep = 'self_: &mut %s' % selfty
                elif pat.startswith('&'):
                    rep = 'self_: &%s' % selfty
                else:
                    rep = 'self_: %s' % selfty
                t = t.replace(pat, rep + pat[-1], 1)
                break
        else:
            raise ExtractError('%s: no self parameter' % self.name)
        t = re.sub(r'\bself\b(?!_)', 'self_', t)
        if new_name:
            t2 = re.sub(r'\bfn %s\b' % old_name, 'fn ' + new_name, t, count=1)
            if t2 == t:
                raise ExtractError('%s: fn %s not found for R5' % (self.name, old_name))
            t = t2
        self._log('R5', 'trait method -> free fn %s(self_: %s, ..)' % (new_name or old_name, selfty))
        self.text = t
        return self

    def r9(self, mapping):
        """debug_assert!(cond, ..) -> proof obligation.  mapping: list of (regex on the cond text, spec text)."""
        self._no_splice_yet()
        t = self.text
        pat = re.compile(r'(?m)^([ \t]*)debug_assert!\(')
        pos = 0
        n = 0
        while True:
            m = pat.search(t, pos)
            if not m:
                break
            p = t.find('(', m.start())
            e = match_close(t, p, '(', ')')
            body = t[p + 1:e - 1]
            if t[e] == ';':
                e += 1
            rep = None
            for rx, spec in mapping:
                if re.search(rx, body):
                    rep = spec
                    break
            if rep is None:
                raise ExtractError('%s: debug_assert with no R9 mapping: %s' % (self.name, body[:60]))
            new = m.group(1) + 'proof { assert(' + rep + '); }'
            self._log('R9', 'debug_assert!(%s) -> assert(%s)' % (' '.join(body.split())[:50], rep))
            t = t[:m.start()] + new + t[e:]
            pos = m.start() + len(new)
            n += 1
        self.text = t
        return self

    def r11(self):
        """Visibility normalised."""
        self._no_splice_yet()
        t = self.text
        t2 = re.sub(r'(?m)^(\s*)pub(\([a-z]+\))? ((?:const )?(?:async )?fn )', r'\1\3', t)
        t2 = re.sub(r'(?m)^(\s*)pub\((?:crate|super)\) ', r'\1pub ', t2)
        t2 = re.sub(r'(?m)^(\s*)(struct|enum) ', r'\1pub \2 ', t2)
        if t2 != t:
            self._log('R11', 'visibility normalised')
        self.text = t2
        return self

    def r11_pub(self):
        """Visibility normalised the other way: every fn / struct / enum made `pub` (items that live in a module of the
        generated file and are used across modules)."""
        self._no_splice_yet()
        t = self.text
        t2 = re.sub(r'(?m)^(\s*)pub\((?:crate|super)\) ', r'\1pub ', t)
        t2 = re.sub(r'(?m)^(\s*)((?:const )?(?:async )?fn |struct |enum |type )', r'\1pub \2', t2)
        if t2 != t:
            self._log('R11', 'visibility normalised (all pub)')
        self.text = t2
        return self

    def pub_fields(self):
        """R11 (second half): struct fields made visible."""
        self._no_splice_yet()
        t = self.text
        o = t.find('{')
        head, body = t[:o + 1], t[o + 1:]
        body2 = re.sub(r'(?m)^(\s+)(?!pub\b|//|#|\})([a-z_][a-z_0-9]*: )', r'\1pub \2', body)
        if body2 != body:
            self._log('R11', 'fields made visible')
        self.text = head + body2
        return self

    def replace(self, before, after, rule, why, count=1):
        """A logged exact-text replacement (used by R6/R10/R12/R13 instances)."""
        self._no_splice_yet()
        c = self.text.count(before)
        if c != count:
            raise ExtractError('%s: %s expects %d occurrence(s) of %r, found %d' % (self.name, rule, count, before[:60], c))
        self.text = self.text.replace(before, after)
        self._log(rule, '%s: %s -> %s' % (why, ' '.join(before.split())[:60], ' '.join(after.split())[:60]))
        return self

    def resub(self, pattern, repl, rule, why, count=1, flags=re.M):
        self._no_splice_yet()
        t2, n = re.subn(pattern, repl, self.text, flags=flags)
        if count is not None and n != count:
            raise ExtractError('%s: %s expects %s match(es) of /%s/, found %d' % (self.name, rule, count, pattern, n))
        if n:
            self._log(rule, '%s: /%s/ x%d' % (why, pattern[:60], n))
        self.text = t2
        return self

    def drop_fn(self, fn_name, why):
        """Remove a method from an extracted impl (listed in the evidence as DROPPED = not verified)."""
        self._no_splice_yet()
        b, o, e = fn_span(self.text, fn_name)
        lines = self.text[:b].split('\n')
        k = len(lines) - 2
        while k >= 0 and re.match(r'\s*(///|#\[|//)', lines[k]):
            k -= 1
        begin = len('\n'.join(lines[:k + 1])) + (1 if k >= 0 else 0)
        if self.text[e] == '\n':
            e += 1
        self.text = self.text[:begin] + self.text[e:]
        self._log('DROPPED', 'fn %s: %s' % (fn_name, why))
        return self

    def keep_only_fns(self, names, why):
        """In an impl block keep only the listed fns (everything else DROPPED, listed)."""
        self._no_splice_yet()
        found = re.findall(r'(?m)^[ \t]+(?:pub(?:\([a-z]+\))? )?(?:const )?(?:async )?fn ([A-Za-z_0-9]+)\b', self.text)
        for f in found:
            if f not in names:
                self.drop_fn(f, why)
        for n in names:
            if n not in found:
                raise ExtractError('%s: fn %s not found' % (self.name, n))
        return self

    def r12(self, fn_name, ordinal, counter='__n'):
        """`for (i, x) in E.iter().enumerate()` -> explicit counter."""
        self._no_splice_yet()
        b, o, e = self._loop_span(fn_name, ordinal)
        hdr = self.text[b:o]
        m = re.match(r'(\s*)for \((\w+), (\w+|\(\w+, \w+\))\) in (.*)\.enumerate\(\)\s*$', hdr, re.S)
        if not m:
            raise ExtractError('%s: R12 loop #%d is not an enumerate loop: %s' % (self.name, ordinal, hdr.strip()))
        ind, i, x, expr = m.groups()
        body_ins = '\n%s    let %s = %s;\n%s    %s += 1;' % (ind, i, counter, ind, counter)
        if x.startswith('('):
            # the element is a pair taken apart by the pattern: `for (i, (a, b)) in ..` -> `for __e in ..  { let a = &__e.0; let b = &__e.1; .. }`
            a_, b_ = re.match(r'\((\w+), (\w+)\)', x).groups()
            body_ins += '\n%s    let %s = &__e.0;\n%s    let %s = &__e.1;' % (ind, a_, ind, b_)
            x = '__e'
        new_hdr = '%slet mut %s: usize = 0;\n%sfor %s in %s ' % (ind, counter, ind, x, expr)
        self.text = self.text[:b] + new_hdr + '{' + body_ins + self.text[o + 1:]
        self._log('R12', 'enumerate loop #%d in %s -> counter %s' % (ordinal, fn_name, counter))
        return self

    def r13(self, fn_name, ordinal, itname='__it', into_iter=True):
        """`for x in E { .. continue .. }` -> language-defined desugaring with loop/next."""
        self._no_splice_yet()
        b, o, e = self._loop_span(fn_name, ordinal)
        hdr = self.text[b:o]
        m = re.match(r'(\s*)for (.+?) in (.*?)\s*$', hdr, re.S)
        if not m:
            raise ExtractError('%s: R13 loop #%d is not a for loop' % (self.name, ordinal))
        ind, pat, expr = m.groups()
        new_hdr = (('%slet mut %s = (%s).into_iter();\n%sloop ' if into_iter else '%slet mut %s = %s;\n%sloop ') % (ind, itname, expr, ind))
        body_ins = ('\n%s    let %s = match %s.next() {\n%s        Some(__x) => __x,\n%s        None => break,\n%s    };'
                    % (ind, pat, itname, ind, ind, ind))
        self.text = self.text[:b] + new_hdr + '{' + body_ins + self.text[o + 1:]
        self._log('R13', 'for loop #%d in %s -> loop/next desugaring' % (ordinal, fn_name))
        return self

    def r20(self, fn_name=None):
        """`let mut P = E.char_indices().peekable(); while let Some((OFF, C)) = P.next() { .. P.peek().is_some_and(|(_, X)| *X == K) .. }`
        -> counted loop over the characters (a Vec<char> from the str_chars_vec stub) with a running byte offset:
        OFF is the sum of len_utf8 of the characters before C, and the peek is a look at the next element."""
        self._no_splice_yet()
        t = self.text
        m1 = re.search(r'^([ \t]*)let mut (\w+) = (\w+)\.char_indices\(\)\.peekable\(\);\n', t, re.M)
        if not m1:
            raise ExtractError('%s: R20 shape not found (char_indices().peekable())' % self.name)
        ind, p, e = m1.groups()
        m2 = re.search(r'^([ \t]*)while let Some\(\((\w+), (\w+)\)\) = %s\.next\(\) \{\n' % re.escape(p), t, re.M)
        if not m2:
            raise ExtractError('%s: R20 shape not found (while let Some((off, c)) = p.next())' % self.name)
        ind2, off, c = m2.groups()
        t = t[:m2.start()] + ('%swhile __i < __cs.len() {\n%s    let %s = __cs[__i];\n%s    let %s = __off;\n%s    __off += %s.len_utf8();\n%s    __i += 1;\n'
                              % (ind2, ind2, c, ind2, off, ind2, c, ind2)) + t[m2.end():]
        t = t[:m1.start()] + ('%slet __cs = str_chars_vec(%s);\n%slet mut __i: usize = 0;\n%slet mut __off: usize = 0;\n' % (ind, e, ind, ind)) + t[m1.end():]
        t, k = re.subn(r'%s\.peek\(\)\.is_some_and\(\|\(_, (\w+)\)\| \*\1 == ([^)]+)\)' % re.escape(p), r'(__i < __cs.len() && __cs[__i] == \2)', t)
        if re.search(r'\b%s\b' % re.escape(p), t):
            raise ExtractError('%s: R20 the peekable iterator `%s` is used in a way the rule does not cover' % (self.name, p))
        self.text = t
        self._log('R20', 'char_indices().peekable() loop -> counted loop with running byte offset (%d peeks rewritten)' % k)
        return self

    def r26_let_chains(self):
        """`if A && let P = E && B { X }` (no `else`, not itself an `else if`) -> `if A { if let P = E { if B { X } } }`.
        Verus does not take let chains; the nesting is what the chain means when there is no else branch.  A chain with a plain
        `else { Y }` is nested with Y repeated at each link (R26b); `else if` chains are left alone (the run then stops at Verus' "not
        supported")."""
        self._no_splice_yet()
        t, pos, n = self.text, 0, 0
        while True:
            m = re.compile(r'(?<![\w.])if\s+(?=[^\n]*\blet\b|[^{]*?&&\s*let\b)').search(t, pos)
            if not m:
                break
            pos = m.end()
            # not in a comment / string, and not an `else if`
            line_start = t.rfind('\n', 0, m.start()) + 1
            if '//' in t[line_start:m.start()] or re.search(r'\belse\s*$', t[:m.start()]):
                continue
            # the condition runs to the first `{` at bracket depth 0
            j, depth, parts, last = m.end(), 0, [], m.end()
            while j < len(t):
                k = lex_skip(t, j)
                if k is not None:
                    j = k
                    continue
                ch = t[j]
                if ch in '([':
                    depth += 1
                elif ch in ')]':
                    depth -= 1
                elif ch == '{' and depth == 0:
                    break
                elif t.startswith('&&', j) and depth == 0:
                    parts.append(t[last:j].strip())
                    j += 2
                    last = j
                    continue
                j += 1
            if j >= len(t):
                break
            parts.append(t[last:j].strip())
            if len(parts) < 2 or not any(p.startswith('let ') for p in parts):
                continue
            e = match_brace(t, j)
            after = t[e:e + 40].lstrip()
            if after.startswith('else'):
                # R26b: a chain with a plain `else { Y }`: `if A && let P = E { X } else { Y }` -> `if A { if let P = E { X } else { Y } } else { Y }`
                # (Y is reached exactly when some link fails, whichever it is; the links are evaluated in the same order)
                m_else = re.match(r'\s*else\s*(?=\{)', t[e:])
                if not m_else:
                    continue        # `else if ..`: left alone
                yb = e + m_else.end()
                ye = match_brace(t, yb)
                y = t[yb:ye]
                nested = ''.join('if %s { ' % p for p in parts[:-1]) + 'if %s ' % parts[-1] + t[j:e] + ' else ' + y + (' } else ' + y) * (len(parts) - 1)
                t = t[:m.start()] + nested + t[ye:]
                pos = m.start() + 3
                n_else = getattr(self, '_n26b', 0) + 1
                self._n26b = n_else
                continue
            block = t[j:e]
            nested = ''.join('if %s { ' % p for p in parts[:-1]) + 'if %s ' % parts[-1] + block + ' }' * (len(parts) - 1)
            t = t[:m.start()] + nested + t[e:]
            pos = m.start() + 3
            n += 1
        if n:
            self.text = t
            self._log('R26', '%d let chain(s) without an else branch nested' % n)
        if getattr(self, '_n26b', 0):
            self.text = t
            self._log('R26b', '%d let chain(s) with a plain else branch nested, the else block repeated at each link' % self._n26b)
            self._n26b = 0
        # R27: a one-element slice pattern on a Vec -> length test and index (Verus takes no slice patterns)
        t2, k = re.subn(r'\bif let \[(\w+)\] = (\w+(?:\.\w+)*)\.as_slice\(\) \{', r'if \2.len() == 1 { let \1 = &\2[0];', self.text)
        if k:
            self.text = t2
            self._log('R27', '%d one-element slice pattern(s) `if let [x] = v.as_slice()` -> `if v.len() == 1 { let x = &v[0];`' % k)
        return self

    def r28_collect(self, elem_type=None):
        """R28: `let mut N: VecDeque<T> = ITER.map(|x| BODY).collect();` (or without the map) ->
        `let mut N: VecDeque<T> = VecDeque::new(); let mut __r28 = ITER; loop { match __r28.next() { Some(x) => { N.push_back(BODY); }
        None => { break; } } }` — what collecting a mapped iterator into a VecDeque does, element by element, in order.  `T` written
        as `_` is replaced by elem_type when given (the invariants of the new loop need the type spelled out)."""
        self._no_splice_yet()
        m = re.search(r'(?m)^([ \t]*)let mut (\w+): VecDeque<([^>\n]*)> =\s*', self.text)
        if not m:
            raise ExtractError('%s: R28 finds no `let mut N: VecDeque<..> = ..` statement' % self.name)
        ind, name, ty = m.group(1), m.group(2), m.group(3)
        # the statement runs to the `;` at bracket depth 0
        j, depth = m.end(), 0
        while j < len(self.text):
            k = lex_skip(self.text, j)
            if k is not None:
                j = k
                continue
            ch = self.text[j]
            if ch in '([{':
                depth += 1
            elif ch in ')]}':
                depth -= 1
            elif ch == ';' and depth == 0:
                break
            j += 1
        expr = self.text[m.end():j].strip()
        if not re.search(r'\.collect\(\)$', expr):
            raise ExtractError('%s: R28 statement does not end in .collect(): %s' % (self.name, expr[-40:]))
        expr = re.sub(r'\s*\.collect\(\)$', '', expr)
        var, body = 's', None
        mm = re.search(r'\.map\(\|(\w+)\|\s*', expr)
        if mm:
            # the closure body runs to the `)` matching `.map(`
            o = expr.index('(', mm.start())
            d, q = 0, o
            while q < len(expr):
                k = lex_skip(expr, q)
                if k is not None:
                    q = k
                    continue
                if expr[q] in '([{':
                    d += 1
                elif expr[q] in ')]}':
                    d -= 1
                    if d == 0:
                        break
                q += 1
            if expr[q + 1:].strip():
                raise ExtractError('%s: R28 finds adapters after .map(..): %s' % (self.name, expr[q + 1:].strip()[:40]))
            var, body = mm.group(1), expr[mm.end():q].strip()
            expr = expr[:mm.start()].rstrip()
        if body is None:
            body = var
        if ty.strip() == '_' and elem_type:
            ty = elem_type
        new = ('%slet mut %s: VecDeque<%s> = VecDeque::new();\n%slet mut __r28 = %s;\n%sloop {\n%s    match __r28.next() {\n%s        Some(%s) => { %s.push_back(%s); }\n%s        None => { break; }\n%s    }\n%s}'
               % (ind, name, ty, ind, expr, ind, ind, ind, var, name, body, ind, ind, ind))
        self.text = self.text[:m.start()] + new + self.text[j + 1:]
        self._log('R28', 'collect of %s into VecDeque `%s` -> explicit loop over next() with push_back' % ('a mapped iterator' if mm else 'an iterator', name))
        return self

    def r30_str_match(self, eq_fn='str_eq'):
        """R30: `match E { "LIT1" => A1, "LIT2" => A2, .., _ => D }` (string-literal patterns, tested in order; D a block or an
        expression) -> `if EQ(E, "LIT1") { A1 } else if EQ(E, "LIT2") { A2 } .. else D`.  Verus takes no string-literal patterns; the
        chain of equality tests in source order is what the match means."""
        self._no_splice_yet()
        m = re.search(r'\bmatch ([^\n{]+?) \{\n(?=\s*"[^"\n]*" =>)', self.text)
        if not m:
            raise ExtractError('%s: R30 finds no match over string literals' % self.name)
        scrut = m.group(1).strip()
        o = self.text.index('{', m.start())
        e = match_brace(self.text, o)
        body = self.text[o + 1:e - 1]
        arms, pos = [], 0
        while True:
            ma = re.compile(r'\s*"((?:[^"\\]|\\.)*)" => ([^\n]*?),\n').match(body, pos)
            if not ma:
                break
            arms.append((ma.group(1), ma.group(2)))
            pos = ma.end()
        md = re.compile(r'\s*_ => ').match(body, pos)
        if not arms or not md:
            raise ExtractError('%s: R30: the match over string literals has no `_ =>` arm after its literal arms' % self.name)
        default = body[md.end():].strip()
        if default.endswith(','):
            default = default[:-1].rstrip()
        if not default.startswith('{'):
            default = '{ ' + default + ' }'
        chain = ' else '.join('if %s(%s, "%s") { %s }' % (eq_fn, scrut, lit, a) for lit, a in arms) + ' else ' + default
        self.text = self.text[:m.start()] + chain + self.text[e:]
        self._log('R30', 'match over %d string literal(s) on `%s` -> chain of %s tests in source order' % (len(arms), scrut, eq_fn))
        return self

    def r21(self, fn_name, ordinal):
        """`for (OFF, C) in E.char_indices() { B }` -> counted loop over the characters (a Vec<char> from the str_chars_vec stub) with a
        running byte offset: OFF is the sum of len_utf8 of the characters before C.  The counters are advanced at the top of the body,
        so a `continue` in B behaves as before."""
        self._no_splice_yet()
        b, o, e = self._loop_span(fn_name, ordinal)
        hdr = self.text[b:o]
        m = re.match(r'(\s*)for \((\w+), (\w+)\) in (\w+)\.char_indices\(\)\s*$', hdr, re.S)
        if not m:
            raise ExtractError('%s: R21 loop #%d is not `for (off, c) in s.char_indices()`: %s' % (self.name, ordinal, hdr.strip()))
        ind, off, c, expr = m.groups()
        new_hdr = ('%slet __cs = str_chars_vec(%s);\n%slet mut __i: usize = 0;\n%slet mut __off: usize = 0;\n%swhile __i < __cs.len() ' % (ind, expr, ind, ind, ind))
        body_ins = ('\n%s    let %s = __cs[__i];\n%s    let %s = __off;\n%s    __off += %s.len_utf8();\n%s    __i += 1;' % (ind, c, ind, off, ind, c, ind))
        self.text = self.text[:b] + new_hdr + '{' + body_ins + self.text[o + 1:]
        self._log('R21', 'char_indices() for loop #%d in %s -> counted loop with running byte offset' % (ordinal, fn_name))
        return self

    def r16_rev_pairs(self, fn_name, ordinal, suffix=None):
        """`for (a, b) in V.iter_mut().rev() { B }` -> counted `while` from V.len() down to 1 with `a` / `b` written as the places
        V[k].0 / V[k].1 (`&mut V[k].1` where b is passed as an argument).  Sound for the same reason as R16."""
        self._no_splice_yet()
        b, o, e = self._loop_span(fn_name, ordinal)
        hdr = self.text[b:o]
        m = re.match(r'(\s*)for \((\w+), (\w+)\) in ([\w\.]+)\.iter_mut\(\)\.rev\(\)\s*$', hdr, re.S)
        if not m:
            raise ExtractError('%s: R16 loop #%d is not `for (a, b) in V.iter_mut().rev()`: %s' % (self.name, ordinal, hdr.strip()))
        ind, a, bb, v = m.groups()
        sfx = suffix if suffix is not None else str(ordinal)
        n, k = '__n' + sfx, '__k' + sfx
        body = self.text[o + 1:e - 1]
        for name, fld in ((a, '0'), (bb, '1')):
            place = '%s[%s].%s' % (v, k, fld)
            body = re.sub(r'\b%s\b(?=\.)' % re.escape(name), place, body)                      # receiver / field base
            body = re.sub(r'(matches!\(\s*)%s\b' % re.escape(name), r'\1' + place, body)       # scrutinee of matches!
            body = re.sub(r'(?<![\w\.\]])%s\b(?!\s*[\.\[:(])' % re.escape(name), '&mut ' + place, body)   # passed on as an argument
        new_hdr = '%slet mut %s: usize = %s.len();\n%swhile %s > 0 ' % (ind, n, v, ind, n)
        body_ins = '\n%s    %s -= 1;\n%s    let %s = %s;' % (ind, n, ind, k, n)
        self.text = self.text[:b] + new_hdr + '{' + body_ins + body + self.text[e - 1:]
        self._log('R16', 'reverse for-in-iter_mut loop #%d in %s -> counted while over %s (elements written as places %s[%s].0/.1)' % (ordinal, fn_name, v, v, k))
        return self

    def r23_drop_elab(self, fn_name, var, dropfn):
        """Drop elaboration for one guard variable (Verus does not model Drop): between `let mut VAR = ..` and the explicit
        `drop(VAR);` every statement of the form `EXPR?;` becomes `match EXPR { Ok(v) => v, Err(e) => { DROPFN(VAR); return Err(e); } };`
        (what the compiler does on that early exit), and `drop(VAR);` becomes `DROPFN(VAR);`.  DROPFN is the body of the Drop impl."""
        self._no_splice_yet()
        b, o, e = fn_span(self.text, fn_name)
        body = self.text[o:e]
        m1 = re.search(r'let mut %s\b' % re.escape(var), body)
        m2 = re.search(r'\bdrop\(%s\);' % re.escape(var), body)
        if not m1 or not m2:
            raise ExtractError('%s: R23 no `let mut %s` .. `drop(%s);` region in %s' % (self.name, var, var, fn_name))
        region = body[m1.end():m2.start()]
        out, pos, n = '', 0, 0
        for q in re.finditer(r'\?\s*;', region):
            # statement start: walk back to the previous `;`, `{` or `}` at nesting depth 0
            j, depth = q.start() - 1, 0
            while j >= 0:
                ch = region[j]
                if ch in ')]':
                    depth += 1
                elif ch in '([':
                    depth -= 1
                elif ch in ';{}' and depth == 0:
                    break
                j -= 1
            st = j + 1
            if st < pos:
                continue
            stmt = region[st:q.start()].strip()
            lead = re.match(r'\s*', region[st:]).group(0)
            out += region[pos:st] + lead + 'match %s {\n    Ok(__v) => __v,\n    Err(__e) => {\n        %s(%s);\n        return Err(__e);\n    }\n};' % (stmt, dropfn, var)
            pos = q.end()
            n += 1
        out += region[pos:]
        body2 = body[:m1.end()] + out + '%s(%s);' % (dropfn, var) + body[m2.end():]
        self.text = self.text[:o] + body2 + self.text[e:]
        self._log('R23', 'drop elaboration of `%s` in %s: %d early exit(s) and the explicit drop call %s' % (var, fn_name, n, dropfn))
        return self

    def r17_cow(self):
        """`Cow<'_, str>` erased to its owned form: the type becomes String, Cow::Owned(e) -> e, Cow::Borrowed(e) / e.into() ->
        e.vx_owned() (a stub returning a String with the same characters).  Borrowing vs owning is not observable in the value."""
        self._no_splice_yet()
        t = self.text
        n = 0
        for rx, rep in [(r"Cow<'\w+, str>", 'String'), (r'\bCow::Owned\(', '('), (r'\bCow::Borrowed\(([^()]*)\)', r'(\1).vx_owned()'),
                        (r'\.into\(\)', '.vx_owned()'), (r'\.into_owned\(\)', '.vx_owned()')]:
            t, k = re.subn(rx, rep, t)
            n += k
        self.text = t
        self._log('R17', 'Cow<str> erased to owned String (%d rewrites)' % n)
        return self

    def twin(self, fn_name, subst=(), suffix='__twin'):
        """R18: the spec twin of a pure predicate: `pub open spec fn NAME__twin(..) -> T { <the same body text> }`, with exec-only
        std calls in the body replaced by their spec functions (subst).  Returned as text; the exec fn then ensures r == twin."""
        b, o, e = fn_span(self.text, fn_name)
        hdr = self.text[b:o]
        m = re.search(r'fn\s+%s\s*(\([^)]*\))\s*->\s*([^{]+?)\s*$' % re.escape(fn_name), hdr, re.S)
        if not m:
            raise ExtractError('%s: R18 cannot read the signature of %s' % (self.name, fn_name))
        body = self.text[o:e]
        for rx, rep in subst:
            body = re.sub(rx, rep, body)
        self._log('R18', 'spec twin %s%s generated from the body of %s' % (fn_name, suffix, fn_name))
        return 'pub open spec fn %s%s%s -> %s %s\n' % (fn_name, suffix, m.group(1), m.group(2), body)

    def r16(self, fn_name, ordinal, suffix=None, optional=False):
        """`for x in &mut V { B }` -> counted `while` over V's indices with every `x.` written `V[k].`.
        Sound because B can reach V only through x while the borrow lasts (so V's length is fixed); refused when x is used
        other than as a receiver / field base."""
        self._no_splice_yet()
        if optional and ordinal >= len(self._loops(fn_name)):
            return self
        b, o, e = self._loop_span(fn_name, ordinal)
        hdr = self.text[b:o]
        m = re.match(r'(\s*)for (\w+) in &mut ([\w\.]+)\s*$', hdr, re.S)
        guard = None
        if not m:
            # `V.iter_mut()` is the same iteration; one `.take_while(|y| P)` / `.filter(|y| P)` adapter becomes a guard at the top of the body
            m2 = re.match(r'(\s*)for (\w+) in ([\w\.]+)\.iter_mut\(\)(?:\s*\.(take_while|filter)\(\|(\w+)\| (.*)\))?\s*$', hdr, re.S)
            if m2:
                ind, x, v, kind, y, pred = m2.groups()
                m = m2
                if kind:
                    guard = (kind, y, pred.strip())
        else:
            ind, x, v = m.groups()
        if not m and optional:
            return self
        if not m:
            raise ExtractError('%s: R16 loop #%d is not `for x in &mut V`: %s' % (self.name, ordinal, hdr.strip()))
        sfx = suffix if suffix is not None else str(ordinal)
        n, k = '__n' + sfx, '__k' + sfx
        body = self.text[o + 1:e - 1]
        bad = [mm for mm in re.finditer(r'\b%s\b' % re.escape(x), body) if body[mm.end():mm.end() + 1] != '.']
        if bad:
            raise ExtractError('%s: R16 loop #%d uses `%s` other than as a receiver' % (self.name, ordinal, x))
        body2 = re.sub(r'\b%s\b(?=\.)' % re.escape(x), '%s[%s]' % (v, k), body)
        new_hdr = '%slet mut %s: usize = 0;\n%swhile %s < %s.len() ' % (ind, n, ind, n, v)
        body_ins = '\n%s    let %s = %s;\n%s    %s += 1;' % (ind, k, n, ind, n)
        if guard:
            kind, y, pred = guard
            p2 = re.sub(r'\b%s\b(?=\.)' % re.escape(y), '%s[%s]' % (v, k), pred)
            if re.search(r'\b%s\b' % re.escape(y), p2):
                raise ExtractError('%s: R16 loop #%d: the %s predicate uses `%s` other than as a receiver' % (self.name, ordinal, kind, y))
            body_ins += '\n%s    if !(%s) {\n%s        %s;\n%s    }' % (ind, p2, ind, 'break' if kind == 'take_while' else 'continue', ind)
        self.text = self.text[:b] + new_hdr + '{' + body_ins + body2 + self.text[e - 1:]
        self._log('R16', 'for-in-&mut loop #%d in %s -> counted while over %s (element written %s[%s]%s)' % (ordinal, fn_name, v, v, k, ('; .%s(..) -> guard' % guard[0]) if guard else ''))
        return self

    # ------------------------------------------------------------------ locating loops
    def _loops(self, fn_name):
        if fn_name:
            fb, fo, fe = fn_span(self.text, fn_name)
        else:
            fb, fo, fe = 0, 0, len(self.text)
        res = []
        for m in re.finditer(r"(?m)^([ \t]*)(?:'\w+:\s*)?(while|loop|for)\b", self.text[:fe]):
            if m.start() < fo:
                continue
            # inside a splice? skip
            if self.text.rfind(SP_OPEN, 0, m.start()) > self.text.rfind(SP_CLOSE, 0, m.start()):
                continue
            o = find_top(self.text, '{', m.end())
            if o < 0:
                continue
            e = match_brace(self.text, o)
            res.append((m.start(), o, e))
        return res

    def loop_ordinal(self, fn_name, regex):
        """Ordinal of the one loop of fn_name whose text (header and body) matches regex — for units whose loop annotations should
        stay on their loops when a change inserts another loop before them."""
        ls = self._loops(fn_name)
        hits = [k for k, (b, o, e) in enumerate(ls) if re.search(regex, self.text[b:e], re.S)]
        # a loop that contains another matching loop also matches: keep the innermost ones
        hits = [k for k in hits if not any(j != k and ls[k][0] <= ls[j][0] and ls[j][2] <= ls[k][2] for j in hits)]
        if len(hits) != 1:
            raise ExtractError('%s: %d loops of %s match /%s/ (expected one)' % (self.name, len(hits), fn_name, regex[:50]))
        return hits[0]

    def _loop_span(self, fn_name, ordinal):
        ls = self._loops(fn_name)
        if ordinal >= len(ls):
            raise ExtractError('%s: loop #%d not found in %s (has %d)' % (self.name, ordinal, fn_name, len(ls)))
        return ls[ordinal]

    # ------------------------------------------------------------------ R7 splices (insert-only)
    def _begin_splices(self):
        if self.pre_splice is None:
            self.pre_splice = self.text

    def _insert(self, pos, text):
        self.text = self.text[:pos] + sp(text) + self.text[pos:]

    def _clauses_text(self, kw, clauses, ind, fn, kind):
        """Emit `kw` + one clause per line, each preceded by a marker comment that names it."""
        if not clauses:
            return ''
        out = [ind + kw]
        for k, c in enumerate(clauses):
            mid = '%s:%s:%s#%d' % (self.name, fn or '-', kind, k)
            self.table.append((mid, c.label, kind, fn))
            out.append('%s    //@ %s | %s' % (ind, mid, c.label))
            body = c.text.strip().rstrip(',')
            out.append('\n'.join(ind + '    ' + l for l in body.split('\n')) + ',')
        return '\n'.join(out) + '\n'

    def sig(self, fn_name=None, ret=None, requires=None, ensures=None, decreases=None, attrs=None,
            no_canary=False, opens_invariants=None):
        """Contract after the signature: `-> T` gets a name, then requires/ensures/decreases."""
        self._begin_splices()
        fn = fn_name or self.name
        b, o, e = fn_span(self.text, fn)
        hdr = self.text[b:o]
        ind = re.match(r'[ \t]*', hdr).group(0)
        req = _norm_clauses(requires)
        ens = _norm_clauses(ensures)
        contract = '\n'
        contract += self._clauses_text('requires', req, ind + '    ', fn, 'requires')
        ens_text = self._clauses_text('ensures', ens, ind + '    ', fn, 'ensures')
        if ens_text:
            contract += ens_text
        else:
            contract += ind + '    ensures\n' + ind + '        true,\n'
        contract += ind + '        ' + ENS_END + '\n'
        if decreases:
            contract += ind + '    decreases ' + decreases + '\n'
        contract += ind
        # name the return value (two insertions) — search '->' at top level between ')' and '{'
        p = self.text.find('(', b)
        close = match_close(self.text, p, '(', ')')
        arrow = find_top(self.text, '->', close, o)
        if arrow >= 0 and ret:
            ty_start = arrow + 2
            while self.text[ty_start] == ' ':
                ty_start += 1
            ty_end = o
            while self.text[ty_end - 1] in ' \n':
                ty_end -= 1
            mw = re.search(r'\bwhere\b', self.text[ty_start:ty_end])
            if mw:      # `-> T where F: ..` : the name wraps T only; the contract still goes after the where clause
                ty_end = ty_start + mw.start()
                while self.text[ty_end - 1] in ' \n':
                    ty_end -= 1
            # insert from the back so positions stay valid
            self.text = self.text[:ty_end] + sp(')') + self.text[ty_end:o] + sp(contract) + self.text[o:]
            self.text = self.text[:ty_start] + sp('(%s: ' % ret) + self.text[ty_start:]
        else:
            ty_end = o
            while self.text[ty_end - 1] in ' \n':
                ty_end -= 1
            self.text = self.text[:o] + sp(contract) + self.text[o:]
        for a in attrs or []:
            b2, _, _ = fn_span(self.text, fn)
            self.text = self.text[:b2] + sp(ind + a) + '\n' + self.text[b2:]
        if not no_canary:
            self.contracted.append(fn)
        self._log('R7', 'contract spliced on fn %s (%d requires, %d ensures%s)' % (
            fn, len(req), len(ens), ', decreases' if decreases else ''))
        return self

    def loop(self, ordinal, fn_name=None, invariant=None, invariant_except_break=None, ensures=None,
             decreases=None, body_first=None, iter_name=None, body_last=None, optional=False):
        self._begin_splices()
        fn = fn_name or self.name
        if optional and ordinal >= len(self._loops(fn)):
            self._log('R7', 'loop #%d of %s not present; its (optional) annotations are not needed' % (ordinal, fn))
            return self
        b, o, e = self._loop_span(fn, ordinal)
        ind = re.match(r'[ \t]*', self.text[b:o]).group(0)
        kindp = 'loop%d' % ordinal
        txt = '\n'
        txt += self._clauses_text('invariant_except_break', _norm_clauses(invariant_except_break), ind + '    ', fn, kindp + '-inv-xb')
        txt += self._clauses_text('invariant', _norm_clauses(invariant), ind + '    ', fn, kindp + '-inv')
        txt += self._clauses_text('ensures', _norm_clauses(ensures), ind + '    ', fn, kindp + '-ens')
        if decreases:
            txt += ind + '    decreases ' + decreases + '\n'
        txt += ind
        pos = o
        while self.text[pos - 1] in ' \n':
            pos -= 1
        if body_last:
            ce = e - 1
            # position just after the last newline before the closing brace
            ls = self.text.rfind('\n', 0, ce) + 1
            self.text = self.text[:ls] + sp('\n'.join(ind + '    ' + l for l in body_last.strip().split('\n'))) + '\n' + self.text[ls:]
        ins_after = ''
        if body_first:
            ins_after = '\n' + '\n'.join(ind + '    ' + l for l in body_first.strip().split('\n'))
            self.text = self.text[:o + 1] + sp(ins_after) + self.text[o + 1:]
        self.text = self.text[:o] + sp(txt) + self.text[o:]
        if iter_name:
            # `for x in E` -> `for x in it: E`
            seg = self.text[b:pos]
            m = re.search(r'\bin\s', seg)
            if not m or not re.match(r"\s*(?:'\w+:\s*)?for\b", seg):
                raise ExtractError('%s: loop #%d is not a for loop' % (fn, ordinal))
            p = b + m.end()
            self._insert(p, iter_name + ': ')
        self._log('R7', 'loop #%d of %s annotated' % (ordinal, fn))
        return self

    def before(self, anchor_re, text, nth=0, expect=None, fn_name=None, optional=False):
        """Insert text (proof block / ghost let) on its own line(s) before the line matched by anchor_re.
        nth=None: before every match (hints that must accompany each occurrence of a statement form);
        optional=True: zero matches is not an error (the hint is simply not needed)."""
        self._begin_splices()
        ms = self._code_matches(anchor_re, fn_name)
        if expect is not None and len(ms) != expect:
            raise ExtractError('%s: anchor /%s/ expected %d matches, found %d' % (self.name, anchor_re, expect, len(ms)))
        if nth is None:
            targets = ms
        else:
            targets = ms[nth:nth + 1]
        if not targets:
            if optional:
                return self
            raise ExtractError('%s: anchor lost /%s/' % (self.name, anchor_re))
        for m in reversed(targets):
            ls = self.text.rfind('\n', 0, m.start()) + 1
            ind = re.match(r'[ \t]*', self.text[ls:]).group(0)
            block = '\n'.join(ind + l for l in text.strip().split('\n'))
            self.text = self.text[:ls] + sp(block) + '\n' + self.text[ls:]
        self._log('R7', 'proof text before /%s/ (%d place(s))' % (anchor_re[:50], len(targets)))
        return self

    def after_line(self, anchor_re, text, nth=0, fn_name=None, optional=False):
        """Insert text on its own line(s) after the line matched by anchor_re."""
        self._begin_splices()
        ms = self._code_matches(anchor_re, fn_name)
        if nth is None:      # after every match (a hint that must accompany each occurrence of a statement form)
            if not ms and not optional:
                raise ExtractError('%s: anchor lost /%s/' % (self.name, anchor_re))
            targets = list(reversed(ms))
        else:
            if len(ms) <= nth:
                if optional:
                    return self
                raise ExtractError('%s: anchor lost /%s/' % (self.name, anchor_re))
            targets = [ms[nth]]
        for m in targets:
            ls = self.text.rfind('\n', 0, m.start()) + 1
            le = self.text.find('\n', m.end() - 1)
            ind = re.match(r'[ \t]*', self.text[ls:]).group(0)
            block = '\n'.join(ind + l for l in text.strip().split('\n'))
            self.text = self.text[:le] + '\n' + sp(block) + self.text[le:]
        self._log('R7', 'proof text after /%s/%s' % (anchor_re[:50], ' (every occurrence)' if nth is None else ''))
        return self

    def before_loop(self, fn_name, ordinal, text):
        """Insert text on its own line(s) before the header of loop #ordinal of fn_name."""
        self._begin_splices()
        b, o, e = self._loop_span(fn_name, ordinal)
        ls = self.text.rfind('\n', 0, b) + 1
        ind = re.match(r'[ \t]*', self.text[ls:]).group(0)
        block = '\n'.join(ind + l for l in text.strip().split('\n'))
        self.text = self.text[:ls] + sp(block) + '\n' + self.text[ls:]
        self._log('R7', 'ghost/proof text before loop #%d of %s' % (ordinal, fn_name))
        return self

    def after_loop(self, fn_name, ordinal, text):
        """Insert text on its own line(s) right after the closing brace of loop #ordinal of fn_name."""
        self._begin_splices()
        b, o, e = self._loop_span(fn_name, ordinal)
        ls = self.text.rfind('\n', 0, b) + 1
        ind = re.match(r'[ \t]*', self.text[ls:]).group(0)
        block = '\n'.join(ind + l for l in text.strip().split('\n'))
        self.text = self.text[:e] + '\n' + sp(block) + self.text[e:]
        self._log('R7', 'ghost/proof text after loop #%d of %s' % (ordinal, fn_name))
        return self

    def at_body_start(self, fn_name, text):
        """Insert text as the first statement(s) of fn_name's body."""
        self._begin_splices()
        b, o, e = fn_span(self.text, fn_name)
        hdr_ind = re.match(r'[ \t]*', self.text[b:]).group(0)
        ind = hdr_ind + '    '
        block = '\n' + '\n'.join(ind + l for l in text.strip().split('\n'))
        self.text = self.text[:o + 1] + sp(block) + self.text[o + 1:]
        self._log('R7', 'proof text at start of %s' % fn_name)
        return self

    def after_open(self, anchor_re, text, nth=0, fn_name=None):
        """Insert text right after the '{' that ends the line matched by anchor_re (e.g. a match arm `pat => {`)."""
        self._begin_splices()
        ms = self._code_matches(anchor_re, fn_name)
        if len(ms) <= nth:
            raise ExtractError('%s: anchor lost /%s/' % (self.name, anchor_re))
        m = ms[nth]
        le = self.text.find('\n', m.end() - 1)
        line = self.text[self.text.rfind('\n', 0, m.start()) + 1:le]
        if not line.rstrip().endswith('{'):
            raise ExtractError('%s: anchor /%s/ line does not open a block' % (self.name, anchor_re))
        ind = re.match(r'[ \t]*', line).group(0) + '    '
        block = '\n' + '\n'.join(ind + l for l in text.strip().split('\n'))
        self._insert(le, block)
        self._log('R7', 'proof text after /%s/' % anchor_re[:50])
        return self

    def wrap_arm(self, anchor_re, text, nth=0, fn_name=None):
        """`pat => expr,` -> `pat => { proof {..} expr },` (two insertions)."""
        self._begin_splices()
        ms = self._code_matches(anchor_re, fn_name)
        if len(ms) <= nth:
            raise ExtractError('%s: anchor lost /%s/' % (self.name, anchor_re))
        m = ms[nth]
        a = self.text.find('=>', m.start())
        if a < 0:
            raise ExtractError('%s: no => after anchor' % self.name)
        s = a + 2
        while self.text[s] == ' ':
            s += 1
        end = find_top(self.text, ',', s)
        if end < 0:
            raise ExtractError('%s: arm end not found' % self.name)
        self.text = self.text[:end] + sp(' }') + self.text[end:]
        self.text = self.text[:s] + sp('{ ' + text.strip() + ' ') + self.text[s:]
        self._log('R7', 'arm /%s/ wrapped with proof text' % anchor_re[:50])
        return self

    def closure(self, anchor_re, param_ty, ret, ensures, nth=0, fn_name=None):
        """`|p| body` -> `|p: T| -> (r: U) ensures .. { body }` (closure contract; insert-only)."""
        self._begin_splices()
        ms = self._code_matches(anchor_re, fn_name)
        if len(ms) <= nth:
            raise ExtractError('%s: closure anchor lost /%s/' % (self.name, anchor_re))
        m = ms[nth]
        p1 = self.text.find('|', m.start())
        p2 = self.text.find('|', p1 + 1)
        # body: up to the matching ')' of the enclosing call
        depth = 0
        j = p2 + 1
        while True:
            k = lex_skip(self.text, j)
            if k is not None:
                j = k
                continue
            ch = self.text[j]
            if ch in '([{':
                depth += 1
            elif ch in ')]}':
                if depth == 0:
                    break
                depth -= 1
            elif ch == ',' and depth == 0:
                break
            j += 1
        body_end = j
        while self.text[body_end - 1] in ' \n':
            body_end -= 1
        self.text = self.text[:body_end] + sp(' }') + self.text[body_end:]
        self.text = self.text[:p2 + 1] + sp(' -> (%s) ensures %s {' % (ret, ensures)) + self.text[p2 + 1:]
        if param_ty:
            self.text = self.text[:p2] + sp(': ' + param_ty) + self.text[p2:]
        self._log('R7', 'closure contract at /%s/' % anchor_re[:50])
        return self

    def ascribe(self, anchor_re, ty, fn_name=None):
        """`let mut v = vec![];` -> `let mut v: T = vec![];` (type ascription, insert-only)."""
        self._begin_splices()
        ms = self._code_matches(anchor_re, fn_name)
        if len(ms) != 1:
            raise ExtractError('%s: ascribe anchor /%s/ matched %d' % (self.name, anchor_re, len(ms)))
        m = ms[0]
        eq = self.text.find(' =', m.start())
        self._insert(eq, ': ' + ty)
        self._log('R7', 'type ascription at /%s/' % anchor_re[:50])
        return self

    def _code_matches(self, anchor_re, fn_name=None):
        """Regex matches that lie outside earlier splices (and inside fn_name if given)."""
        lo, hi = 0, len(self.text)
        if fn_name:
            lo, _, hi = fn_span(self.text, fn_name)
        res = []
        for m in re.finditer(anchor_re, self.text, re.M):
            if not (lo <= m.start() < hi):
                continue
            if self.text.rfind(SP_OPEN, 0, m.start()) > self.text.rfind(SP_CLOSE, 0, m.start()):
                continue
            res.append(m)
        return res

    # ------------------------------------------------------------------ fidelity + canary
    def fidelity(self):
        """Deleting every splice must give back the pre-splice text, token for token."""
        if self.pre_splice is None:
            return True, ''
        a = tokens(strip_splices(self.text))
        b = tokens(self.pre_splice)
        if a == b:
            return True, ''
        k = 0
        while k < min(len(a), len(b)) and a[k] == b[k]:
            k += 1
        return False, '%s: token %d differs: %r vs %r' % (self.name, k, a[k:k + 6], b[k:k + 6])

    def with_canaries(self):
        """Text plus, after each contracted fn, a twin `<fn>__canary` whose contract also ensures false."""
        t = self.text
        for fn in self.contracted:
            b, o, e = fn_span(t, fn)
            # include spliced attrs directly above
            ls = b
            twin = t[ls:e]
            twin = re.sub(r'\bfn %s\b' % re.escape(fn), 'fn %s__canary' % fn, twin, count=1)
            if ENS_END not in twin:
                raise ExtractError('%s: canary marker missing in %s' % (self.name, fn))
            twin = twin.replace(ENS_END, 'false, //@ canary', 1)
            pre = ''
            # attributes spliced above the fn header (e.g. exec_allows_no_decreases_clause)
            k = t.rfind('\n', 0, b)
            head = t[:b]
            m = re.search(r'((?:[ \t]*' + re.escape(SP_OPEN) + r'[^\n]*\n' + r')+)$', head)
            if m:
                pre = m.group(1)
                pre = pre.replace(SP_CLOSE, '').replace(SP_OPEN, '')
            t = t[:e] + '\n\n' + pre + twin + t[e:]
        return t
