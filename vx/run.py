"""Runner: builds the units of one property from /repo's working tree, runs Verus (and, in thorough tier,
Kani), maps diagnostics to named obligations, applies the known-findings file, writes the evidence file and
prints the verdict lines.  Exit codes: 0 held, 1 violation (VIOLATION line printed), 2 undecided.
"""
import concurrent.futures as cf
import hashlib
import importlib
import json
import os
import re
import shutil
import subprocess
import sys
import time
import tomllib

from .extract import ExtractError, SP_OPEN, SP_CLOSE
from .unit import Unit, VERIF, fn_at_line, marker_for_line

REPO = os.environ.get('VERIF_REPO', '/repo')
WORK = os.environ.get('VERIF_WORK') or os.path.join(VERIF, '.work')
VERUS = shutil.which('verus') or '/usr/local/bin/verus'

VERIF_KINDS = [
    'postcondition not satisfied', 'precondition not satisfied', 'invariant not satisfied',
    'assertion failed', 'possible arithmetic underflow/overflow', 'possible division by zero',
    'possible bit shift underflow/overflow', 'decreases not satisfied', 'could not prove termination',
    'unreachable', 'loop invariant', 'assertion failure', 'failed precondition',
    'may fail to meet its declared type invariant', 'recursive call', 'cannot prove',
    'possible truncation', 'call to nonterminating', 'value may be out of range',
    'unable to prove', 'post-condition of closure', 'pre-condition of closure',
    # assert .. by(compute / compute_only): the interpreter evaluated the asserted expression to false / to a residue that is not true
    'expression simplifies to false', 'failed to simplify down to true',
]
SAFETY_KINDS = {
    'possible arithmetic underflow/overflow': 'overflow',
    'possible division by zero': 'div-by-zero',
    'possible bit shift underflow/overflow': 'shift-overflow',
    'decreases not satisfied': 'termination',
    'could not prove termination': 'termination',
    'unreachable': 'unreachable-reached',
    'possible truncation': 'truncation',
}


def load_findings():
    p = os.path.join(VERIF, 'known-findings.toml')
    if not os.path.exists(p):
        return {}
    d = tomllib.load(open(p, 'rb'))
    return {f['key']: f for f in d.get('finding', [])}


def registry():
    sys.path.insert(0, VERIF)
    mod = importlib.import_module('units')
    return mod.UNITS, mod.PROPERTIES


class Undecided(Exception):
    pass


def run_verus(path, rlimit=None, seed=None, timeout=900, extra=None, multi=50):
    cmd = [VERUS, path, '--output-json', '--time', '--multiple-errors', str(multi), '--no-report-long-running']
    if rlimit:
        cmd += ['--rlimit', str(rlimit)]
    if seed:
        cmd += ['--smt-option', 'smt.random_seed=%d' % seed]
    cmd += extra or []
    cmd += ['--', '--error-format=json']
    t0 = time.time()
    env = dict(os.environ)
    try:
        p = subprocess.run(cmd, capture_output=True, text=True, timeout=timeout, cwd=os.path.dirname(path), env=env)
    except subprocess.TimeoutExpired:
        return {'cmd': ' '.join(cmd), 'timeout': True, 'wall': time.time() - t0, 'diags': [], 'json': None, 'rc': None,
                'stderr': ''}
    wall = time.time() - t0
    js = None
    try:
        # stdout holds one JSON object
        s = p.stdout
        i = s.find('{')
        js = json.loads(s[i:]) if i >= 0 else None
    except Exception:
        js = None
    diags = []
    other = []
    for line in p.stderr.splitlines():
        line = line.strip()
        if line.startswith('{') and '"$message_type"' in line:
            try:
                diags.append(json.loads(line))
            except Exception:
                other.append(line)
        elif line:
            other.append(line)
    return {'cmd': ' '.join(cmd), 'timeout': False, 'wall': wall, 'diags': diags, 'json': js, 'rc': p.returncode,
            'stderr': '\n'.join(other)}


def classify(diag):
    """-> 'verif' | 'rlimit' | 'note' | 'tool'"""
    if diag.get('level') not in ('error',):
        return 'note'
    msg = diag.get('message', '')
    if msg.startswith('aborting due to'):
        return 'note'
    low = msg.lower()
    if 'rlimit' in low or 'resource limit' in low:
        return 'rlimit'
    for k in VERIF_KINDS:
        if k in low:
            return 'verif'
    return 'tool'


class Failure:
    def __init__(self, unit, variant, diag, lines, table, path=None):
        self.unit = unit
        self.variant = variant
        self.msg = diag.get('message', '')
        self.rendered = diag.get('rendered', '')
        self.spans = [x for x in diag.get('spans', []) if path is None or os.path.basename(x.get('file_name', '')) == os.path.basename(path)]
        self.line = None
        self.marker = None
        self.label = None
        self.fn = None
        self.chunk = None
        self.src_text = None
        self.in_canary = False
        prim = [s for s in self.spans if s.get('is_primary')] + [s for s in self.spans if not s.get('is_primary')]
        # clause marker: any span that sits under a marker
        for s in prim:
            li = s['line_start'] - 1
            if li < len(lines):
                mk = marker_for_line(lines, li)
                if mk and self.marker is None:
                    self.marker, self.label = mk
        # function: prefer a span inside an extracted item (call site / body), else the primary span
        best = None
        for s in prim:
            li = s['line_start'] - 1
            if li < len(table) and table[li].kind == 'item':
                # the body-side span: not inside the contract splice if possible
                best = s
                if not self._in_splice(lines, li):
                    break
        if best is None and prim:
            best = prim[0]
        if best is not None:
            li = best['line_start'] - 1
            self.fn = fn_at_line(lines, li)
            if li < len(table):
                self.chunk = table[li]
            self.src_text = lines[li].strip() if li < len(lines) else ''
            self.line = li + 1
        if self.fn and self.fn.endswith('__canary'):
            self.in_canary = True
        if self.marker is None and self.chunk is not None and self.chunk.item is not None:
            dl = getattr(self.chunk.item, 'default_label', None)
            if dl and self.kind() == 'ensures':
                self.marker = '%s:%s:ensures' % (self.chunk.item.name, self.fn)
                self.label = dl

    @staticmethod
    def _in_splice(lines, li):
        k = li
        while k >= 0 and li - k < 80:
            l = lines[k]
            o = l.rfind(SP_OPEN)
            c = l.rfind(SP_CLOSE)
            if k == li:
                # a sentinel on the same line: decide by order before the end of line
                if o >= 0 and o > c:
                    return True
                if c >= 0 and c > o:
                    return False
            else:
                if o >= 0 and o > c:
                    return True
                if c >= 0:
                    return False
            k -= 1
        return False

    def kind(self):
        low = self.msg.lower()
        for k, v in SAFETY_KINDS.items():
            if k in low:
                return v
        if 'precondition' in low:
            return 'call-pre'
        if 'postcondition' in low or 'post-condition' in low:
            return 'ensures'
        if 'invariant' in low:
            if 'before loop' in low:
                return 'inv-entry'
            return 'inv-preserved'
        if 'assertion' in low or 'simplif' in low:
            return 'assert'
        return 'other'

    def props(self):
        """Properties this failed obligation belongs to."""
        u = self.unit
        if self.label:
            head = self.label.split()[0]
            if re.match(r'^C\d\d(,C\d\d)*$', head):
                ps = head.split(',')
                for p_ in list(ps):
                    ps += [a for a in getattr(u, 'prop_alias', {}).get(p_, []) if a not in ps]
                return ps
            if head == 'safety':
                return list(u.safety_props)
            if head == 'aux':
                return list(dict.fromkeys(u.props + u.safety_props))
        k = self.kind()
        if k in SAFETY_KINDS.values() or (k == 'call-pre' and not self.label):
            return list(u.safety_props)
        return list(dict.fromkeys(u.props + u.safety_props))

    def klass(self):
        if self.label:
            head = self.label.split()[0]
            if head.startswith('C'):
                return 'property'
            if head == 'safety':
                return 'safety'
            return 'aux'
        k = self.kind()
        if k in SAFETY_KINDS.values() or k == 'call-pre':
            return 'safety'
        return 'aux'

    def name(self):
        if self.marker:
            cid = self.marker
            if self.kind() in ('inv-entry', 'inv-preserved', 'call-pre'):
                cid += ':' + self.kind()
            if self.label and len(self.label.split()) > 1:
                cid += '[' + ' '.join(self.label.split()[1:]) + ']'
            return '%s:%s' % (self.unit.uid, cid)
        return '%s:%s:%s@%s' % (self.unit.uid, self.fn or '?', self.kind(), re.sub(r'\s+', ' ', self.src_text or '')[:60])

    def finding_key(self):
        if self.label:
            m = re.search(r'\bkf=([A-Za-z0-9_\-:.]+)', self.label)
            if m:
                return m.group(1)
        return None


class UnitRun:
    def __init__(self, unit):
        self.unit = unit
        self.files = {}
        self.results = {}
        self.failures = {}
        self.undecided = []
        self.twins_expected = []
        self.twins_failed = set()


def build_unit(builder, findings):
    u = builder(REPO, findings)
    return u


def process_unit(u, findings, workdir, seed, rlimit_mult=1, variants=('main', 'strict', 'canary')):
    try:
        ur = _process_unit(u, findings, workdir, seed, rlimit_mult, variants)
        # a unit may name alternative proof set-ups (e.g. a different data-structure invariant that also implies the property):
        # the unit holds if any of them verifies completely; the first one's failures are reported otherwise
        if (ur.failures.get('main') or ur.undecided) and getattr(u, 'alternatives', None):
            for k, alt in enumerate(u.alternatives):
                try:
                    ua = alt()
                    ura = _process_unit(ua, findings, workdir, seed, rlimit_mult, variants)
                except Exception:
                    continue
                if not ura.failures.get('main') and not ura.undecided and not (set(ura.twins_expected) - ura.twins_failed):
                    ura.note = 'held under alternative set-up #%d: %s' % (k + 1, ua.title)
                    return ura
        return ur
    except ExtractError as e:
        ur = UnitRun(u)
        ur.undecided.append('extraction: %s' % e)
        return ur
    except Exception as e:  # a runner fault is never a verdict
        ur = UnitRun(u)
        ur.undecided.append('runner fault: %r' % e)
        return ur


def _process_unit(u, findings, workdir, seed, rlimit_mult=1, variants=('main', 'strict', 'canary')):
    """One pass; if the only trouble is front-end (tool) errors that all sit inside extracted items, and the unit has other items,
    those items are set aside and the rest of the unit is checked once more: a construct outside the verifier's subset in one function
    must not hide a failed obligation in another.  The items set aside stay undecided (they are named in the notes)."""
    ur = _process_unit_once(u, findings, workdir, seed, rlimit_mult, variants)
    culprits = getattr(ur, 'tool_error_items', None)
    if culprits and not any(fl for fl in ur.failures.values()) and len(culprits) < len(u.items) and all(c is not None for c in culprits):
        u.excluded_items = set(culprits)
        ur2 = _process_unit_once(u, findings, workdir, seed, rlimit_mult, variants)
        if not getattr(ur2, 'tool_error_items', None):
            for it in culprits:
                ur2.undecided.append('item %s set aside after a tool error confined to it: %s' % (it.name, '; '.join(x[:300] for x in ur.undecided if 'tool error' in x)[:600]))
            ur2.items_set_aside = [it.name for it in culprits]
            return ur2
        u.excluded_items = set()
    return ur


def _process_unit_once(u, findings, workdir, seed, rlimit_mult=1, variants=('main', 'strict', 'canary')):
    ur = UnitRun(u)
    if getattr(u, 'kani_only', False):
        ur.ledger = {}
        return ur
    bad = u.fidelity()
    if bad:
        ur.undecided.append('fidelity: ' + '; '.join(bad))
        return ur
    texts = {}
    for v in variants:
        text, table = u.render(v, findings)
        texts[v] = (text, table)
    # strict only needed when a finding placeholder is open
    need_strict = any(findings.get(k, {}).get('status') == 'open' for k in u.findings_used)
    found, undeclared = u.ledger(texts['main'][0])
    ur.ledger = found
    if undeclared:
        ur.undecided.append('undeclared trusted construct(s) in generated file: ' + ', '.join(undeclared))
        return ur
    jobs = {}
    for v in variants:
        if v == 'strict' and not need_strict:
            continue
        path = os.path.join(workdir, '%s_%s.rs' % (u.uid.lower(), v))
        with open(path, 'w') as f:
            f.write(texts[v][0])
        ur.files[v] = path
        jobs[v] = path
    rl = (u.rlimit or 10) * rlimit_mult
    with cf.ThreadPoolExecutor(max_workers=3) as ex:
        futs = {v: ex.submit(run_verus, p, rl, seed, 900, None, 0 if v == 'canary' else 50) for v, p in jobs.items()}
        for v, fu in futs.items():
            ur.results[v] = fu.result()
    for v, res in ur.results.items():
        lines = texts[v][0].split('\n')
        table = texts[v][1]
        fl = []
        if res['timeout']:
            ur.undecided.append('%s: verus timeout' % v)
            continue
        if 'panicked at' in res['stderr']:
            ur.undecided.append('%s: verus crashed: %s' % (v, res['stderr'][:300]))
        if res['json'] is None:
            ur.undecided.append('%s: verus produced no JSON result (rc=%s): %s' % (v, res['rc'], res['stderr'][:400]))
        for d in res['diags']:
            c = classify(d)
            if c == 'verif':
                fl.append(Failure(u, v, d, lines, table, ur.files[v]))
            elif c == 'rlimit':
                ur.undecided.append('%s: rlimit: %s' % (v, d.get('message', '')[:200]))
            elif c == 'tool':
                ur.undecided.append('%s: tool error: %s' % (v, (d.get('rendered') or d.get('message', ''))[:600]))
                if v == 'main':
                    # which extracted item does the error sit in?  (None: prelude / glue, or no span in this file)
                    it = None
                    for sp in [x for x in d.get('spans', []) if x.get('is_primary')] or d.get('spans', []):
                        if os.path.basename(sp.get('file_name', '')) != os.path.basename(ur.files[v]):
                            continue
                        li = sp.get('line_start', 0) - 1
                        if 0 <= li < len(table) and table[li].kind == 'item':
                            it = table[li].item
                            break
                    if not hasattr(ur, 'tool_error_items'):
                        ur.tool_error_items = []
                    if it not in ur.tool_error_items:
                        ur.tool_error_items.append(it)
        ur.failures[v] = fl
    # canary accounting
    if 'canary' in ur.results and not ur.results['canary']['timeout']:
        for it in u.items:
            for fn in it.contracted:
                ur.twins_expected.append(fn + '__canary')
        for f in ur.failures.get('canary', []):
            if f.in_canary:
                ur.twins_failed.add(f.fn)
        # failures in the canary file outside twins mirror the main file; ignored here
    return ur


def verus_counts(res):
    js = res.get('json') or {}
    vr = js.get('verification-results', {})
    return vr.get('verified', 0), vr.get('errors', 0)


def verus_smt_ms(res):
    js = res.get('json') or {}
    t = js.get('times-ms', {})
    smt = t.get('smt', {})
    return t.get('total', 0), smt.get('smt-run', 0) if isinstance(smt, dict) else 0


def write_replay(pid, idx, f, extra=None):
    os.makedirs(os.path.join(VERIF, 'replays'), exist_ok=True)
    path = os.path.join(VERIF, 'replays', '%s-%s-%d.txt' % (pid, f.unit.uid, idx))
    with open(path, 'w') as o:
        o.write('property: %s\n' % pid)
        o.write('failed obligation: %s\n' % f.name())
        o.write('class: %s\n' % f.klass())
        o.write('unit: %s (%s)\n' % (f.unit.uid, f.unit.title))
        o.write('function: %s\n' % f.fn)
        if f.chunk is not None:
            o.write('extracted from: %s\n' % f.chunk.origin)
        o.write('generated file: %s (line %s)\n' % (f.unit_file, getattr(f, 'line', '?')))
        o.write('verifier: %s\n' % 'verus 0.2026.09.13 / z3')
        o.write('\n--- verifier output ---\n')
        o.write(f.rendered or f.msg)
        o.write('\n')
        if extra:
            o.write('\n--- failing input ---\n')
            o.write(extra)
            o.write('\n')
        else:
            note = getattr(f, 'replay_note', None)
            if note:
                o.write('\n--- failing-input search ---\n' + note + '\n')
            o.write('\nno-failing-input-found: Verus gives no model; %s.\n' % ('the unit\'s own search did not end in an input that fails on the real code' if note else 'this unit has no executable replay oracle'))
    return path


def check_property(pid, tier='quick', seed=0):
    t0 = time.time()
    os.environ['VERIF_TIER_EFFECTIVE'] = tier
    units, properties = registry()
    if pid not in properties:
        print('unknown or unclaimed property %s' % pid)
        return 2
    pinfo = properties[pid]
    findings = load_findings()
    workdir = os.path.join(WORK, pid)
    shutil.rmtree(workdir, ignore_errors=True)
    os.makedirs(workdir, exist_ok=True)
    builders = [(uid, b) for uid, (b, props) in units.items() if pid in props]
    undecided = []
    built = []
    for uid, b in builders:
        try:
            built.append(b(REPO, findings))
        except ExtractError as e:
            undecided.append('%s: extraction: %s' % (uid, e))
        except Exception as e:  # an extractor fault is never a verdict
            undecided.append('%s: extractor fault: %r' % (uid, e))
    runs = []
    with cf.ThreadPoolExecutor(max_workers=6) as ex:
        futs = [ex.submit(process_unit, u, findings, workdir, seed or None) for u in built]
        for fu in futs:
            runs.append(fu.result())
    # rlimit retry: once, 4x, other seed
    for i, ur in enumerate(runs):
        if any('rlimit' in x for x in ur.undecided) and not any('tool error' in x or 'fidelity' in x for x in ur.undecided):
            runs[i] = process_unit(ur.unit, findings, workdir, (seed or 0) + 17, rlimit_mult=4)
    violations = []
    known = []
    other_prop_failures = []
    obligations = 0
    discharged = 0
    smt_ms = 0
    total_ms = 0
    fn_list = []
    trusted = []
    rewrite_log = []
    samples = []
    clause_count = 0
    prop_clause_count = 0
    for ur in runs:
        u = ur.unit
        for x in ur.undecided:
            undecided.append('%s: %s' % (u.uid, x))
        if 'main' in ur.results and ur.results['main'].get('json'):
            v, e = verus_counts(ur.results['main'])
            obligations += v + e
            discharged += v
            tm, sm = verus_smt_ms(ur.results['main'])
            total_ms += tm
            smt_ms += sm
            if v + e == 0 and not getattr(u, 'kani_only', False):
                undecided.append('%s: verus reported zero verified items (vacuity guard)' % u.uid)
            if v + e < u.expected_min_fns:
                undecided.append('%s: verus checked %d items, unit declares at least %d' % (u.uid, v + e, u.expected_min_fns))
        for f in ur.failures.get('main', []):
            f.unit_file = ur.files.get('main')
            if pid in f.props():
                violations.append(f)
            else:
                other_prop_failures.append(f)
        # strict: failures that are open findings
        strict_names = set()
        for f in ur.failures.get('strict', []):
            f.unit_file = ur.files.get('strict')
            key = f.finding_key()
            if key and findings.get(key, {}).get('status') == 'open':
                if pid in f.props() and key not in strict_names:
                    strict_names.add(key)
                    known.append((key, findings[key], f))
            # anything else also fails in main and is reported there
        # canaries
        if ur.twins_expected:
            missing = sorted(set(t for t in ur.twins_expected if t not in ur.twins_failed))
            if missing and not ur.undecided:
                undecided.append('%s: vacuity guard: canary twin(s) verified `ensures false`: %s' % (u.uid, ', '.join(missing)))
        for it in u.items:
            for fn in it.contracted:
                fn_list.append('%s::%s (%s:%d)' % (u.uid, fn, it.rel, it.line))
            for mid, label, kind, fn in it.table:
                clause_count += 1
                head = label.split()[0]
                heads = head.split(',')
                for p_ in list(heads):
                    heads += getattr(u, 'prop_alias', {}).get(p_, [])
                if pid in heads:
                    prop_clause_count += 1
                    if len(samples) < 12:
                        samples.append({'obligation': '%s:%s' % (u.uid, mid), 'label': label})
        for k, t in u.assumptions:
            trusted.append('%s [%s] %s' % (u.uid, k, t))
        rewrite_log += [dict(x, unit=u.uid) for x in u.rewrite_log()]

    # bounded / thorough extras
    bounded = []
    extras = {}
    if not undecided:
        from . import thorough as th
        for ur in runs:
            for job in ur.unit.bounded:
                if pid not in job.get('props', ur.unit.props + ur.unit.safety_props):
                    continue
                if tier == 'thorough' or job.get('quick'):
                    r = th.run_kani_job(ur.unit, job, workdir)
                    bounded.append(r['summary'])
                    if r['status'] == 'undecided':
                        undecided.append('%s: kani job %s: %s' % (ur.unit.uid, job['name'], r['detail'][:300]))
                    elif r['status'] == 'failed':
                        kf = job.get('kf')
                        if kf and findings.get(kf, {}).get('status') == 'open' and r.get('only_expected'):
                            known.append((kf, findings[kf], None))
                        else:
                            violations.append(th.KaniFailure(ur.unit, job, r, pid))
        if tier == 'thorough':
            extras = th.thorough_extras(runs, findings, workdir, seed, pid)
            for x in extras.get('undecided', []):
                undecided.append(x)

    if not samples:
        # a safety-only property (C01): the obligations are Verus's own no-panic / termination VCs of each function
        samples = [{'obligation': 'no overflow / underflow / division by zero / out-of-range index / failed unwrap / reachable unreachable!, and termination of every loop with a decreases clause', 'function': f} for f in fn_list[:12]]
    wall = time.time() - t0
    rc = 0
    out_lines = []
    # de-duplicate violations by name
    seen = set()
    vio2 = []
    for f in violations:
        if f.name() in seen:
            continue
        seen.add(f.name())
        vio2.append(f)
    violations = vio2
    # a unit whose contract is deliberately stronger than the property (sufficient, not necessary: `violation_needs_replay`) alarms only
    # with a failing input that misbehaves on the real code; a failed obligation without one is reported as undecided
    kept = []
    for f in violations:
        if getattr(getattr(f, 'unit', None), 'violation_needs_replay', False) and not hasattr(f, 'write_replay'):
            cex = None
            try:
                from . import thorough as th
                cex = th.find_counterexample(f, workdir)
            except Exception:
                cex = None
            if cex is None:
                undecided.append('%s: obligation %s is not discharged, and no input misbehaving on the real code was found; the contract of this unit is sufficient for the property, not necessary, so this is no violation by itself. %s' % (
                    f.unit.uid, f.name(), (getattr(f, 'replay_note', '') or '')[:400]))
                continue
            f._cex = cex
        kept.append(f)
    violations = kept
    if undecided and not violations:
        rc = 2
    for key, fd, f in known:
        out_lines.append('KNOWN-FINDING: property=%s %s' % (pid, fd.get('what', key)))
    if violations:
        rc = 1
        for i, f in enumerate(violations):
            if hasattr(f, 'write_replay'):
                path, has_input = f.write_replay(i)
            else:
                cex = getattr(f, '_cex', None)
                try:
                    from . import thorough as th
                    if cex is None:
                        cex = th.find_counterexample(f, workdir)
                except Exception as e:  # a replay-search fault must not hide the verdict
                    cex = None
                path = write_replay(pid, i, f, cex)
                has_input = cex is not None
            out_lines.append('VIOLATION property=%s replay=%s obligation=%s%s' % (
                pid, path, f.name().replace(' ', '_'), '' if has_input else ' no-failing-input-found'))

    ev = {
        'property_id': pid,
        'tier': tier,
        'seed': int(seed or 0),
        'level': pinfo.get('level', 'proof'),
        'wall_s': round(wall, 2),
        'violations': len(violations),
        'coverage': {
            'obligations': obligations,
            'discharged': discharged,
            'checker_cmd': 'verus <unit>.rs --output-json --time --multiple-errors 50 --rlimit 10 -- --error-format=json  (Verus 0.2026.09.13, Z3; one generated file per unit and variant under /verif/.work/%s/)' % pid,
            'trusted_base': trusted,
            'explanation': pinfo.get('explanation', ''),
            'units': [ur.unit.uid + ' ' + ur.unit.title for ur in runs],
            'functions_under_contract': fn_list,
            'contract_clauses_total': clause_count,
            'contract_clauses_of_this_property': prop_clause_count,
            'samples': samples,
            'verus_total_ms': total_ms,
            'solver_ms': smt_ms,
            'backend': 'Verus -> Z3 (SMT); Kani -> CBMC only where listed under bounded',
            'canary_twins_expected': sum(len(ur.twins_expected) for ur in runs),
            'canary_twins_refuted': sum(len(ur.twins_failed) for ur in runs),
            'bounded': bounded,
            'known_findings_open': [k for k, _, _ in known],
            'failed_obligations_of_other_properties': [f.name() for f in other_prop_failures],
            'undecided': undecided,
            'extraction_rewrites': rewrite_log[:400],
            'extracted_item_sha256': {('%s/%s' % (ur.unit.uid, it.name)): it.sha256[:16] for ur in runs for it in ur.unit.items},
            'ledger': {ur.unit.uid: getattr(ur, 'ledger', {}) for ur in runs},
        },
        'assumptions': pinfo.get('assumptions', []) + [
            'the spec functions in /verif/contracts say what POSIX / the bash manual say (bash itself is never run)',
            'Verus 0.2026.09.13 + Z3 are sound; rustc front end',
            'extraction rules R1-R13 (DESIGN.md 2.1) preserve the meaning of the extracted functions',
            'usize is 64 bits',
        ],
    }
    ev['coverage'].update(extras.get('coverage', {}))
    # evidence under /verif describes /repo only; a run against another tree (VERIF_REPO, used by tools/try_seed.sh) writes next to its work files
    evdir = os.path.join(VERIF, 'evidence') if os.path.realpath(REPO) == '/repo' else os.path.join(workdir, 'evidence')
    os.makedirs(evdir, exist_ok=True)
    with open(os.path.join(evdir, pid + '.json'), 'w') as f:
        json.dump(ev, f, indent=1)
    for l in out_lines:
        print(l)
    if rc == 2:
        print('UNDECIDED property=%s (no verdict):' % pid)
        for x in undecided:
            print('  ' + x.replace('\n', '\n    '))
    print('%s: %s  units=%d obligations=%d discharged=%d clauses=%d wall=%.1fs' % (
        pid, {0: 'HELD', 1: 'VIOLATED', 2: 'UNDECIDED'}[rc], len(runs), obligations, discharged, prop_clause_count, wall))
    return rc
