"""Small Rust lexer helpers: skip strings/chars/comments, match braces, tokenize.

The extractor works on the rustfmt-formatted text of /repo and never parses Rust fully; these helpers
are what keeps brace matching and token comparison honest in the presence of string and char literals,
raw strings, lifetimes and (nested) comments.
"""
import re

_RAW = re.compile(r'b?r(#*)"')
_CHAR = re.compile(r"b?'(\\x[0-9a-fA-F]{2}|\\u\{[0-9a-fA-F_]+\}|\\.|[^'\\\n])'")


def lex_skip(src, i):
    """If src[i:] starts a comment / string / char literal return the index just past it, else None."""
    c = src[i]
    if c == '/':
        if src.startswith('//', i):
            j = src.find('\n', i)
            return len(src) if j < 0 else j
        if src.startswith('/*', i):
            depth = 1
            j = i + 2
            while depth and j < len(src):
                if src.startswith('/*', j):
                    depth += 1
                    j += 2
                elif src.startswith('*/', j):
                    depth -= 1
                    j += 2
                else:
                    j += 1
            return j
        return None
    if c in 'br':
        # must not be the tail of an identifier
        if i > 0 and (src[i - 1].isalnum() or src[i - 1] == '_'):
            return None
        m = _RAW.match(src, i)
        if m:
            end = '"' + m.group(1)
            j = src.find(end, m.end())
            if j < 0:
                raise ValueError('unterminated raw string at %d' % i)
            return j + len(end)
        if src.startswith('b"', i):
            return _skip_str(src, i + 1)
        if src.startswith("b'", i):
            m = _CHAR.match(src, i)
            return m.end() if m else None
        return None
    if c == '"':
        return _skip_str(src, i)
    if c == "'":
        m = _CHAR.match(src, i)
        if m:
            return m.end()
        return None  # lifetime
    return None


def _skip_str(src, i):
    assert src[i] == '"'
    j = i + 1
    while src[j] != '"':
        j += 2 if src[j] == '\\' else 1
    return j + 1


def match_close(src, i, open_c='{', close_c='}'):
    """src[i] == open_c  ->  index just past the matching close_c."""
    assert src[i] == open_c, (src[i - 20:i + 20], open_c)
    depth = 0
    j = i
    n = len(src)
    while j < n:
        k = lex_skip(src, j)
        if k is not None:
            j = k
            continue
        ch = src[j]
        if ch == open_c:
            depth += 1
        elif ch == close_c:
            depth -= 1
            if depth == 0:
                return j + 1
        j += 1
    raise ValueError('unbalanced %s at %d' % (open_c, i))


def match_brace(src, i):
    return match_close(src, i, '{', '}')


def find_top(src, needle, i, end=None):
    """Find `needle` at or after i, outside strings/comments and at bracket depth 0 (relative to i)."""
    n = len(src) if end is None else end
    depth = 0
    j = i
    while j < n:
        k = lex_skip(src, j)
        if k is not None:
            j = k
            continue
        if depth == 0 and src.startswith(needle, j):
            return j
        ch = src[j]
        if ch in '([{':
            depth += 1
        elif ch in ')]}':
            depth -= 1
            if depth < 0:
                return -1
        j += 1
    return -1


_TOK = re.compile(r"""
    [A-Za-z_][A-Za-z_0-9]*          # ident / keyword
  | '[A-Za-z_][A-Za-z_0-9]*(?!')    # lifetime
  | [0-9][0-9A-Za-z_\.]*            # number (loose)
  | ::|->|=>|==|!=|<=|>=|&&|\|\||\+=|-=|\*=|/=|%=|\^=|&=|\|=|<<=|>>=|<<|>>|\.\.=|\.\.\.|\.\.
  | [^\sA-Za-z_0-9]
""", re.X)


def tokens(src):
    """Token stream without comments; literals are kept as single tokens."""
    out = []
    i = 0
    n = len(src)
    while i < n:
        c = src[i]
        if c.isspace():
            i += 1
            continue
        k = lex_skip(src, i)
        if k is not None:
            if not (src.startswith('//', i) or src.startswith('/*', i)):
                out.append(src[i:k])
            i = k
            continue
        m = _TOK.match(src, i)
        if not m:
            out.append(c)
            i += 1
            continue
        out.append(m.group(0))
        i = m.end()
    # rustfmt-insensitive: a trailing comma before a closing bracket is not significant
    res = []
    for t in out:
        if t in ')]}' and res and res[-1] == ',':
            res.pop()
        res.append(t)
    return res
