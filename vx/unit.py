"""A verification unit: a set of items extracted from /repo plus the contract prelude, rendered into one
Verus file (three variants: main, strict, canary) together with a line table that maps every generated
line back to the chunk / function / clause it came from.
"""
import os
import re

from .extract import Source, Item, ExtractError, SP_OPEN, SP_CLOSE, ENS_END, strip_splices

VERIF = os.path.dirname(os.path.dirname(os.path.abspath(__file__)))

FORBIDDEN = [
    (r'#\[verifier::external_body\]', 'external_body'),
    (r'#\[verifier::external\b', 'external'),
    (r'\bassume_specification\b', 'assume_specification'),
    (r'\bassume\s*\(', 'assume'),
    (r'\badmit\s*\(', 'admit'),
    (r'\buninterp\b', 'uninterp'),
    (r'exec_allows_no_decreases_clause', 'exec_allows_no_decreases_clause'),
    (r'#\[verifier::external_type_specification\]', 'external_type_specification'),
    (r'#\[verifier::external_trait_specification', 'external_trait_specification'),
    (r'\baxiom\b', 'axiom'),
    (r'#\[verifier::truncate\]', 'truncate'),
    (r'#\[verifier::nonlinear\]', 'nonlinear'),
]


class Chunk:
    def __init__(self, kind, origin, text, item=None):
        self.kind = kind        # 'prelude' | 'item' | 'glue'
        self.origin = origin    # file path (relative) or description
        self.text = text
        self.item = item


class Unit:
    def __init__(self, uid, title, repo, props, safety_props=None):
        self.uid = uid
        self.title = title
        self.repo = repo
        self.props = list(props)
        self.prop_alias = {}    # a clause labelled with the key also counts for the listed properties (e.g. {'C02': ['C16']})
        self.safety_props = list(safety_props if safety_props is not None else props)
        self.chunks = []
        self.assumptions = []   # (kind, name-regex or None, text) — the declared ledger
        self.items = []
        self.findings_used = set()
        self.notes = []
        self.expected_min_fns = 1
        self.bounded = []       # Kani jobs (filled by units that have them)
        self.rlimit = None
        self.files = set()

    # ---- sources
    def source(self, rel):
        self.files.add(rel)
        return Source(self.repo, rel)

    # ---- assembling
    def raw(self, text, origin='glue'):
        self.chunks.append(Chunk('glue', origin, text.rstrip('\n') + '\n'))

    def prelude(self, rel):
        p = os.path.join(VERIF, 'contracts', rel)
        self.chunks.append(Chunk('prelude', 'contracts/' + rel, open(p).read().rstrip('\n') + '\n'))

    def add(self, item):
        self.items.append(item)
        self.chunks.append(Chunk('item', '%s:%d' % (item.rel, item.line), None, item))

    def assume(self, kind, text, why=None):
        """Declare one assumption of the trusted base (kind is one of the FORBIDDEN names or 'stub'/'model')."""
        self.assumptions.append((kind, text if why is None else '%s — %s' % (text, why)))

    # ---- rendering
    def render(self, variant, findings):
        """variant in main|strict|canary.  Returns (text, linetable).

        linetable: list indexed by generated line number-1 of dicts {chunk, origin, item, fn?}.
        Placeholders {{KF:key}} are replaced by the finding's `except` text (main, canary) or `false` (strict).
        """
        parts = []
        table = []
        for ch in self.chunks:
            if ch.kind == 'item' and ch.item in getattr(self, 'excluded_items', ()):
                # set aside after a tool error confined to this item (vx/run.py): the other items of the unit are still checked
                t = '// [item %s set aside: it does not pass the Rust / Verus front end as extracted; see the run\'s undecided notes]\n' % ch.item.name
            elif ch.kind == 'item':
                t = ch.item.with_canaries() if variant == 'canary' else ch.item.text
                t = t.rstrip('\n') + '\n'
            else:
                t = ch.text
            t = self._subst_findings(t, variant, findings)
            n = t.count('\n')
            parts.append(t)
            for _ in range(n):
                table.append(ch)
            parts.append('\n')
            table.append(ch)
        text = ''.join(parts)
        return text, table

    def _subst_findings(self, t, variant, findings):
        def rep(m):
            key = m.group(1)
            f = findings.get(key)
            self.findings_used.add(key)
            if f is None or f.get('status') != 'open' or variant == 'strict':
                return 'false'
            return '(' + f['except'] + ')'
        return re.sub(r'\{\{KF:([A-Za-z0-9_\-:.]+)\}\}', rep, t)

    # ---- checks on the generated text
    def fidelity(self):
        bad = []
        for it in self.items:
            ok, msg = it.fidelity()
            if not ok:
                bad.append(msg)
        return bad

    def ledger(self, text):
        """Every trusted construct in the generated file must be covered by a declared assumption kind."""
        declared = set(k for k, _ in self.assumptions)
        found = {}
        # strip comments before scanning
        code = re.sub(r'//[^\n]*', '', text)
        for rx, kind in FORBIDDEN:
            n = len(re.findall(rx, code))
            if n:
                found[kind] = n
        undeclared = [k for k in found if k not in declared]
        return found, undeclared

    def rewrite_log(self):
        out = []
        for it in self.items:
            for rule, detail in it.log:
                out.append({'item': it.name, 'src': '%s:%d' % (it.rel, it.line), 'rule': rule, 'detail': detail})
        return out


def fn_at_line(lines, idx):
    """Name of the fn enclosing generated line idx (0-based): nearest `fn name` header above at lower indent."""
    pat = re.compile(r'^\s*(?:/\*\+vx\*/)?\s*(?:pub(?:\([a-z]+\))? )?(?:open |closed )?(?:broadcast )?(?:const )?(?:spec |proof |exec )?(?:const )?fn ([A-Za-z_0-9]+)')
    k = idx
    while k >= 0:
        m = pat.match(lines[k])
        if m:
            return m.group(1)
        k -= 1
    return None


def marker_for_line(lines, idx):
    """The `//@ id | label` marker governing generated line idx: the nearest marker above it inside the same
    splice block (a clause's marker sits on the line before the clause)."""
    m = re.search(r'//@ (.+?) \| (.*)$', lines[idx])
    if m:
        return m.group(1), m.group(2).strip()
    k = idx - 1
    while k >= 0 and idx - k < 80:
        l = lines[k]
        m = re.search(r'//@ (.+?) \| (.*)$', l)
        if m:
            return m.group(1), m.group(2).strip()
        if SP_CLOSE in l or SP_OPEN in l:
            return None
        if not l.strip():
            return None     # markers in prelude text sit directly above their clause
        k -= 1
    return None
