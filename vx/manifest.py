#!/usr/bin/env python3
"""Regenerates /verif/MANIFEST.json from the unit registry (run: python3 -m vx.manifest)."""
import json
import os
import sys

VERIF = os.path.dirname(os.path.dirname(os.path.abspath(__file__)))
sys.path.insert(0, VERIF)


def main():
    from units import UNITS, PROPERTIES
    from units.props import NOT_APPLICABLE, CLAIMS
    all_ids = [json.loads(l)['id'] for l in open(os.path.join(VERIF, 'properties.jsonl')) if l.strip()]
    checks = []
    na = []
    for pid in all_ids:
        served = [uid for uid, (b, props) in UNITS.items() if pid in props]
        if pid in PROPERTIES and pid in CLAIMS and served:
            c = CLAIMS[pid]
            checks.append({
                'property_id': pid,
                'quick_cmd': './check %s --tier quick' % pid,
                'thorough_cmd': './check %s --tier thorough' % pid,
                'evidence_file': '/verif/evidence/%s.json' % pid,
                'replay_cmd_template': './check %s --replay {path}' % pid,
                'engine': 'vx',
                'level_claimed': {'category': c['level'], 'text': c['text'], 'design_ref': c['design_ref']},
                'level_note': c['note'],
                'technique': c['technique'],
            })
        else:
            na.append({'property_id': pid, 'reason': NOT_APPLICABLE.get(pid, 'kernel not built: no unit under contract for this property yet')})
    man = {
        'version': 1,
        'setup_cmd': 'true',
        'hooks': {
            'guard': 'reubeno_brush_verif',
            'enable': 'none needed: the checks read /repo sources and extract functions; nothing is compiled into brush',
            'baseline_off_cmd': 'cd /repo && cargo nextest run --workspace --no-fail-fast --test-threads 8 --offline',
            'source_commits': [],
            'add_only': True,
        },
        'engines': [{
            'name': 'vx',
            'path': '/verif/vx',
            'serves_properties': [c['property_id'] for c in checks],
            'kind_free_text': 'mechanical extractor (rules R1-R13) + contract splicer + Verus 0.2026.09.13 runner; Kani 0.68 for std-op discharge, counterexample search and labelled bounded stand-ins',
        }],
        'checks': checks,
        'not_applicable': na,
        'notes': 'Contract-based deductive verification of functions extracted from /repo on every run; see DESIGN.md. Exit 0 held / 1 violation / 2 undecided (no verdict).',
    }
    with open(os.path.join(VERIF, 'MANIFEST.json'), 'w') as f:
        json.dump(man, f, indent=1)
    print('MANIFEST.json: %d checks, %d not_applicable' % (len(checks), len(na)))


if __name__ == '__main__':
    main()
