"""Mutant battery: property-breaking edits applied to a scratch copy of the *source files* a unit reads, then the
unit is re-extracted and re-verified; each mutant must make a named obligation fail (evidence that the contracts bite).
Run in the thorough tier, and by hand:  python3 -m vx.mutants U4a [name-substring]
"""
import concurrent.futures as cf
import os
import shutil
import sys
import tempfile

from .extract import ExtractError
from . import run as R


def _prepare(unit_files, rel, old, new, count):
    d = tempfile.mkdtemp(prefix='vxmut.', dir=os.environ.get('VERIF_SCRATCH', '/tmp'))
    for f in unit_files:
        dst = os.path.join(d, f)
        os.makedirs(os.path.dirname(dst), exist_ok=True)
        shutil.copy(os.path.join(R.REPO, f), dst)
    p = os.path.join(d, rel)
    s = open(p).read()
    if isinstance(old, list):       # several edits in one file: [(old, new), ..], each must occur exactly once
        for o_, n_ in old:
            if s.count(o_) != 1:
                shutil.rmtree(d)
                return None, 'pattern occurs %d times (expected 1): %s' % (s.count(o_), o_[:40])
            s = s.replace(o_, n_)
        open(p, 'w').write(s)
        return d, None
    if s.count(old) < 1 or (count and s.count(old) != count):
        shutil.rmtree(d)
        return None, 'pattern occurs %d times (expected %s)' % (s.count(old), count or '>=1')
    s = s.replace(old, new) if count else s.replace(old, new, 1)
    open(p, 'w').write(s)
    return d, None


def run_one(builder, findings, unit_files, m):
    name, rel, old = m[0], m[1], m[2]
    new = m[3] if len(m) > 3 else None
    count = m[4] if len(m) > 4 else 1
    d, err = _prepare(unit_files, rel, old, new, count)
    if d is None:
        return {'mutant': name, 'status': 'stale', 'detail': err}
    try:
        try:
            u = builder(d, findings)
        except ExtractError as e:
            return {'mutant': name, 'status': 'undecided', 'detail': 'extraction: %s' % e}
        wd = os.path.join(d, '.w')
        os.makedirs(wd)
        ur = R.process_unit(u, findings, wd, None, variants=('main',))
        fails = ur.failures.get('main', [])
        if ur.undecided and not fails:
            return {'mutant': name, 'status': 'undecided', 'detail': '; '.join(ur.undecided)[:300]}
        if fails:
            return {'mutant': name, 'status': 'killed', 'by': sorted(set(f.name() for f in fails))[:4],
                    'props': sorted(set(p for f in fails for p in f.props()))}
        # the unit's quick-tier Kani jobs (bounded stand-ins and std-op discharges) are part of what decides it
        from . import thorough as th
        for job in u.bounded:
            if not job.get('quick'):
                continue
            r = th.run_kani_job(u, job, wd)
            if r['status'] == 'failed':
                return {'mutant': name, 'status': 'killed', 'by': ['%s:kani:%s:%s' % (u.uid, job['name'], h) for h in r['summary']['failed'][:4]],
                        'props': job.get('props', u.props)}
            if r['status'] == 'undecided':
                return {'mutant': name, 'status': 'undecided', 'detail': r['detail'][:300]}
        return {'mutant': name, 'status': 'survived'}
    finally:
        shutil.rmtree(d, ignore_errors=True)


def unit_files(builder, findings):
    u = builder(R.REPO, findings)
    return sorted(set(it.rel for it in u.items) | set(u.files))


def run_battery(uid, only=None, workers=8):
    units, _ = R.registry()
    from units.mutants import MUTANTS
    builder = units[uid][0]
    findings = R.load_findings()
    files = unit_files(builder, findings)
    ms = [m for m in MUTANTS.get(uid, []) if only is None or only in m[0]]
    for m in ms:
        if m[1] not in files:
            files.append(m[1])
    out = []
    with cf.ThreadPoolExecutor(max_workers=workers) as ex:
        for r in ex.map(lambda m: run_one(builder, findings, files, m), ms):
            out.append(r)
    return out


if __name__ == '__main__':
    sys.path.insert(0, R.VERIF)
    uid = sys.argv[1]
    only = sys.argv[2] if len(sys.argv) > 2 else None
    for r in run_battery(uid, only):
        print(r)
