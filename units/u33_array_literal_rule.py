"""U33: the element of an array literal (PEG rule `literal_array_element` of brush-parser/src/word.rs): the ordered choice read from
the rule text decides like "quote-aware key first, plain key second, bare value last" for every input — a key that contains `]=`
inside quotes (as `declare -p` writes it) is not cut at the first `]`."""
import re
from vx.unit import Unit
from vx.extract import C, ExtractError

PROPS = ['C13']
HEADER = 'use vstd::prelude::*;\nverus! {\n'
FOOTER = '\n} // verus!\nfn main() {}\n'


def parse_alts(text):
    m = re.search(r'rule literal_array_element\(\) -> \(Option<String>, String\) =\n(.*?)\n\n', text, re.S)
    if not m:
        raise ExtractError('array literal rule: `rule literal_array_element()` not found')
    body = '\n'.join(l for l in m.group(1).split('\n') if not l.strip().startswith('//'))
    alts = []
    for part in re.split(r'\}\s*/\s*\n', body):
        head = part.strip().split('{')[0].strip()
        if re.fullmatch(r'"\[" inner:array_index\(\) "\]=" value:\$\(\[_\]\*\)', head):
            kind = 'QuoteAwareKey'
        elif re.fullmatch(r'"\[" inner:\$\(\(!"\]" \[_\]\)\*\) "\]=" value:\$\(\[_\]\*\)', head):
            kind = 'PlainKey'
        elif re.fullmatch(r'value:\$\(\[_\]\+\)', head):
            kind = 'Bare'
        else:
            raise ExtractError('array literal rule: unsupported alternative %r' % head)
        act = part[part.find('{') + 1:].strip().rstrip('}').strip()
        want = '(None, value.to_owned())' if kind == 'Bare' else '(Some(inner.to_owned()), value.to_owned())'
        if act != want:
            raise ExtractError('array literal rule: unsupported action %r for %s' % (act, kind))
        alts.append(kind)
    return alts, body


def build(repo, findings):
    u = Unit('U33', 'array literal element: quote-aware key is tried before the plain one (ordered choice of the PEG rule)', repo, ['C13'], safety_props=['C13'])
    wd = u.source('brush-parser/src/word.rs')
    alts, body = parse_alts(wd.text)
    wd.require_text(r'rule array_index\(\) -> &\'input str =\n\s*\$\(arithmetic_word\(<"\]">\)\)', 'array_index is an arithmetic word ended by an unquoted `]`')
    if len(alts) > 6:
        raise ExtractError('array literal rule: %d alternatives (the proof unfolds at most 6)' % len(alts))
    u.raw(HEADER)
    u.prelude('parser/array_literal_spec.rs')
    out = ['// GENERATED on every run from `rule literal_array_element()` of brush-parser/src/word.rs: its alternatives, in source order',
           'pub open spec fn n_alts() -> int { %d }' % len(alts), 'pub open spec fn alt(i: int) -> Alt {']
    for k, a in enumerate(alts):
        head = ('if i == %d' % k) if k == 0 else ('else if i == %d' % k)
        out.append('    %s { Alt::%s }' % (head, a))
    out.append('    else { Alt::Other }\n}')
    n = len(alts)
    out.append('pub open spec fn choice_%d(s: Seq<char>) -> Option<Parsed> { None }' % n)
    for k in range(n - 1, -1, -1):
        out.append('pub open spec fn choice_%d(s: Seq<char>) -> Option<Parsed> { if alt_match(alt(%d), s) is Some { alt_match(alt(%d), s) } else { choice_%d(s) } }' % (k, k, k, k + 1))
    out.append('''pub proof fn array_literal_choice_is_quote_aware_first(s: Seq<char>)
    ensures
        //@ word.rs:literal_array_element:choice | C13 array-literal-key-read-quote-aware-before-plain (a key written by declare -p with `]=` inside quotes is not cut)
        choice_0(s) == wanted(s),
{ }''')
    u.raw('\n'.join(out) + '\n', origin='generated from brush-parser/src/word.rs rule literal_array_element')
    u.raw(FOOTER)
    u.notes.append('array literal rule: alternatives read: %s' % ', '.join(alts))
    u.assume('dependency', 'peg ordered choice: the first alternative that matches decides; `$(..)` captures the matched text')
    u.assume('uninterp', 'index_end (rule array_index / arithmetic_word: where the quote-aware subscript ends) — NOT verified')
    u.assume('generated', 'the alternative list is produced by units/u33_array_literal_rule.py from the rule text (alternatives or actions outside the recognised forms stop the run undecided)')
    u.expected_min_fns = 0
    u.counterexample = counterexample_for(repo)
    return u


def counterexample_for(repo):
    def cb(failure, workdir):
        import os, subprocess
        script = 'declare -A m; m["a]=b"]="v w"; s=$(declare -p m); unset m; eval "$s"; echo "<${m["a]=b"]}>"'
        text = 'candidate: %s   (expected output: <v w>)\n' % script
        if not os.path.exists(os.path.join(repo, 'Cargo.lock')) or os.environ.get('VERIF_NO_REPLAY_BUILD'):
            failure.replay_note = text + 'not replayed: the tree under check is a source export without a build set-up'
            return None
        try:
            b = subprocess.run(['cargo', 'build', '--offline', '-q', '-p', 'brush-shell'], cwd=repo, capture_output=True, text=True, timeout=1800)
            if b.returncode != 0:
                failure.replay_note = text + 'not replayed: cargo build failed'
                return None
            r = subprocess.run([os.path.join(repo, 'target/debug/brush'), '--norc', '--noprofile', '-c', script], capture_output=True, text=True, timeout=20)
        except Exception as e:
            failure.replay_note = text + 'not replayed: %r' % e
            return None
        if r.stdout.strip() == '<v w>':
            failure.replay_note = text + 'replayed on target/debug/brush: prints <v w>, as expected — candidate does not fail'
            return None
        return text + 'replayed on %s/target/debug/brush (built from the tree under check): stdout %r stderr %r' % (repo, r.stdout.strip(), r.stderr.strip()[:200])
    return cb
