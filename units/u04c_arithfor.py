"""U4c: arithmetic for-loop executor (brush-core/src/interp.rs)."""
from vx.extract import C
from .exec_common import exec_unit, begin_ast, end_ast, child_stub, FOOTER

PROPS = ['C02', 'C03', 'C16', 'C01']

RUN = 'af_run(new_events(old(shell).trace(), %s.trace()), *self_, params.suppress_errexit)'


def build(repo, findings):
    u, interp = exec_unit('U4c', 'arithmetic for-loop executor vs bash-manual fold semantics', repo,
                          ['CompoundList', 'SourceSpan'],
                          'pub enum Node { List(ast::CompoundList), Arith(ast::UnexpandedArithmeticExpr) }\n')
    ast = u.source('brush-parser/src/ast.rs')
    begin_ast(u)
    u.add(ast.item(r'^pub struct ArithmeticForClauseCommand ', 'ArithmeticForClauseCommand').r1(keep_derive=()))
    u.add(ast.item(r'^pub struct UnexpandedArithmeticExpr ', 'UnexpandedArithmeticExpr').r1(keep_derive=()))
    u.add(ast.item(r'^pub struct DoGroupCommand ', 'DoGroupCommand').r1(keep_derive=()))
    end_ast(u)
    u.prelude('exec/arithfor_spec.rs')
    u.raw(child_stub('CompoundList', 'Node::List(*self)'))
    fn = 'arithmetic_for_execute'
    f = interp.method(r'^impl Execute for ast::ArithmeticForClauseCommand ', 'execute', fn)
    f.r1().r3().r4().r5_self('ast::ArithmeticForClauseCommand', fn)
    f.sig(fn, ret='res', attrs=['#[verifier::exec_allows_no_decreases_clause]'], ensures=[
        C('aux trace-extends', 'old(shell).trace().is_prefix_of(final(shell).trace())'),
        C('C02,C03 arithfor-fold', '''({
    let st = %s;
    match res {
        Ok(r) => st == St::Done(r.next_control_flow, r.exit_code) && final(shell).status() == u8_of(r.exit_code),
        Err(_) => st is Err,
    }
})''' % (RUN % 'final(shell)')),
    ])
    f.at_body_start(fn, 'broadcast use {lemma_new_events_push, lemma_af_run_push};\nproof { lemma_new_events_empty(old(shell).trace()); }')
    f.loop(0, fn_name=fn, invariant_except_break=[
        C('aux', 'old(shell).trace().is_prefix_of(shell.trace())'),
        C('aux', 'result.next_control_flow is Normal'),
        C('C02,C03 arithfor-fold-running', (RUN % 'shell') + ' == (St::Cond { last: result.exit_code })'),
    ], ensures=[
        C('aux', 'old(shell).trace().is_prefix_of(shell.trace())'),
        C('C02,C03 arithfor-fold-done', (RUN % 'shell') + ' == St::Done(result.next_control_flow, result.exit_code)'),
    ], body_first='broadcast use {lemma_new_events_push, lemma_af_run_push};')
    u.add(f)
    u.raw(FOOTER)
    u.assume('exec_allows_no_decreases_clause', 'for ((;;)) may legitimately run forever; termination is not claimed for command loops')
    u.assume('external_body', 'UnexpandedArithmeticExpr::eval is an abstract child (one event, arbitrary value or error); EvalError -> Error conversion is opaque')
    u.expected_min_fns = 18
    return u
