"""U26: the launch half of invoke_command_in_subshell_and_get_output (brush-core/src/commands.rs, R6 slice): what a command
substitution inherits from its caller."""
from vx.unit import Unit
from vx.extract import C
from .common import runtime_options_item

PROPS = ['C03', 'C10', 'C01']
HEADER = '#![feature(allocator_api)]\nuse vstd::prelude::*;\nverus! {\n'
FOOTER = '\n} // verus!\nfn main() {}\n'


def build(repo, findings):
    u = Unit('U26', 'command substitution launch: errexit option per inherit_errexit, exemption inherited, stdout is the pipe', repo, ['C03', 'C10'], safety_props=['C01', 'C03'])
    cm = u.source('brush-core/src/commands.rs')
    interp = u.source('brush-core/src/interp.rs')
    sh = u.source('brush-core/src/shell.rs')
    sh.require_text(r'pub fn options\(&self\) -> &RuntimeOptions \{\s*&self\.options\s*\}', 'Shell::options is `&self.options`')
    sh.require_text(r'pub fn options_mut\(&mut self\) -> &mut RuntimeOptions \{\s*&mut self\.options\s*\}', 'Shell::options_mut is `&mut self.options`')
    interp.require_text(r'pub struct ExecutionParameters \{(?:[^}]|\n)*?open_files: openfiles::OpenFiles,(?:[^}]|\n)*?pub process_group_policy: ProcessGroupPolicy,(?:[^}]|\n)*?pub suppress_errexit: bool,', 'projection ExecutionParameters')
    interp.require_text(r'pub fn set_fd\(&mut self, fd: ShellFd, file: openfiles::OpenFile\) \{\s*self\.open_files\.set_fd\(fd, file\);\s*\}', 'ExecutionParameters::set_fd forwards to open_files.set_fd')
    u.raw(HEADER)
    runtime_options_item(u)
    u.prelude('exec/cmdsubst_spec.rs')
    u.raw('impl ExecutionParameters {\n    pub fn set_fd(&mut self, fd: ShellFd, file: OpenFile)\n        ensures final(self).open_files@ == old(self).open_files@.insert(fd, file), final(self).process_group_policy == old(self).process_group_policy, final(self).suppress_errexit == old(self).suppress_errexit\n    { self.open_files.set_fd(fd, file); }\n}\n')
    fn = 'command_substitution_launch'
    f = cm.slice('invoke_command_in_subshell_and_get_output', r'^\s*let mut subshell = shell\.clone\(\);', r'^\s*let cmd_join_handle = tokio::spawn\(',
                 'fn command_substitution_launch(shell: &mut Shell, params: &ExecutionParameters, s: String) -> Result<Launch, error::Error>', fn, tail='Ok(cmd_join_handle)')
    f.r1().r3().r4()
    f.resub(r'\b(\w+)\.options_mut\(\)\.', r'\1.options.', 'R22', 'accessor inlined: x.options_mut() is `&mut x.options`', count=None)
    f.resub(r'\b(\w+)\.options\(\)\.', r'\1.options.', 'R22', 'accessor inlined: x.options() is `&x.options`', count=None)
    f.replace('std::io::pipe()?', 'io_pipe()?', 'R14', 'OS call std::io::pipe() -> stub with the same error path')
    f.resub(r'tokio::spawn\(run_substitution_command\((\w+), (\w+), (\w+)\)\)', r'spawn_substitution(\1, \2, \3)', 'R14', 'tokio::spawn(run_substitution_command(..)) -> record of the task\'s arguments', count=None)
    f.sig(fn, ret='res', ensures=[
        C('C03 substitution-keeps-the-callers-errexit-exemption', 'res is Ok ==> res->Ok_0.params.suppress_errexit == params.suppress_errexit'),
        C('C03 errexit-option-inherited-only-under-inherit-errexit', '''res is Ok ==> res->Ok_0.shell.options.exit_on_nonzero_command_exit
    == (old(shell).options.exit_on_nonzero_command_exit && old(shell).options.command_subst_inherits_errexit)'''),
        C('C03 other-options-copied', 'res is Ok ==> res->Ok_0.shell.options.treat_unset_variables_as_error == old(shell).options.treat_unset_variables_as_error && res->Ok_0.shell.rest == old(shell).rest'),
        C('C10 substitution-writes-into-the-pipe', 'res is Ok ==> res->Ok_0.params.open_files@.dom().contains(OpenFiles::STDOUT_FD) && res->Ok_0.params.open_files@[OpenFiles::STDOUT_FD].is_write_end()'),
        C('C10 other-descriptors-inherited', 'res is Ok ==> forall|fd: ShellFd| fd != OpenFiles::STDOUT_FD ==> (#[trigger] res->Ok_0.params.open_files@.dom().contains(fd) == params.open_files@.dom().contains(fd)) && (params.open_files@.dom().contains(fd) ==> res->Ok_0.params.open_files@[fd] == params.open_files@[fd])'),
        C('C10,C03 parent-shell-untouched-by-the-launch', '*final(shell) == *old(shell)'),
        C('aux command-text', 'res is Ok ==> res->Ok_0.command == s'),
    ])
    u.add(f)
    u.raw(FOOTER)
    u.assume('external_body', 'Shell::clone returns an equal value (derived Clone); OpenFile / pipes / OpenFiles::set_fd as in U4l (contract proved in U15); AsyncPipeReader opaque')
    u.assume('uninterp', 'OpenFiles view, pipe ids')
    u.assume('assume_specification', 'Vec::reserve_exact (unused here, part of the shared pipe prelude)')
    u.assume('stub', 'run_substitution_command (parse + run_parsed_result in the copy), reading the pipe and awaiting the task are NOT covered; Shell is projected to its `options` field plus an opaque rest')
    u.expected_min_fns = 3
    return u
