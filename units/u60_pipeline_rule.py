"""U60: the action of the PEG rule `pipeline` (brush-parser/src/parser/peg.rs, R6 block slice): every `!` before a pipeline negates once,
so the pipeline is inverted exactly when their number is odd; `time` and the command sequence are handed on as parsed."""
from vx.unit import Unit
from vx.extract import C
from .common import replay_scripts

PROPS = ['C02']
HEADER = 'use vstd::prelude::*;\nverus! {\n'
FOOTER = '\n} // verus!\nfn main() {}\n'


def build(repo, findings):
    u = Unit('U60', 'pipeline rule: n bangs invert the pipeline exactly when n is odd', repo, PROPS, safety_props=[])
    pg = u.source('brush-parser/src/parser/peg.rs')
    pg.require_text(r'rule pipeline\(\) -> ast::Pipeline =\n\s*timed:pipeline_timed\(\)\? bang:bang\(\)\* seq:pipe_sequence\(\) \{\?', 'rule pipeline(): `timed? bang* seq` with a fallible action')
    pg.require_text(r'rule bang\(\) -> bool = specific_word\("!"\) \{ true \}', 'rule bang() yields one value per `!`')
    u.raw(HEADER)
    u.raw('''// ---- C02: "! ... bash's exit status": POSIX XCU 2.9.2 `[!] command1 [ | command2 ...]`; bash's grammar lets `!` repeat, each one
//  negating the status of what follows: `! ! cmd` has the status class of `cmd`, `! ! ! cmd` that of `! cmd`.
pub mod ast { use vstd::prelude::*;
#[verifier::external_body] pub struct PipelineTimed { _p: u8 }
#[verifier::external_body] pub struct Command { _p: u8 }
''')
    asrc = u.source('brush-parser/src/ast.rs')
    u.add(asrc.item(r'^pub struct Pipeline ', 'Pipeline').r1(keep_derive=()))
    u.raw('}\n')
    fn = 'pipeline_action'
    d = pg.block_slice(r'^\s*timed:pipeline_timed\(\)\? bang:bang\(\)\* seq:pipe_sequence\(\) \{\?$',
                       "fn pipeline_action(timed: Option<ast::PipelineTimed>, bang: Vec<bool>, seq: Vec<ast::Command>) -> Result<ast::Pipeline, &'static str>", fn)
    d.r1()
    d.resub(r'\{\n\s*\?\s*\n', '{\n', 'R6', '`{?` marker of a fallible PEG action dropped (the block evaluates to a Result)', count=None)
    d.sig(fn, ret='res', ensures=[
        C('C02 a-pipeline-is-inverted-exactly-when-the-number-of-bangs-is-odd', 'res is Ok ==> res->Ok_0.bang == (bang@.len() % 2 == 1)'),
        C('C02 time-and-the-commands-are-handed-on-as-parsed', 'res is Ok ==> res->Ok_0.timed == timed && res->Ok_0.seq == seq'),
        C('C02 only-a-pipeline-with-nothing-in-it-is-refused', 'res is Err <==> (timed is None && bang@.len() == 0 && seq@.len() == 0)'),
    ])
    u.add(d)
    u.raw(FOOTER)
    u.assume('dependency', 'peg: `bang:bang()*` binds one element per `!` matched; the executor inverts the status when `bang` is set (unit U4k)')
    u.assume('external_body', 'ast::PipelineTimed and ast::Command are opaque')
    u.expected_min_fns = 1
    u.counterexample = replay_scripts(repo, [
        ('f() { return 7; }; ! ! ! f; echo $?; ! ! ! true; echo $?; ! ! f; echo $?; ! ! ! ! true; echo $?', '0\n1\n7\n0\n'),
        ('if ! ! ! false; then echo then; else echo else; fi', 'then\n'),
    ])
    return u
