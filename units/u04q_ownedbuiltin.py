"""U4q: the task body of SimpleCommand::execute_via_builtin_in_owned_shell (brush-core/src/commands.rs, R6 block slice)."""
from vx.unit import Unit
from vx.extract import C
from .common import results_items

PROPS = ['C02', 'C01']
HEADER = 'use vstd::prelude::*;\nuse vstd::std_specs::convert::*;\nverus! {\n'
FOOTER = '\n} // verus!\nfn main() {}\n'


def build(repo, findings):
    u = Unit('U4q', 'a builtin run in an owned shell hands back a status, never a control-flow request', repo, ['C02'], safety_props=['C01', 'C02'])
    src = u.source('brush-core/src/commands.rs')
    u.raw(HEADER)
    results_items(u, 'C02')
    u.prelude('exec/ownedbuiltin_spec.rs')
    fn = 'owned_shell_builtin_task'
    f = src.block_slice(r'^\s*let join_handle = tokio::task::spawn_blocking\(move \|\| \{$',
                        'fn owned_shell_builtin_task(mut shell: Shell, params: ExecutionParameters, builtin: builtins::Registration, command_name: String, args: Vec<CommandArg>, last_arg: Option<String>) -> Result<ExecutionResult, error::Error>',
                        fn, within_fn='execute_via_builtin_in_owned_shell')
    f.r1()
    f.resub(r'^[ \t]*let rt = tokio::runtime::Handle::current\(\);\n', '', 'R3', 'runtime handle used only to block on the future dropped', count=None)
    f.resub(r'\brt\.block_on\((execute_builtin_command\([^;]*\))\);', r'\1;', 'R3', 'rt.block_on(future) -> the call itself (async erased)', count=None)
    f.sig(fn, ret='res', ensures=[C('C02 owned-shell-builtin-cannot-steer-the-waiting-shell', 'res is Ok ==> res->Ok_0.next_control_flow is Normal')])
    if f.text.count('.map(|result|'):
        f.closure(r'\.map\(\|result\|', 'ExecutionResult', 'r: ExecutionResult', 'r == <ExecutionResult as FromSpec<ExecutionExitCode>>::from_spec(result.exit_code)', fn_name=fn)
    u.add(f)
    u.raw(FOOTER)
    u.assume('external_body', 'execute_builtin_command is abstract (arbitrary result); Shell, ExecutionParameters, CommandArg, Registration opaque')
    u.assume('stub', 'tokio::task::spawn_blocking and the JoinHandle are outside the slice')
    u.expected_min_fns = 10
    return u
