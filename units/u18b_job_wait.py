"""U18b: Job::wait and Job::poll_done (brush-core/src/jobs.rs): the real bodies satisfy the contracts unit U18 assumes for them, and
both loops terminate."""
from vx.unit import Unit
from vx.extract import C

PROPS = ['C17', 'C01']
HEADER = '#![feature(allocator_api)]\nuse vstd::prelude::*;\nuse std::collections::VecDeque;\nverus! {\n'
FOOTER = '\n} // verus!\nfn main() {}\n'
FRAME = 'final(self).id == old(self).id && final(self).annotation == old(self).annotation'


def build(repo, findings):
    u = Unit('U18b', 'one job: wait awaits its tasks back to front until none is left or one is stopped; poll_done drains finished tasks', repo, ['C17'], safety_props=['C01', 'C17'])
    src = u.source('brush-core/src/jobs.rs')
    u.raw(HEADER)
    u.add(src.item(r'^pub enum JobAnnotation ', 'JobAnnotation').r1(keep_derive=()))
    u.add(src.item(r'^pub enum JobState ', 'JobState').r1(keep_derive=()))
    u.prelude('jobs/job_wait_spec.rs')
    u.add(src.item(r'^pub enum JobTaskWaitResult ', 'JobTaskWaitResult').r1(keep_derive=()))
    jb = src.item(r'^pub struct Job ', 'Job').r1(keep_derive=()).r11().pub_fields()
    jb.resub(r'\n\}$', '\n    pub vx_awaits: Ghost<nat>,      // ghost (erased): how many task awaits this job has seen\n}', 'R7', 'ghost counter field added to the extracted struct (no constructor is extracted)', count=1)
    u.add(jb)
    im = src.item(r'^impl Job ', 'impl Job').r1().r3()
    im.keep_only_fns(['poll_done', 'wait'], 'constructors, accessors, signal delivery — NOT verified')
    im.resub(r'^[ \t]*tracing::debug!\((?:[^;]|\n)*?\);\n', '', 'R2', 'tracing::debug! dropped', count=None)
    im.resub(r'while let Some\(task\) = self\.tasks\.back_mut\(\) \{', 'while self.tasks.len() > 0 {', 'R14', '`while let Some(task) = v.back_mut()` -> `while v.len() > 0` (back_mut is Some iff the deque is not empty)', count=None)
    im.resub(r'\btask\.wait\(\)', 'vx_wait_back(&mut self.tasks, &mut self.vx_awaits)', 'R14', 'await of the task borrowed by back_mut -> stub on the deque', count=None)
    im.resub(r'[ \t]*let task = &mut self\.tasks\[0\];\n', '', 'R14', '`&mut v[0]` folded into the poll stub', count=None)
    im.resub(r'\btask\.poll\(\)', 'vx_poll_front(&mut self.tasks)', 'R14', 'poll of the task borrowed by `&mut v[0]` -> stub on the deque', count=None)
    im.resub(r'self\.tasks\.remove\(0\);', 'self.tasks.pop_front();', 'R14', 'VecDeque::remove(0) -> pop_front (same element, same effect; std)', count=None)
    im.r11()
    im.sig('poll_done', ret='r', ensures=[
        C('C17 polling-touches-neither-id-nor-annotation', FRAME),
        C('C17 a-polled-result-means-every-task-finished', '(r is Ok && r->Ok_0 is Some) ==> final(self).state is Done && final(self).tasks@.len() == 0'),
        C('C17 poll-never-errs-and-leaves-unfinished-tasks-in-place', 'r is Ok && (r->Ok_0 is None ==> (final(self).tasks@.len() > 0 && final(self).state == old(self).state) || old(self).tasks@.len() == 0)'),
    ])
    im.loop(0, fn_name='poll_done', invariant=[
        C('aux', 'self.id == old(self).id && self.annotation == old(self).annotation && self.state == old(self).state'),
        C('C17 a-result-so-far-comes-from-a-removed-task', 'self.tasks@.len() <= old(self).tasks@.len() && (result is None ==> self.tasks@.len() == old(self).tasks@.len())'),
    ], decreases='self.tasks@.len()')
    im.sig('wait', ret='r', ensures=[
        C('C17 waiting-touches-neither-id-nor-annotation', FRAME),
        C('C17 wait-returns-ok-only-with-every-task-awaited-or-the-job-stopped', 'r is Ok ==> (final(self).tasks@.len() == 0 && final(self).state is Done) || final(self).state is Stopped'),
        C('C17 a-job-with-tasks-left-is-reported-only-after-awaiting-one-of-them-in-this-call', '(r is Ok && old(self).tasks@.len() > 0) ==> final(self).vx_awaits@ > old(self).vx_awaits@'),
    ])
    im.loop(0, fn_name='wait', invariant=[
        C('aux', 'self.id == old(self).id && self.annotation == old(self).annotation'),
        C('C17 awaits-so-far', 'self.vx_awaits@ >= old(self).vx_awaits@ && (self.tasks@.len() < old(self).tasks@.len() ==> self.vx_awaits@ > old(self).vx_awaits@) && self.tasks@.len() <= old(self).tasks@.len()'),
    ], decreases='self.tasks@.len()')
    u.add(im)
    u.raw(FOOTER)
    u.assume('external_body', 'JobTask::wait / poll (process wait, JoinHandle await: outside both verifiers) behind two R14 stubs that leave the deque as it is; ExecutionResult constructors')
    u.assume('assume_specification', 'VecDeque::is_empty')
    u.assume('stub', 'that awaiting a task really waits for the process / task to end (tokio, waitpid) is NOT verified')
    u.expected_min_fns = 2
    return u
