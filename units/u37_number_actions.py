"""U37: the PEG action blocks of brush-parser/src/word.rs that convert digits from the script into a number (tilde directory-stack
indexes, positional parameters): a number that does not fit makes the alternative fail, it never panics."""
from vx.unit import Unit
from vx.extract import C

PROPS = ['C01']
HEADER = 'use vstd::prelude::*;\nverus! {\n'
FOOTER = '\n} // verus!\nfn main() {}\n'


def build(repo, findings):
    u = Unit('U37', 'word parser: digits that do not fit their number type fail the alternative instead of panicking', repo, ['C01'], safety_props=['C01'])
    wd = u.source('brush-parser/src/word.rs')
    wd.require_text(r'NthDirFromTopOfDirStack \{\s*(///[^\n]*\n\s*)*n: usize,\s*(///[^\n]*\n\s*)*plus_used: bool,?\s*\}', 'projected variant TildeExpr::NthDirFromTopOfDirStack')
    wd.require_text(r'NthDirFromBottomOfDirStack \{\s*(///[^\n]*\n\s*)*n: usize,?\s*\}', 'projected variant TildeExpr::NthDirFromBottomOfDirStack')
    u.raw(HEADER)
    u.prelude('parser/number_actions_spec.rs')
    specs = [
        (r'^\s*plus:\("\+"\?\) n:\$\(\[\'0\'\.\.=\'9\'\]\*\) &tilde_terminator\(\) \{\??\s*(.*)\s*\} /$', 'tilde_nth_from_top_action',
         "fn tilde_nth_from_top_action(plus: Option<()>, n: &str) -> Result<TildeExpr, &'static str>", 'parse_usize', True),
        (r'^\s*"-" n:\$\(\[\'0\'\.\.=\'9\'\]\*\) &tilde_terminator\(\) \{\??\s*(.*)\s*\} /$', 'tilde_nth_from_bottom_action',
         "fn tilde_nth_from_bottom_action(n: &str) -> Result<TildeExpr, &'static str>", 'parse_usize', True),
        (r'^\s*n:\$\(\[\'1\'\.\.=\'9\'\]\(\[\'0\'\.\.=\'9\'\]\*\)\) \{\??\s*(.*)\s*\}$', 'positional_parameter_action',
         "fn positional_parameter_action(n: &str) -> Result<u32, &'static str>", 'parse_u32', False),
        (r'^\s*n:\$\(\[\'1\'\.\.=\'9\'\]\) \{\??\s*(.*)\s*\}$', 'unbraced_positional_parameter_action',
         "fn unbraced_positional_parameter_action(n: &str) -> Result<u32, &'static str>", 'parse_u32', False),
    ]
    for line_re, fn, header, parser, _ in specs:
        it = wd.inline_block(line_re, header, fn)
        # `{? e }` evaluates to a Result; a plain `{ e }` action yields the value itself: wrap it so that both forms fit the header
        plain = wd.has(line_re.replace(r'\{\??', r'\{(?!\?)'))
        if plain:
            it.resub(r'\{\n    (.*)\n\}$', r'{\n    Ok(\1)\n}', 'R6', 'a plain `{ e }` action wrapped as Ok(e)', flags=16)
        it.resub(r'\bn\.parse\(\)', '%s(n)' % parser, 'R14', 'str::parse with the target type fixed by the context -> stub', count=None)
        it.sig(fn, ret='r', ensures=[C('C01 digits-that-do-not-fit-fail-the-alternative', 'true')])
        u.add(it)
    # the I/O number of a redirection (brush-parser/src/parser/peg.rs rule io_number): digits that do not fit a descriptor number are no I/O number
    pg = u.source('brush-parser/src/parser/peg.rs')
    asrc = u.source('brush-parser/src/ast.rs')
    asrc.require_text(r'pub type IoFd = i32;', 'ast::IoFd is i32')
    fn = 'io_number_action'
    io = pg.block_slice(r'^\s*locations_are_contiguous\(num_loc, redir_loc\)\]\) \{\??$', "fn io_number_action(w: &str) -> Result<i32, &'static str>", fn)
    plain_io = not io.text.split('{', 1)[1].lstrip('\n').lstrip().startswith('?')
    io.r1()
    io.resub(r'\{\n\s*\?\s*\n', '{\n', 'R6', '`{?` marker of a fallible PEG action dropped (the block evaluates to a Result)', count=None)
    if plain_io:
        io.resub(r'\{\n((?:.|\n)*)\n\}$', r'{\n    Ok({\1})\n}', 'R6', 'a plain `{ e }` action wrapped as Ok(e)', flags=0)
    io.resub(r'\bw\.parse\(\)', 'parse_i32(w)', 'R14', 'str::parse with the target type fixed by the context -> stub', count=None)
    io.sig(fn, ret='r', ensures=[C('C01 digits-that-do-not-fit-a-descriptor-number-are-no-io-number', 'true')])
    u.add(io)
    u.raw(FOOTER)
    u.assume('external_body', 'str::parse::<usize> / ::<u32> / ::<i32> are stubs with arbitrary results (overflow is an Err)')
    u.assume('assume_specification', 'Result::or (std documented behaviour)')
    u.assume('stub', 'the PEG rules around the four action blocks are NOT verified; other action blocks of the grammar are not looked at')
    u.expected_min_fns = 5
    return u
