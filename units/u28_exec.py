"""U28: `exec` without a command (brush-builtins/src/exec.rs, R6 slice): which descriptors become permanent."""
from vx.unit import Unit
from vx.extract import C

PROPS = ['C10', 'C01']
HEADER = 'use vstd::prelude::*;\nverus! {\n'
FOOTER = '\n} // verus!\nfn main() {}\n'


def build(repo, findings):
    u = Unit('U28', 'exec without a command makes only its own redirections permanent', repo, ['C10'], safety_props=['C01', 'C10'])
    src = u.source('brush-builtins/src/exec.rs')
    u.raw(HEADER)
    u.prelude('fds/exec_spec.rs')
    fn = 'exec_no_command'
    f = src.block_slice(r'^\s*if self\.args\.is_empty\(\) \{$', 'fn exec_no_command(context: &mut ExecutionContext) -> Result<ExecutionResult, Error>', fn)
    f.r1()
    f.resub(r'let fds: Vec<_> = context\.iter_fds\(\)\.collect\(\);', 'let fds = context.collect_fds();', 'R14', 'iter_fds().collect() -> stub returning the merged descriptor view', count=None)
    f.resub(r'context\.shell\.replace_open_files\(fds\.into_iter\(\)\)', 'context.shell.replace_open_files(fds)', 'R14', 'into_iter() dropped (the stub takes the collected view)', count=None)
    f.sig(fn, ret='res', requires=[C('aux own-redirections-are-in-the-layer', 'old(context).own@.submap_of(old(context).layer@)')], ensures=[
        C('C10 exec-makes-only-its-own-redirections-permanent kf=C10:exec-persists-enclosing-temporary-redirects',
          '{{KF:C10:exec-persists-enclosing-temporary-redirects}} || final(context).shell.persistent@ == old(context).shell.persistent@.union_prefer_right(old(context).own@)'),
        C('C10 exec-own-redirections-do-persist', 'old(context).own@.submap_of(final(context).shell.persistent@)'),
    ])
    u.add(f)
    # the head of execute: a redirection-only exec persists its redirections wherever it runs (also in a subshell: `( exec 3>f; .. )`)
    for fld in ('name_for_argv0: Option<String>,', 'empty_environment: bool,', 'exec_as_login: bool,', 'args: Vec<String>,'):
        src.require_text(r'\n\s*' + fld.replace('<', r'\<').replace('>', r'\>'), 'field ExecCommand.' + fld)
    fn = 'exec_head'
    h = src.slice('execute', r'^\s*(?:if|let|//)\b', r'^\s*\}$(?=\n\n\s*let mut argv0 = )',
                  'fn exec_head(self_: &ExecCommand, context: &mut ExecutionContext) -> Result<ExecutionResult, Error>', fn)
    h.r1()
    h.resub(r'\bself\.', 'self_.', 'R6', 'slice wrapper: self -> self_', count=None)
    h.resub(r'let fds: Vec<_> = context\.iter_fds\(\)\.collect\(\);', 'let fds = context.collect_fds();', 'R14', 'iter_fds().collect() -> stub returning the merged descriptor view', count=None)
    h.resub(r'context\.shell\.replace_open_files\(fds\.into_iter\(\)\)', 'context.shell.replace_open_files(fds)', 'R14', 'into_iter() dropped (the stub takes the collected view)', count=None)
    h.resub(r'let cmd_cmd = crate::command::CommandCommand \{.*?\};\s*return cmd_cmd\.execute\(context\)\.await;', 'return vx_delegate_to_command(self_, context);', 'R14', 'delegation to the `command` builtin -> stub with an abstract result', count=None, flags=__import__('re').S | __import__('re').M)
    h.resub(r'\n\}$', '\n    Ok(vx_goes_on_to_replace_the_process())\n}', 'R6', 'wrapper epilogue: the function goes on to replace the process', count=1)
    h.sig(fn, ret='res', requires=[C('aux own-redirections-are-in-the-layer', 'old(context).own@.submap_of(old(context).layer@)')], ensures=[
        C('C10 exec-without-a-command-persists-its-redirections-wherever-it-runs kf=C10:exec-persists-enclosing-temporary-redirects',
          'self_.args@.len() == 0 ==> res is Ok && old(context).own@.submap_of(final(context).shell.persistent@) && ({{KF:C10:exec-persists-enclosing-temporary-redirects}} || final(context).shell.persistent@ == old(context).shell.persistent@.union_prefer_right(old(context).own@))'),
    ])
    u.add(h)
    u.raw(FOOTER)
    u.assume('external_body', 'ExecutionContext::iter_fds (merged view: layer over the table of the shell) and Shell::replace_open_files are stubs read off their bodies; which part of the layer comes from the own redirections of exec is ghost (`own`)')
    u.assume('stub', 'the exec-with-command path (process replacement, delegation to `command` in a subshell) is NOT covered')
    u.expected_min_fns = 2
    return u
