"""U4i: tail of invoke_shell_function (brush-core/src/commands.rs), an R6 slice: the call boundary."""
from vx.extract import C
from .exec_common import exec_unit, begin_ast, end_ast, FOOTER

PROPS = ['C02', 'C18', 'C16', 'C09', 'C01']


def build(repo, findings):
    u, interp = exec_unit('U4i', 'function-call boundary (invoke_shell_function)', repo,
                          ['CompoundCommand', 'IoRedirect', 'Word'], 'pub enum Node { Body(ast::CompoundCommand) }\n', props=('C02', 'C18', 'C16'))
    cm = u.source('brush-core/src/commands.rs')
    rs = u.source('brush-core/src/results.rs')
    rs.require_text(r'pub enum ExecutionSpawnResult \{\s*(///[^\n]*\n\s*)*Completed\(ExecutionResult\),', 'projection ExecutionSpawnResult::Completed')
    cm.require_text(r"pub shell: &'a mut Shell<SE>,\s*(///[^\n]*\n\s*)*pub command_name: String,\s*(///[^\n]*\n\s*)*pub params: ExecutionParameters,", 'projection ExecutionContext')
    astsrc = u.source('brush-parser/src/ast.rs')
    begin_ast(u)
    u.add(astsrc.item(r'^pub struct FunctionDefinition ', 'FunctionDefinition').r1(keep_derive=()))
    u.add(astsrc.item(r'^pub struct FunctionBody\(', 'FunctionBody').r1(keep_derive=()))
    u.add(astsrc.item(r'^pub struct RedirectList\(', 'RedirectList').r1(keep_derive=()))
    end_ast(u, 'C02')
    u.prelude('exec/fntail_spec.rs')
    fr = rs.item(r'^impl From<ExecutionResult> for ExecutionSpawnResult ', 'From<ExecutionResult> for ExecutionSpawnResult').r1()
    fr.default_label = 'C02 spawn-result-wraps'
    u.add(fr)
    fn = 'invoke_shell_function'
    f = cm.item(r'^pub\(crate\) async fn invoke_shell_function\(', fn).r1().r3().r11()
    f.replace("mut context: ExecutionContext<'_, impl extensions::ShellExtensions>,", "mut context: ExecutionContext<'_>,", 'R4', 'extension generic erased')
    f.resub(r'let positional_args = args\.iter\(\)\.map\(\|a\| a\.to_string\(\)\);', 'let positional_args: PosArgs = vx_any();', 'R15', 'positional-argument iterator (closure) -> arbitrary value', count=None)
    f.resub(r'\berror::unimp\(', 'error_fns::unimp(', 'R4', 'path of the error helper (module stub is split in two in the generated file)', count=None)
    f.before_loop(fn, 0, 'let ghost sh0 = *context.shell;\nlet ghost se0 = context.params.suppress_errexit;')
    f.loop(0, fn_name=fn, iter_name='itr', invariant=[
        C('aux redirects-leave-stacks-alone', 'context.shell.trace() == sh0.trace() && context.shell.frames() == sh0.frames() && context.shell.scopes() == sh0.scopes() && context.shell.leave_errs() == sh0.leave_errs() && context.params.suppress_errexit == se0'),
        C('C18 definition-time-redirects-run-before-the-frame-is-pushed', '(sh0.trace() == old(context.shell).trace() && sh0.frames() == old(context.shell).frames() && sh0.scopes() == old(context.shell).scopes() && sh0.leave_errs() == old(context.shell).leave_errs())'),
    ])
    f.sig(fn, ret='res', ensures=[
        C('C18,C16,C09 call-balanced', '''// on EVERY exit (Ok or Err, whatever the body did) both stacks are as deep as before, unless leave_function itself failed
final(context.shell).leave_errs() == old(context.shell).leave_errs()
    ==> final(context.shell).frames() == old(context.shell).frames() && final(context.shell).scopes() == old(context.shell).scopes()'''),
        C('C18 no-early-exit-between-enter-and-leave', '''final(context.shell).trace().len() == old(context.shell).trace().len()
    ==> res is Err && final(context.shell).frames() == old(context.shell).frames() && final(context.shell).scopes() == old(context.shell).scopes()'''),
        C('C02 return-consumed-at-boundary', '''res is Ok ==> ({
    let e = final(context.shell).trace().last();
    let r = res->Ok_0->Completed_0;
    &&& final(context.shell).trace() == old(context.shell).trace().push(e)
    &&& e.node == Node::Body(function.def().body.0) && e.ok && e.suppress == context.params.suppress_errexit
    &&& r.exit_code == e.code
    &&& r.next_control_flow == call_boundary(e.cf)
    &&& !(e.cf is BreakLoop) && !(e.cf is ContinueLoop)
})'''),
        C('C02 loop-flow-never-crosses-boundary', '''(final(context.shell).trace().len() > old(context.shell).trace().len()
    && final(context.shell).trace().last().ok
    && (final(context.shell).trace().last().cf is BreakLoop || final(context.shell).trace().last().cf is ContinueLoop)) ==> res is Err'''),
    ])
    u.add(f)
    u.raw(FOOTER)
    u.assume('external_body', 'interp::setup_redirect (definition-time redirections) is a stub that touches neither stack; Shell::enter_function / leave_function carry ASSUMED depth contracts here (their bodies are verified against the same contracts in the call-stack unit when built); the function body is an abstract child assumed to leave call-stack and scope depth unchanged; error::unimp, Registration, PosArgs opaque')
    u.assume('uninterp', 'Shell::frames, Shell::scopes, Shell::leave_errs (ghost), Error::is_unimplemented')
    u.expected_min_fns = 16
    return u
