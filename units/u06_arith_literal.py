"""U6 arith-literal: base#digits literals (brush-parser/src/arithmetic.rs parse_shell_literal_number)."""
from vx.unit import Unit
from vx.extract import C

PROPS = ['C07', 'C01']

HEADER = 'use vstd::prelude::*;\nuse vstd::std_specs::iter::IteratorSpec;\nuse vstd::std_specs::cmp::OrdSpec;\nverus! {\n'
FOOTER = '\n} // verus!\nfn main() {}\n'


def build(repo, findings):
    u = Unit('U6', 'base#digits literal parser vs bash digit table', repo, ['C07'], safety_props=['C01', 'C07'])
    src = u.source('brush-parser/src/arithmetic.rs')
    u.raw(HEADER)
    u.prelude('std/int_ops.rs')
    u.prelude('arith/literal_spec.rs')
    f = src.item(r'^fn parse_shell_literal_number\(', 'parse_shell_literal_number').r1().r11()
    f.sig(ret='res', ensures=[
        C('C07 literal-bad-base', '!(2 <= radix <= 64) ==> res is Err'),
        C('C07 literal-value', "2 <= radix <= 64 ==> (match lit_val(s@, radix) { Some(v) => res == Ok::<i64, &'static str>(v), None => res is Err })"),
    ])
    f.loop(0, iter_name='it', invariant=[
        C('aux', '2 <= radix <= 64'),
        C('aux', 'it.history@ + it.iter.remaining() == s@'),
        C('C07 literal-horner', 'lit_val(it.history@, radix) == Some(result)'),
    ], body_first='let ghost h = it.history@;\nproof { assert(h.push(ch).drop_last() =~= h); }')
    hint = 'proof { lemma_prefix_none(s@, h.push(ch), radix); }'
    f.wrap_arm(r'_ => return Err\("invalid digit"\)', hint, nth=0)
    f.wrap_arm(r'_ => return Err\("invalid digit"\)', hint, nth=0)
    f.before(r'^\s*return Err\("value too great for base"\);', hint)
    u.add(f)
    # the action of rule decimal_literal: digits up to u64::MAX wrap into the signed range (bash: 18446744073709551615 is -1)
    d = src.block_slice(r'^\s*s:\$\(\[\'1\'\.\.=\'9\'\] \[\'0\'\.\.=\'9\'\]\*\) \{\?$', "fn decimal_literal_action(s: &str) -> Result<i64, &'static str>", 'decimal_literal_action')
    d.r1()
    d.resub(r'\{\n\s*\?\s*\n', '{\n', 'R6', '`{?` marker of a fallible PEG action dropped (the block evaluates to a Result)', count=None)
    d.resub(r'(\w+)\.parse::<u64>\(\)\.map\(\|(\w+)\| (.*)\)\.or\((Err\("[^"]*"\))\)', r'match parse_u64(\1) { Ok(\2) => Ok(\3), Err(_) => \4 }', 'R14', 'Result::map(closure).or(e) on str::parse::<u64>() -> match over the stub parse_u64 with the closure body in place', count=None)
    d.sig('decimal_literal_action', ret='res', ensures=[
        C('C07 a-decimal-literal-up-to-2-64-wraps-into-the-signed-range', "match dec_value_u64(s@) { Some(v) => res == Ok::<i64, &'static str>(v as i64), None => res is Err }"),
    ])
    u.add(d)
    u.raw(FOOTER)
    u.assume('external_body', 'parse_u64 stands for str::parse::<u64>(): Ok with the value of the digits when it fits 64 bits, else Err (dec_value_u64 uninterpreted)')
    u.assume('uninterp', 'dec_value_u64')
    u.assume('assume_specification', 'u64::cast_signed(a) == a as i64 (discharged by Kani over all u64 in the thorough tier)')
    u.expected_min_fns = 3
    return u
