"""U6 arith-literal: base#digits literals (brush-parser/src/arithmetic.rs parse_shell_literal_number)."""
from vx.unit import Unit
from vx.extract import C

PROPS = ['C07', 'C01']

HEADER = 'use vstd::prelude::*;\nuse vstd::std_specs::iter::IteratorSpec;\nuse vstd::std_specs::cmp::OrdSpec;\nverus! {\n'
FOOTER = '\n} // verus!\nfn main() {}\n'


def build(repo, findings):
    u = Unit('U6', 'base#digits literal parser vs bash digit table', repo, ['C07'], safety_props=['C01', 'C07'])
    src = u.source('brush-parser/src/arithmetic.rs')
    u.raw(HEADER)
    u.prelude('std/int_ops.rs')
    u.prelude('arith/literal_spec.rs')
    f = src.item(r'^fn parse_shell_literal_number\(', 'parse_shell_literal_number').r1().r11()
    f.sig(ret='res', ensures=[
        C('C07 literal-bad-base', '!(2 <= radix <= 64) ==> res is Err'),
        C('C07 literal-value', "2 <= radix <= 64 ==> (match lit_val(s@, radix) { Some(v) => res == Ok::<i64, &'static str>(v), None => res is Err })"),
    ])
    f.loop(0, iter_name='it', invariant=[
        C('aux', '2 <= radix <= 64'),
        C('aux', 'it.history@ + it.iter.remaining() == s@'),
        C('C07 literal-horner', 'lit_val(it.history@, radix) == Some(result)'),
    ], body_first='let ghost h = it.history@;\nproof { assert(h.push(ch).drop_last() =~= h); }')
    hint = 'proof { lemma_prefix_none(s@, h.push(ch), radix); }'
    f.wrap_arm(r'_ => return Err\("invalid digit"\)', hint, nth=0)
    f.wrap_arm(r'_ => return Err\("invalid digit"\)', hint, nth=0)
    f.before(r'^\s*return Err\("value too great for base"\);', hint)
    u.add(f)
    u.raw(FOOTER)
    u.assume('assume_specification', 'u64::cast_signed(a) == a as i64 (discharged by Kani over all u64 in the thorough tier)')
    u.expected_min_fns = 2
    return u
