"""U31: the `==` / `!=` arms of the extended-test evaluator (brush-core/src/extendedtests.rs, R6 block slices): the match is decided by
the expanded right operand configured with the shell's extglob and NOCASEMATCH options, on the expanded left operand; `!=` negates."""
from vx.unit import Unit
from vx.extract import C
from .common import runtime_options_item

PROPS = ['C08']
HEADER = 'use vstd::prelude::*;\nverus! {\n'
FOOTER = '\n} // verus!\nfn main() {}\n'
ARM = r'^\s*ast::BinaryPredicate::%s => \{$'
RET = 'Result<bool, error::Error>'


def build(repo, findings):
    u = Unit('U31', '`[[ s == p ]]` / `[[ s != p ]]`: which pattern configuration decides the test', repo, ['C08'], safety_props=['C08'])
    et = u.source('brush-core/src/extendedtests.rs')
    u.raw(HEADER)
    runtime_options_item(u)
    u.prelude('patterns/consumers_spec.rs')
    for kind, fn, neg in [('StringExactlyMatchesPattern', 'cond_matches_arm', 'false'), ('StringDoesNotExactlyMatchPattern', 'cond_does_not_match_arm', 'true')]:
        g = et.block_slice(ARM % kind, 'fn %s(shell: &mut Shell, params: &ExecutionParameters, op: &ast::BinaryPredicate, left: &ast::Word, right: &ast::Word) -> %s' % (fn, RET), fn,
                           within_fn='apply_binary_predicate')
        g.r1().r3()
        g.resub(r'let escaped_right = escape::quote_if_needed\(\s*expanded_right\.as_str\(\),\s*escape::QuoteMode::BackslashEscape,\s*\);\s*', '', 'R14', 'the quoted trace text is built inside the stub', count=None)
        g.resub(r'std::format!\("\[\[ \{s\} \{op\} \{escaped_right\} \]\]"\)', 'vx_trace_text(&s, op, &expanded_right)', 'R14', 'format! of the xtrace line -> stub', count=None)
        g.sig(fn, ret='res', ensures=[
            C('C08 test-decided-by-the-right-operand-under-extglob-and-nocasematch',
              '''res is Ok ==> final(shell).words().len() > old(shell).words().len() && final(shell).pats().len() == old(shell).pats().len() + 1
    && cond_verdict(res, final(shell).pats().last(), old(shell).opts(), final(shell).words()[old(shell).words().len() as int], %s)''' % neg)])
        u.add(g)
    for kind, fn, neg in [('StringExactlyMatchesPattern', 'test_matches_arm', 'false'), ('StringDoesNotExactlyMatchPattern', 'test_does_not_match_arm', 'true')]:
        g = et.block_slice(ARM % kind, 'fn %s(left: &str, right: &str, shell: &Shell) -> %s' % (fn, RET), fn, within_fn='apply_binary_predicate_to_strs')
        g.r1()
        g.resub(r'patterns::Pattern::from\(right\)', 'pattern_from_str(right)', 'R14', 'From<&str> for Pattern -> stub', count=None)
        g.sig(fn, ret='res', ensures=[
            C('C08 string-test-decided-by-the-right-operand-under-extglob-and-nocasematch', 'cond_verdict(res, pat_from(right@), shell.opts(), left@, %s)' % neg)])
        u.add(g)
    u.raw(FOOTER)
    u.assume('external_body', 'basic_expand_word / basic_expand_pattern (abstract, logged in ghost sequences), Pattern builders and exactly_matches (uninterpreted verdict: U10 ties it to the regex), trace_command, the xtrace text')
    u.assume('uninterp', 'pat_with_extglob, pat_with_nocase, pat_from, match_spec, Shell::opts / words / pats')
    u.assume('stub', 'option values are assumed unchanged by the two expansions (a command substitution runs in a subshell); `case` is covered by U4f, the parameter-expansion operators and pathname expansion set their own configuration and are not in this unit')
    u.expected_min_fns = 4
    return u
