"""U4n: wait_for_pipeline_processes_and_update_status (brush-core/src/interp.rs): pipeline status, PIPESTATUS, pipefail."""
from vx.unit import Unit
from vx.extract import C
from .common import results_items, runtime_options_item

PROPS = ['C03', 'C02', 'C17', 'C01']
HEADER = '#![feature(allocator_api)]\nuse vstd::prelude::*;\nuse vstd::std_specs::convert::*;\nuse std::collections::VecDeque;\nverus! {\n'
FOOTER = '\n} // verus!\nfn main() {}\n'


def build(repo, findings):
    u = Unit('U4n', 'pipeline status: last stage, PIPESTATUS in order, pipefail = rightmost failure', repo, ['C03', 'C02', 'C17'], safety_props=['C01', 'C03'])
    interp = u.source('brush-core/src/interp.rs')
    rs = u.source('brush-core/src/results.rs')
    op = u.source('brush-core/src/options.rs')
    op.require_text(r'pub return_last_failure_from_pipeline: bool,', 'projected field RuntimeOptions.return_last_failure_from_pipeline')
    u.raw(HEADER)
    u.raw('pub mod ast {\nuse vstd::prelude::*;\n#[verifier::external_body]\npub struct Pipeline { _p: u8 }\n}\n')
    results_items(u, 'C02,C03')
    u.add(rs.item(r'^pub enum ExecutionWaitResult ', 'ExecutionWaitResult').r1(keep_derive=()))
    runtime_options_item(u)
    u.prelude('exec/pipewait_spec.rs')
    fn = 'wait_for_pipeline_processes_and_update_status'
    f = interp.item(r'^async fn wait_for_pipeline_processes_and_update_status\(', fn).r1().r3().r4()
    f.resub(r'shell\s*\.last_pipeline_statuses_mut\(\)\s*\.clear\(\)', 'last_pipeline_statuses_mut__clear(shell)', 'R14', 'receiver chain flattened', count=None)
    f.resub(r'shell\s*\.last_pipeline_statuses_mut\(\)\s*\.push\(', 'last_pipeline_statuses_mut__push(shell, ', 'R14', 'receiver chain flattened', count=None)
    f.resub(r'shell\.jobs_mut\(\)\.add_as_current\(', 'jobs_mut__add_as_current(shell, ', 'R14', 'receiver chain flattened', count=None)
    f.resub(r'pipeline\.to_string\(\)', 'vx_pipeline_text(pipeline)', 'R14', 'Display of the pipeline (write! machinery) -> stub', count=None)
    f.resub(r'writeln!\(params\.stderr\(shell\), "\\r\{formatted\}"\)\?;', 'vx_io_write(shell, params, &formatted)?;', 'R8', 'writeln! to the shell stderr -> opaque I/O stub with the same error path', count=None)
    f.sig(fn, ret='res', ensures=[
        C('C02 pipestatus-one-entry-per-stage-in-order', 'res is Ok ==> final(shell).last_pipeline_statuses@ == acc_fold(process_spawn_results@).statuses && !acc_fold(process_spawn_results@).failed'),
        C('C03 pipefail-rightmost-failure-else-last', '''res is Ok ==> ({
    let a = acc_fold(process_spawn_results@);
    &&& res->Ok_0.next_control_flow == a.last.next_control_flow
    &&& res->Ok_0.exit_code == (if old(shell).opts.return_last_failure_from_pipeline && a.last_failure is Some { a.last_failure->Some_0 } else { a.last.exit_code })
})'''),
        C('C02 status-of-last-stage-recorded', 'res is Ok && process_spawn_results@.len() > 0 ==> final(shell).last_exit_status == u8_of(acc_fold(process_spawn_results@).last.exit_code)'),
        C('C02 wait-error-propagates', 'acc_fold(process_spawn_results@).failed ==> res is Err'),
    ])
    f.ascribe(r'^\s*let mut stopped_children = vec!\[\];', 'Vec<jobs::JobTask>', fn_name=fn)
    f.at_body_start(fn, 'let ghost all = process_spawn_results@;\nlet ghost mut done: Seq<ExecutionSpawnResult> = Seq::empty();\nlet ghost opts0 = shell.opts;')
    f.loop(0, fn_name=fn, invariant_except_break=[
        C('aux', 'done + process_spawn_results@ == all && shell.opts == opts0'),
        C('C02,C03,C17 fold-over-stages-each-stage-awaited-unless-one-was-stopped', '''({
    let a = acc_fold(done);
    &&& !a.failed
    &&& a.last == result
    &&& a.statuses == shell.last_pipeline_statuses@
    &&& a.last_failure == last_failure_exit_code
    &&& a.any_stopped == (stopped_children@.len() > 0)
    &&& (done.len() > 0 ==> shell.last_exit_status == u8_of(result.exit_code))
})'''),
    ], ensures=[
        C('aux', 'done == all && shell.opts == opts0'),
        C('C02,C03,C17 fold-over-all-stages', '''({
    let a = acc_fold(done);
    &&& !a.failed
    &&& a.last == result
    &&& a.statuses == shell.last_pipeline_statuses@
    &&& a.last_failure == last_failure_exit_code
    &&& a.any_stopped == (stopped_children@.len() > 0)
    &&& (done.len() > 0 ==> shell.last_exit_status == u8_of(result.exit_code))
})'''),
    ], decreases='process_spawn_results@.len()', body_first='''proof {
    let c = process_spawn_results@[0] ;
    lemma_acc_fold_push(done, child);
    assert(done.push(child) + process_spawn_results@ =~= all);
}
let ghost done_before = done;
proof { done = done.push(child); }''')
    u.add(f)
    u.prelude('results/lemmas.rs')
    u.raw(FOOTER)
    u.assume('external_body', 'waiting on / polling a launched stage yields an abstract outcome (outcome_of); Job::new, jobs_mut().add_as_current, terminal foreground, stderr write, Pipeline text are stubs that do not touch $?, PIPESTATUS or the options')
    u.assume('uninterp', 'outcome_of')
    u.assume('model', 'Shell is projected to the three fields the function writes ($?, PIPESTATUS vector, options); last_pipeline_statuses_mut() is a plain field accessor in shell.rs')
    u.expected_min_fns = 16
    return u
