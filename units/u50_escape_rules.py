"""U50: the alternatives of the PEG rules `escape_sequence` and `single_char_bracket_member` (brush-parser/src/pattern.rs) that see a
backslash followed by a character: read into generated definitions on every run (ordered choice, guards as written) and proved, for
every character, to produce regex text that stands for that one literal character."""
import re
from vx.unit import Unit
from vx.extract import C, ExtractError
from .common import replay_scripts

PROPS = ['C08']
HEADER = 'use vstd::prelude::*;\nverus! {\n'
FOOTER = '\n} // verus!\nfn main() {}\n'

GUARD = r"\[c(?: if (?P<g>[^\]]+))?\]"
ALTS = [
    # (regex over one alternative, output) — output 'esc' = backslash + c, 'raw' = c
    (re.compile(r"^(?P<v>\w+):\$\(\['\\\\'\] (?:%s|\[_\])\) \{ (?P=v)\.to_owned\(\) \}$" % GUARD), 'esc'),
    (re.compile(r"^\['\\\\'\] %s \{ c\.to_string\(\) \}$" % GUARD), 'raw'),
    (re.compile(r"^\['\\\\'\] %s \{ \(std::format!\(\"\\\\\{c\}\"\), c\) \}$" % GUARD), 'esc'),
    (re.compile(r"^\['\\\\'\] %s \{ \(c\.to_string\(\), c\) \}$" % GUARD), 'raw'),
]


def guard_spec(g):
    if g is None:
        return 'true'
    g = g.strip()
    neg = g.startswith('!')
    if neg:
        g = g[1:].strip()
    m = re.match(r'^(\w+)\(c\)$', g)
    if m:
        s = '%s__spec(c)' % m.group(1)
    else:
        m = re.match(r'^c\.(is_ascii_alphanumeric|is_ascii_punctuation)\(\)$', g)
        if not m:
            raise ExtractError('unsupported: guard `%s` of a backslash alternative is not a form this unit reads' % g)
        s = 'cond_%s(c)' % m.group(1)
    return ('!' + s) if neg else s


def read_rule(text, name):
    m = re.search(r'\n\s*rule %s\(\) -> [^=]+=\n(.*?)\n\s*\n' % name, text, re.S)
    if not m:
        raise ExtractError('anchor lost: rule %s() not found in brush-parser/src/pattern.rs' % name)
    body = '\n'.join(l for l in m.group(1).split('\n') if not l.strip().startswith('//'))
    alts = [re.sub(r'\s+', ' ', a.strip()) for a in re.split(r' /\n', body)]
    out = []
    for a in alts:
        if "['\\\\']" not in a:
            if out and out[-1][0] != 'true':
                pass
            break           # the alternatives after the backslash ones see other first characters
        for rx, kind in ALTS:
            mm = rx.match(a)
            if mm:
                out.append((guard_spec(mm.groupdict().get('g')), kind, a))
                break
        else:
            raise ExtractError('unsupported: alternative `%s` of rule %s is not a form this unit reads' % (a, name))
    if not out:
        raise ExtractError('anchor lost: rule %s() has no alternative starting with a backslash' % name)
    return out, alts


def build(repo, findings):
    u = Unit('U50', 'glob translator: a backslash followed by a character stands for that character, outside and inside brackets', repo, ['C08'], safety_props=['C08'])
    pp = u.source('brush-parser/src/pattern.rs')
    u.raw(HEADER)
    u.prelude('patterns/escape_rules_spec.rs')
    # the guard function the rules call: real code, with a spec twin generated from its body (R18)
    f = pp.item(r'^pub const fn regex_char_needs_escaping\(', 'regex_char_needs_escaping').r1().r11()
    u.raw(f.twin('regex_char_needs_escaping', suffix='__spec'), origin='R18 spec twin of regex_char_needs_escaping')
    out_lines = []
    for rule, pred, label in (('escape_sequence', 'literal_outside', 'C08 an-escaped-character-outside-brackets-is-that-literal-character'),
                              ('single_char_bracket_member', 'literal_in_class', 'C08 an-escaped-character-inside-brackets-is-that-literal-character kf=C08:escaped-letter-or-digit-in-brackets-is-a-regex-class')):
        alts, all_alts = read_rule(pp.text, rule)
        body = 'arbitrary()'
        exhaustive = any(g == 'true' for g, _, _ in alts)
        for g, kind, _ in reversed(alts):
            o = "seq!['\\\\', c]" if kind == 'esc' else 'seq![c]'
            body = 'if %s { Some(%s) } else { %s }' % (g, o, body) if g != 'true' else 'Some(%s)' % o
            if g == 'true':
                pass
        if not exhaustive:
            body = body.replace('arbitrary()', 'None')
        out_lines.append('// GENERATED on every run from the backslash alternatives of `rule %s()` (brush-parser/src/pattern.rs), ordered choice:' % rule)
        for g, kind, a in alts:
            out_lines.append('//    %s' % a)
        out_lines.append('pub open spec fn %s_out(c: char) -> Option<Seq<char>> { %s }' % (rule, body))
        kf = ''
        if 'kf=' in label:
            kf = '{{KF:%s}} || ' % label.split('kf=')[1]
        out_lines.append('''pub proof fn %s_is_literal(c: char)
    ensures
        //@ pattern.rs:%s:backslash-alternatives | %s
        %s(%s_out(c) is Some && %s(%s_out(c)->Some_0, c)),
{ }
''' % (rule, rule, label, kf, rule, pred, rule))
        u.notes.append('rule %s: backslash alternatives read: %s' % (rule, ' / '.join(a for _, _, a in alts)))
    u.raw('\n'.join(out_lines) + '\n', origin='generated from brush-parser/src/pattern.rs rules escape_sequence, single_char_bracket_member')
    # ---- the action of rule char_range (R6 block slice): both ends keep the regex text their member rule produced
    u.raw('''// `format!("{a}-{b}")` with a, b Strings or chars: the texts with a hyphen between them (R8)
pub trait VxText { spec fn vx_text(&self) -> Seq<char>; }
impl VxText for String { open spec fn vx_text(&self) -> Seq<char> { self@ } }
impl VxText for char { open spec fn vx_text(&self) -> Seq<char> { seq![*self] } }
#[verifier::external_body]
pub fn fmt_range<A: VxText, B: VxText>(a: &A, b: &B) -> (r: String) ensures r@ == a.vx_text() + seq!['-'] + b.vx_text() { unimplemented!() }
''')
    cr = pp.block_slice(r'^\s*from:single_char_bracket_member\(\) "-" to:single_char_bracket_member\(\) \{$', 'fn char_range_action(from: (String, char), to: (String, char)) -> Option<String>', 'char_range_action')
    cr.r1()
    cr.resub(r'std::format!\("\{(\w+)\}-\{(\w+)\}"\)', r'fmt_range(&\1, &\2)', 'R8', 'format!("{a}-{b}") -> stub (the two texts with a hyphen between them)', count=None)
    from vx.extract import C as _C
    cr.sig('char_range_action', ret='r', ensures=[
        _C('C08 a-range-keeps-the-regex-text-of-both-its-ends-escapes-included', 'from.1 <= to.1 ==> (r is Some && r->Some_0@ == from.0@ + seq![\'-\'] + to.0@)'),
        _C('C08 a-range-whose-ends-are-out-of-order-is-no-range', 'from.1 > to.1 ==> r is None'),
    ])
    u.add(cr)
    u.raw(FOOTER)
    u.assume('external_body', 'fmt_range stands for format!("{a}-{b}")')
    u.assume('dependency', 'peg: ordered choice, `[c if G]` matches one character satisfying G, `$()` yields the matched text; regex-syntax / fancy_regex: which characters are special outside and inside a class, and that a backslash makes exactly ASCII punctuation (other than < >) literal')
    u.assume('generated', 'the *_out definitions are produced by units/u50_escape_rules.py from the rule text (alternative or guard forms outside the recognised set stop the run undecided)')
    u.assume('stub', 'the other alternatives of pattern_piece / bracket_member (what sees a character first) and the rest of the grammar are NOT verified here')
    u.expected_min_fns = 1
    u.counterexample = replay_scripts(repo, [
        ('t() { case "$1" in $2) echo m;; *) echo n;; esac; }; t d "[\\d]"; t 5 "[\\d]"; t _ "[\\w]"; t n "[\\n]"; t A "[\\x41]"', 'm\nn\nn\nm\nn\n'),
        ('t() { case "$1" in $2) echo m;; *) echo n;; esac; }; t d "\\d"; t 7 "\\d"; t "a b" "a\\sb"; t "<x" "\\<*"', 'm\nn\nn\nm\n'),
        ('t() { case "$1" in $2) echo m;; *) echo n;; esac; }; t "*" "\\*"; t "]" "[\\]]"; t "-" "[a\\-z]"; t b "[a\\-z]"', 'm\nm\nm\nn\n'),
        ('t() { case "$1" in $2) echo m;; *) echo n;; esac; }; t "]" "[Z-\\]]"; t "[" "[Z-\\]]"; t "Z]" "[Z-\\]]"; t "\\\\" "[Z-\\\\\\\\]"', 'm\nm\nn\nm\n'),
    ])
    return u
