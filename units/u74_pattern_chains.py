"""U74: every place in brush-core that finishes a Pattern with the builder calls set_extended_globbing / set_case_insensitive /
set_multiline: the three setters are real code under contract (each sets its own flag only), and every chain of them found in the
sources is read into a generated function — arguments that are not literals become parameters — and proved to leave a pattern that lets
`*` and `?` span newlines doing so (bash: a newline is an ordinary character for pattern matching)."""
import os
import re
from vx.unit import Unit
from vx.extract import C, ExtractError
from .common import replay_scripts

PROPS = ['C06', 'C08']
HEADER = 'use vstd::prelude::*;\nverus! {\n'
FOOTER = '\n} // verus!\nfn main() {}\n'
SETTERS = ('set_extended_globbing', 'set_multiline', 'set_case_insensitive')
FILES = ['brush-core/src/expansion.rs', 'brush-core/src/interp.rs', 'brush-core/src/extendedtests.rs', 'brush-core/src/patterns.rs', 'brush-core/src/completion.rs',
         'brush-core/src/variables.rs', 'brush-core/src/commands.rs']


def balanced(text, o):
    depth = 0
    for j in range(o, len(text)):
        if text[j] == '(':
            depth += 1
        elif text[j] == ')':
            depth -= 1
            if depth == 0:
                return j
    raise ExtractError('unbalanced parentheses in a builder chain')


def chains(text):
    """[(line, [(setter, arg_text)])] for every maximal run of `.set_xxx(ARG)` calls"""
    out, pos = [], 0
    pat = re.compile(r'\s*\.\s*(%s)\(' % '|'.join(SETTERS))
    while True:
        m = re.compile(r'\.\s*(%s)\(' % '|'.join(SETTERS)).search(text, pos)
        if not m:
            return out
        calls, p = [], m.start()
        line = text.count('\n', 0, p) + 1
        while True:
            mm = pat.match(text, p) if calls else re.compile(r'\.\s*(%s)\(' % '|'.join(SETTERS)).match(text, p)
            if not mm:
                break
            close = balanced(text, mm.end() - 1)
            calls.append((mm.group(1), ' '.join(text[mm.end():close].split())))
            p = close + 1
        out.append((line, calls))
        pos = p


def build(repo, findings):
    u = Unit('U74', 'pattern builder chains: no call site switches off `*` spanning newlines', repo, PROPS, safety_props=[])
    pt = u.source('brush-core/src/patterns.rs')
    u.raw(HEADER)
    u.add(pt.item(r'^pub\(crate\) enum PatternPiece ', 'PatternPiece').r1(keep_derive=()).r11_pub())
    u.add(pt.item(r'^type PatternWord = ', 'PatternWord').r1().r11_pub())
    u.add(pt.item(r'^pub struct Pattern ', 'Pattern').r1(keep_derive=()).r11_pub().pub_fields())
    u.raw('impl Pattern {')
    for st, fld in (('set_extended_globbing', 'enable_extended_globbing'), ('set_multiline', 'multiline'), ('set_case_insensitive', 'case_insensitive')):
        f = pt.method(r'^impl Pattern ', st).r1()
        f.resub(r'\(mut self, value: bool\)', '(self, value: bool)', 'R29', '`mut self` -> plain receiver plus a local', count=1)
        f.resub(r'-> Self \{\n', '-> Self {\n        let mut self_ = self;\n', 'R29', 'the local copy of the receiver', count=1)
        f.resub(r'\bself\.(\w+) = ', r'self_.\1 = ', 'R29', 'the local copy of the receiver', count=None)
        f.resub(r'\n(\s*)self\n(\s*)\}$', r'\n\1self_\n\2}', 'R29', 'the local copy of the receiver', count=1)
        others = [x for x in ('pieces', 'enable_extended_globbing', 'multiline', 'case_insensitive') if x != fld]
        f.sig(st, ret='r', ensures=[C('C06,C08 the-setter-sets-its-own-flag-and-nothing-else', 'r.%s == value && %s' % (fld, ' && '.join('r.%s == self.%s' % (o, o) for o in others)))])
        u.add(f)
    u.raw('}\n')
    gen, n = [], 0
    for rel in FILES:
        path = os.path.join(repo, rel)
        if not os.path.exists(path):
            continue
        text = open(path).read()
        cut = text.find('#[cfg(test)]')
        if cut >= 0:
            text = text[:cut]
        for line, calls in chains(text):
            params, body = [], 'base'
            for i, (st, arg) in enumerate(calls):
                if arg in ('true', 'false'):
                    body += '.%s(%s)' % (st, arg)
                else:
                    params.append('a%d: bool' % i)
                    body += '.%s(a%d)' % (st, i)
            n += 1
            gen.append('''// GENERATED from %s:%d: %s
fn pattern_chain_%d(base: Pattern%s) -> (r: Pattern)
    ensures
        //@ %s:chain@%d | C06,C08 a-pattern-whose-wildcards-span-newlines-keeps-doing-so-at-this-call-site
        base.multiline ==> r.multiline,
        r.pieces == base.pieces,
{ %s }
''' % (rel, line, ' '.join('.%s(%s)' % c for c in calls), n, ''.join(', ' + p for p in params), os.path.basename(rel), n, body))
            u.notes.append('%s:%d chain %s' % (rel, line, ' '.join('.%s(%s)' % c for c in calls)))
    if n == 0:
        raise ExtractError('anchor lost: no builder chain (.set_extended_globbing / .set_case_insensitive / .set_multiline) found in brush-core')
    u.raw('\n'.join(gen), origin='generated from the builder chains in brush-core/src')
    u.raw(FOOTER)
    u.assume('generated', 'the chain functions are produced by units/u74_pattern_chains.py from the call sites (non-literal arguments become parameters; test modules are skipped)')
    u.assume('stub', 'that every new Pattern starts with multiline = true is U10; what the base expression of each chain is, and that the flag reaches the regex as `(?s)`, are U10 / regex.rs (not verified)')
    u.expected_min_fns = 3 + n
    u.counterexample = replay_scripts(repo, [
        ("v=$'ab\\ncd\\nef'; echo \"${v/b*e/X}\"; echo \"${v//?/X}\"", 'aXf\nXXXXXXXX\n'),
        ("v=$'a\\nb'; case $v in a?b) echo m;; *) echo n;; esac; [[ $v == a*b ]] && echo m2; echo \"${v#a?}\"", 'm\nm2\nb\n'),
    ])
    return u
