"""U4l: spawn_pipeline_processes (brush-core/src/interp.rs): every stage gets the caller's errexit flag; adjacent stages share a pipe."""
from vx.unit import Unit
from .common import runtime_options_item, results_items
from vx.extract import C

PROPS = ['C03', 'C02', 'C10', 'C16', 'C01']
HEADER = '#![feature(allocator_api)]\nuse vstd::prelude::*;\nuse vstd::std_specs::convert::*;\nuse vstd::std_specs::iter::IteratorSpec;\nuse std::collections::VecDeque;\nverus! {\n'
FOOTER = '\n} // verus!\nfn main() {}\n'

T = 'new_stages(old(shell).stages(), shell.stages())'


def build(repo, findings):
    u = Unit('U4l', 'pipeline stage launch: errexit flag threading, pipe wiring, process groups', repo, ['C03', 'C02', 'C10', 'C16'], safety_props=['C01', 'C03'])
    interp = u.source('brush-core/src/interp.rs')
    cm = u.source('brush-core/src/commands.rs')
    ast = u.source('brush-parser/src/ast.rs')
    rs = u.source('brush-core/src/results.rs')
    op = u.source('brush-core/src/options.rs')
    rs.require_text(r'pub enum ExecutionSpawnResult \{(?:[^}]|\n)*?Completed\(ExecutionResult\),(?:[^}]|\n)*?StartedProcess\(processes::ChildProcess\),', 'projection ExecutionSpawnResult')
    op.require_text(r'pub run_last_pipeline_cmd_in_current_shell: bool,', 'projected field RuntimeOptions.run_last_pipeline_cmd_in_current_shell')
    op.require_text(r'pub enable_job_control: bool,', 'projected field RuntimeOptions.enable_job_control')
    interp.require_text(r'pub struct ExecutionParameters \{(?:[^}]|\n)*?open_files: openfiles::OpenFiles,(?:[^}]|\n)*?pub process_group_policy: ProcessGroupPolicy,(?:[^}]|\n)*?pub suppress_errexit: bool,', 'projection ExecutionParameters')
    u.raw(HEADER)
    u.raw('pub mod ast {\nuse vstd::prelude::*;\n#[verifier::external_body]\npub struct Command { _p: u8 }\n#[verifier::external_body]\npub struct PipelineTimed { _p: u8 }')
    u.add(ast.item(r'^pub struct Pipeline ', 'Pipeline').r1(keep_derive=()))
    u.raw('}\n')
    u.raw('pub mod commands {\nuse vstd::prelude::*;\nuse super::*;')
    sf = cm.item(r"^pub enum ShellForCommand<'a, SE: extensions::ShellExtensions> ", 'ShellForCommand').r1()
    sf.replace("<'a, SE: extensions::ShellExtensions>", "<'a>", 'R4', 'extension generic erased')
    sf.resub(r'Shell<SE>', 'Shell', 'R4', 'Shell<SE> -> context stub', count=None)
    u.add(sf)
    u.raw('}\n')
    pc = interp.item(r"^struct PipelineExecutionContext<'a, SE: extensions::ShellExtensions> ", 'PipelineExecutionContext').r1()
    pc.replace("<'a, SE: extensions::ShellExtensions>", "<'a>", 'R4', 'extension generic erased')
    pc.replace("commands::ShellForCommand<'a, SE>", "commands::ShellForCommand<'a>", 'R4', 'extension generic erased')
    pc.r11().pub_fields()
    u.add(pc)
    runtime_options_item(u)
    results_items(u, 'C02')
    u.prelude('exec/spawn_spec.rs')
    fn = 'spawn_pipeline_processes'
    f = interp.item(r'^async fn spawn_pipeline_processes\(', fn).r1().r3().r4()
    f.resub(r'\bfor _ in ', 'for _i in ', 'R10', 'unused loop variable `_` named (Verus wants a variable)', count=None)
    f.replace('std::io::pipe()?', 'io_pipe()?', 'R14', 'OS call std::io::pipe() -> stub with the same error path')
    f.resub(r'^[ \t]*let mut stderr = params\.stderr\(shell\);\n', '', 'R2', 'stderr handle used only by the dropped diagnostic', count=None)
    f.resub(r'^[ \t]*let _ = shell\.display_error\([^;]*\);\n', '', 'R2', 'diagnostic whose result is discarded dropped', count=None)
    f.resub(r'ExecutionExitCode::from\(&error\)', 'exit_code_of_error(&error)', 'R14', 'From<&Error> for ExecutionExitCode -> stub (arbitrary code)', count=None)
    f.r12(fn, 1)
    f.sig(fn, ret='res', ensures=[
        C('aux log-extends', 'old(shell).stages().is_prefix_of(final(shell).stages())'),
        C('C03,C02,C10 every-stage-launched-as-specified', '''res is Ok ==> stages_ok(new_stages(old(shell).stages(), final(shell).stages()), pipeline.seq@.len() as int, *pipeline, *params, old(shell).opts())
    && res->Ok_0@.len() == pipeline.seq@.len()'''),
        C('C02,C16 a-stage-in-its-own-subshell-cannot-steer-the-parent-one-run-in-this-shell-is-handed-on-untouched', '''res is Ok ==> forall|k: int| 0 <= k < res->Ok_0@.len() ==>
    result_confined(new_stages(old(shell).stages(), final(shell).stages())[k], #[trigger] res->Ok_0@[k])'''),
        C('C02,C03 only-an-error-of-a-stage-run-in-this-shell-ends-the-launch-one-in-a-subshell-of-its-own-fails-that-stage', '''res is Err ==> ({
    let t = new_stages(old(shell).stages(), final(shell).stages());
    t.len() > 0 ==> (!t.last().ok && !t.last().own_shell)       // (an error with no stage launched: creating a pipe failed)
})'''),
    ])
    f.ascribe(r'^\s*let mut pipe_readers = vec!\[\];', 'Vec<Option<OpenFile>>', fn_name=fn)
    f.ascribe(r'^\s*let mut pipe_writers = vec!\[\];', 'Vec<Option<OpenFile>>', fn_name=fn)
    f.ascribe(r'^\s*let mut spawn_results = VecDeque::new\(\);', 'VecDeque<ExecutionSpawnResult>', fn_name=fn)
    f.at_body_start(fn, 'let ghost opts0 = shell.opts();\nlet ghost st0 = shell.stages();\nproof { assert(new_stages(st0, st0) =~= Seq::<StageEv>::empty()); }')
    PAIRS = '''forall|k: int| 0 <= k < %s ==> (#[trigger] pipe_readers@[k]) is Some && pipe_writers@[k] is Some
    && pipe_readers@[k]->Some_0.is_read_end() && pipe_writers@[k]->Some_0.is_write_end()
    && pipe_readers@[k]->Some_0.pipe_id() == pipe_writers@[k]->Some_0.pipe_id()'''
    f.loop(0, fn_name=fn, iter_name='itp', invariant=[
        C('aux', 'pipeline_len == pipeline.seq@.len() && pipeline_len > 1'),
        C('aux', 'shell.stages() == st0 && shell.opts() == opts0'),
        C('aux', 'pipe_readers@.len() == itp.index@ && pipe_writers@.len() == itp.index@ && itp.index@ <= pipeline_len - 1'),
        C('C10 pipe-ends-paired', PAIRS % 'itp.index@'),
    ])
    f.before_loop(fn, 1, '''let ghost rs0 = pipe_readers@;
let ghost ws0 = pipe_writers@;
proof {
    assert(pipeline_len <= 1 ==> rs0.len() == 0 && ws0.len() == 0);
    assert(pipeline_len > 1 ==> rs0.len() == pipeline_len && ws0.len() == pipeline_len - 1 && rs0[pipeline_len - 1] is None);
}''')
    PAIRS0 = '''forall|k: int| 0 <= k < ws0.len() ==> (#[trigger] rs0[k]) is Some && ws0[k] is Some
    && rs0[k]->Some_0.is_read_end() && ws0[k]->Some_0.is_write_end() && rs0[k]->Some_0.pipe_id() == ws0[k]->Some_0.pipe_id()'''
    f.loop(1, fn_name=fn, iter_name='it', invariant=[
        C('aux', 'pipeline_len == pipeline.seq@.len()'),
        C('aux', '__n == it.index@ && it.index@ + it.iter.remaining().len() == pipeline.seq@.len()'),
        C('aux', 'forall|i: int| 0 <= i < it.iter.remaining().len() ==> *(#[trigger] it.iter.remaining()[i]) == pipeline.seq@[it.index@ + i]'),
        C('aux', 'st0 == old(shell).stages() && opts0 == old(shell).opts() && st0.is_prefix_of(shell.stages())'),
        C('aux', '(pipeline_len <= 1 ==> rs0.len() == 0 && ws0.len() == 0) && (pipeline_len > 1 ==> rs0.len() == pipeline_len && ws0.len() == pipeline_len - 1 && rs0[pipeline_len - 1] is None)'),
        C('C10 pipe-ends-paired', PAIRS0),
        C('aux', 'pipe_readers@ == rs0.take(if rs0.len() >= __n { rs0.len() - __n } else { 0 })'),
        C('aux', 'pipe_writers@ == ws0.take(if ws0.len() >= __n { ws0.len() - __n } else { 0 })'),
        C('aux', '__n < pipeline_len ==> shell.opts() == opts0'),
        C('aux', 'spawn_results@.len() == __n'),
        C('C02,C16 stages-so-far-confined', 'forall|k: int| 0 <= k < __n ==> result_confined(%s[k], #[trigger] spawn_results@[k])' % T.replace('old(shell).stages()', 'st0')),
        C('C03,C02,C10 stages-so-far-as-specified', 'stages_ok(%s, __n as int, *pipeline, *params, opts0)' % T.replace('old(shell).stages()', 'st0')),
        C('C10 previous-stage-writes-the-pipe-this-stage-reads', '(0 < __n < pipeline_len) ==> %s[__n - 1].stdout == ws0[pipeline_len - 1 - __n]' % T.replace('old(shell).stages()', 'st0')),
    ], body_first='''proof { assert(*command == pipeline.seq@[it.index@ as int]); }
let ghost t_before = new_stages(st0, shell.stages());
let ghost i0 = __n as int;''')
    f.before(r'^\s*let pipeline_context = if !run_in_current_shell \{$', '''let ghost own = !run_in_current_shell;
let ghost gparams = cmd_params;
let ghost st_pre = shell.stages();
proof {
    let n = pipeline_len as int;
    assert(run_in_current_shell == in_current_shell(n, i0, opts0));
    assert(gparams.suppress_errexit == params.suppress_errexit);
    if n > 1 {
        if i0 == 0 { assert(rs0[n - 1] is None); assert(fd_of(gparams.open_files@, 0) == fd_of(params.open_files@, 0)); }
        else { assert(rs0[n - 1 - i0] is Some); assert(pipe_readers@ == rs0.take(n - 1 - i0)); assert(fd_of(gparams.open_files@, 0) == rs0[n - 1 - i0]); }
        if i0 < n - 1 { assert(rs0[n - 2 - i0] is Some); assert(ws0[n - 2 - i0] is Some); assert(pipe_writers@ == ws0.take(n - 2 - i0)); assert(fd_of(gparams.open_files@, 1) == ws0[n - 2 - i0]); }
        else { assert(fd_of(gparams.open_files@, 1) == fd_of(params.open_files@, 1)); }
    } else {
        assert(fd_of(gparams.open_files@, 0) == fd_of(params.open_files@, 0));
        assert(fd_of(gparams.open_files@, 1) == fd_of(params.open_files@, 1));
    }
}''', fn_name=fn)
    f.before(r'^\s*if let ExecutionSpawnResult::StartedProcess\(child\) = &spawn_result \{', '''proof {
    let e = shell.stages().last();
    let t_after = new_stages(st0, shell.stages());
    assert(shell.stages() == st_pre.push(e));
    assert(t_after =~= t_before.push(e));
    //@ spawn_pipeline_processes:stage | C03,C02,C10 this-stage-launched-as-specified
    assert(stage_ok_at(t_before.push(e), i0, *pipeline, *params, opts0)) by {
        let n = pipeline_len as int;
        let t2 = t_before.push(e);
        assert(t2[i0] == e);
        assert(e.node == pipeline.seq@[i0]);
        assert(e.own_shell == own);
        if i0 > 0 {
            assert(t2[i0 - 1] == t_before[i0 - 1]);
            assert(rs0[n - 1 - i0] is Some && ws0[n - 1 - i0] is Some);
            assert(t_before[i0 - 1].stdout == ws0[n - 1 - i0]);
            assert(e.stdin == rs0[n - 1 - i0]);
        }
        if i0 < n - 1 { assert(rs0[n - 2 - i0] is Some); assert(e.stdout == ws0[n - 2 - i0]); }
    }
    lemma_stages_push(t_before, e, *pipeline, *params, opts0);
}''', fn_name=fn, optional=True)
    u.add(f)
    u.raw(FOOTER)
    u.assume('external_body', 'Command::execute_in_pipeline is an abstract child (one StageEv on the parent shell recording the parameters it was given; a stage in an owned shell cannot change the options of the parent); io_pipe stands for std::io::pipe(); OpenFiles::set_fd carries the contract proved in U15; Shell, OpenFile, PipeReader/Writer, ChildProcess opaque')
    u.assume('assume_specification', 'Vec::reserve_exact does not change the contents; VecDeque specs from vstd')
    u.assume('uninterp', 'Shell::stages (ghost log), Shell::opts, OpenFile::pipe_id/is_read_end/is_write_end, PipeReader/Writer::id, ChildProcess::pgid_spec')
    u.assume('stub', 'wait_for_pipeline_processes_and_update_status (pipefail fold) and Command::execute_in_pipeline / SimpleCommand dispatch are NOT verified')
    u.expected_min_fns = 1
    return u
