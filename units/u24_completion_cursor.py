"""U24: the head of Completions::get_completions (brush-core/src/completion.rs, R6 slice): the cursor is clamped to the line and to a
character boundary, so cutting the token under the cursor never panics."""
from vx.unit import Unit
from vx.extract import C, ExtractError

PROPS = ['C01']
HEADER = 'use vstd::prelude::*;\nuse vstd::std_specs::iter::IteratorSpec;\nverus! {\n'
FOOTER = '\n} // verus!\nfn main() {}\n'


def build(repo, findings):
    u = Unit('U24', 'completion: the token under the cursor is cut at a character boundary for every (line, cursor)', repo, ['C01'], safety_props=['C01'])
    src = u.source('brush-core/src/completion.rs')
    u.raw(HEADER)
    u.prelude('std/utf8.rs')
    u.add(src.item(r"^pub struct CompletionToken<'a> ", 'CompletionToken').r1(keep_derive=()))
    im = src.item(r'^impl CompletionToken<', 'impl CompletionToken').r1()
    im.resub(r'\bself\.text\.len\(\)', 'str_len(self.text)', 'R19', 'str::len -> str_len stub (byte length)', count=None)
    im.sig('length', ret='r', ensures=[C('aux', 'r == byte_len(self.text@)')])
    im.sig('end', ret='r', requires=[C('aux token-lies-within-a-line', 'self.start + byte_len(self.text@) <= usize::MAX')],
           ensures=[C('aux', 'r == self.start + byte_len(self.text@)')])
    u.add(im)
    u.prelude('completion/spec.rs')
    fn = 'completion_cursor_head'
    f = None
    for nth in range(4):      # several methods are called get_completions; take the one that holds the cursor logic
        try:
            f = src.slice('get_completions', r'^\s*const MAX_RESTARTS', r'^\s*for \(i, token\) in tokens\.iter\(\)\.enumerate\(\) \{',
                          "fn completion_cursor_head<'a>(input: &'a str, position: usize)", fn, nth=nth)
            break
        except ExtractError:
            continue
    if f is None:
        raise ExtractError('anchor lost: the cursor logic of get_completions')
    f.r1()
    f.resub(r'\binput\.len\(\)', 'str_len(input)', 'R19', 'str::len -> str_len stub (byte length)', count=None)
    f.resub(r'\binput\.is_char_boundary\((\w+)\)', r'str_is_char_boundary(input, \1)', 'R19', 'str::is_char_boundary -> stub', count=None)
    f.resub(r'&(\w+)\[\.\.(\w+)\]', r'str_slice_to(\1, \2)', 'R19', '&s[..k] -> str_slice_to(s, k): the panic condition (k not a char boundary) becomes a precondition', count=None)
    f.resub(r'Self::tokenize_input_for_completion\(shell, input\)', 'tokenize_input_for_completion(input)', 'R14', 'tokenizer call -> stub (shell only supplies COMP_WORDBREAKS)', count=None)
    f.resub(r'^[ \t]*let mut adjusted_tokens: Vec<&CompletionToken<\'_>> = tokens\.iter\(\)\.collect\(\);\n', '', 'R2', 'a copy of the token references, not used in the slice, dropped', count=None)
    f.r12(fn, 1 if src.has(r'while !input\.is_char_boundary') else 0)
    has_clamp = src.has(r'while !input\.is_char_boundary')
    if has_clamp:
        f.loop(0, fn_name=fn, invariant=[C('C01 cursor-stays-within-the-line', 'position <= byte_len(input@)'), C('aux', 'boundary(input@, 0)')], decreases='position')
        f.before_loop(fn, 0, 'proof { lemma_boundary_zero_and_end(input@); }')
    LOOP = 1 if has_clamp else 0
    f.loop(LOOP, fn_name=fn, iter_name='it', invariant=[
        C('aux', 'it.index@ + it.iter.remaining().len() == tokens@.len() && __n == it.index@'),
        C('aux', 'forall|k: int| 0 <= k < it.iter.remaining().len() ==> *(#[trigger] it.iter.remaining()[k]) == tokens@[it.index@ + k]'),
        C('aux', 'forall|k: int| 0 <= k < tokens@.len() ==> tok_ok(input@, #[trigger] tokens@[k])'),
        C('aux', 'byte_len(input@) <= usize::MAX && tokens@.len() <= usize::MAX'),
        C('C01 cursor-is-on-a-character-boundary-of-the-line', 'boundary(input@, cursor as int) && cursor <= byte_len(input@)'),
    ], body_first='proof { assert(it.iter.remaining().len() > 0); assert(it.index@ < tokens@.len()); assert(*token == tokens@[it.index@ as int]); assert(tok_ok(input@, *token)); lemma_token_extent(input@, *token); }')
    f.before_loop(fn, LOOP, 'proof { axiom_str_fits_usize(input); }')
    u.add(f)
    u.raw('// a Rust string has at most isize::MAX bytes (std; ASSUMED)\npub axiom fn axiom_str_fits_usize(s: &str) ensures byte_len(s@) <= isize::MAX;\n')
    u.raw(FOOTER)
    u.assume('external_body', 'R19 stubs str_len / str_is_char_boundary / str_slice_to carry std\'s panic conditions as preconditions; tokenize_input_for_completion is a stub whose contract (tokens are pieces of the line at character positions) is PROVED for simple_tokenize_by_delimiters, which it returns, in unit U24b')
    u.assume('axiom', 'a string has at most isize::MAX bytes')
    u.assume('stub', 'the rest of get_completions (completion generation) and the front-ends that consume insertion_index / delete_count (reedline completer to_suggestion, basic line reader) are NOT covered')
    u.expected_min_fns = 3
    return u
