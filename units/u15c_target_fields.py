"""U15c: the target word of a redirection (brush-core/src/interp.rs setup_redirect, R6 slices): a target that does not expand to exactly
one field is rejected before its first field is taken (no panic on an empty expansion, no silent choice among several words)."""
from vx.unit import Unit
from vx.extract import C

PROPS = ['C10', 'C01']
HEADER = 'use vstd::prelude::*;\nuse vstd::std_specs::convert::*;\nverus! {\n'
FOOTER = '\n} // verus!\nfn main() {}\n'


def build(repo, findings):
    u = Unit('U15c', 'redirection target: exactly one field, checked before the first field is taken', repo, ['C10'], safety_props=['C01', 'C10'])
    interp = u.source('brush-core/src/interp.rs')
    er = u.source('brush-core/src/error.rs')
    er.require_text(r'\n\s*InvalidRedirection,', 'projected variant ErrorKind::InvalidRedirection')
    u.raw(HEADER)
    u.prelude('fds/target_fields_spec.rs')
    fn = 'output_and_error_arm'
    g = interp.block_slice(r'^\s*ast::IoRedirect::OutputAndError\(f, append\) => \{$',
                           'fn output_and_error_arm(shell: &mut Shell, params: &mut ExecutionParameters, f: &ast::Word, append: &bool) -> Result<(), error::Error>', fn, within_fn='setup_redirect')
    g.r1().r3().resub(r'\n\}$', '\n    Ok(())\n}', 'R6', 'wrapper epilogue `Ok(())` (what the enclosing function returns after the match)', count=1)
    g.resub(r'setup_redirect_output_and_error_to\(shell, params,', 'setup_redirect_output_and_error_to(&*shell, params,', 'R6', 'reborrow of the `&mut` wrapper parameter', count=None)
    g.sig(fn, ret='res', ensures=[C('C10 target-that-is-not-exactly-one-field-is-rejected', '!one_field(*f, *old(shell)) ==> res is Err')])
    u.add(g)
    for name, after, word in [('file_target_fields', r'^\s*ast::IoFileRedirectTarget::Filename\(f\) => \{$', 'f'),
                              ('duplicate_target_fields', r'^\s*ast::IoFileRedirectTarget::Duplicate\(word\) => \{$', 'word')]:
        t = interp.slice('setup_redirect', r'^\s*let mut expanded_fields =', r'^\s*if !?expanded_fields\.',
                         'fn %s(shell: &mut Shell, params: &mut ExecutionParameters, %s: &ast::Word) -> Result<Vec<String>, error::Error>' % (name, word), name, after_re=after)
        t.r1().r3().resub(r'\n\}$', '\n    Ok(expanded_fields)\n}', 'R6', 'wrapper epilogue returning the live variable `expanded_fields` (its first element is taken by the next statement)', count=1)
        t.sig(name, ret='res', ensures=[
            C('C10,C01 the-next-statement-takes-the-first-of-exactly-one-field', 'res is Ok ==> res->Ok_0@.len() == 1 && one_field(*%s, *old(shell))' % word),
            C('C10 target-that-is-not-exactly-one-field-is-rejected', '!one_field(*%s, *old(shell)) ==> res is Err' % word)])
        u.add(t)
    interp.require_text(r'shell\.absolute_path\(Path::new\(expanded_fields\.remove\(0\)\.as_str\(\)\)\);', 'the file-name arm takes field 0 right after the check (unit U15 redirect_to_file starts there)')
    interp.require_text(r'let mut expanded = expanded_fields\.remove\(0\);', 'the duplicate arm takes field 0 right after the check')
    u.raw(FOOTER)
    u.assume('external_body', 'full_expand_and_split_word (uninterpreted field list), setup_redirect_output_and_error_to')
    u.assume('uninterp', 'split_spec')
    u.assume('stub', 'that the statement following each of the two slices is the `remove(0)` is a text anchor, not a proof')
    u.expected_min_fns = 3
    return u
