"""U15b: TryFrom<OpenFile> for Stdio (brush-core/src/openfiles.rs): the child gets the file the table entry stands for."""
from vx.unit import Unit
from vx.extract import C

PROPS = ['C10', 'C01']
HEADER = 'use vstd::prelude::*;\nuse vstd::std_specs::convert::*;\nuse std::sync::Arc;\nverus! {\n'
FOOTER = '\n} // verus!\nfn main() {}\n'


def build(repo, findings):
    u = Unit('U15b', 'spawning: a table entry becomes the child\'s descriptor for that same file', repo, ['C10'], safety_props=['C01', 'C10'])
    src = u.source('brush-core/src/openfiles.rs')
    u.raw(HEADER)
    u.prelude('fds/stdio_spec.rs')
    en = src.item(r'^pub enum OpenFile ', 'OpenFile').r1(keep_derive=())
    for a, b in [('std::io::Stdin', 'StdinH'), ('std::io::Stdout', 'StdoutH'), ('std::io::Stderr', 'StderrH'), ('std::fs::File', 'FileH'),
                 ('std::io::PipeReader', 'PipeReaderH'), ('std::io::PipeWriter', 'PipeWriterH'), ('Box<dyn Stream>', 'StreamBox')]:
        en.replace(a, b, 'R9', 'std handle type -> opaque stub with a ghost file identity')
    u.add(en)
    u.raw('''impl OpenFile {
    pub open spec fn ident(&self) -> FileId {
        match self { OpenFile::Stdin(h) => h.ident(), OpenFile::Stdout(h) => h.ident(), OpenFile::Stderr(h) => h.ident(), OpenFile::File(h) => h.ident(),
                     OpenFile::PipeReader(h) => h.ident(), OpenFile::PipeWriter(h) => h.ident(), OpenFile::Stream(_) => Stdio::null_ident() }
    }
    // OpenFile::try_clone_to_owned (openfiles.rs): dup(2) of the descriptor the entry stands for
    #[verifier::external_body]
    pub fn try_clone_to_owned(self) -> (r: Result<OwnedFd, error::Error>) ensures r is Ok ==> r->Ok_0.ident() == self.ident() { unimplemented!() }
}
''')
    im = src.item(r'^impl TryFrom<OpenFile> for Stdio ', 'impl TryFrom<OpenFile> for Stdio')
    im.resub(r'^[ \t]*#\[cfg\(not\(unix\)\)\]\n[^\n]*\n', '', 'R10', 'cfg resolved for the unix target: the not(unix) arm dropped', count=None)
    im.resub(r'^[ \t]*#\[cfg\(unix\)\]\n', '', 'R10', 'cfg resolved for the unix target', count=None)
    im.r1()
    im.sig('try_from', ret='res', ensures=[
        C('C10 child-gets-the-file-the-entry-stands-for', 'res is Ok ==> res->Ok_0.ident() == open_file.ident()')], no_canary=True)
    u.add(im)
    u.raw('''impl vstd::std_specs::convert::TryFromSpecImpl<OpenFile> for Stdio {
    open spec fn obeys_try_from_spec() -> bool { false }
    open spec fn try_from_spec(v: OpenFile) -> Result<Self, error::Error> { arbitrary() }
}
''')
    u.raw(FOOTER)
    u.assume('external_body', "std handle types are opaque with a ghost file identity; try_clone / From<handle> for Stdio / try_clone_to_owned keep the identity (dup(2)); Stdio::inherit() yields the shell's descriptor for the slot being filled (std documented behaviour)")
    u.assume('uninterp', 'ident, slot_default, null_ident')
    u.assume('stub', 'compose_std_command (which entry goes to which slot, injected fds) is NOT verified; non-unix targets keep inherit()')
    u.expected_min_fns = 1
    return u
