"""U15b: TryFrom<OpenFile> for Stdio (brush-core/src/openfiles.rs): the child gets the file the table entry stands for."""
from vx.unit import Unit
from vx.extract import C

PROPS = ['C10', 'C01']
HEADER = 'use vstd::prelude::*;\nuse vstd::std_specs::convert::*;\nuse std::sync::Arc;\nverus! {\n'
FOOTER = '\n} // verus!\nfn main() {}\n'


def build(repo, findings):
    u = Unit('U15b', 'spawning: a table entry becomes the child\'s descriptor for that same file', repo, ['C10'], safety_props=['C01', 'C10'])
    src = u.source('brush-core/src/openfiles.rs')
    u.raw(HEADER)
    u.prelude('fds/stdio_spec.rs')
    en = src.item(r'^pub enum OpenFile ', 'OpenFile').r1(keep_derive=())
    for a, b in [('std::io::Stdin', 'StdinH'), ('std::io::Stdout', 'StdoutH'), ('std::io::Stderr', 'StderrH'), ('std::fs::File', 'FileH'),
                 ('std::io::PipeReader', 'PipeReaderH'), ('std::io::PipeWriter', 'PipeWriterH'), ('Box<dyn Stream>', 'StreamBox')]:
        en.replace(a, b, 'R9', 'std handle type -> opaque stub with a ghost file identity')
    u.add(en)
    u.raw('''impl OpenFile {
    pub open spec fn ident(&self) -> FileId {
        match self { OpenFile::Stdin(h) => h.ident(), OpenFile::Stdout(h) => h.ident(), OpenFile::Stderr(h) => h.ident(), OpenFile::File(h) => h.ident(),
                     OpenFile::PipeReader(h) => h.ident(), OpenFile::PipeWriter(h) => h.ident(), OpenFile::Stream(_) => Stdio::null_ident() }
    }
    // OpenFile::try_clone_to_owned (openfiles.rs): dup(2) of the descriptor the entry stands for
    #[verifier::external_body]
    pub fn try_clone_to_owned(self) -> (r: Result<OwnedFd, error::Error>) ensures r is Ok ==> r->Ok_0.ident() == self.ident() { unimplemented!() }
}
''')
    im = src.item(r'^impl TryFrom<OpenFile> for Stdio ', 'impl TryFrom<OpenFile> for Stdio')
    im.resub(r'^[ \t]*#\[cfg\(not\(unix\)\)\]\n[^\n]*\n', '', 'R10', 'cfg resolved for the unix target: the not(unix) arm dropped', count=None)
    im.resub(r'^[ \t]*#\[cfg\(unix\)\]\n', '', 'R10', 'cfg resolved for the unix target', count=None)
    im.r1()
    im.sig('try_from', ret='res', ensures=[
        C('C10 child-gets-the-file-the-entry-stands-for', 'res is Ok ==> res->Ok_0.ident() == open_file.ident()')], no_canary=True)
    u.add(im)
    u.raw('''impl vstd::std_specs::convert::TryFromSpecImpl<OpenFile> for Stdio {
    open spec fn obeys_try_from_spec() -> bool { false }
    open spec fn try_from_spec(v: OpenFile) -> Result<Self, error::Error> { arbitrary() }
}
''')
    # ---- compose_std_command: the three standard slots (R6 slice) and the predicate that selects the other descriptors (R6 block slice)
    cm = u.source('brush-core/src/commands.rs')
    for k, v in (('STDIN_FD', 0), ('STDOUT_FD', 1), ('STDERR_FD', 2)):
        src.require_text(r'pub const %s: ShellFd = %d;' % (k, v), 'projected constant OpenFiles::%s' % k)
    fn = 'child_std_streams'
    t = cm.slice('compose_std_command', r'^\s*match context\.try_fd\(OpenFiles::STDIN_FD\) \{', r'^\s*match context\.try_fd\(OpenFiles::STDERR_FD\) \{',
                 'fn child_std_streams(context: &ExecutionContext, cmd: &mut StdCommand) -> Result<(), error::Error>', fn)
    t.r1()
    t.resub(r'let as_stdio: Stdio = (\w+)\.try_into\(\)\?;', r'let as_stdio: Stdio = Stdio::try_from(\1)?;', 'R14', 'x.try_into()? -> the TryFrom impl called by name (the impl above, under contract)', count=None)
    t.resub(r'\n\}$', '\n    Ok(())\n}', 'R6', 'wrapper epilogue `Ok(())`', count=1)
    t.sig(fn, ret='res', requires=[C('aux fresh-command', 'old(cmd).slot(0) is Inherit && old(cmd).slot(1) is Inherit && old(cmd).slot(2) is Inherit')], ensures=[
        C('C10 each-standard-slot-of-the-child-is-the-table-entry-for-it kf=C10:external-command-inherits-closed-std-stream', '''res is Ok ==> forall|k: int| 0 <= k <= 2 ==>
    slot_ok(context.view(k as ShellFd), k, #[trigger] final(cmd).slot(k), {{KF:C10:external-command-inherits-closed-std-stream}} && final(cmd).slot(k) is Inherit)''')])
    u.add(t)
    import re as _re
    m = _re.search(r'let other_files = context\.iter_fds\(\)\.filter\(\|\((\w+), (\w+)\)\| \{\n', cm.text)
    if not m:
        from vx.extract import ExtractError
        raise ExtractError('compose_std_command: `let other_files = context.iter_fds().filter(|(a, b)| {` not found')
    a1, a2 = m.group(1), m.group(2)
    fn = 'other_fd_is_injected'
    g = cm.block_slice(r'^\s*let other_files = context\.iter_fds\(\)\.filter\(\|\(\w+, \w+\)\| \{$',
                       'fn other_fd_is_injected(%s: &ShellFd, %s: &OpenFile) -> bool' % (a1, a2 if a2 != '_' else '_file'), fn, within_fn='compose_std_command')
    g.r1()
    g.sig(fn, ret='r', ensures=[C('C10 every-descriptor-other-than-0-1-2-is-handed-to-the-child-whatever-it-duplicates', 'r == (*%s != 0 && *%s != 1 && *%s != 2)' % (a1, a1, a1))])
    u.add(g)
    cm.require_text(r'cmd\.inject_fds\(other_files\)\?;', 'the selected descriptors are injected')
    u.raw(FOOTER)
    u.assume('external_body', "std handle types are opaque with a ghost file identity; try_clone / From<handle> for Stdio / try_clone_to_owned keep the identity (dup(2)); Stdio::inherit() yields the shell's descriptor for the slot being filled (std documented behaviour)")
    u.assume('uninterp', 'ident, slot_default, null_ident')
    u.assume('stub', 'the rest of compose_std_command (environment, arguments) and CommandFdInjectionExt::inject_fds (iterator chain over command-fds mappings) are NOT verified; Iterator::filter keeps exactly the elements the predicate accepts (std); non-unix targets keep inherit()')
    u.assume('uninterp', 'ExecutionContext::view, StdCommand::slot')
    u.expected_min_fns = 3
    return u
