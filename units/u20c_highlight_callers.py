"""U20c: highlight_program / highlight_word_piece with the span builder (brush-interactive/src/highlighting.rs), release-build
semantics: the spans tile [0, cursor) at every step and every call covers exactly the text it was given."""
from vx.unit import Unit
from vx.extract import C

PROPS = ['C19', 'C01']
HEADER = 'use vstd::prelude::*;\nuse vstd::std_specs::iter::IteratorSpec;\nverus! {\n'
FOOTER = '\n} // verus!\nfn main() {}\n'
T0 = 'tiles(old(self).spans@, old(self).current_byte_index as int)'
T1 = 'tiles(final(self).spans@, final(self).current_byte_index as int)'
TI = 'tiles(self.spans@, self.current_byte_index as int)'


def build(repo, findings):
    u = Unit('U20c', 'highlighter callers: spans tile the line; every call covers exactly its text (tokenizer / word parser assumed well-formed)', repo, ['C19'], safety_props=['C01', 'C19'])
    src = u.source('brush-interactive/src/highlighting.rs')
    wsrc = u.source('brush-parser/src/word.rs')
    u.raw(HEADER)
    u.prelude('std/utf8.rs')
    u.add(src.item(r'^pub enum HighlightKind ', 'HighlightKind').r1())
    u.add(src.item(r'^pub struct HighlightSpan ', 'HighlightSpan').r1(keep_derive=()))
    hs = src.item(r'^impl HighlightSpan ', 'impl HighlightSpan').r1().r11()
    hs.sig('new', ret='r', ensures=[C('C19 span-new', 'r.range == range && r.kind == kind')])
    u.add(hs)
    u.add(wsrc.item(r'^pub struct WordPieceWithSource ', 'WordPieceWithSource').r1(keep_derive=()))
    u.add(wsrc.item(r'^pub enum WordPiece ', 'WordPiece').r1(keep_derive=()))
    u.raw('''pub uninterp spec fn range_is_empty_spec<Idx>(r: std::ops::Range<Idx>) -> bool;
pub assume_specification<Idx> [std::ops::Range::<Idx>::is_empty] (r: &std::ops::Range<Idx>) -> (e: bool)
    where Idx: std::cmp::PartialOrd + std::cmp::PartialOrd,
    ensures e == range_is_empty_spec(*r);
pub broadcast axiom fn axiom_range_is_empty_usize(r: std::ops::Range<usize>)
    ensures #[trigger] range_is_empty_spec(r) == !(r.start < r.end);
pub assume_specification<Idx: Clone> [<std::ops::Range<Idx> as Clone>::clone] (r: &std::ops::Range<Idx>) -> (c: std::ops::Range<Idx>)
    ensures c == *r;
''')
    u.prelude('spans/callers_spec.rs')
    st = src.item(r'^struct Highlighter<', 'Highlighter').r1()
    st.replace("<'a, SE: brush_core::ShellExtensions>", "<'a>", 'R4', 'extension generic erased')
    st.replace('brush_core::Shell<SE>', 'Shell', 'R4', 'Shell<SE> -> context stub')
    st.r11().pub_fields()
    u.add(st)
    u.raw("impl<'a> Highlighter<'a> {\n    // classification of a word (command lookup, keywords): an arbitrary kind; reads the shell only\n    #[verifier::external_body]\n    fn get_kind_for_word(&self, w: &str, token_range: &std::ops::Range<usize>, saw_command_token: &mut bool) -> HighlightKind { unimplemented!() }\n}\n")
    im = src.item(r"^impl<'a, SE: brush_core::ShellExtensions> Highlighter<'a, SE> ", 'impl Highlighter').r1()
    im.replace("impl<'a, SE: brush_core::ShellExtensions> Highlighter<'a, SE>", "impl<'a> Highlighter<'a>", 'R4', 'extension generic erased')
    im.keep_only_fns(['new', 'highlight_program', 'highlight_word_piece', 'append_span', 'skip_ahead', 'set_next_missing_kind'],
                     'get_kind_for_word / classify_possible_command (command lookup; results do not influence span geometry) — stubbed')
    im.replace('brush_core::Shell<SE>', 'Shell', 'R4', 'Shell<SE> -> context stub')
    im.resub(r'^[ \t]*debug_assert!\((?:[^;]|\n)*?\);\n', '', 'R2', 'debug_assert! dropped: release-build semantics (the debug build is the subject of unit U20)', count=None)
    # highlight_program: the char-index -> byte-offset table and its closure
    im.resub(r'let char_byte_offsets: Vec<usize> = line\s*\.char_indices\(\).*?\.collect\(\);', 'let char_byte_offsets = char_byte_offsets_of(line);', 'R14', 'iterator chain building the char->byte offset table -> stub', flags=16)
    im.resub(r'[ \t]*let byte_offset = \|char_offset: usize\| \{.*?\n[ \t]*\};\n', '', 'R14', 'lookup closure over the table -> named stub byte_offset_of (calls rewritten)', flags=16)
    im.resub(r'\bbyte_offset\(([^()]*(?:\([^()]*\))?[^()]*)\)', r'byte_offset_of(&char_byte_offsets, \1)', 'R14', 'closure call -> stub call', count=None)
    im.resub(r'\bline\s*\.get\((\w+)\.\.(\w+)\)\s*\.unwrap_or\(""\)', r'str_get_or_empty(line, \1, \2)', 'R19', 'str::get(range).unwrap_or("") -> stub', count=None)
    im.resub(r'str_get_or_empty\(line, (\w+), (\w+)\)\s*\.trim(?:_start|_end)?(?:_matches)?\((?:[^()]|\([^()]*\))*\)', r'str_some_trimmed(str_get_or_empty(line, \1, \2))', 'R14', 'a trim of the raw slice -> stub (some sub-slice of it)', count=None)
    im.resub(r'tokens\.sort_by_key\(\|token\| token\.location\(\)\.start\.index\);', 'sort_tokens_by_start(&mut tokens);', 'R14', 'slice::sort_by_key with a key closure -> stub (stable permutation sorted by start offset)', count=None)
    im.resub(r'input_line\s*\.get\(((?:(?!\.\.)[^\n])+?)\.\.((?:(?!\.\.)[^\n])+?)\)\s*\.unwrap_or\(command\.as_str\(\)\)', r'str_get_or(input_line, \1, \2, command.as_str())', 'R19', 'str::get(range).unwrap_or(fallback) -> stub (None unless both ends are character boundaries within the text)', count=None)
    im.resub(r'str_get_or\(input_line, ([^,]+), (\w+(?:\.\w+)*)\.saturating_sub\(1\), command', r'str_get_or(input_line, \1, if \2 >= 1 { \2 - 1 } else { 0 }, command', 'R19', 'usize::saturating_sub(1) spelled out', count=None)
    im.resub(r'\bline\.len\(\)', 'str_len(line)', 'R19', 'str::len -> str_len stub (byte length)', count=None)
    # R24: by-value traversal of the token / piece trees -> by reference (ownership is not observable in the spans)
    im.resub(r'for token in tokens \{', 'for token in tokens.iter() {', 'R24', 'consuming iteration -> by reference', count=None)
    im.resub(r'for word_piece in word_pieces \{', 'for word_piece in word_pieces.iter() {', 'R24', 'consuming iteration -> by reference', count=None)
    im.resub(r'word_piece: brush_parser::word::WordPieceWithSource,', 'word_piece: &brush_parser::word::WordPieceWithSource,', 'R24', 'by-value parameter -> reference', count=None)
    im.resub(r'match word_piece\.piece \{', 'match &word_piece.piece {', 'R24', 'match on the owned field -> on a reference to it', count=None)
    im.resub(r'match token \{', 'match token {', 'R24', 'no-op', count=None)
    im.r11()
    im.sig('new', ret='r', ensures=[C('C19 new-tiles', 'tiles(r.spans@, r.current_byte_index as int) && r.current_byte_index == 0 && r.input_line == input_line')])
    im.sig('append_span', requires=[C('aux tiles-in', T0), C('aux caller-duty cur<=start<=end', 'old(self).current_byte_index <= range.start <= range.end')], ensures=[
        C('C19 tiles-preserved', T1), C('C19 cursor-at-end', 'final(self).current_byte_index == range.end'),
        C('C19 frame', 'final(self).input_line == old(self).input_line && final(self).next_missing_kind == old(self).next_missing_kind')])
    im.before(r'^\s*// See if we need to cover a gap', 'broadcast use axiom_range_is_empty_usize;', fn_name='append_span')
    im.sig('skip_ahead', requires=[C('aux tiles-in', T0), C('aux caller-duty cur<=dest', 'old(self).current_byte_index <= dest')], ensures=[
        C('C19 tiles-preserved', T1), C('C19 cursor-at-dest', 'final(self).current_byte_index == dest'), C('C19 frame', 'final(self).input_line == old(self).input_line')])
    im.sig('set_next_missing_kind', ensures=[
        C('C19 frame', 'final(self).spans == old(self).spans && final(self).current_byte_index == old(self).current_byte_index && final(self).input_line == old(self).input_line')])
    im.sig('highlight_program', requires=[
        C('aux tiles-in', T0), C('aux caller-duty cursor-not-past-the-text', 'old(self).current_byte_index <= global_offset'),
        C('aux offsets-fit', 'global_offset + byte_len(line@) <= isize::MAX'),
    ], ensures=[
        C('C19 tiles-preserved', T1),
        C('C19 program-covers-exactly-its-text', 'final(self).current_byte_index == global_offset + byte_len(line@)'),
        C('C19 frame', 'final(self).input_line == old(self).input_line'),
    ], decreases='byte_len(line@), 1int')
    im.sig('highlight_word_piece', requires=[
        C('aux tiles-in', T0), C('aux caller-duty cursor-not-past-the-piece', 'old(self).current_byte_index <= global_offset + word_piece.start_index'),
        C('aux piece-well-formed', 'exists|lo: int, hi: int| piece_wf(*word_piece, lo, hi)'),
        C('aux offsets-fit', 'global_offset + word_piece.end_index <= isize::MAX'),
    ], ensures=[
        C('C19 tiles-preserved', T1),
        C('C19 piece-covers-exactly-its-range', 'final(self).current_byte_index == global_offset + word_piece.end_index'),
        C('C19 frame', 'final(self).input_line == old(self).input_line'),
    ], decreases='word_piece.end_index - word_piece.start_index, 0int')
    fn = 'highlight_program'
    LINEF = 'self.input_line == old(self).input_line && global_offset + byte_len(line@) <= isize::MAX && char_byte_offsets.text() == line@'
    PREV = '(if it.index@ == 0 { 0int } else { token_span(tokens@[it.index@ - 1]).end.index as int })'
    im.at_body_start(fn, 'proof { axiom_str_fits_usize(line); lemma_byte_len_nonneg(line@); }')
    im.after_line(r'^\s*sort_tokens_by_start\(&mut tokens\);', 'proof { lemma_sorted_tokens_wf(tokens0@, tokens@, line@.len() as int); }', fn_name=fn, optional=True)
    im.after_line(r'^\s*let mut tokens = tokens;', 'let ghost tokens0 = tokens;', fn_name=fn, optional=True)
    im.loop(0, fn_name=fn, iter_name='it', invariant=[
        C('aux', 'it.index@ + it.iter.remaining().len() == tokens@.len()'),
        C('aux', 'forall|k: int| 0 <= k < it.iter.remaining().len() ==> *(#[trigger] it.iter.remaining()[k]) == tokens@[it.index@ + k]'),
        C('aux', 'tokens_wf(tokens@, line@.len() as int)'),
        C('aux', LINEF),
        C('C19 tiles-so-far', TI),
        C('C19 cursor-not-past-the-previous-token', 'self.current_byte_index <= global_offset + byte_offset_spec(line@, %s)' % PREV),
        C('C19 cursor-inside-the-text', 'self.current_byte_index <= global_offset + byte_len(line@)'),
    ], body_first='''proof {
    let i = it.index@ as int;
    assert(*token == tokens@[i]);
    let sp = token_span(tokens@[i]);
    if i > 0 { assert(token_span(tokens@[i - 1]).end.index <= token_span(tokens@[i - 1 + 1]).start.index); }
    lemma_byte_offset_monotone(line@, %s, sp.start.index as int);
    lemma_byte_offset_monotone(line@, sp.start.index as int, sp.end.index as int);
}''' % PREV)
    PPREV = '(if itp.index@ == 0 { 0int } else { word_pieces@[itp.index@ - 1].end_index as int })'
    im.loop(1, fn_name=fn, iter_name='itp', invariant=[
        C('aux', 'itp.index@ + itp.iter.remaining().len() == word_pieces@.len()'),
        C('aux', 'forall|k: int| 0 <= k < itp.iter.remaining().len() ==> *(#[trigger] itp.iter.remaining()[k]) == word_pieces@[itp.index@ + k]'),
        C('aux', 'pieces_wf(word_pieces@, 0, byte_len(raw_word_text@))'),
        C('aux', LINEF),
        C('aux', 'start_byte <= end_byte && byte_len(raw_word_text@) <= end_byte - start_byte && token_range.start == global_offset + start_byte && token_range.end == global_offset + end_byte'),
        C('aux', 'end_byte == byte_offset_spec(line@, token_span(*token).end.index as int) && end_byte <= byte_len(line@)'),
        C('C19 tiles-so-far', TI),
        C('C19 cursor-not-past-the-previous-piece', 'self.current_byte_index <= token_range.start + %s' % PPREV),
    ], body_first='''proof {
    let k = itp.index@ as int;
    assert(*word_piece == word_pieces@[k]);
    assert(piece_wf(word_pieces@[k], 0, byte_len(raw_word_text@)));
    if k > 0 { assert(word_pieces@[k - 1].end_index <= word_pieces@[k - 1 + 1].start_index); }
}''')
    im.after_loop(fn, 1, 'proof { if word_pieces@.len() > 0 { assert(piece_wf(word_pieces@[word_pieces@.len() - 1], 0, byte_len(raw_word_text@))); } }')
    fn = 'highlight_word_piece'
    SPREV = '(if its.index@ == 0 { word_piece.start_index as int } else { subpieces@[its.index@ - 1].end_index as int })'
    im.loop(0, fn_name=fn, iter_name='its', invariant=[
        C('aux', 'its.index@ + its.iter.remaining().len() == subpieces@.len()'),
        C('aux', 'forall|k: int| 0 <= k < its.iter.remaining().len() ==> *(#[trigger] its.iter.remaining()[k]) == subpieces@[its.index@ + k]'),
        C('aux', 'forall|i: int| 0 <= i < subpieces@.len() ==> piece_wf(#[trigger] subpieces@[i], word_piece.start_index + 1, word_piece.end_index - 1)'),
        C('aux', 'forall|i: int| 0 <= i < subpieces@.len() - 1 ==> (#[trigger] subpieces@[i]).end_index <= subpieces@[i + 1].start_index'),
        C('aux', 'self.input_line == old(self).input_line && global_offset + word_piece.end_index <= isize::MAX && word_piece.start_index + 2 <= word_piece.end_index'),
        C('C19 tiles-so-far', TI),
        C('C19 cursor-not-past-the-previous-piece', 'self.current_byte_index <= global_offset + %s' % SPREV),
    ], body_first='''proof {
    let k = its.index@ as int;
    assert(*subpiece == subpieces@[k]);
    assert(piece_wf(subpieces@[k], word_piece.start_index + 1, word_piece.end_index - 1));
    if k > 0 { assert(subpieces@[k - 1].end_index <= subpieces@[k - 1 + 1].start_index); }
}''')
    im.after_loop(fn, 0, 'proof { if subpieces@.len() > 0 { assert(piece_wf(subpieces@[subpieces@.len() - 1], word_piece.start_index + 1, word_piece.end_index - 1)); } }')
    im.at_body_start(fn, 'let ghost lohi = choose|lohi: (int, int)| piece_wf(*word_piece, lohi.0, lohi.1);\nproof { let (lo, hi) = choose|lo: int, hi: int| piece_wf(*word_piece, lo, hi); assert(piece_wf(*word_piece, (lo, hi).0, (lo, hi).1)); assert(piece_wf(*word_piece, lohi.0, lohi.1)); }')
    im.before_loop(fn, 0, 'proof { assert(piece_wf(*word_piece, lohi.0, lohi.1)); }')
    im.before(r'^\s*self\.highlight_program\(', '''proof {
    assert(piece_wf(*word_piece, lohi.0, lohi.1));
    lemma_byte_len_nonneg(command@);
    assert(word_piece.piece is CommandSubstitution ==> word_piece.start_index + 2 + byte_len(word_piece.piece->CommandSubstitution_0@) + 1 <= word_piece.end_index);
    assert(word_piece.piece is BackquotedCommandSubstitution ==> word_piece.start_index + 1 + byte_len(word_piece.piece->BackquotedCommandSubstitution_0@) + 1 <= word_piece.end_index);
}''', fn_name=fn, nth=None, optional=True)
    u.add(im)
    u.raw(FOOTER)
    u.assume('external_body', 'brush_parser::tokenize_str_with_options and brush_parser::word::parse are stubs whose results are ASSUMED well-formed (tokens_sortable: token offsets inside the text, pairwise disjoint, same-start tokens only after an empty one — NOT ordered; pieces_wf: offsets inside the word, ordered, nested, a `$(..)` command fits between its delimiters); slice::sort_by_key is a stub stating the documented behaviour of std (stable permutation sorted by key); get_kind_for_word is an arbitrary kind; the char->byte offset table and str::get(..).unwrap_or("") are R14/R19 stubs')
    u.assume('assume_specification', 'Range::<usize>::is_empty() == !(start < end); String::len is the length in bytes')
    u.assume('axiom', 'meaning of Range::is_empty at usize; a string has at most isize::MAX bytes')
    u.assume('uninterp', 'range_is_empty_spec, CharByteOffsets::text')
    u.assume('stub', 'character boundaries of span ends are NOT claimed here (piece offsets from the word parser are not known to be boundaries); Arc<SourcePosition> is projected to SourcePosition')
    u.expected_min_fns = 6
    u.rlimit = 60
    return u
