"""U73: coalesce_expansions (brush-core/src/expansion.rs), whole function with the real Expansion / WordField / ExpansionPiece and
`impl Default for Expansion`: the first field of each expanded piece continues the last field so far, the other fields follow in
order.  `iter.fold(init, |mut acc, x| { BODY; acc })` is written as the loop it is (R32)."""
import re
from vx.unit import Unit
from vx.extract import C, ExtractError

PROPS = ['C05', 'C04']
HEADER = 'use vstd::prelude::*;\nuse vstd::std_specs::iter::IteratorSpec;\nverus! {\n'
FOOTER = '\n} // verus!\nfn main() {}\n'


def build(repo, findings):
    u = Unit('U73', 'adjacent pieces of a word: the first field of each continues the last field so far, the rest follow in order', repo, PROPS, safety_props=[])
    ex = u.source('brush-core/src/expansion.rs')
    u.raw(HEADER)
    u.add(ex.item(r'^enum ExpansionPiece ', 'ExpansionPiece').r1(keep_derive=()).r11_pub())
    u.add(ex.item(r'^struct WordField\(', 'WordField').r1(keep_derive=()).replace('struct WordField(Vec<ExpansionPiece>);', 'pub struct WordField(pub Vec<ExpansionPiece>);', 'R11', 'visibility widened (single-file crate)'))
    u.add(ex.item(r'^struct Expansion ', 'Expansion').r1(keep_derive=()).r11_pub().pub_fields())
    d = ex.item(r'^impl Default for Expansion ', 'impl Default for Expansion').r1()
    d.resub(r'impl Default for Expansion \{\n\s*fn default\(\) -> Self \{', 'impl Expansion {\n    pub fn vx_default() -> Self {', 'R14', 'trait impl Default -> inherent fn of the same body (trait impls cannot carry ensures)', count=1)
    d.sig('vx_default', ret='r', ensures=[C('aux the-empty-expansion', 'r.fields@.len() == 0 && r.concatenate && !r.from_array && !r.undefined')])
    u.prelude('expansion/coalesce_spec.rs')
    u.add(d)
    fn = 'coalesce_expansions'
    f = ex.item(r'^fn coalesce_expansions\(', fn).r1()
    m = re.search(r'\n(\s*)expansions\s*\.into_iter\(\)\s*\.fold\(Expansion::default\(\), \|mut acc, expansion\| \{\n(.*)\n\s*acc\n\s*\}\)\n\}\s*$', f.text, re.S)
    if not m:
        raise ExtractError('unsupported: coalesce_expansions is not `expansions.into_iter().fold(Expansion::default(), |mut acc, expansion| { .. acc })`')
    f.resub(re.escape(m.group(0)), '\n    let mut acc = Expansion::vx_default();\n    for expansion in expansions {\n' + m.group(2).replace('\\', '\\\\') + '\n    }\n    acc\n}', 'R32',
            '`iter.fold(init, |mut acc, x| { BODY; acc })` -> `let mut acc = init; for x in iter { BODY } acc` (what fold does, std)', count=1)
    f.resub(r'for \(i, mut field\) in expansion\.fields\.into_iter\(\)\.enumerate\(\) \{', 'for (i, field_) in expansion.fields.into_iter().enumerate() {\n                let mut field = field_;', 'R29', '`mut` binding in the loop pattern -> plain binding plus a local', count=1)
    inner = f.loop_ordinal(fn, r'for \(i, field_\) in')
    f.r12(fn, inner)
    f.sig(fn, ret='r', ensures=[
        C('C05,C04 the-first-field-of-each-piece-continues-the-last-field-so-far-the-rest-follow-in-order', 'fsv(r.fields@) =~~= coalesce(expansions@)'),
        C('C05 the-flags-are-those-of-the-last-piece', 'expansions@.len() > 0 ==> (r.concatenate == expansions@.last().concatenate && r.from_array == expansions@.last().from_array)'),
        C('C05 putting-pieces-together-never-makes-the-word-unset', '!r.undefined'),
    ])
    f.at_body_start(fn, 'broadcast use lemma_coalesce_push;\nlet ghost all = expansions@;')
    outer = f.loop_ordinal(fn, r'for expansion in expansions')
    f.loop(outer, fn, iter_name='ito', invariant=[
        C('aux', 'ito.index@ + ito.iter.remaining().len() == all.len()'),
        C('aux', 'forall|i: int| 0 <= i < ito.iter.remaining().len() ==> (#[trigger] ito.iter.remaining()[i]) == all[ito.index@ + i]'),
        C('C05,C04 pieces-so-far-put-together', 'fsv(acc.fields@) =~~= coalesce(all.take(ito.index@ as int))'),
        C('C05 flags-so-far', '!acc.undefined && (ito.index@ > 0 ==> (acc.concatenate == all[ito.index@ - 1].concatenate && acc.from_array == all[ito.index@ - 1].from_array))'),
    ], body_first='''broadcast use lemma_coalesce_push;
let ghost a0 = fsv(acc.fields@);
let ghost fs = fsv(expansion.fields@);
let ghost conc = expansion.concatenate;
let ghost arr = expansion.from_array;
proof {
    assert(expansion == all[ito.index@ as int]);
    assert(all.take(ito.index@ as int + 1) =~= all.take(ito.index@ as int).push(all[ito.index@ as int]));
    assert(fs.take(0) =~~= Seq::<Seq<ExpansionPiece>>::empty());
    assert(fs.len() == expansion.fields@.len());
    axiom_vec_len_fits(expansion.fields);
}''')
    f.after_loop(fn, outer, 'proof { assert(all.take(all.len() as int) =~= all); }')
    f.loop(inner, fn, iter_name='iti', invariant=[
        C('aux', '__n == iti.index@ && iti.index@ + iti.iter.remaining().len() == fs.len() && fs.len() <= usize::MAX'),
        C('aux', 'forall|i: int| 0 <= i < iti.iter.remaining().len() ==> fv(#[trigger] iti.iter.remaining()[i]) == fs[iti.index@ + i]'),
        C('C05,C04 fields-of-this-piece-so-far-glued-on', 'fsv(acc.fields@) =~~= glue(a0, fs.take(iti.index@ as int))'),
        C('aux', '!acc.undefined'),
    ], body_first='''proof {
    lemma_glue_step(a0, fs, iti.index@ as int);
    assert(fv(field_) == fs[iti.index@ as int]);
}''')
    f.after_loop(fn, inner, 'proof { assert(fs.take(fs.len() as int) =~~= fs); }')
    u.add(f)
    u.raw(FOOTER)
    u.assume('external_body', 'derived Clone of ExpansionPiece returns an equal value (not used by the function; kept for the derive)')
    u.assume('axiom', 'the length of a Vec fits a usize (Vec::len)')
    u.assume('stub', 'that basic_expand hands the expansions of the word\'s pieces to this function in source order is outside this unit')
    u.expected_min_fns = 2
    return u
