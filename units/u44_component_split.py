"""U44: the loop of Pattern::expand (brush-core/src/patterns.rs) that cuts the pieces of a word into path components (R6 slice; the
`.map(..).collect()` into a VecDeque is put into its element-by-element form, rule R28): every fragment keeps the kind (literal or
pattern) and the text of the piece it comes from, in order, with the component boundaries where the separators are."""
from vx.unit import Unit
from vx.extract import C
from .common import replay_scripts

PROPS = ['C04', 'C08', 'C05']
HEADER = 'use vstd::prelude::*;\nuse vstd::std_specs::iter::IteratorSpec;\nuse std::collections::VecDeque;\nverus! {\n'
FOOTER = '\n} // verus!\nfn main() {}\n'


def build(repo, findings):
    u = Unit('U44', 'path components of a glob word: every fragment keeps the kind and text of its piece', repo, ['C04', 'C08', 'C05'], safety_props=['C04'])
    pt = u.source('brush-core/src/patterns.rs')
    fs = u.source('brush-core/src/sys/unix/fs.rs')
    fs.require_text(r"pub fn split_path_for_pattern\(s: &str\) -> impl Iterator<Item = &str> \{\s*s\.split\('/'\)\s*\}", "split_path_for_pattern is `s.split('/')`")
    pt.require_text(r'pub struct Pattern \{(?:[^}]|\n)*?\n\s*pieces: PatternWord,', 'projected field Pattern.pieces')
    u.raw(HEADER)
    u.add(pt.item(r'^pub\(crate\) enum PatternPiece ', 'PatternPiece').r1(keep_derive=()).r11())
    u.add(pt.item(r'^type PatternWord = ', 'PatternWord').r1().r11_pub())
    u.raw('pub struct Pattern { pub pieces: PatternWord }      // projection (field checked)\n')
    u.prelude('patterns/components_spec.rs')
    ip = pt.item(r'^impl PatternPiece ', 'impl PatternPiece').r1().r11()
    ip.sig('as_str', ret='r', ensures=[C('aux piece-string', 'r@ == ptext(*self)')])
    u.add(ip)
    fn = 'split_into_components'
    f = pt.slice('expand', r'^\s*let mut components: Vec<PatternWord> = vec!\[\];', r'^\s*for piece in &self\.pieces \{$',
                 'fn split_into_components(self_: &Pattern) -> Vec<PatternWord>', fn)
    f.r1()
    f.resub(r'\bself\.', 'self_.', 'R6', 'slice wrapper: self -> self_', count=None)
    f.resub(r'for piece in &self_\.pieces \{', 'for piece in self_.pieces.iter() {', 'R24', 'iteration over &Vec -> .iter()', count=None)
    f.resub(r'\bcomponents\.last_mut\(\)', 'vx_last_mut(&mut components)', 'R14', 'Vec::last_mut -> stub', count=None)
    f.resub(r'\n\}$', '\n    components\n}', 'R6', 'wrapper epilogue returning the live variable `components`', count=1)
    f.r28_collect(elem_type='PatternPiece')
    f.sig(fn, ret='components_', attrs=['#[verifier::loop_isolation(false)]', '#[verifier::allow_complex_invariants]'], ensures=[
        C('C04,C08,C05 every-fragment-keeps-the-kind-and-text-of-its-piece-and-components-break-at-the-separators',
          'cview(components_@) =~~= comps(self_.pieces@, self_.pieces@.len() as int)'),
    ])
    k_out = f.loop_ordinal(fn, r'for piece in self_\.pieces\.iter\(\)')
    k_r28 = f.loop_ordinal(fn, r'__r28\.next\(\)')
    k_wh = f.loop_ordinal(fn, r'while let Some\(\w+\) = split_result\.pop_front\(\)')
    # innermost / later loops first so that ordinals of earlier ones stay valid
    f.loop(k_wh, fn_name=fn, invariant_except_break=[
        C('aux', '1 <= k <= fr.len() && split_result@.len() == fr.len() - k && cs1.len() >= 1'),
        C('aux remaining-fragments', 'forall|j: int| 0 <= j < split_result@.len() ==> (#[trigger] split_result@[j]).ftext() == fr[k + j]'),
        C('aux remaining-kinds', 'forall|j: int| 0 <= j < split_result@.len() ==> (#[trigger] split_result@[j]).kind_ok(p0)'),
        C('C04,C08 further-fragments-start-components-of-their-own-with-the-kind-of-the-piece', 'cview(components@) =~~= cs1 + singles(lit, fr.skip(1).take(k - 1))'),
    ], ensures=[
        C('aux', 'k == fr.len()'),
        C('C04,C08 all-further-fragments-placed', 'cview(components@) =~~= cs1 + singles(lit, fr.skip(1).take(k - 1))'),
    ], decreases='split_result@.len()', body_first='let ghost cv0 = cview(components@);', body_last='''proof {
    assert(components@.last()@.len() == 1 && pv(components@.last()@[0]) == (lit, fr[k]));
    assert(cview(components@) =~~= cv0.push(seq![(lit, fr[k])]));
    assert(singles(lit, fr.skip(1).take(k)) =~~= singles(lit, fr.skip(1).take(k - 1)).push(seq![(lit, fr[k])]));
    k = k + 1;
}''')
    f.before(r'^\s*while let Some\(\w+\) = split_result\.pop_front\(\)', '''proof {
    assert(split_result@ =~= sr0.skip(1));
    if comps0.len() > 0 {
        let m = comps0.len() - 1;
        assert(components@.len() == comps0.len());
        assert(components@[m]@.len() == comps0[m]@.len() + 1 && components@[m]@.drop_last() =~= comps0[m]@ && pv(components@[m]@.last()) == (lit, fr[0]));
        assert forall|r: int| 0 <= r < components@.len() implies #[trigger] cview(components@)[r] =~= add_first(cs0, (lit, fr[0]))[r] by {
            if r == m { } else { assert(components@[r] == comps0[r]); }
        }
    } else {
        assert(components@ =~= seq![components@[0]]);
        assert(components@[0]@.len() == 1 && pv(components@[0]@[0]) == (lit, fr[0]));
        assert(cview(components@)[0] =~= seq![(lit, fr[0])]);
    }
}
let ghost cs1 = add_first(cs0, (lit, fr[0]));
proof { assert(cview(components@) =~~= cs1); assert(singles(lit, fr.skip(1).take(0)) =~~= Seq::<Seq<PV>>::empty()); }
let ghost mut k: int = 1;''', fn_name=fn)
    f.before(r'^\s*if let Some\(\w+\) = split_result\.pop_front\(\) \{', '''proof { assert(split_result@.len() == fr.len()); assert(split_result@[0].ftext() == texts(split_result@)[0]); }
let ghost sr0 = split_result@;
let ghost comps0 = components@;''', fn_name=fn)
    f.loop(k_r28, fn_name=fn, invariant_except_break=[
        C('aux fragments-so-far', 'texts(split_result@) + __r28.rest@ =~= fr'),
        C('C04,C08 queued-fragments-carry-the-kind-of-the-piece', 'forall|j: int| 0 <= j < split_result@.len() ==> (#[trigger] split_result@[j]).kind_ok(p0)'),
    ], ensures=[
        C('aux all-fragments-queued', 'texts(split_result@) =~= fr'),
        C('C04,C08 all-queued-fragments-carry-the-kind-of-the-piece', 'forall|j: int| 0 <= j < split_result@.len() ==> (#[trigger] split_result@[j]).kind_ok(p0)'),
    ], decreases='__r28.rest@.len()')
    f.loop(k_out, fn_name=fn, iter_name='it', invariant=[
        C('aux', 'n == self_.pieces@.len() && it.index@ + it.iter.remaining().len() == n'),
        C('aux', 'forall|j: int| 0 <= j < it.iter.remaining().len() ==> *(#[trigger] it.iter.remaining()[j]) == self_.pieces@[it.index@ + j]'),
        C('C04,C08,C05 components-so-far-are-what-the-rule-gives', 'cview(components@) =~~= comps(self_.pieces@, it.index@ as int)'),
    ], body_first='''broadcast use axiom_split_nonempty;
let ghost i = it.index@ as int;
let ghost fr = split_spec(ptext(*piece));
let ghost lit = *piece is Literal;
let ghost p0 = *piece;
let ghost cs0 = cview(components@);
proof { assert(*piece == self_.pieces@[i]); }''', body_last='proof { assert(fr.skip(1).take(fr.len() - 1) =~= fr.skip(1)); }')
    f.before(r'^\s*for piece in [^\n]*it: ', 'let ghost n = self_.pieces@.len() as int;', fn_name=fn)
    u.add(f)
    u.raw(FOOTER)
    u.assume('external_body', "sys::fs::split_path_for_pattern (`s.split('/')`, text checked: at least one fragment, fragments abstract), vx_last_mut (Vec::last_mut)")
    u.assume('axiom', 'a split yields at least one fragment')
    u.assume('uninterp', 'split_spec')
    u.assume('stub', 'the rest of Pattern::expand (roots, the walk: U10c / U10d) is outside this slice; a re-write of the loop in another shape needs its own invariants and stops the run undecided unless these carry over')
    u.expected_min_fns = 2
    u.counterexample = replay_scripts(repo, [
        ('cd "$(mktemp -d)"; mkdir -p top/v1 top/v2 "top/v[12]"; touch top/v1/decoy top/v2/decoy "top/v[12]/real"; d="top/v[12]"; echo "$d"/*', 'top/v[12]/real\n'),
        ('cd "$(mktemp -d)"; mkdir -p a/b; touch a/b/x1 a/b/x2; d="a/b"; echo "$d"/x*', 'a/b/x1 a/b/x2\n'),
    ])
    return u
