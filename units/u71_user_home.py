"""U71: sys::unix::users::get_user_home_dir (brush-core/src/sys/unix/users.rs), whole function: `~user` is the home directory the
password database gives for that user, whether or not it exists on disk (bash does not look); an unknown user gives none."""
from vx.unit import Unit
from vx.extract import C
from .common import replay_scripts

PROPS = ['C05']
HEADER = 'use vstd::prelude::*;\nverus! {\n'
FOOTER = '\n} // verus!\nfn main() {}\n'


def build(repo, findings):
    u = Unit('U71', '~user: the home directory from the password database, the file system is not asked', repo, PROPS, safety_props=[])
    us = u.source('brush-core/src/sys/unix/users.rs')
    u.raw(HEADER)
    u.raw('''#[verifier::external_body] pub struct Path { _p: u8 }
#[verifier::external_body] pub struct PathBuf { _p: u8 }
pub uninterp spec fn path_buf_of(p: &Path) -> PathBuf;
impl Path {
    #[verifier::external_body] pub fn to_path_buf(&self) -> (r: PathBuf) ensures r == path_buf_of(self) { unimplemented!() }
    // file-system queries: arbitrary answers (a result that depends on one of them cannot be proved to be the database's)
    #[verifier::external_body] pub fn is_dir(&self) -> bool { unimplemented!() }
    #[verifier::external_body] pub fn exists(&self) -> bool { unimplemented!() }
}
pub mod uzers { use vstd::prelude::*; use super::*;
    #[verifier::external_body] pub struct User { _p: u8 }
    pub uninterp spec fn user_db(name: Seq<char>) -> Option<User>;
    pub uninterp spec fn home_of(u: User) -> &'static Path;
    impl User { #[verifier::external_body] pub fn home_dir(&self) -> (r: &Path) ensures path_buf_of(r) == path_buf_of(home_of(*self)) { unimplemented!() } }
    #[verifier::external_body] pub fn get_user_by_name(name: &str) -> (r: Option<User>) ensures r == user_db(name@) { unimplemented!() }
}
''')
    fn = 'get_user_home_dir'
    f = us.item(r'^pub\(crate\) fn get_user_home_dir\(', fn).r1()
    f.sig(fn, ret='r', ensures=[
        C('C05 the-home-of-a-known-user-is-what-the-password-database-says', 'uzers::user_db(username@) is Some ==> r == Some(path_buf_of(uzers::home_of(uzers::user_db(username@)->Some_0)))'),
        C('C05 an-unknown-user-has-none', 'uzers::user_db(username@) is None ==> r is None'),
    ])
    u.add(f)
    u.raw(FOOTER)
    u.assume('external_body', 'the uzers crate (getpwnam) and std::path are stubs: lookups are functions of the name, file-system queries are arbitrary')
    u.assume('uninterp', 'user_db, home_of, path_buf_of')
    u.assume('stub', 'that the tilde rule of the word parser hands the name after `~` to this function, and the fallback to the literal text for an unknown user, are outside this unit (U56 covers `~` alone)')
    u.expected_min_fns = 1
    u.counterexample = replay_scripts(repo, [
        ('h=$(getent passwd nobody | cut -d: -f6); [ "$(echo ~nobody/x)" = "$h/x" ] && echo same || echo different', 'same\n'),
        ('echo ~no-such-user-zz/x', '~no-such-user-zz/x\n'),
    ])
    return u
