"""U67: the `${p@op}` arms of WordExpander::expand_parameter_expr and the last arm of apply_transform_to (brush-core/src/expansion.rs):
the arm that transforms field by field calls apply_transform_to, which ends in `unreachable!("covered in caller")` for `@a` and `@A`
— so those two operators must never reach it, whatever the parameter.  The arm PATTERNS (with their guards) are read into a generated
match on every run, the bodies replaced by the arm's number; the operators behind `unreachable!` are read off that arm's pattern."""
import re
from vx.unit import Unit
from vx.extract import ExtractError, fn_span, match_brace
from .common import replay_scripts

PROPS = ['C01']
HEADER = 'use vstd::prelude::*;\nverus! {\n'
FOOTER = '\n} // verus!\nfn main() {}\n'


def build(repo, findings):
    u = Unit('U67', '`${p@a}` / `${p@A}` never reach the field-by-field transform, whose last arm is unreachable!', repo, PROPS, safety_props=['C01'])
    ex = u.source('brush-core/src/expansion.rs')
    wd = u.source('brush-parser/src/word.rs')
    wd.require_text(r'\n    Transform \{\n(?:\s*///[^\n]*\n)*\s*parameter: Parameter,\n(?:\s*///[^\n]*\n)*\s*indirect: bool,\n(?:\s*///[^\n]*\n)*\s*op: ParameterTransformOp,\n\s*\},', 'ParameterExpr::Transform { parameter, indirect, op }')
    t = ex.text
    b, o, e = fn_span(t, 'expand_parameter_expr')
    body = t[o:e]
    arms = []
    for m in re.finditer(r'\n\s*(brush_parser::word::ParameterExpr::Transform \{.*?\}(?:\s*if [^\n]*?)?) => \{\n', body, re.S):
        pat = m.group(1)
        if '=>' in pat:
            raise ExtractError('unsupported: a Transform arm pattern of expand_parameter_expr spans an arrow')
        ob = o + m.end() - 2
        ce = match_brace(t, ob)
        arms.append((pat, t[ob:ce]))
    if not arms:
        raise ExtractError('anchor lost: no `ParameterExpr::Transform { .. } => {` arm in expand_parameter_expr')
    generic = [i for i, (p, bd) in enumerate(arms) if re.search(r'\.apply_transform_to\(&op, &s, came_from_undefined\)', bd)]
    if len(generic) != 1 or generic[0] != len(arms) - 1:
        raise ExtractError('unsupported: the arm calling `.apply_transform_to(&op, ..)` is not the last Transform arm (or the call changed shape)')
    for i, (p, bd) in enumerate(arms[:-1]):
        if 'apply_transform_to' in bd:
            raise ExtractError('unsupported: an earlier Transform arm calls apply_transform_to')
    # the operators apply_transform_to cannot handle: the patterns of its arm whose body is unreachable!
    b2, o2, e2 = fn_span(t, 'apply_transform_to')
    m2 = re.search(r'\n\s*((?:brush_parser::word::ParameterTransformOp::\w+(?:\s*\{[^}]*\})?\s*\|?\s*)+) => \{\s*unreachable!\("covered in caller"\)\s*\}', t[o2:e2])
    if not m2:
        raise ExtractError('anchor lost: apply_transform_to has no arm `.. => { unreachable!("covered in caller") }`')
    unreachable_pat = ' '.join(m2.group(1).split())
    u.raw(HEADER)
    u.raw('pub mod brush_parser { pub mod word {\nuse vstd::prelude::*;\n')
    u.add(wd.item(r'^pub enum SpecialParameter ', 'SpecialParameter').r1(keep_derive=()))
    u.add(wd.item(r'^pub enum Parameter ', 'Parameter').r1(keep_derive=()))
    u.add(wd.item(r'^pub enum ParameterTransformOp ', 'ParameterTransformOp').r1(keep_derive=()))
    u.raw('// projection of ParameterExpr: the Transform variant as written (checked), every other variant as `Other`\npub enum ParameterExpr { Transform { parameter: Parameter, indirect: bool, op: ParameterTransformOp }, Other }\n}}\nuse brush_parser::word::ParameterTransformOp;\n')
    gen = ['// GENERATED on every run from the `ParameterExpr::Transform` arms of expand_parameter_expr (patterns and guards verbatim, bodies -> the arm number)',
           'fn transform_arm_taken(expr: brush_parser::word::ParameterExpr) -> (r: u8)',
           '    ensures',
           '        //@ expansion.rs:transform_arm_taken:ensures#0 | C01 the-field-by-field-arm-is-reached-only-with-an-operator-apply-transform-to-handles',
           '        r == %du8 ==> (expr is Transform && !cannot_transform(expr->Transform_op)),' % len(arms),
           '{', '    match expr {']
    for i, (p, bd) in enumerate(arms):
        gen.append('        %s => %du8,' % (' '.join(p.split()), i + 1))
    gen += ['        _ => 0u8,', '    }', '}',
            '// GENERATED from the arm of apply_transform_to whose body is unreachable!("covered in caller"): its patterns verbatim',
            'pub open spec fn cannot_transform(op: ParameterTransformOp) -> bool { op is ToAssignmentLogic || op is ToAttributeFlags }',
            'fn reaches_unreachable(op: &ParameterTransformOp) -> (r: bool)',
            '    ensures',
            '        //@ expansion.rs:reaches_unreachable:ensures#0 | C01 the-operators-behind-unreachable-are-exactly-the-two-handled-by-the-caller',
            '        r == cannot_transform(*op),',
            '{ match op { %s => true, _ => false } }' % unreachable_pat]
    u.raw('\n'.join(gen) + '\n', origin='generated from brush-core/src/expansion.rs (Transform arms of expand_parameter_expr; last arm of apply_transform_to)')
    u.raw(FOOTER)
    u.notes.append('Transform arms: %s' % ' || '.join(' '.join(p.split()) for p, _ in arms))
    u.assume('generated', 'the two functions are produced by units/u67_transform_arms.py from the arm patterns (other shapes stop the run undecided); that the last arm hands `op` to apply_transform_to unchanged is pinned by text')
    u.assume('stub', 'ParameterExpr is projected to its Transform variant; the bodies of the arms are outside this unit')
    u.expected_min_fns = 2
    u.counterexample = replay_scripts(repo, [
        ('set -- a; echo "[${*@a}] [${@@a}] [${?@a}] [${1@a}]"; declare -r v=1; echo "[${v@a}] [${v@A}]"', '[] [] [] []\n[r] [declare -r v=\'1\']\n'),
    ])
    return u
