"""U34: (a) the readonly guards at the head of ShellVariable::{assign, assign_at_index, unset_index} (brush-core/src/variables.rs,
R6 slices); (b) where a declaration looks its name up (brush-builtins/src/declare.rs process_declaration, R6 slices)."""
from vx.unit import Unit
from vx.extract import C

PROPS = ['C09']
HEADER = 'use vstd::prelude::*;\nuse vstd::std_specs::convert::*;\nverus! {\n'
FOOTER = '\n} // verus!\nfn main() {}\n'
SIG = {'assign': r'pub fn assign\(&mut self, value: ShellValueLiteral, append: bool\) -> Result<\(\), error::Error> \{\n',
       'assign_at_index': r'pub fn assign_at_index\(\s*&mut self,\s*array_index: String,\s*value: String,\s*append: bool,\s*\) -> Result<\(\), error::Error> \{\n',
       'unset_index': r'pub fn unset_index\(&mut self, index: &str\) -> Result<bool, error::Error> \{\n'}


def build(repo, findings):
    u = Unit('U34', 'readonly variables refuse every value writer first; a local declaration looks at the current function\'s locals only', repo, ['C09'], safety_props=['C09'])
    vs = u.source('brush-core/src/variables.rs')
    dc = u.source('brush-builtins/src/declare.rs')
    env = u.source('brush-core/src/env.rs')
    er = u.source('brush-core/src/error.rs')
    er.require_text(r'\n\s*ReadonlyVariable,', 'projected variant ErrorKind::ReadonlyVariable')
    vs.require_text(r'pub struct ShellVariable \{(?:[^}]|\n)*?\n\s*value: ShellValue,(?:[^}]|\n)*?\n\s*readonly: bool,', 'projected fields ShellVariable.value / readonly')
    dc.require_text(r'\n\s*create_global: bool,', 'projected field DeclareCommand.create_global')
    u.raw(HEADER)
    u.add(dc.item(r'^enum DeclareVerb ', 'DeclareVerb').r1(keep_derive=()).r11_pub())
    u.add(env.item(r'^pub enum EnvironmentLookup ', 'EnvironmentLookup').r1(keep_derive=()))
    u.prelude('vars/readonly_declare_spec.rs')
    u.raw('impl ShellVariable {')
    f = vs.method_anywhere('is_readonly').r1()
    f.sig('is_readonly', ret='r', ensures=[C('aux accessor', 'r == self.readonly')])
    u.add(f)
    u.raw('}\n')
    for k, name in enumerate(('assign', 'assign_at_index', 'unset_index')):
        # the guard must be the first statement of the writer
        vs.require_text(SIG[name] + r'\s*if self\.is_readonly\(\)', 'the first statement of ShellVariable::%s is its readonly guard' % name)
        fn = '%s_guard' % name
        g = vs.slice(name, r'^\s*if self\.is_readonly\(\)', r'^\s*if self\.is_readonly\(\)', 'fn %s(self_: &ShellVariable) -> Result<(), error::Error>' % fn, fn)
        g.r1().resub(r'\bself\.', 'self_.', 'R6', 'slice wrapper: self -> self_', count=None)
        g.resub(r'\n\}$', '\n    Ok(())\n}', 'R6', 'wrapper epilogue `Ok(())` (the writer goes on)', count=1)
        g.sig(fn, ret='res', ensures=[C('C09 a-readonly-variable-refuses-%s-before-anything-else-set-or-not' % name.replace('_', '-'), 'self_.readonly ==> res is Err')])
        u.add(g)
    fn = 'declaration_creates_local'
    a = dc.slice('process_declaration', r'^\s*let create_var_local = ', r'^\s*let create_var_local = ',
                 'fn declaration_creates_local(self_: &DeclareCommand, context: &ExecutionContext, verb: DeclareVerb) -> bool', fn)
    a.r1().resub(r'\bself\.', 'self_.', 'R6', 'slice wrapper: self -> self_', count=None)
    a.resub(r'\n\}$', '\n    create_var_local\n}', 'R6', 'wrapper epilogue returning the live variable', count=1)
    a.sig(fn, ret='r', ensures=[C('C09 local-and-declare-in-a-function-without-g-create-a-local', 'r == creates_local(verb, context.shell.in_fn(), self_.create_global)')])
    u.add(a)
    fn = 'declaration_lookup'
    b = dc.slice('process_declaration', r'^\s*let lookup = if ', r'^\s*let lookup = if ',
                 'fn declaration_lookup(self_: &DeclareCommand, create_var_local: bool, verb: DeclareVerb) -> EnvironmentLookup', fn)
    b.r1().resub(r'\bself\.', 'self_.', 'R6', 'slice wrapper: self -> self_', count=None)
    b.resub(r'\n\}$', '\n    lookup\n}', 'R6', 'wrapper epilogue returning the live variable', count=1)
    b.sig(fn, ret='r', ensures=[
        C('C09 a-declaration-that-creates-a-local-looks-only-at-the-current-functions-locals', 'create_var_local ==> r is OnlyInCurrentLocal'),
        C('C09 declare-g-names-the-global-variable-whatever-locals-are-in-scope', '(!create_var_local && self_.create_global) ==> r is OnlyInGlobal'),
        C('C09 otherwise-the-visible-variable', '(!create_var_local && !self_.create_global) ==> r is Anywhere'),
    ])
    u.add(b)
    u.raw(FOOTER)
    u.assume('external_body', 'ShellValue::is_set, Shell::in_function are stubs with uninterpreted results; Error opaque')
    u.assume('uninterp', 'ShellValue::set_spec, Shell::in_fn')
    u.assume('stub', 'the bodies of the three writers after the guard, get_mut_using_policy (unit U13 covers get / unset only) and the rest of process_declaration are NOT verified; other ways to reach a variable\'s value (value_mut-style accessors) are not looked for')
    u.expected_min_fns = 6
    return u
