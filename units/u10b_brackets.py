"""U10b: the scanning loop of add_missing_escape_chars_to_regex (brush-core/src/regex.rs, R6 slice): which `[` get a backslash."""
from vx.unit import Unit
from vx.extract import C

PROPS = ['C08', 'C04', 'C01']
HEADER = 'use vstd::prelude::*;\nverus! {\n'
FOOTER = '\n} // verus!\nfn main() {}\n'


def build(repo, findings):
    u = Unit('U10b', 'regex fix-up pass: exactly the unescaped `[` inside a bracket expression (not opening `[:`) are escaped', repo, ['C08', 'C04'], safety_props=['C01', 'C08'])
    src = u.source('brush-core/src/regex.rs')
    u.raw(HEADER)
    u.prelude('std/utf8.rs')
    u.prelude('patterns/brackets_spec.rs')
    fn = 'scan_brackets'
    f = src.slice('add_missing_escape_chars_to_regex', r'^\s*let mut in_escape = false;', r'^\s*while let Some\(\(byte_offset, c\)\) = peekable\.next\(\) \{',
                  'fn scan_brackets(s: &str) -> Vec<usize>', fn, tail='insertion_positions')
    f.r1().r20()
    f.sig(fn, ret='r', ensures=[C('C08,C04 positions-of-the-brackets-to-escape', 'r@ == escape_positions(s@, s@.len() as int)')])
    f.ascribe(r'^\s*let mut insertion_positions = vec!\[\];', 'Vec<usize>', fn_name=fn)
    f.before_loop(fn, 0, 'proof { axiom_str_fits_usize(s); assert(s@.take(0) =~= Seq::<char>::empty()); }')
    f.loop(0, fn_name=fn, invariant=[
        C('aux', '__cs@ == s@ && __i <= __cs@.len() && byte_len(s@) <= isize::MAX'),
        C('aux byte-offset-of-the-next-character', '__off == byte_len(s@.take(__i as int))'),
        C('C08,C04 escape-state', 'in_escape == esc(s@, __i as int)'),
        C('C08,C04 bracket-state-an-escaped-bracket-of-quoted-text-opens-nothing', 'in_brackets == in_br(s@, __i as int)'),
        C('C08,C04 positions-so-far', 'insertion_positions@ == escape_positions(s@, __i as int)'),
    ], decreases='__cs@.len() - __i', body_first='''let ghost i0 = __i as int;
proof {
    lemma_byte_len_take(s@, i0, i0 + 1);
    assert(s@.subrange(i0, i0 + 1) =~= seq![s@[i0]]);
    assert(seq![s@[i0]].drop_last() =~= Seq::<char>::empty());
    assert(byte_len(seq![s@[i0]]) == byte_len(Seq::<char>::empty()) + utf8_len(s@[i0]));
    lemma_byte_len_take(s@, i0 + 1, s@.len() as int);
    assert(s@.take(s@.len() as int) =~= s@);
}''')
    u.add(f)
    u.raw(FOOTER)
    u.assume('external_body', 'str_chars_vec (R20): the characters of a str as a Vec<char>')
    u.assume('axiom', 'a string has at most isize::MAX bytes')
    u.assume('stub', 'the second half of add_missing_escape_chars_to_regex (String::insert of a backslash at each position, last first) is NOT verified; escape_literal_regex_piece and the PEG translator brush-parser/src/pattern.rs pattern_to_regex_translator are out of reach')
    u.expected_min_fns = 1
    return u
