"""U10b: the scanning loop of add_missing_escape_chars_to_regex (brush-core/src/regex.rs, R6 slice): which `[` get a backslash."""
import re
from vx.unit import Unit
from vx.extract import C

PROPS = ['C08', 'C04', 'C01']
HEADER = 'use vstd::prelude::*;\nverus! {\n'
FOOTER = '\n} // verus!\nfn main() {}\n'


def build(repo, findings):
    u = Unit('U10b', 'regex fix-up pass: exactly the unescaped `[` inside a bracket expression (not opening `[:`) are escaped', repo, ['C08', 'C04'], safety_props=['C01', 'C08'])
    src = u.source('brush-core/src/regex.rs')
    u.raw(HEADER)
    u.prelude('std/utf8.rs')
    u.prelude('patterns/brackets_spec.rs')
    fn = 'scan_brackets'
    f = src.slice('add_missing_escape_chars_to_regex', r'^\s*let mut in_escape = false;', r'^\s*while let Some\(\(byte_offset, c\)\) = peekable\.next\(\) \{',
                  'fn scan_brackets(s: &str) -> Vec<usize>', fn, tail='insertion_positions')
    f.r1().r20()
    f.sig(fn, ret='r', ensures=[C('C08,C04 positions-of-the-brackets-to-escape', 'r@ == escape_positions(s@, s@.len() as int)'),
                                C('C01 the-positions-are-character-boundaries-of-the-text-in-ascending-order', 'asc_bounds(s@, r@, byte_len(s@))')])
    f.ascribe(r'^\s*let mut insertion_positions = vec!\[\];', 'Vec<usize>', fn_name=fn)
    f.before_loop(fn, 0, 'proof { axiom_str_fits_usize(s); assert(s@.take(0) =~= Seq::<char>::empty()); }')
    f.loop(0, fn_name=fn, invariant=[
        C('aux', '__cs@ == s@ && __i <= __cs@.len() && byte_len(s@) <= isize::MAX'),
        C('aux byte-offset-of-the-next-character', '__off == byte_len(s@.take(__i as int))'),
        C('C08,C04 escape-state', 'in_escape == esc(s@, __i as int)'),
        C('C08,C04 bracket-state-an-escaped-bracket-of-quoted-text-opens-nothing', 'in_brackets == in_br(s@, __i as int)'),
        C('C08,C04 positions-so-far', 'insertion_positions@ == escape_positions(s@, __i as int)'),
        C('C01 positions-so-far-are-boundaries-before-the-current-offset-ascending', 'asc_bounds(s@, insertion_positions@, __off as int) || (insertion_positions@.len() == 0)'),
    ], decreases='__cs@.len() - __i', body_first='''let ghost i0 = __i as int;
proof {
    lemma_byte_len_take(s@, i0, i0 + 1);
    assert(s@.subrange(i0, i0 + 1) =~= seq![s@[i0]]);
    assert(seq![s@[i0]].drop_last() =~= Seq::<char>::empty());
    assert(byte_len(seq![s@[i0]]) == byte_len(Seq::<char>::empty()) + utf8_len(s@[i0]));
    lemma_byte_len_take(s@, i0 + 1, s@.len() as int);
    assert(s@.take(s@.len() as int) =~= s@);
    assert(boundary_at(s@, __off as int, i0));
}''')
    f.after_loop(fn, 0, 'proof { assert(s@.take(s@.len() as int) =~= s@); }')
    u.add(f)
    # ---- second half: a backslash inserted at every position, last first
    fn2 = 'insert_escapes'
    g = src.slice('add_missing_escape_chars_to_regex', r'^\s*let mut updated = ', r'^\s*for pos in insertion_positions', 'fn insert_escapes(s: &str, insertion_positions: Vec<usize>) -> String', fn2, tail='updated')
    g.r1()
    g.resub(r'\bs\.to_owned\(\)', 'str_to_owned(s)', 'R14', 'str::to_owned -> stub (same characters)', count=None)
    g.resub(r'for pos in insertion_positions\.iter\(\)\.rev\(\) \{', 'let mut __k: usize = insertion_positions.len();\n    while __k > 0 {\n        __k -= 1;\n        let pos = &insertion_positions[__k];', 'R16', '`for x in V.iter().rev()` -> counted `while` from V.len() down, x = &V[k]', count=None)
    g.resub(r'\bupdated\.insert\(', 'string_insert(&mut updated, ', 'R19', 'String::insert -> stub whose precondition is std\'s panic condition (offset on a character boundary)', count=None)
    backward = bool(re.search(r'let mut __k: usize = insertion_positions\.len\(\);', g.text))
    if not backward:
        # another loop shape (e.g. front to back): put into counted form without a proof; the precondition of String::insert then
        # stands or falls on its own
        g.resub(r'for pos in insertion_positions(?:\.iter\(\))? \{', 'let mut __k: usize = 0;\n    while __k < insertion_positions.len() {\n        let pos = &insertion_positions[__k];\n        __k += 1;', 'R16', '`for x in V` / `V.iter()` -> counted `while`, x = &V[k]', count=1)
        g.resub(r'string_insert\(&mut updated, pos,', 'string_insert(&mut updated, *pos,', 'R16', 'by-value loop variable -> reference', count=None)
    g.sig(fn2, ret='r', requires=[C('aux positions-as-the-scan-leaves-them', 'asc_bounds(s@, insertion_positions@, byte_len(s@))')],
          ensures=[C('C01,C08 one-more-character-per-position', 'r@.len() == s@.len() + insertion_positions@.len()')])
    if not backward:
        g.loop(0, fn_name=fn2, invariant=[C('aux', '__k <= insertion_positions@.len()')], decreases='insertion_positions@.len() - __k')
    if backward:
        g.before_loop(fn2, 0, 'let ghost mut n: int = s@.len() as int;\nproof { assert(s@.take(n) =~= s@); lemma_boundary_unique_all(s@); }')
        g.loop(0, fn_name=fn2, invariant=[
            C('aux', '__k <= insertion_positions@.len() && asc_bounds(s@, insertion_positions@, byte_len(s@))'),
            C('aux the-text-before-the-last-insertion-point-is-still-that-of-s', '0 <= n <= s@.len() && n <= updated@.len() && updated@.take(n) =~= s@.take(n)'),
            C('aux every-position-still-to-do-lies-before-it', '__k > 0 ==> (insertion_positions@[__k - 1] as int) < byte_len(s@.take(n))'),
            C('C01,C08 one-more-character-per-position-done', 'updated@.len() == s@.len() + (insertion_positions@.len() - __k)'),
        ], decreases='__k')
        g.before(r'string_insert\(&mut updated, ', '''let ghost m: int = choose|m: int| boundary_at(s@, *pos as int, m);
proof {
    assert(boundary(s@, insertion_positions@[__k as int] as int));
    assert(boundary_at(s@, *pos as int, m));
    if m >= n { if m > n { lemma_byte_len_monotone(s@, n, m); } assert(false); }
    assert(updated@.take(m) =~= updated@.take(n).take(m));
    assert(s@.take(m) =~= s@.take(n).take(m));
    assert(boundary_at(updated@, *pos as int, m));
    lemma_boundary_unique_all(updated@);
}
let ghost before = updated@;''', fn_name=fn2)
        g.after_line(r'string_insert\(&mut updated, ', '''proof {
    assert(updated@ == before.insert(m, '\\\\'));
    assert(updated@.take(m) =~= before.take(m));
    n = m;
    if __k > 0 { assert(insertion_positions@[__k - 1] < insertion_positions@[__k as int]); }
}''', fn_name=fn2)
    u.add(g)
    u.raw(FOOTER)
    u.assume('external_body', 'str_chars_vec (R20): the characters of a str as a Vec<char>')
    u.assume('axiom', 'a string has at most isize::MAX bytes')
    u.assume('stub', 'String::insert is a stub whose precondition is std\'s panic condition; that add_missing_escape_chars_to_regex hands the positions of its first half to its second half unchanged is read off the text between the two slices (`if insertion_positions.is_empty() { return .. }`); escape_literal_regex_piece and the PEG translator brush-parser/src/pattern.rs pattern_to_regex_translator are out of reach')
    u.assume('assume_specification', 'String::with_capacity returns an empty string (std)')
    u.expected_min_fns = 2
    return u
