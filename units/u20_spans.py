"""U20 spans: the highlighter's span builder (brush-interactive/src/highlighting.rs append_span / skip_ahead)."""
from vx.unit import Unit
from vx.extract import C

PROPS = ['C19', 'C01']

HEADER = 'use vstd::prelude::*;\nverus! {\n'
FOOTER = '\n} // verus!\nfn main() {}\n'

WF = 'spans_wf(%s.spans@, %s.current_byte_index as int, %s.input_line@)'


def wf(x):
    return WF % (x, x, x)


def build(repo, findings):
    u = Unit('U20', 'highlight span builder', repo, ['C19'], safety_props=['C01', 'C19'])
    src = u.source('brush-interactive/src/highlighting.rs')
    u.raw(HEADER)
    u.add(src.item(r'^pub enum HighlightKind ', 'HighlightKind').r1())
    u.add(src.item(r'^pub struct HighlightSpan ', 'HighlightSpan').r1(keep_derive=()))
    hs = src.item(r'^impl HighlightSpan ', 'impl HighlightSpan').r1().r11()
    hs.sig('new', ret='r', ensures=[C('C19 span-new', 'r.range == range && r.kind == kind')])
    u.add(hs)
    u.prelude('spans/spec.rs')
    st = src.item(r'^struct Highlighter<', 'Highlighter').r1()
    st.replace("<'a, SE: brush_core::ShellExtensions>", "<'a>", 'R4', 'extension generic erased')
    st.replace('brush_core::Shell<SE>', 'Shell', 'R4', 'Shell<SE> -> context stub')
    st.r11().pub_fields()
    u.add(st)
    im = src.item(r"^impl<'a, SE: brush_core::ShellExtensions> Highlighter<'a, SE> ", 'impl Highlighter').r1()
    im.replace("impl<'a, SE: brush_core::ShellExtensions> Highlighter<'a, SE>", "impl<'a> Highlighter<'a>", 'R4', 'extension generic erased')
    im.keep_only_fns(['new', 'append_span', 'skip_ahead', 'set_next_missing_kind'],
                     'not part of the span builder (tokenizer-driven callers; closures, iterator adapters) — NOT verified')
    im.replace('brush_core::Shell<SE>', 'Shell', 'R4', 'Shell<SE> -> context stub')
    im.r9([(r'is_char_boundary\(range\.start\)', 'is_boundary(self.input_line@, range.start as int)'),
           (r'is_char_boundary\(range\.end\)', 'is_boundary(self.input_line@, range.end as int)')])
    im.r11()
    im.sig('new', ret='r', ensures=[
        C('C19 new-wf', wf('r') + ' && r.current_byte_index == 0 && r.spans@.len() == 0 && r.input_line == input_line && r.next_missing_kind is None')])
    pre = [
        C('aux wf-in', wf('old(self)')),
        C('aux caller-duty cur<=start<=end', 'old(self).current_byte_index <= range.start <= range.end'),
        C('aux caller-duty boundaries', 'is_boundary(old(self).input_line@, range.start as int) && is_boundary(old(self).input_line@, range.end as int) && is_boundary(old(self).input_line@, old(self).current_byte_index as int)'),
    ]
    im.sig('append_span', requires=pre, ensures=[
        C('C19 wf-preserved', wf('final(self)')),
        C('C19 cursor-at-end', 'final(self).current_byte_index == range.end'),
        C('C19 frame', 'final(self).input_line == old(self).input_line && final(self).next_missing_kind == old(self).next_missing_kind'),
        C('C19 old-spans-prefix', 'old(self).spans@.is_prefix_of(final(self).spans@)'),
        C('C19 exactly-gap-and-body', '''({
    let gap = old(self).current_byte_index < range.start;
    let body = range.start < range.end;
    let n = old(self).spans@.len();
    &&& final(self).spans@.len() == n + (if gap { 1int } else { 0 }) + (if body { 1int } else { 0 })
    &&& gap ==> final(self).spans@[n as int].range.start == old(self).current_byte_index
            && final(self).spans@[n as int].range.end == range.start
            && final(self).spans@[n as int].kind == (match old(self).next_missing_kind { Some(k) => k, None => HighlightKind::Comment })
    &&& body ==> final(self).spans@.last().range == range && final(self).spans@.last().kind == kind
})'''),
    ])
    im.before(r'^\s*// See if we need to cover a gap', 'broadcast use axiom_range_is_empty_usize;', fn_name='append_span')
    im.sig('skip_ahead', requires=[
        C('aux wf-in', wf('old(self)')),
        C('aux caller-duty cur<=dest', 'old(self).current_byte_index <= dest'),
        C('aux caller-duty boundaries', 'is_boundary(old(self).input_line@, dest as int) && is_boundary(old(self).input_line@, old(self).current_byte_index as int)'),
    ], ensures=[
        C('C19 wf-preserved', wf('final(self)')),
        C('C19 cursor-at-dest', 'final(self).current_byte_index == dest'),
        C('C19 old-spans-prefix', 'old(self).spans@.is_prefix_of(final(self).spans@) && final(self).input_line == old(self).input_line'),
    ])
    im.sig('set_next_missing_kind', ensures=[
        C('C19 frame', 'final(self).spans == old(self).spans && final(self).current_byte_index == old(self).current_byte_index && final(self).input_line == old(self).input_line && final(self).next_missing_kind == Some(kind)')])
    u.add(im)
    u.raw(FOOTER)
    u.assume('assume_specification', 'Range::<usize>::is_empty() == !(start < end) (std documented behaviour)')
    u.assume('axiom', 'axiom_range_is_empty_usize: meaning of Range::is_empty at usize')
    u.assume('uninterp', 'is_boundary (str::is_char_boundary of the R9-converted debug_assert!s), range_is_empty_spec')
    u.assume('external_body', 'Shell is opaque (never inspected by the span builder)')
    u.assume('stub', 'callers (highlight_program / highlight_word_piece) are NOT under contract: the requires clauses of append_span/skip_ahead (cur <= start <= end, char boundaries) are unchecked caller duties')
    u.expected_min_fns = 5
    return u
