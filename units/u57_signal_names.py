"""U57: impl TryFrom<&str> for TrapSignal (brush-core/src/traps.rs): the name of a trap condition is read without regard to case, the
four pseudo-signals included; anything else is looked up as a real signal with the SIG prefix supplied."""
from vx.unit import Unit
from vx.extract import C
from .common import replay_scripts

PROPS = ['C16']
HEADER = 'use vstd::prelude::*;\nverus! {\n'
FOOTER = '\n} // verus!\nfn main() {}\n'


def build(repo, findings):
    u = Unit('U57', 'trap condition names are case-insensitive, pseudo-signals included', repo, ['C16'], safety_props=['C16'])
    tr = u.source('brush-core/src/traps.rs')
    u.raw(HEADER)
    u.add(tr.item(r'^pub enum TrapSignal ', 'TrapSignal').r1(keep_derive=()))
    u.prelude('traps/signal_names_spec.rs')
    fn = 'try_from'
    f = tr.item(r'^impl TryFrom<&str> for TrapSignal ', 'TryFrom<&str> for TrapSignal').r1()
    f.resub(r'^impl TryFrom<&str> for TrapSignal \{\n\s*type Error = error::Error;\n', 'impl TrapSignal {\n', 'R5', 'trait impl -> inherent fn (the associated type is error::Error, text checked)', count=1)
    f.resub(r'fn try_from\(value: &str\) -> Result<Self, Self::Error>', 'fn try_from(value: &str) -> Result<Self, error::Error>', 'R5', 'associated type resolved', count=1)
    f.resub(r'\b(\w+)\.to_ascii_uppercase\(\)', r'str_to_ascii_uppercase(\1)', 'R14', 'str::to_ascii_uppercase -> stub (uninterpreted)', count=None)
    f.resub(r'\b(\w+)\.starts_with\("([^"]*)"\)', r'string_starts_with(&\1, "\2")', 'R14', 'String::starts_with(&str) -> stub', count=None)
    f.resub(r'\b(\w+)\.insert_str\(0, "([^"]*)"\)', r'string_insert_front(&mut \1, "\2")', 'R14', 'String::insert_str(0, ..) -> stub', count=None)
    f.resub(r'sys::signal::Signal::from_str\(([^\n]*?)\)\s*\.map\(TrapSignal::Signal\)\s*\.map_err\(\|_\| error::ErrorKind::InvalidSignal\(value\.into\(\)\)\)\?', r'vx_real_signal(\1, value)?', 'R14', 'real-signal lookup with its error mapping -> stub (a function of the name)', count=None)
    f.r30_str_match()
    f.sig(fn, ret='res', ensures=[
        C('C16 a-pseudo-signal-is-recognised-whatever-the-case-of-its-letters', 'pseudo_signal(ascii_upper(value@)) is Some ==> res == Ok::<TrapSignal, error::Error>(pseudo_signal(ascii_upper(value@))->Some_0)'),
        C('C16 anything-else-is-a-real-signal-name-upper-cased-with-the-sig-prefix-supplied', '''pseudo_signal(ascii_upper(value@)) is None ==> (match real_signal(with_sig_prefix(ascii_upper(value@))) {
    Ok(sg) => res == Ok::<TrapSignal, error::Error>(TrapSignal::Signal(sg)), Err(e) => res is Err })'''),
    ])
    f.at_body_start(fn, 'proof { reveal_strlit("DEBUG"); reveal_strlit("ERR"); reveal_strlit("EXIT"); reveal_strlit("RETURN"); reveal_strlit("SIG"); assert("SIG"@ =~= seq![\'S\', \'I\', \'G\']); }')
    u.add(f)
    u.raw(FOOTER)
    u.assume('external_body', 'str::to_ascii_uppercase (uninterpreted), the string stubs, the real-signal lookup (nix Signal::from_str, a function of the name it is given)')
    u.assume('uninterp', 'ascii_upper, real_signal')
    u.assume('stub', 'FromStr / TryFrom<i32> (numbers) and the trap builtin that calls them (U35) are not covered here')
    u.expected_min_fns = 1
    u.counterexample = replay_scripts(repo, [
        ("trap 'echo bye' exit; echo run", 'run\nbye\n'),
        ("trap 'echo e' Err; false; trap 'echo x' ExIt; trap - err; false; echo end", 'e\nend\nx\n'),
    ])
    return u
