"""U4h: Program executor (brush-core/src/interp.rs)."""
from vx.extract import C
from .exec_common import exec_unit, begin_ast, end_ast, FOOTER

PROPS = ['C02', 'C03', 'C16', 'C01']

RUN = 'pg_run(new_events(old(shell).trace(), %s.trace()), *self_, params.suppress_errexit)'

FIN = '''({
    let st = %s;
    (st == St::Done(%s.next_control_flow, %s.exit_code)
        || (st is At && st->k == self_.complete_commands@.len() && %s.next_control_flow is Normal && %s.exit_code == st->code))
    && (%s.trace().len() > old(shell).trace().len() ==> %s.status() == u8_of(%s.exit_code))
})'''


def build(repo, findings):
    u, interp = exec_unit('U4h', 'program executor: commands in order, $? after each, stop at non-normal flow', repo,
                          ['CompoundList'], 'pub enum Node { Cmd(ast::CompoundList) }\n')
    ast = u.source('brush-parser/src/ast.rs')
    begin_ast(u)
    u.add(ast.item(r'^pub struct Program ', 'Program').r1(keep_derive=()))
    u.add(ast.item(r'^pub type CompleteCommand = ', 'CompleteCommand').r1())
    end_ast(u)
    u.prelude('exec/program_spec.rs')
    fn = 'program_execute'
    f = interp.method(r'^impl Execute for ast::Program ', 'execute', fn)
    f.r1().r3().r4().r5_self('ast::Program', fn)
    f.resub(r'^[ \t]*let _ = shell\.display_error\([^;]*\);\n', '', 'R2',
            'diagnostic to stderr whose result is discarded (`let _ =`) dropped', count=None)
    f.sig(fn, ret='res', ensures=[
        C('aux trace-extends', 'old(shell).trace().is_prefix_of(final(shell).trace())'),
        C('C02 program-never-errs', 'res is Ok'),
        C('C02,C03 program-fold', 'res is Ok ==> ' + FIN % ((RUN % 'final(shell)'), 'res->Ok_0', 'res->Ok_0', 'res->Ok_0', 'res->Ok_0', 'final(shell)', 'final(shell)', 'res->Ok_0')),
    ])
    f.at_body_start(fn, 'broadcast use {lemma_new_events_push, lemma_pg_run_push};\nproof { lemma_new_events_empty(old(shell).trace()); }')
    f.loop(0, fn_name=fn, iter_name='it', invariant_except_break=[
        C('aux', 'it.index@ + it.iter.remaining().len() == self_.complete_commands@.len()'),
        C('aux', 'forall|i: int| 0 <= i < it.iter.remaining().len() ==> *(#[trigger] it.iter.remaining()[i]) == self_.complete_commands@[it.index@ + i]'),
        C('aux', 'result.next_control_flow is Normal'),
        C('C02,C03 program-fold-running', (RUN % 'shell') + ' == (St::At { k: it.index@ as int, code: result.exit_code })'),
        C('C02 program-status', 'shell.trace().len() > old(shell).trace().len() ==> shell.status() == u8_of(result.exit_code)'),
    ], invariant=[
        C('aux', 'old(shell).trace().is_prefix_of(shell.trace())'),
    ], ensures=[
        C('C02,C03 program-fold-done', FIN % ((RUN % 'shell'), 'result', 'result', 'result', 'result', 'shell', 'shell', 'result')),
    ], body_first='broadcast use {lemma_new_events_push, lemma_pg_run_push};')
    u.add(f)
    u.raw(FOOTER)
    u.assume('external_body', 'Error::into_result (error -> exit code and control flow, depends on interactivity) is a stub with an uninterpreted result')
    u.assume('uninterp', 'into_result_spec')
    u.expected_min_fns = 18
    return u
