"""U52: the set-up of `coproc` (brush-core/src/interp.rs, impl Execute for ast::CoprocessCommand, R6 slice from the start of the body to
the cloning of the shell): a coprocess that is turned down has put nothing into the shell's table of open files."""
from vx.unit import Unit
from vx.extract import C
from .common import replay_scripts

PROPS = ['C18']
HEADER = 'use vstd::prelude::*;\nuse vstd::std_specs::convert::*;\nverus! {\n'
FOOTER = '\n} // verus!\nfn main() {}\n'


def build(repo, findings):
    u = Unit('U52', 'coproc set-up: a rejected coprocess leaves no descriptors behind', repo, ['C18'], safety_props=['C18'])
    ip = u.source('brush-core/src/interp.rs')
    rs = u.source('brush-core/src/results.rs')
    rs.require_text(r'\n\s*GeneralError\b', 'projected variant ExecutionExitCode::GeneralError')
    u.raw(HEADER)
    u.prelude('exec/coproc_head_spec.rs')
    import re as _re
    from vx.extract import _FN_HDR, ExtractError
    m0 = _re.search(r'^impl Execute for ast::CoprocessCommand \{', ip.text, _re.M)
    if not m0:
        raise ExtractError('anchor lost: impl Execute for ast::CoprocessCommand')
    nth = len(list(_re.finditer(_FN_HDR % 'execute', ip.text[:m0.start()])))
    fn = 'coproc_head'
    f = ip.slice('execute', r'^\s*if shell\.options\(\)\.do_not_execute_commands \{$', r'^\s*let mut child_shell = shell\.clone\(\);',
                 'fn coproc_head(self_: &ast::CoprocessCommand, shell: &mut Shell, params: &ExecutionParameters) -> Result<ExecutionResult, error::Error>', fn, nth=nth)
    f.r1()
    f.resub(r'\bshell\.options\(\)\.', 'shell.options.', 'R22', 'accessor inlined', count=None)
    f.resub(r'let name = self\s*\.name\s*\.as_ref\(\)\s*\.map_or\(Cow::Borrowed\("COPROC"\), \|w\| Cow::Owned\(w\.to_string\(\)\)\);', 'let name = vx_coproc_name(self_);', 'R14', 'Option::map_or with a closure (the name, default COPROC) -> stub', count=None)
    f.resub(r'writeln!\(\s*params\.stderr\(shell\),\s*"coproc \{name\}: not a valid identifier"\s*\)\?;', 'vx_report_invalid_name(shell, params, &name)?;', 'R8', 'diagnostic -> stub with the same error path', count=None)
    f.resub(r'std::io::pipe\(\)', 'std_io::pipe()', 'R14', 'std::io::pipe -> stub', count=None)
    f.resub(r'\b(\w+_reader)\.into\(\)', r'vx_reader_into(\1)', 'R14', 'PipeReader -> OpenFile conversion -> stub', count=None)
    f.resub(r'\b(\w+_writer)\.into\(\)', r'vx_writer_into(\1)', 'R14', 'PipeWriter -> OpenFile conversion -> stub', count=None)
    f.resub(r'\n\}$', '\n    Ok(vx_goes_on_to_start_the_coprocess())\n}', 'R6', 'wrapper epilogue: the function goes on to start the coprocess', count=1)
    f.sig(fn, ret='res', ensures=[
        C('C18 a-coprocess-that-is-turned-down-has-added-no-descriptor', '(res is Ok && !res->Ok_0.goes_on) ==> final(shell).open_files.added@ == old(shell).open_files.added@'),
        C('C18 a-coprocess-that-starts-holds-its-two-pipe-ends', '(res is Ok && res->Ok_0.goes_on) ==> final(shell).open_files.added@.len() == old(shell).open_files.added@.len() + 2'),
    ])
    u.add(f)
    u.raw(FOOTER)
    u.assume('external_body', 'OpenFiles::add (logged in a ghost sequence), std::io::pipe, valid_variable_name, the name / diagnostic / conversion stubs')
    u.assume('stub', 'the rest of the function (child shell, task, job, variables) and the `?` exits after the first add (a refused second add leaves the first descriptor in the table: not claimed) are NOT covered')
    u.expected_min_fns = 1
    u.counterexample = replay_scripts(repo, [
        ('n() { ls /proc/$$/fd | wc -l; }; a=$(n); for i in 1 2 3 4 5; do coproc 1bad { :; } 2>/dev/null; done; b=$(n); echo $(( (b - a) < 5 ))', '1\n'),      # (the runtime may open a descriptor of its own lazily; a leak shows as 10 more)
    ])
    return u
