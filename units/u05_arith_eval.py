"""U5 arith-eval: the arithmetic evaluator against C semantics over wrapping i64 (brush-core/src/arithmetic.rs)."""
from vx.unit import Unit
from vx.extract import C

PROPS = ['C07', 'C01']

HEADER = '''use vstd::prelude::*;
use vstd::arithmetic::power::*;
use vstd::arithmetic::div_mod::*;
use vstd::arithmetic::mul::*;
use vstd::std_specs::cmp::OrdSpec;
verus! {
'''
FOOTER = '\n} // verus!\nfn main() {}\n'

SEM = '(res, final(shell).st()) == sem(%s, old(shell).st(), depth)'


def build(repo, findings):
    u = Unit('U5', 'arithmetic evaluator vs C semantics over wrapping i64', repo, ['C07'], safety_props=['C01', 'C07'])
    ar = u.source('brush-core/src/arithmetic.rs')
    ast = u.source('brush-parser/src/ast.rs')
    u.raw(HEADER)
    u.raw('pub mod ast {\nuse vstd::prelude::*;')
    for n in ['ArithmeticExpr', 'ArithmeticTarget', 'BinaryOperator', 'UnaryOperator', 'UnaryAssignmentOperator']:
        u.add(ast.item(r'^pub enum %s ' % n, n).r1(structural=False))
    u.raw('}\n')
    u.add(ar.item(r'^pub enum EvalError ', 'EvalError').r1())
    u.add(ar.item(r'^const MAX_VARIABLE_DEREF_DEPTH', 'MAX_VARIABLE_DEREF_DEPTH').r1())
    u.prelude('std/int_ops.rs')
    u.prelude('arith/pow_lemmas.rs')
    u.prelude('arith/eval_spec.rs')

    def fn(name):
        return ar.item(r'^(?:const )?fn %s\(' % name, name).r1().r4().r11()

    e = fn('eval_expr_impl')
    e.sig(ret='res', ensures=[C('C07 eval-sem', SEM % '*expr')], decreases='2 * esize(*expr)')
    e.after_open(r'ast::ArithmeticExpr::BinaryAssignment\(op, lvalue, operand\) => \{', 'proof { reveal_with_fuel(sem, 3); }')
    u.add(e)
    f = fn('apply_unary_op')
    f.sig(ret='res', ensures=[C('C07 unary-sem', SEM % 'ast::ArithmeticExpr::UnaryOp(op, Box::new(*operand))')],
          decreases='2 * esize(*operand) + 1')
    u.add(f)
    f = fn('apply_binary_op')
    f.sig(ret='res', ensures=[C('C07 binary-sem', SEM % 'ast::ArithmeticExpr::BinaryOp(op, Box::new(*left), Box::new(*right))')],
          decreases='2 * (esize(*left) + esize(*right)) + 1')
    u.add(f)
    f = fn('apply_unary_assignment_op')
    f.sig(ret='res', ensures=[C('C07 incdec-sem', SEM % 'ast::ArithmeticExpr::UnaryAssignment(op, *lvalue)')],
          decreases='2 * tsize(*lvalue) + 1')
    u.add(f)
    f = fn('bool_to_i64')
    f.sig(ret='r', ensures=[C('C07 bool', 'r == b2i(value)')])
    u.add(f)
    if ar.has(r'^(?:const )?fn wrapping_pow_u64\('):
        p = fn('wrapping_pow_u64')
        p.sig(ret='r', ensures=[C('C07 pow', 'r == pow_spec(base, exponent)')])
        p.before(r'^\s*let mut result: i64 = 1;', 'let ghost b0 = base; let ghost e0 = exponent;')
        p.loop(0, invariant=[C('C07 pow-loop', 'pow_acc(result, base, exponent) == pow_acc(1, b0, e0)')], decreases='exponent')
        p.before(r'^\s*result$', 'proof { lemma_pow_acc(1, b0, e0); assert(1 * pow(b0 as int, e0 as nat) == pow(b0 as int, e0 as nat)) by (nonlinear_arith); }')
        u.add(p)
    else:
        u.notes.append('wrapping_pow_u64 is not in the source: the power arm is verified against whatever it calls instead')
    # std's own wrapping_pow (32-bit exponent), so that a power arm written with it is verified against the contract rather than refused
    u.raw('pub assume_specification [i64::wrapping_pow] (b: i64, e: u32) -> (r: i64)\n    ensures r == pow_spec(b, e as u64);\n')
    u.raw(FOOTER)
    u.assume('assume_specification', 'std integer methods without a vstd spec (contracts/std/int_ops.rs: wrapping_neg/div/rem, saturating_*, checked_shl/shr, ...) equal their closed forms; discharged against real std by Kani over the full domain in the thorough tier')
    u.assume('external_body', 'Shell is opaque; deref_lvalue and assign are stubs with uninterpreted semantics deref_sem / assign_sem (their bodies — Cow, closures, environment, recursive evaluation of variable contents — are NOT verified); derived Clone of ArithmeticTarget returns an equal value')
    u.assume('uninterp', 'Shell::st (abstract variable store), deref_sem, assign_sem')
    u.expected_min_fns = 10
    return u
