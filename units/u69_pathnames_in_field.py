"""U69: WordExpander::expand_pathnames_in_field (brush-core/src/expansion.rs), whole function, with the real PatternExpansionResult,
WordField, ExpansionPiece and RuntimeOptions: the matches when there are any; otherwise the field's own text unchanged (nothing under
nullglob, an error under failglob).  If the no-match value is written in a way this unit does not read, it is left open and a failed
obligation then counts only together with an input that misbehaves on the built binary."""
import re
from vx.unit import Unit
from vx.extract import C, ExtractError
from .common import replay_scripts, runtime_options_item

PROPS = ['C04', 'C05']
HEADER = 'use vstd::prelude::*;\nverus! {\n'
FOOTER = '\n} // verus!\nfn main() {}\n'


def build(repo, findings):
    u = Unit('U69', 'pathname expansion of a field: the matches, or the field\'s own text unchanged', repo, PROPS, safety_props=[])
    ex = u.source('brush-core/src/expansion.rs')
    pt = u.source('brush-core/src/patterns.rs')
    pt.require_text(r'#\[default\]\n\s*NoGlob,', 'PatternExpansionResult defaults to NoGlob')
    u.raw(HEADER)
    runtime_options_item(u)
    u.add(ex.item(r'^enum ExpansionPiece ', 'ExpansionPiece').r1(keep_derive=()).r11_pub())
    u.add(ex.item(r'^struct WordField\(', 'WordField').r1(keep_derive=()).replace('struct WordField(Vec<ExpansionPiece>);', 'pub struct WordField(pub Vec<ExpansionPiece>);', 'R11', 'visibility widened (single-file crate)'))
    u.add(pt.item(r'^pub\(crate\) enum PatternExpansionResult ', 'PatternExpansionResult').r1(keep_derive=()).resub(r'\n\s*#\[default\]', '', 'R1', '#[default] attribute dropped (carried by vx_unwrap_or_default)', count=None).r11_pub())
    ip = pt.item(r'^impl PatternExpansionResult ', 'impl PatternExpansionResult').r1().r11_pub()
    ip.sig('into_paths', ret='r', ensures=[C('aux paths-of-the-result', 'r@ == paths_of(self)')])
    ip.sig('is_unmatched_glob', ret='r', ensures=[C('aux attempted-and-nothing-matched', 'r == (self is Expanded && self->Expanded_0@.len() == 0)')])
    u.prelude('expansion/pathnames_spec.rs')
    u.add(ip)
    fn = 'expand_pathnames_in_field'
    f = ex.method_anywhere(fn).r1()
    f.resub(r'patterns::Pattern::from\(field\.clone\(\)\)', 'patterns::Pattern::vx_from(field.clone())', 'R14', 'From<WordField> for Pattern -> stub', count=1)
    f.resub(r'pattern\s*\.expand\(\s*self\.shell\.working_dir\(\),\s*Some\(&patterns::Pattern::accept_all_expand_filter\),\s*&options,\s*\)\s*\.unwrap_or_default\(\)', 'vx_unwrap_or_default(pattern.expand_all(&self.shell, &options))', 'R14', 'Pattern::expand (directory walk; generic over the filter) -> stub; Result::unwrap_or_default -> stub', count=1)
    f.resub(r'Err\(error::ErrorKind::NoMatch\((\w+)\)\.into\(\)\)', r'Err(no_match_error(\1))', 'R14', 'ErrorKind::..into() -> stub', count=None)
    recognised = len(re.findall(r'String::from\(field\)', f.text))
    f.resub(r'\bString::from\(field\)', 'wordfield_to_string(field)', 'R14', 'From<WordField> for String -> stub (the texts of the pieces joined)', count=None)
    m = re.search(r'if [^\n{]*expand_non_matching_patterns_to_null \{\s*Ok\(vec!\[\]\)\s*\} else \{\n(.*?)\n\s*\}\n\s*\} else \{\s*Ok\(paths\)', f.text, re.S)
    if not m:
        raise ExtractError('unsupported: %s: the no-match branch is not `if ..nullglob.. { Ok(vec![]) } else { X }` followed by `else { Ok(paths) }`' % fn)
    open_value = not re.fullmatch(r'\s*Ok\(vec!\[wordfield_to_string\(field\)\]\)\s*', m.group(1))
    if open_value:
        f.resub(re.escape(m.group(1)), '                vx_unrecognised_words(field) /* the no-match value as written is outside what this unit reads */', 'R14', 'unrecognised no-match value -> left open', count=1)
        u.violation_needs_replay = True
        u.notes.append('%s: no-match value not of the form `Ok(vec![String::from(field)])`; left open' % fn)
    f.sig(fn, ret='res', ensures=[
        C('C04,C05 the-matches-when-there-are-any-else-the-fields-own-text-unchanged', '''({
    let p = patterns::with_nocase(patterns::with_extglob(patterns::pattern_of(field), self.parser_options.enable_extended_globbing), self.shell.opts().case_insensitive_pathname_expansion);
    let o = patterns::FilenameExpansionOptions { require_dot_in_pattern_to_match_dot_files: !self.shell.opts().glob_matches_dotfiles };
    let e = result_or_default(patterns::expand_spec(p, self.shell, o));
    if e is Expanded && e->Expanded_0@.len() == 0 && self.shell.opts().fail_expansion_on_globs_without_match { res is Err }
    else if paths_of(e).len() > 0 { res is Ok && res->Ok_0@ == paths_of(e) }
    else if self.shell.opts().expand_non_matching_patterns_to_null { res is Ok && res->Ok_0@.len() == 0 }
    else { res is Ok && res->Ok_0@.len() == 1 && res->Ok_0@[0]@ == field_text(field.0@) }
})'''),
    ])
    u.raw('impl WordExpander {')
    u.add(f)
    u.raw('}\n')
    u.raw(FOOTER)
    u.assume('external_body', 'Pattern (built from the field: U10; its expand walks directories: U10d) and Shell are opaque; From<WordField> for String joins the piece texts (stub)')
    u.assume('uninterp', 'pattern_of, with_extglob, with_nocase, expand_spec, Shell::opts')
    u.expected_min_fns = 3
    u.counterexample = replay_scripts(repo, [
        ("cd /; x='\\[q\\]*'; printf '<%s>' $x; echo", '<\\[q\\]*>\n'),
        ("cd /; x='a\\?zz*'; printf '<%s>' $x \"$x\"; echo", '<a\\?zz*><a\\?zz*>\n'),
        ("cd /; printf '<%s>' /nonexistent-*-'q r'/\"*\"; echo", "<and> <are> <here>\n".replace('<and> <are> <here>', '</nonexistent-*-q r/*>')),
    ])
    return u
