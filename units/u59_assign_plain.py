"""U59: the plain (non-appending) half of ShellVariable::assign (brush-core/src/variables.rs, R6 block slice of the else branch): a
string assigned to an array — declared-but-unset ones included — goes to its element 0 and the array stays an array; an array literal
replaces the value and keeps the variable's kind of array."""
from vx.unit import Unit
from vx.extract import C
from .common import replay_scripts

PROPS = ['C09', 'C06']
HEADER = 'use vstd::prelude::*;\nverus! {\n'
FOOTER = '\n} // verus!\nfn main() {}\n'


def build(repo, findings):
    u = Unit('U59', 'plain assignment: a string assigned to an array (declared ones too) becomes element 0', repo, ['C09', 'C06'], safety_props=['C09'])
    va = u.source('brush-core/src/variables.rs')
    va.require_text(r'pub enum ShellValue \{(?:[^}]|\n)*?Unset\(ShellValueUnsetType\),(?:[^}]|\n)*?String\(String\),(?:[^}]|\n)*?AssociativeArray\(BTreeMap<String, String>\),(?:[^}]|\n)*?IndexedArray\(BTreeMap<u64, String>\),(?:[^}]|\n)*?Dynamic \{', 'the five variants of ShellValue, as projected')
    u.raw(HEADER)
    u.add(va.item(r'^pub enum ShellValueUnsetType ', 'ShellValueUnsetType').r1(keep_derive=()))
    u.add(va.item(r'^pub struct ArrayLiteral\(', 'ArrayLiteral').r1(keep_derive=()))
    u.add(va.item(r'^pub enum ShellValueLiteral ', 'ShellValueLiteral').r1(keep_derive=()))
    u.prelude('vars/assign_plain_spec.rs')
    fn = 'assign_plain'
    f = va.block_slice(r'^\s*\} else \{$(?=\n\s*match \(&self\.value, value\) \{)', 'fn assign_plain(self_: &mut ShellVariable, value: ShellValueLiteral) -> Result<(), error::Error>', fn, within_fn='assign')
    f.r1()
    f.resub(r'\bself\b(?!_)', 'self_', 'R6', 'slice wrapper: self -> self_', count=None)
    f.resub(r'String::from\("0"\)', 'vx_string_from("0")', 'R14', 'String::from(&str) -> stub (same characters)', count=None)
    V0 = 'old(self_).value'
    f.sig(fn, ret='res', ensures=[
        C('C09,C06 a-string-assigned-to-an-array-declared-ones-too-becomes-element-0-and-the-array-stays', '''(is_array_kind(%s) && value is Scalar) ==> final(self_).calls@ == old(self_).calls@.push(Call::AtIndex("0"@, value->Scalar_0@, false))''' % V0),
        C('C09 an-array-literal-keeps-the-kind-of-array-the-variable-is', '''(value is Array && !(%s is Dynamic)) ==> final(self_).calls@ == old(self_).calls@ && (if is_assoc_kind(%s) {
        match assoc_from(value->Array_0) { Ok(v) => res is Ok && final(self_).value == v, Err(e) => res is Err }
    } else { res is Ok && final(self_).value == indexed_from(value->Array_0) })''' % (V0, V0)),
        C('C09 a-string-assigned-to-a-scalar-or-untyped-variable-is-its-value', '''(value is Scalar && (%s is String || (%s is Unset && %s->Unset_0 is Untyped))) ==> res is Ok && final(self_).value is String
    && final(self_).value->String_0@ == value->Scalar_0@ && final(self_).calls@ == old(self_).calls@''' % (V0, V0, V0)),
    ])
    f.at_body_start(fn, 'proof { reveal_strlit("0"); }')
    u.add(f)
    u.raw(FOOTER)
    u.assume('external_body', 'assign_at_index (logged in a ghost field), indexed_array_from_literals / associative_array_from_literals (uninterpreted results), vx_string_from; the maps and the fn pointers of ShellValue are opaque')
    u.assume('uninterp', 'indexed_from, assoc_from')
    u.assume('stub', 'the readonly guard (U34), convert_value_literal_for_assignment (attribute transforms; open known finding for the integer attribute: U8) and the appending half of assign are NOT covered here')
    u.expected_min_fns = 1
    u.counterexample = replay_scripts(repo, [
        ('declare -a a; a=x; declare -p a; declare -A m; m=y; declare -p m', 'declare -a a=([0]="x")\ndeclare -A m=([0]="y" )\n'),
        ('a=(p q); a=z; declare -p a', 'declare -a a=([0]="z" [1]="q")\n'),
    ])
    return u
