"""U3c: `$?` and its change counter (brush-core/src/shell.rs accessors; the tail of the assignment-only branch of
SimpleCommand::execute_in_pipeline in interp.rs): every update is counted, and an assignment-only command reports the status an
expansion left, 0 if none did."""
from vx.unit import Unit
from vx.extract import C

PROPS = ['C03', 'C02']
HEADER = 'use vstd::prelude::*;\nuse vstd::std_specs::convert::*;\nverus! {\n'
FOOTER = '\n} // verus!\nfn main() {}\n'


def build(repo, findings):
    u = Unit('U3c', 'every update of $? is counted; an assignment-only command has the status its expansions left', repo, ['C03', 'C02'], safety_props=['C01', 'C03'])
    sh = u.source('brush-core/src/shell.rs')
    interp = u.source('brush-core/src/interp.rs')
    sh.require_text(r'\n\s*last_exit_status: u8,', 'projected field Shell.last_exit_status')
    sh.require_text(r'\n\s*last_exit_status_change_count: usize,', 'projected field Shell.last_exit_status_change_count')
    u.raw(HEADER)
    u.prelude('exec/status_count_spec.rs')
    u.raw('impl Shell {')
    f = sh.method_anywhere('last_exit_status').r1()
    f.sig('last_exit_status', ret='r', ensures=[C('aux accessor', 'r == self.last_exit_status')])
    u.add(f)
    f = sh.method_anywhere('last_exit_status_change_count').r1().r11_pub()
    f.sig('last_exit_status_change_count', ret='r', ensures=[C('aux accessor', 'r == self.last_exit_status_change_count')])
    u.add(f)
    f = sh.method_anywhere('set_last_exit_status').r1()
    f.sig('set_last_exit_status', requires=[C('aux the-counter-has-room (one step per command: a usize cannot run out)', 'old(self).last_exit_status_change_count < usize::MAX')], ensures=[
        C('C03,C02 every-status-update-is-counted-even-one-that-stores-the-same-value', 'final(self).last_exit_status == status && final(self).last_exit_status_change_count == old(self).last_exit_status_change_count + 1')])
    u.add(f)
    u.raw('}\n')
    fn = 'assignment_only_tail'
    t = interp.slice('execute_in_pipeline', r'^\s*context\.shell\.update_last_arg_variable\(None\);$',
                     r'^\s*Ok\(ExecutionResult::new\(context\.shell\.last_exit_status\(\)\)\.into\(\)\)$',
                     'fn assignment_only_tail(shell: &mut Shell, status_change_count_before_expansion: usize) -> Result<ExecutionSpawnResult, error::Error>', fn, nth=2)
    t.r1().resub(r'\bcontext\.shell\.', 'shell.', 'R6', 'slice wrapper: context.shell -> the `&mut` parameter', count=None)
    t.sig(fn, ret='res', requires=[C('aux the-counter-has-room', 'old(shell).last_exit_status_change_count < usize::MAX')], ensures=[
        C('C03,C02 assignment-only-status-is-what-an-expansion-left-else-zero', '''res is Ok && res->Ok_0 is Completed && ({
    let code = if old(shell).last_exit_status_change_count == status_change_count_before_expansion { 0u8 } else { old(shell).last_exit_status };
    res->Ok_0->Completed_0.exit_code == code && final(shell).last_exit_status == code
})''')])
    u.add(t)
    u.raw(FOOTER)
    u.assume('stub', 'Shell is projected to its two status fields; that every expansion path sets $? only through set_last_exit_status is NOT verified (direct writes to the field elsewhere are not looked for)')
    u.assume('external_body', 'error::Error is opaque')
    u.expected_min_fns = 4
    return u
