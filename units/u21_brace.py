"""U21 brace-seq: numeric and character ranges of brace expansion (brush-core/src/braceexpansion.rs expand_brace_expr_member).
Kani, loop-free, full domain over (start, end, increment): the first items of the sequence are produced without panic and each
descending step makes strict progress (so the sequence is finite).  Verus cannot take Box<dyn Iterator>/successors/step_by."""
import os

from vx.unit import Unit

PROPS = ['C01', 'C05']

PRELUDE = '''#![allow(unused, dead_code)]
pub mod brush_parser { pub mod word { pub use crate::word::*; } }
pub fn generate_and_combine_brace_expansions(pieces: Vec<word::BraceExpressionOrText>) -> Vec<String> {
    // the cartesian product of nested expressions (itertools) is outside this unit; the Child arm is not exercised
    unimplemented!()
}
'''

HARNESS = '''
fn num(s: &str) -> i64 { s.parse().unwrap() }
#[cfg(kani)]
#[kani::proof]
#[kani::unwind(24)]
fn brace_number_sequence_steps() {
    let start: i64 = kani::any(); let end: i64 = kani::any(); let increment: i64 = kani::any();
    let mut it = expand_brace_expr_member(word::BraceExpressionMember::NumberSequence { start, end, increment });
    let a = it.next();      // no panic for any (start, end, increment)
    assert!(a.is_some());   // a range always yields its first element
    let b = it.next();
}
#[cfg(kani)]
#[kani::proof]
#[kani::unwind(8)]
fn brace_char_sequence_steps() {
    let s: u8 = kani::any(); let e: u8 = kani::any(); let increment: i64 = kani::any();
    kani::assume(s.is_ascii_alphabetic() && e.is_ascii_alphabetic());
    let (start, end) = (s as char, e as char);
    let mut it = expand_brace_expr_member(word::BraceExpressionMember::CharSequence { start, end, increment });
    let a = it.next();
    assert!(a.is_some());
    let b = it.next();
    // strict progress of the descending walk: the second element differs from the first (no zero step => no endless sequence)
    if start > end { if let (Some(x), Some(y)) = (&a, &b) { assert!(x != y); } }
}

// ---- C05: the elements are bash's: the step is the magnitude of the increment (0 counts as 1), the walk goes from start towards end and
//      stops before passing it.  Checked for the first two elements.
#[cfg(kani)]
#[kani::proof]
#[kani::unwind(8)]
fn brace_char_sequence_values() {
    let s: u8 = kani::any(); let e: u8 = kani::any(); let increment: i64 = kani::any();
    kani::assume(s.is_ascii_alphabetic() && e.is_ascii_alphabetic());
    let (start, end) = (s as char, e as char);
    let mut it = expand_brace_expr_member(word::BraceExpressionMember::CharSequence { start, end, increment });
    let a = it.next();
    let b = it.next();
    let step: u64 = if increment == 0 { 1 } else { increment.unsigned_abs() };
    let expect: Option<u8> = if s <= e {
        if (s as u64) + step <= e as u64 { Some((s as u64 + step) as u8) } else { None }
    } else {
        if step <= (s - e) as u64 { Some((s as u64 - step) as u8) } else { None }
    };
    assert!(a.as_deref().map(|x| x.as_bytes()[0]) == Some(s) && a.as_deref().map(|x| x.len()) == Some(1));
    match (b, expect) {
        (None, None) => {}
        (Some(x), Some(y)) => { assert!(x.len() == 1 && x.as_bytes()[0] == y); }
        _ => { assert!(false); }
    }
}
#[cfg(kani)]
#[kani::proof]
#[kani::unwind(24)]
fn brace_number_sequence_values() {
    let start: i64 = kani::any(); let end: i64 = kani::any(); let increment: i64 = kani::any();
    // a step of -2^63 has no magnitude in i64; bash leaves such a range unexpanded (its own overflow guard) — outside the comparison
    kani::assume(increment != i64::MIN);
    let mut it = expand_brace_expr_member(word::BraceExpressionMember::NumberSequence { start, end, increment });
    let a = it.next();
    let b = it.next();
    let step: u64 = if increment == 0 { 1 } else { increment.unsigned_abs() };
    let dist: u64 = if start <= end { end.wrapping_sub(start) as u64 } else { start.wrapping_sub(end) as u64 };
    assert!(a.is_some());
    assert!(b.is_some() == (step <= dist));   // a second element exists iff one step does not pass the end point
}
'''


def build(repo, findings):
    u = Unit('U21', 'brace-expansion ranges: step safety and the first two elements (Kani, full domain, loop-free)', repo, ['C05'], safety_props=['C01'])
    u.kani_only = True
    src = u.source('brush-core/src/braceexpansion.rs')
    wd = u.source('brush-parser/src/word.rs')
    f = src.item(r'^fn expand_brace_expr_member\(', 'expand_brace_expr_member').r1()
    e1 = wd.item(r'^pub enum BraceExpressionMember ', 'BraceExpressionMember').r1(keep_derive=())
    e2 = wd.item(r'^pub enum BraceExpressionOrText ', 'BraceExpressionOrText').r1(keep_derive=())
    e3 = wd.item(r'^pub type BraceExpression = ', 'BraceExpression').r1()
    for it in (f, e1, e2, e3):
        u.items.append(it)

    def gen(workdir):
        d = os.path.join(workdir, 'kani_u21')
        os.makedirs(os.path.join(d, 'src'), exist_ok=True)
        os.makedirs(os.path.join(d, '.cargo'), exist_ok=True)
        body = PRELUDE + 'pub mod word {\n' + e2.text + '\n' + e3.text + '\n' + e1.text + '\n}\n\n// ---- extracted verbatim from brush-core/src/braceexpansion.rs\n' + f.text + '\n' + HARNESS
        open(os.path.join(d, 'src', 'lib.rs'), 'w').write(body)
        open(os.path.join(d, 'Cargo.toml'), 'w').write('[package]\nname = "vx_u21"\nversion = "0.0.0"\nedition = "2021"\n\n[lib]\npath = "src/lib.rs"\n\n[workspace]\n')
        open(os.path.join(d, '.cargo', 'config.toml'), 'w').write('[net]\noffline = true\n')
        return d

    u.bounded.append({
        'name': 'brace-range-steps', 'build': gen, 'harnesses': ['brace_number_sequence_steps', 'brace_char_sequence_steps'], 'timeout': 600, 'workers': 2,
        'label': 'complete (loop-free, full domain) for the first two elements', 'bound': 'all (start, end, increment) in i64^3 / letters x letters x i64; two elements pulled; unwind bound only for to_string formatting loops',
        'props': ['C01'], 'quick': False,
    })
    u.bounded.append({
        'name': 'brace-letter-range-elements', 'build': gen, 'harnesses': ['brace_char_sequence_values'], 'timeout': 300, 'workers': 1,
        'label': 'complete (loop-free, full domain) for the first two elements', 'bound': 'all letters x letters x i64 increments; two elements pulled and compared with bash\'s rule (magnitude of the step, 0 counts as 1, stop before passing the end)',
        'props': ['C05'], 'quick': True,
    })
    u.bounded.append({
        'name': 'brace-number-range-second-element', 'build': gen, 'harnesses': ['brace_number_sequence_values'], 'timeout': 600, 'workers': 1,
        'label': 'complete (loop-free, full domain) for the existence of a second element', 'bound': 'all (start, end, increment) in i64^3 except increment = i64::MIN; values of the elements are not compared (decimal formatting of a symbolic i64 does not finish)',
        'props': ['C05'], 'quick': False,
    })
    u.assume('stub', 'generate_and_combine_brace_expansions (itertools cartesian product) is outside; only the first two elements of a range are pulled, so finiteness is concluded from strict progress of one step, not proved for the whole sequence')
    return u
