"""U4m: the epilogues of the SimpleCommand dispatch paths (brush-core/src/commands.rs): post_execute exactly once on every exit."""
from vx.unit import Unit
from vx.extract import C

PROPS = ['C18', 'C09', 'C01']
HEADER = 'use vstd::prelude::*;\nuse vstd::std_specs::convert::*;\nverus! {\n'
FOOTER = '\n} // verus!\nfn main() {}\n'


def tail(u, src, fn, start_re, header, name):
    t = src.slice(fn, start_re, None, header, name)
    t.r1().r3()
    t.resub(r'\bself\.', 'self_.', 'R6', 'slice wrapper: self -> self_', count=None)
    t.resub(r'&mut shell\b', '&mut *shell', 'R6', 'the local `shell` (owned in the original) is a `&mut` parameter of the wrapper', count=None)
    t.resub(r'\bpost_execute\(&mut \*shell\)', 'vx_call_post_execute(post_execute, &mut *shell)', 'R14', 'call through the fn pointer -> stub', count=None)
    if name == 'external_tail':
        t.resub(r'resolved_path\.as_ref\(\)', 'resolved_path.as_str()', 'R14', '`Cow<str>::as_ref()` -> `String::as_str()` (R17: the Cow is a String here)', count=None)
        t.resub(r'self_\.argv0\.as_deref\(\)', 'vx_as_deref(&self_.argv0)', 'R14', 'Option<String>::as_deref -> stub', count=None)
    t.sig(name, ret='res', requires=[C('aux args-include-the-command-name', 'self_.args@.len() >= 1')], ensures=[
        C('C18,C09 post-execute-exactly-once-on-every-exit', 'hook_once(*old(shell), *final(shell), self_.post_execute)')])
    u.add(t)
    return t


def build(repo, findings):
    u = Unit('U4m', 'command dispatch epilogues: post_execute hook exactly once on every exit', repo, ['C18', 'C09'], safety_props=['C01', 'C18'])
    src = u.source('brush-core/src/commands.rs')
    src.require_text(r'pub post_execute: Option<fn\(&mut Shell<SE>\) -> Result<\(\), error::Error>>,', 'projected field SimpleCommand.post_execute')
    u.raw(HEADER)
    u.prelude('exec/dispatch_spec.rs')
    tail(u, src, 'execute_via_builtin_in_parent_shell', r'^\s*let result = execute_builtin_command\(&builtin, cmd_context, self\.args\)\.await\??;',
         'fn builtin_in_parent_shell_tail(self_: SimpleCommandTail, shell: &mut ShellForCommand, builtin: builtins::Registration, cmd_context: ExecutionContext, last_arg: Option<String>) -> Result<ExecutionSpawnResult, error::Error>',
         'builtin_in_parent_shell_tail')
    tail(u, src, 'execute_via_function', r'^\s*let result = invoke_shell_function\(func_registration, cmd_context, &self\.args\[1\.\.\]\)\.await\??;',
         'fn function_tail(self_: SimpleCommandTail, shell: &mut ShellForCommand, func_registration: functions::Registration, cmd_context: ExecutionContext, last_arg: Option<String>) -> Result<ExecutionSpawnResult, error::Error>',
         'function_tail')
    tail(u, src, 'execute_via_external', r'^\s*let result = execute_external_command\(',
         'fn external_tail(self_: SimpleCommandTail, shell: &mut ShellForCommand, cmd_context: ExecutionContext, resolved_path: String, last_arg: Option<String>) -> Result<ExecutionSpawnResult, error::Error>',
         'external_tail')
    u.raw(FOOTER)
    u.assume('external_body', 'execute_builtin_command / invoke_shell_function / execute_external_command are abstract (they hold the command context; they cannot run the hook); ShellForCommand is opaque with a ghost hook counter; the fn pointer call is a stub (rule R14)')
    u.assume('uninterp', 'ShellForCommand::hooks (ghost)')
    u.assume('stub', 'the heads of the three paths (argument shuffling before the callee is invoked) are not in the slices; SimpleCommand::execute itself is unit U4r')
    u.expected_min_fns = 3
    return u
