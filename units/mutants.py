"""Property-breaking source edits per unit: (name, file, old text, new text[, expected occurrence count])."""

RS = 'brush-core/src/results.rs'
IN = 'brush-core/src/interp.rs'
AR = 'brush-core/src/arithmetic.rs'
PA = 'brush-parser/src/arithmetic.rs'
HL = 'brush-interactive/src/highlighting.rs'

# masked by an open known finding (inside its `except` region), hence not killable while the finding is open:
#   U2 break-zero-accepted-as-one: `if self.which_loop <= 0` -> `< 0`  (only changes n == 0, which C02:loop-count-nonpositive excepts)

MUTANTS = {
    'U1': [
        ('dec-forgets-minus-one', RS, 'levels: *levels - 1,', 'levels: *levels,', 2),
        ('code-126-becomes-125', RS, '126 => Self::CannotExecute', '125 => Self::CannotExecute'),
        ('u8-of-notfound', RS, 'ExecutionExitCode::NotFound => 127', 'ExecutionExitCode::NotFound => 126'),
        ('return-or-exit-forgets-exit', RS, 'ExecutionControlFlow::ReturnFromFunctionOrScript | ExecutionControlFlow::ExitShell', 'ExecutionControlFlow::ReturnFromFunctionOrScript'),
        ('continue-zero-stays', RS, 'Self::BreakLoop { levels: 0 } | Self::ContinueLoop { levels: 0 } => Self::Normal', 'Self::BreakLoop { levels: 0 } => Self::Normal'),
    ],
    'U2': [
        ('break-levels-not-decremented', 'brush-builtins/src/break_.rs', 'levels: (self.which_loop - 1) as usize,', 'levels: self.which_loop as usize,'),
        ('continue-becomes-break', 'brush-builtins/src/continue_.rs', 'result.next_control_flow = ExecutionControlFlow::ContinueLoop {', 'result.next_control_flow = ExecutionControlFlow::BreakLoop {'),
        ('return-code-truncated-to-7-bits', 'brush-builtins/src/return_.rs', '(code_32bit & 0xFF) as u8', '(code_32bit & 0x7F) as u8'),
        ('return-outside-function-returns', 'brush-builtins/src/return_.rs', 'if context.shell.in_function() || context.shell.in_sourced_script() {', 'if true {'),
        ('exit-ignores-last-status', 'brush-builtins/src/exit.rs', '            context.shell.last_exit_status()', '            0'),
        ('exit-only-returns', 'brush-builtins/src/exit.rs', 'result.next_control_flow = ExecutionControlFlow::ExitShell;', 'result.next_control_flow = ExecutionControlFlow::ReturnFromFunctionOrScript;'),
    ],
    'U3': [
        ('errexit-ignores-pending-flow', 'brush-core/src/shell.rs', '''            && !result.is_success()
            && result.is_normal_flow()''', '''            && !result.is_success()'''),
        ('errexit-on-success', 'brush-core/src/shell.rs', '            && !result.is_success()\n            && result.is_normal_flow()', '            && result.is_normal_flow()'),
        ('errexit-returns-instead-of-exits', 'brush-core/src/shell.rs', 'result.next_control_flow = ExecutionControlFlow::ExitShell;', 'result.next_control_flow = ExecutionControlFlow::ReturnFromFunctionOrScript;'),
        ('nounset-ignores-allow', 'brush-core/src/expansion.rs', 'if allow_unset_vars || !self.shell.options().treat_unset_variables_as_error {', 'if !self.shell.options().treat_unset_variables_as_error {'),
        ('nounset-not-fatal', 'brush-core/src/expansion.rs', 'error::ErrorKind::ExpandingUnsetVariable(parameter.to_string()).into();\n            Err(err.into_fatal())', 'error::ErrorKind::ExpandingUnsetVariable(parameter.to_string()).into();\n            Err(err)'),
    ],
    'U3b': [
        ('indirect-lookup-not-tolerant', 'brush-core/src/expansion.rs', '''            self.expand_parameter_without_indirect(&inner_parameter, allow_unset_vars)
                .await''', '''            self.expand_parameter_without_indirect(&inner_parameter, false)
                .await'''),
        ('first-lookup-always-tolerant', 'brush-core/src/expansion.rs', '''            .expand_parameter_without_indirect(parameter, allow_unset_vars)
            .await?;''', '''            .expand_parameter_without_indirect(parameter, true)
            .await?;'''),
        ('plain-expansion-tolerates-unset', 'brush-core/src/expansion.rs', '''        self.expand_parameter_internal(parameter, indirect, false)
            .await''', '''        self.expand_parameter_internal(parameter, indirect, true)
            .await'''),
    ],
    'U4a': [
        ('drop-decrement-on-cond-flow', IN, '                result.next_control_flow = result.next_control_flow.try_decrement_loop_levels();\n                break;', '                break;'),
        ('cond-not-suppressed', IN, '        // Execute loop condition with errexit suppressed\n        let mut condition_params = params.clone();\n        condition_params.suppress_errexit = true;', '        let mut condition_params = params.clone();\n        condition_params.suppress_errexit = false;'),
        ('while-test-inverted', IN, 'if condition_result.is_success() != is_while {', 'if condition_result.is_success() == is_while {'),
        ('body-gets-cond-params', IN, 'result = body.list.execute(shell, params).await?;', 'result = body.list.execute(shell, &condition_params).await?;'),
    ],
    'U4b': [
        ('for-no-decrement', IN, '''            let is_break = result.is_break();

            result.next_control_flow = result.next_control_flow.try_decrement_loop_levels();

            if is_break || result.is_continue() {
                break;
            }
        }

        shell.set_last_exit_status(result.exit_code.into());
        Ok(result)
    }
}

#[async_trait::async_trait]
impl Execute for ast::CaseClauseCommand''', '''            let is_break = result.is_break();

            if is_break || result.is_continue() {
                break;
            }
        }

        shell.set_last_exit_status(result.exit_code.into());
        Ok(result)
    }
}

#[async_trait::async_trait]
impl Execute for ast::CaseClauseCommand'''),
        ('for-return-decremented', IN, '''            result = self.body.list.execute(shell, params).await?;
            if result.is_return_or_exit() {
                break;
            }

            let is_break = result.is_break();

            result.next_control_flow = result.next_control_flow.try_decrement_loop_levels();

            if is_break || result.is_continue() {
                break;
            }
        }

        shell.set_last_exit_status(result.exit_code.into());
        Ok(result)
    }
}

#[async_trait::async_trait]
impl Execute for ast::CaseClauseCommand''', '''            result = self.body.list.execute(shell, params).await?;
            if result.is_return_or_exit() || result.is_break() {
                break;
            }

            result.next_control_flow = result.next_control_flow.try_decrement_loop_levels();

            if result.is_continue() {
                break;
            }
        }

        shell.set_last_exit_status(result.exit_code.into());
        Ok(result)
    }
}

#[async_trait::async_trait]
impl Execute for ast::CaseClauseCommand'''),
        ('for-var-local-scope', IN, '''                ShellValueLiteral::Scalar(value),
                |_| Ok(()),
                EnvironmentLookup::Anywhere,
                EnvironmentScope::Global,
            )?;

            result = self.body.list.execute''', '''                ShellValueLiteral::Scalar(value),
                |_| Ok(()),
                EnvironmentLookup::OnlyInCurrentLocal,
                EnvironmentScope::Local,
            )?;

            result = self.body.list.execute'''),
        ('for-words-dropped-on-append', IN, 'expanded_values.append(&mut expanded);', 'expanded_values = expanded;'),
        ('for-args-ignored', IN, 'expanded_values.extend_from_slice(shell.current_shell_args());', ''),
    ],
    'U4c': [
        ('cond-zero-continues', IN, 'condition.eval(shell, params, true).await? == 0 {', 'condition.eval(shell, params, true).await? != 0 {'),
        ('updater-before-break-check', IN, '''            if is_break || result.is_continue() {
                break;
            }

            if let Some(updater) = &self.updater {
                updater.eval(shell, params, true).await?;
            }''', '''            if let Some(updater) = &self.updater {
                updater.eval(shell, params, true).await?;
            }

            if is_break || result.is_continue() {
                break;
            }'''),
        ('arithfor-no-decrement', IN, '''            let is_break = result.is_break();

            result.next_control_flow = result.next_control_flow.try_decrement_loop_levels();

            if is_break || result.is_continue() {
                break;
            }

            if let Some(updater)''', '''            let is_break = result.is_break();

            if is_break || result.is_continue() {
                break;
            }

            if let Some(updater)'''),
        ('initializer-skipped', IN, '''        if let Some(initializer) = &self.initializer {
            initializer.eval(shell, params, true).await?;
        }
''', ''),
        ('arithfor-final-status-dropped', IN, '''                updater.eval(shell, params, true).await?;
            }
        }

        shell.set_last_exit_status(result.exit_code.into());''', '''                updater.eval(shell, params, true).await?;
            }
        }
'''),
    ],
    'U4d': [
        ('if-cond-not-suppressed', IN, '        // Execute condition with errexit suppressed\n        let mut condition_params = params.clone();\n        condition_params.suppress_errexit = true;\n        let condition = self.condition', '        let mut condition_params = params.clone();\n        condition_params.suppress_errexit = params.suppress_errexit;\n        let condition = self.condition'),
        ('elif-cond-uses-caller-params', IN, 'else_condition.execute(shell, &condition_params).await?;', 'else_condition.execute(shell, params).await?;'),
        ('then-body-suppressed', IN, 'return self.then.execute(shell, params).await;', 'return self.then.execute(shell, &condition_params).await;'),
        ('elif-success-runs-then', IN, 'return else_clause.body.execute(shell, params).await;\n                        }\n                    }\n                    None', 'return self.then.execute(shell, params).await;\n                        }\n                    }\n                    None'),
        ('no-branch-status-not-reset', IN, '        let result = ExecutionResult::success();\n        shell.set_last_exit_status(result.exit_code.into());\n\n        Ok(result)\n    }\n}\n\n#[async_trait::async_trait]\nimpl Execute for (WhileOrUntil', '        let result = ExecutionResult::success();\n\n        Ok(result)\n    }\n}\n\n#[async_trait::async_trait]\nimpl Execute for (WhileOrUntil'),
        ('cond-flow-ignored', IN, '        if !condition.is_normal_flow() {\n            return Ok(condition);\n        }\n', ''),
    ],
    'U4e': [
        ('last-operand-suppressed', IN, '            if !is_last {\n                params.suppress_errexit = true;', '            if is_last {\n                params.suppress_errexit = true;'),
        ('first-operand-not-suppressed', IN, '        if has_operators {\n            first_params.suppress_errexit = true;\n        }', ''),
        ('short-circuit-breaks', IN, '                if !result.is_success() {\n                    continue;', '                if !result.is_success() {\n                    break;'),
        ('nonnormal-flow-not-stopping', IN, '            // Check for non-normal control flow.\n            if !result.is_normal_flow() {\n                break;\n            }\n\n            let (is_and, pipeline)', '            let (is_and, pipeline)'),
        ('and-or-swapped', IN, 'ast::AndOr::And(p) => (true, p),\n                ast::AndOr::Or(p) => (false, p),', 'ast::AndOr::And(p) => (false, p),\n                ast::AndOr::Or(p) => (true, p),'),
        ('is-last-off-by-one', IN, 'let is_last = index == self.additional.len() - 1;', 'let is_last = index + 1 == self.additional.len() - 1;'),
    ],
    'U4f': [
        ('fallthrough-tests-pattern', IN, '''                ast::CaseItemPostAction::UnconditionallyExecuteNextCaseItem => {
                    force_execute_next_case = true;
                }''', '''                ast::CaseItemPostAction::UnconditionallyExecuteNextCaseItem => {
                    force_execute_next_case = false;
                }'''),
        ('continue-evaluating-exits', IN, '''                ast::CaseItemPostAction::ContinueEvaluatingCases => (),''', '''                ast::CaseItemPostAction::ContinueEvaluatingCases => break,'''),
        ('exitcase-continues', IN, '''                ast::CaseItemPostAction::ExitCase => break,''', '''                ast::CaseItemPostAction::ExitCase => (),'''),
        ('case-nonnormal-flow-ignored', IN, '''            // Check for early return (return/exit) or loop control flow (break/continue)
            if !result.is_normal_flow() {
                break;
            }
''', ''),
        ('first-match-not-stopping', IN, '''                        matches = true;
                        break;''', '''                        matches = true;'''),
        ('empty-clause-keeps-status', IN, '''            } else {
                ExecutionResult::success()
            };

            // Check for early return''', '''            } else {
                result
            };

            // Check for early return'''),
        ('case-final-status-dropped', IN, '''                ast::CaseItemPostAction::ContinueEvaluatingCases => (),
            }
        }

        shell.set_last_exit_status(result.exit_code.into());
''', '''                ast::CaseItemPostAction::ContinueEvaluatingCases => (),
            }
        }
'''),
    ],
    'U4g': [
        ('asynchronous-list-leaves-the-previous-status', 'brush-core/src/interp.rs', "                result = ExecutionResult::success();\n                shell.set_last_exit_status(0);\n", "                result = ExecutionResult::success();\n"),
        ('list-continues-after-nonnormal', IN, '''                shell.set_last_exit_status(result.exit_code.into());
            }

            if !result.is_normal_flow() {
                break;
            }
        }

        Ok(result)
    }
}

fn spawn_async_ao_list_in_task''', '''                shell.set_last_exit_status(result.exit_code.into());
            }
        }

        Ok(result)
    }
}

fn spawn_async_ao_list_in_task'''),
        ('async-status-not-zero', IN, '''                    writeln!(params.stderr(shell), "{job_formatted}")?;
                }

                // The exit status of an asynchronous list is zero.
                result = ExecutionResult::success();''', '''                    writeln!(params.stderr(shell), "{job_formatted}")?;
                }
'''),
        ('list-status-not-updated', IN, '''                result = ao_list.execute(shell, params).await?;

                // Update status
                shell.set_last_exit_status(result.exit_code.into());''', '''                result = ao_list.execute(shell, params).await?;'''),
        ('sync-run-as-async', IN, 'let run_async = matches!(sep, ast::SeparatorOperator::Async);', 'let run_async = !matches!(sep, ast::SeparatorOperator::Async);'),
    ],
    'U4h': [
        ('program-error-propagates', IN, '''                Err(err) => {
                    // Display the error and convert to an execution result.
                    let _ = shell.display_error(&mut params.stderr(shell), &err);
                    result = err.into_result(shell);
                }''', '''                Err(err) => {
                    return Err(err);
                }'''),
        ('program-status-not-updated', IN, '''            // Update status
            shell.set_last_exit_status(result.exit_code.into());

            // Check if we should stop executing subsequent commands''', '''            // Check if we should stop executing subsequent commands'''),
        ('program-ignores-exit', IN, '''            // Check if we should stop executing subsequent commands
            if !result.is_normal_flow() {
                break;
            }''', '''            if result.is_break() {
                break;
            }'''),
    ],
    'U4i': [
        ('return-not-consumed', 'brush-core/src/commands.rs', '''            // It's now been handled.
            result.next_control_flow = ExecutionControlFlow::Normal;''', '''            // It's now been handled.'''),
        ('exit-consumed-at-boundary', 'brush-core/src/commands.rs', '''        ExecutionControlFlow::ReturnFromFunctionOrScript => {''', '''        ExecutionControlFlow::ReturnFromFunctionOrScript | ExecutionControlFlow::ExitShell => {'''),
        ('body-error-skips-leave', 'brush-core/src/commands.rs', '''    let result = body.execute(context.shell, &context.params).await;

    // We've come back out, reflect it.
    context.shell.leave_function()?;

    // Get the actual execution result from the body of the function.
    let mut result = result?;''', '''    let mut result = body.execute(context.shell, &context.params).await?;

    // We've come back out, reflect it.
    context.shell.leave_function()?;
'''),
        ('break-crosses-boundary', 'brush-core/src/commands.rs', '''        ExecutionControlFlow::BreakLoop { .. } | ExecutionControlFlow::ContinueLoop { .. } => {
            return error::unimp("break or continue returned from function invocation");
        }
''', ''),
        ('function-status-forced-zero', 'brush-core/src/commands.rs', '''            // It's now been handled.
            result.next_control_flow = ExecutionControlFlow::Normal;''', '''            // It's now been handled.
            result = ExecutionResult::success();'''),
    ],
    'U4j': [
        ('subshell-exit-propagates', IN, 'Ok(ExecutionResult::from(subshell_result.exit_code))', 'Ok(subshell_result)'),
        ('subshell-runs-in-parent', IN, 'let subshell_result = match list.execute(&mut subshell, params).await {', 'let subshell_result = match list.execute(shell, params).await {'),
        ('subshell-error-status-lost', IN, '                        error.into_result(&subshell)', '                        ExecutionResult::success()'),
    ],
    'U4k': [
        ('bang-does-not-suppress', IN, '''        if self.bang {
            params.suppress_errexit = true;
        }

        // Spawn all''', '''        // Spawn all'''),
        ('errexit-applied-to-negated', IN, '''        if !params.suppress_errexit && !self.bang && failure_is_its_own {
            shell.apply_errexit_if_enabled(&mut result);''', '''        if (!params.suppress_errexit || self.bang) && failure_is_its_own {
            shell.apply_errexit_if_enabled(&mut result);'''),
        ('errexit-applied-when-suppressed', IN, '''        if !params.suppress_errexit && !self.bang && failure_is_its_own {
            shell.apply_errexit_if_enabled(&mut result);''', '''        if !self.bang && failure_is_its_own {
            shell.apply_errexit_if_enabled(&mut result);'''),
        ('grouping-command-triggers-errexit-by-itself', IN, '''        if !params.suppress_errexit && !self.bang && failure_is_its_own {
            shell.apply_errexit_if_enabled(&mut result);''', '''        if !params.suppress_errexit && !self.bang {
            shell.apply_errexit_if_enabled(&mut result);'''),
        ('grouping-command-fires-the-err-trap-by-itself', IN, 'if !result.is_success() && !params.suppress_errexit && !self.bang && failure_is_its_own {', 'if !result.is_success() && !params.suppress_errexit && !self.bang {'),
        ('subshell-counted-as-grouping', IN, '''            ast::CompoundCommand::BraceGroup(_)
                | ast::CompoundCommand::ForClause(_)''', '''            ast::CompoundCommand::BraceGroup(_)
                | ast::CompoundCommand::Subshell(_)
                | ast::CompoundCommand::ForClause(_)'''),
        ('until-loop-not-counted-as-grouping', IN, '''                | ast::CompoundCommand::WhileClause(_)
                | ast::CompoundCommand::UntilClause(_),''', '''                | ast::CompoundCommand::WhileClause(_),'''),
        ('last-stage-of-a-longer-pipeline-counted-as-grouping', IN, '''    if pipeline.seq.len() != 1 {
        return false;
    }
''', '''    if pipeline.seq.is_empty() {
        return false;
    }
'''),
        ('err-trap-in-exempt-context', IN, 'if !result.is_success() && !params.suppress_errexit && !self.bang && failure_is_its_own {', 'if !result.is_success() && !self.bang && failure_is_its_own {'),
        ('bang-inversion-wrong', IN, 'ExecutionExitCode::from(if result.is_success() { 1 } else { 0 });', 'ExecutionExitCode::from(if result.is_success() { 0 } else { 1 });'),
        ('status-set-before-inversion', IN, '''        if self.bang && !result.is_return_or_exit() {
            result.exit_code = ExecutionExitCode::from(if result.is_success() { 1 } else { 0 });
        }

        // Update exit status.
        shell.set_last_exit_status(result.exit_code.into());''', '''        // Update exit status.
        shell.set_last_exit_status(result.exit_code.into());

        if self.bang && !result.is_return_or_exit() {
            result.exit_code = ExecutionExitCode::from(if result.is_success() { 1 } else { 0 });
        }'''),
        ('errexit-never-applied', IN, '''        if !params.suppress_errexit && !self.bang && failure_is_its_own {
            shell.apply_errexit_if_enabled(&mut result);
        }
''', ''),
    ],
    'U4l': [
        ('error-of-a-stage-in-its-own-subshell-ends-the-shell', 'brush-core/src/interp.rs', "            Err(error) if !run_in_current_shell => {", "            Err(error) if !run_in_current_shell && false => {"),
        ('stage-drops-errexit-exemption', IN, '''        if !run_in_current_shell {
            // Make sure that all commands in the pipeline are in the same process group.''', '''        if !run_in_current_shell {
            cmd_params.suppress_errexit = false;
            // Make sure that all commands in the pipeline are in the same process group.''') if False else ('stage-drops-errexit-exemption', IN, '''        let pipeline_context = if !run_in_current_shell {
            // Make sure that all commands in the pipeline are in the same process group.''', '''        let pipeline_context = if !run_in_current_shell {
            cmd_params.suppress_errexit = false;
            // Make sure that all commands in the pipeline are in the same process group.'''),
        ('stdin-stdout-pipes-swapped', IN, '''            cmd_params.open_files.set_fd(OpenFiles::STDIN_FD, reader);
        }
        if let Some(Some(writer)) = pipe_writers.pop() {
            cmd_params.open_files.set_fd(OpenFiles::STDOUT_FD, writer);''', '''            cmd_params.open_files.set_fd(OpenFiles::STDOUT_FD, reader);
        }
        if let Some(Some(writer)) = pipe_writers.pop() {
            cmd_params.open_files.set_fd(OpenFiles::STDIN_FD, writer);'''),
        ('first-stage-reads-a-pipe', IN, '''        // Push `None` to the readers; it will be popped off by the *first* command, which will
        // mean that command gets its stdin from the execution parameters' current stdin.
        pipe_readers.push(None);''', ''),
        ('lastpipe-ignores-job-control', IN, '''                && shell.options().run_last_pipeline_cmd_in_current_shell
                && !shell.options().enable_job_control);''', '''                && shell.options().run_last_pipeline_cmd_in_current_shell);'''),
        ('second-stage-own-process-group', IN, 'if current_pipeline_index > 0 {\n                cmd_params.process_group_policy', 'if current_pipeline_index > 1 {\n                cmd_params.process_group_policy'),
        ('one-pipe-too-few', IN, 'for _ in 0..(pipeline_len - 1) {', 'for _ in 0..(pipeline_len - 2) {'),
    ],
    'U4m': [
        ('external-spawn-failure-skips-the-hook', 'brush-core/src/commands.rs', "        shell.update_last_arg_variable(last_arg);\n\n        if let Some(post_execute) = self.post_execute {\n            let _ = post_execute(&mut shell);\n        }\n\n        result\n    }\n}\n\npub(crate) fn execute_external_command(", "        shell.update_last_arg_variable(last_arg);\n\n        let spawned = result?;\n\n        if let Some(post_execute) = self.post_execute {\n            let _ = post_execute(&mut shell);\n        }\n\n        Ok(spawned)\n    }\n}\n\npub(crate) fn execute_external_command("),
        ('builtin-error-skips-hook', 'brush-core/src/commands.rs', '''        if let Some(post_execute) = self.post_execute {
            let _ = post_execute(&mut shell);
        }

        let result = result?;

        Ok(result.into())''', '''        let result = result?;

        if let Some(post_execute) = self.post_execute {
            let _ = post_execute(&mut shell);
        }

        Ok(result.into())'''),
        ('function-path-hook-dropped', 'brush-core/src/commands.rs', '''        shell.update_last_arg_variable(last_arg);

        if let Some(post_execute) = self.post_execute {
            let _ = post_execute(&mut shell);
        }

        result
    }

    fn execute_via_external''', '''        shell.update_last_arg_variable(last_arg);

        result
    }

    fn execute_via_external'''),
    ],
    'U4n': [
        ('pipefail-takes-first-failure', IN, '''                if !result.is_success() {
                    last_failure_exit_code = Some(result.exit_code);
                }''', '''                if !result.is_success() && last_failure_exit_code.is_none() {
                    last_failure_exit_code = Some(result.exit_code);
                }'''),
        ('pipefail-always-on', IN, 'if shell.options().return_last_failure_from_pipeline {', 'if true {'),
        ('pipestatus-not-cleared', IN, '''    // Clear our the pipeline status so we can start filling it out.
    shell.last_pipeline_statuses_mut().clear();
''', ''),
        ('pipestatus-skips-stopped-stage', IN, '''                result = ExecutionResult::stopped();
                shell.set_last_exit_status(result.exit_code.into());
                shell
                    .last_pipeline_statuses_mut()
                    .push(result.exit_code.into());
''', '''                result = ExecutionResult::stopped();
                shell.set_last_exit_status(result.exit_code.into());
'''),
    ],
    'U5': [
        ('sub-becomes-add', AR, 'Ok(left.wrapping_sub(right))', 'Ok(left.wrapping_add(right))'),
        ('lt-becomes-le', AR, 'Ok(bool_to_i64(left < right))', 'Ok(bool_to_i64(left <= right))'),
        ('add-not-wrapping', AR, 'Ok(left.wrapping_add(right))', 'Ok(left + right)'),
        ('pow-parity', AR, 'if exponent % 2 == 1', 'if exponent % 2 == 0'),
        ('shr-becomes-shl', AR, 'left.wrapping_shr(right as u32)', 'left.wrapping_shl(right as u32)'),
        ('postfix-returns-new', AR, '            assign(shell, lvalue, new_value, depth)?;\n            Ok(value)\n        }\n        ast::UnaryAssignmentOperator::PostfixDecrement', '            assign(shell, lvalue, new_value, depth)?;\n            Ok(new_value)\n        }\n        ast::UnaryAssignmentOperator::PostfixDecrement'),
        ('and-not-short-circuit', AR, '            if left == 0 {\n                return Ok(bool_to_i64(false));\n            }\n', ''),
        ('conditional-evaluates-else-first', AR, '            if conditional_eval != 0 {\n                eval_expr_impl(then_expr, shell, depth)?', '            if conditional_eval == 0 {\n                eval_expr_impl(then_expr, shell, depth)?'),
        ('div-zero-check-dropped', AR, '            if right == 0 {\n                Err(EvalError::DivideByZero)\n            } else {\n                Ok(left.wrapping_div(right))\n            }', '            Ok(left.wrapping_div(right))'),
    ],
    'U6': [
        ('upper-digits-36-as-10', PA, "'A'..='Z' => (ch as u64) - ('A' as u64) + 36", "'A'..='Z' => (ch as u64) - ('A' as u64) + 10"),
        ('digit-equal-radix-accepted', PA, 'if digit_val >= radix {', 'if digit_val > radix {'),
        ('base-65-accepted', PA, 'if !(2..=64).contains(&radix) {', 'if !(2..=65).contains(&radix) {'),
    ],
    'U7': [
        ('negative-length-is-a-count-again', 'brush-core/src/expansion.rs', 'let end_offset = expanded_parameter_len.saturating_add(expanded_length);\n                        if expanded_parameter.from_array', 'let end_offset = expanded_offset.saturating_add(expanded_parameter_len.saturating_add(expanded_length));\n                        if expanded_parameter.from_array'),
        ('negative-length-error-check-dropped', 'brush-core/src/expansion.rs', 'if expanded_parameter.from_array || end_offset < expanded_offset {', 'if expanded_parameter.from_array {'),
        ('array-negative-length-allowed', 'brush-core/src/expansion.rs', 'if expanded_parameter.from_array || end_offset < expanded_offset {', 'if end_offset < expanded_offset {'),
        ('offset-not-clamped', 'brush-core/src/expansion.rs', 'let expanded_offset = min(expanded_offset, expanded_parameter_len);', 'let expanded_offset = expanded_offset;'),
        ('too-negative-offset-starts-at-zero', 'brush-core/src/expansion.rs', '''                    if expanded_offset < 0 {
                        expanded_offset = expanded_parameter_len;
                    }''', '''                    if expanded_offset < 0 {
                        expanded_offset = 0;
                    }'''),
        ('length-not-clipped', 'brush-core/src/expansion.rs', 'min(expanded_length, expanded_parameter_len - expanded_offset);', 'expanded_length;'),
    ],
    'U8': [
        ('array-literal-index-overflows-again', 'brush-core/src/variables.rs', "            new_key = new_key.wrapping_add(1);", "            new_key += 1;"),
        ('index-after-the-largest-overflows-again', 'brush-core/src/variables.rs', "            largest_index.wrapping_add(1)", "            largest_index + 1"),
        ('subscript-relative-to-max-key-not-past-it', 'brush-core/src/variables.rs', 'Some((max_key, _)) => max_key.wrapping_add(1),', 'Some((max_key, _)) => *max_key,'),
        ('negative-subscript-never-errors', 'brush-core/src/variables.rs', '''        if index_value < 0 {
            return Err(error::ErrorKind::ArrayIndexOutOfRange(index_str.to_owned()).into());
        }
''', ''),
        ('int-append-plain-add', 'brush-core/src/variables.rs', '''                            let int_value = base
                                .parse::<i64>()
                                .unwrap_or(0)
                                .wrapping_add(suffix.parse::<i64>().unwrap_or(0));''', '''                            let int_value = base
                                .parse::<i64>()
                                .unwrap_or(0)
                                + suffix.parse::<i64>().unwrap_or(0);'''),
        ('int-append-saturates', 'brush-core/src/variables.rs', '''                                .wrapping_add(suffix.parse::<i64>().unwrap_or(0));''', '''                                .saturating_add(suffix.parse::<i64>().unwrap_or(0));'''),
    ],
    'U10': [
        ('quoted-glob-characters-ask-for-pathname-expansion', 'brush-core/src/patterns.rs', "        } else if !self.pieces.iter().any(|piece| {\n            matches!(piece, PatternPiece::Pattern(_))\n                && requires_expansion(piece.as_str(), self.enable_extended_globbing)\n        }) {", "        } else if !self.pieces.iter().any(|piece| {\n            requires_expansion(piece.as_str(), self.enable_extended_globbing)\n        }) {"),
        ('component-decision-ignores-the-extglob-option', 'brush-core/src/patterns.rs', "            if !component.iter().any(|piece| {\n                matches!(piece, PatternPiece::Pattern(_))\n                    && requires_expansion(piece.as_str(), self.enable_extended_globbing)\n            }) {", "            if !component.iter().any(|piece| {\n                matches!(piece, PatternPiece::Pattern(_))\n                    && requires_expansion(piece.as_str(), true)\n            }) {"),
        ('dollar-not-regex-special', 'brush-core/src/regex.rs', "'\\\\' | '^' | '$' | '.' | '|'", "'\\\\' | '^' | '.' | '|'"),
        ('translator-drops-escape-of-plus', 'brush-parser/src/pattern.rs', "'*' | '?' | '.' | '+' | '^'", "'*' | '?' | '.' | '^'"),
        ('literal-piece-not-escaped', 'brush-core/src/patterns.rs', '''                        if crate::regex::regex_char_is_special(c) {
                            current_pattern.push('\\\\');
                        }
''', ''),
        ('quoted-piece-becomes-pattern', 'brush-core/src/expansion.rs', '''impl From<ExpansionPiece> for patterns::PatternPiece {
    fn from(piece: ExpansionPiece) -> Self {
        match piece {
            ExpansionPiece::Unsplittable(s) => Self::Literal(s),''', '''impl From<ExpansionPiece> for patterns::PatternPiece {
    fn from(piece: ExpansionPiece) -> Self {
        match piece {
            ExpansionPiece::Unsplittable(s) => Self::Pattern(s),'''),
        ('line-anchored-again', 'brush-core/src/regex.rs', 'std::format!("(?s){regex_str}")', 'std::format!("(?ms){regex_str}")'),
        ('dot-stops-at-newline', 'brush-core/src/regex.rs', 'std::format!("(?s){regex_str}")', 'std::format!("(?i){regex_str}")'),
        ('exact-match-unanchored-at-end', 'brush-core/src/patterns.rs', 'let re = self.to_regex(true, true)?;\n        Ok(re.is_match(value)?)', 'let re = self.to_regex(true, false)?;\n        Ok(re.is_match(value)?)'),
        ('regex-ignores-case-flag', 'brush-core/src/patterns.rs', 'regex::compile_regex(regex_str, self.case_insensitive, self.multiline)?', 'regex::compile_regex(regex_str, false, self.multiline)?'),
        ('suffix-anchor-dropped', 'brush-core/src/patterns.rs', '''        if strict_suffix_match {
            regex_str.push('$');
        }
''', ''),
    ],
    'U10b': [],
    'U11': [
        ('empty-fields-kept-on-ifs-run', 'brush-core/src/expansion.rs', '''                            if ifs.contains(c) {
                                if !current_field.0.is_empty() {
                                    fields.push(std::mem::take(&mut current_field));
                                }''', '''                            if ifs.contains(c) {
                                {
                                    fields.push(std::mem::take(&mut current_field));
                                }'''),
        ('char-glued-onto-quoted-piece', 'brush-core/src/expansion.rs', '''                                    Some(ExpansionPiece::Splittable(last)) => last.push(c),
                                    Some(ExpansionPiece::Unsplittable(_)) | None => {''', '''                                    Some(ExpansionPiece::Splittable(last) | ExpansionPiece::Unsplittable(last)) => last.push(c),
                                    None => {'''),
        ('field-boundary-not-flushed', 'brush-core/src/expansion.rs', '''            if !current_field.0.is_empty() {
                fields.push(std::mem::take(&mut current_field));
            }
        }

        fields''', '''        }

        if !current_field.0.is_empty() {
            fields.push(std::mem::take(&mut current_field));
        }

        fields'''),
        ('ifs-test-inverted', 'brush-core/src/expansion.rs', 'if ifs.contains(c) {', 'if !ifs.contains(c) {'),
        ('quoted-piece-starts-new-field', 'brush-core/src/expansion.rs', 'ExpansionPiece::Unsplittable(_) => current_field.0.push(piece),', 'ExpansionPiece::Unsplittable(_) => fields.push(WordField(vec![piece])),'),
    ],
    'U13': [
        ('new-variable-goes-to-the-innermost-scope-of-any-kind', 'brush-core/src/env.rs', "            if *scope_type == target_scope {\n                let prev_var = map.set(name, var);", "            if *scope_type == target_scope || true {\n                let prev_var = map.set(name, var);"),
        ('allexport-ignored-for-new-variables', 'brush-core/src/env.rs', "        if self.export_variables_on_modification {\n            var.export();\n        }\n\n        for (scope_type, map) in self.scopes.iter_mut().rev() {", "        for (scope_type, map) in self.scopes.iter_mut().rev() {"),
        ('second-unset-of-a-local-drops-the-placeholder', 'brush-core/src/env.rs', "            if unset_result.is_some() {\n                // If we end up finding a local in the top-most local frame, then we replace\n                // it with a placeholder.\n                if matches!(scope_type, EnvironmentScope::Local) && local_count == 1 {", "            if let Some(removed) = &unset_result {\n                if matches!(scope_type, EnvironmentScope::Local) && local_count == 1 && removed.is_readonly() {"),
        ('placeholder-for-any-local-frame', 'brush-core/src/env.rs', "if matches!(scope_type, EnvironmentScope::Local) && local_count == 1 {", "if matches!(scope_type, EnvironmentScope::Local) {"),
        ('unset-continues-past-the-innermost-hit', 'brush-core/src/env.rs', "                return Ok(unset_result);\n            }\n        }\n\n        Ok(None)", "            }\n        }\n\n        Ok(None)"),
        ('lookup-outermost-first', 'brush-core/src/env.rs', '''        // Look through scopes, from the top of the stack on down.
        for (scope_type, map) in self.scopes.iter().rev() {
            if let Some(var) = map.get(name.as_ref()) {
                return Some((*scope_type, var));''', '''        // Look through scopes, from the top of the stack on down.
        for (scope_type, map) in self.scopes.iter() {
            if let Some(var) = map.get(name.as_ref()) {
                return Some((*scope_type, var));'''),
        ('pop-without-scope-is-ok', 'brush-core/src/env.rs', "            None => Err(error::ErrorKind::MissingScope.into()),", "            None => Ok(()),"),
        ('readonly-unset-allowed', 'brush-core/src/env.rs', '            Some(true) => Err(error::ErrorKind::ReadonlyVariable.into()),', '            Some(true) => Ok(map.unset(name)),'),
        ('new-starts-with-local-scope', 'brush-core/src/env.rs', 'scopes: vec![(EnvironmentScope::Global, ShellVariableMap::default())],', 'scopes: vec![(EnvironmentScope::Local, ShellVariableMap::default())],'),
        ('push-reuses-top-scope-kind', 'brush-core/src/env.rs', 'self.scopes.push((scope_type, ShellVariableMap::default()));', 'self.scopes.push((EnvironmentScope::Local, ShellVariableMap::default()));'),
    ],
    'U15': [
        ('here-document-continuations-removed-after-expansion', 'brush-core/src/expansion.rs', "    let body = remove_line_continuations(word_str.as_ref());\n    expander.basic_expand_to_str(body.as_str()).await", "    let body = expander.basic_expand_to_str(word_str.as_ref()).await?;\n    Ok(remove_line_continuations(body.as_str()))"),
        ('here-document-body-expanded-with-brace-expansion', 'brush-core/src/expansion.rs', "    expander.heredoc_mode = true;\n    expander.disable_brace_expansion = true;\n", "    expander.heredoc_mode = true;\n"),
        ('heredoc-continuation-ignores-escaped-backslash', 'brush-core/src/expansion.rs', "        } else if c == '\\\\' {\n            after_backslash = true;", "        } else if c == '\\\\' {\n            after_backslash = true;\n            result.push(c);"),
        ('heredoc-continuation-keeps-the-backslash', 'brush-core/src/expansion.rs', "            if c != '\\n' {\n                result.push('\\\\');\n                result.push(c);\n            }", "            result.push('\\\\');\n            if c != '\\n' {\n                result.push(c);\n            }"),
        ('heredoc-trailing-backslash-lost', 'brush-core/src/expansion.rs', "    if after_backslash {\n        result.push('\\\\');\n    }\n\n    result\n}", "    result\n}"),
        ('noclobber-probe-from-the-process-directory', 'brush-core/src/interp.rs', "                    let expanded_file_path: PathBuf =\n                        shell.absolute_path(Path::new(expanded_fields.remove(0).as_str()));", "                    let expanded_file_path = PathBuf::from(expanded_fields.remove(0));"),
        ('close-removes-entry', 'brush-core/src/openfiles.rs', 'self.files.insert(fd, None).and_then(|f| f)', 'self.files.remove(&fd).and_then(|f| f)'),
        ('add-starts-at-stderr', 'brush-core/src/openfiles.rs', 'const FIRST_NON_STDIO_FD: ShellFd = 3;', 'const FIRST_NON_STDIO_FD: ShellFd = 2;'),
        ('add-off-by-one-limit', 'brush-core/src/openfiles.rs', 'if fd >= Self::MAX_FD {', 'if fd > Self::MAX_FD {'),
        ('entry-closed-reads-as-unspecified', 'brush-core/src/openfiles.rs', '                None => OpenFileEntry::NotPresent,', '                None => OpenFileEntry::NotSpecified,'),
        ('closed-fd-falls-back-to-shell', IN, '            openfiles::OpenFileEntry::NotPresent => None,', '            openfiles::OpenFileEntry::NotPresent => shell.persistent_open_files().try_fd(fd).cloned(),'),
        ('try-stderr-returns-stdout', IN, 'self.try_fd(shell, openfiles::OpenFiles::STDERR_FD)', 'self.try_fd(shell, openfiles::OpenFiles::STDOUT_FD)'),
        ('default-fd-readwrite-stdout', IN, 'ast::IoFileRedirectKind::ReadAndWrite => 0,', 'ast::IoFileRedirectKind::ReadAndWrite => 1,'),
        ('noclobber-truncates', IN, '''                                    options.create_new(true);
                                }
                                options.write(true);''', '''                                    options.create_new(true);
                                }
                                options.write(true);
                                options.truncate(true);'''),
        ('noclobber-inverted-test', IN, 'if !expanded_file_path.is_file() {', 'if expanded_file_path.is_file() {'),
        ('append-truncates', IN, '''                            options.create(true);
                            options.append(true);''', '''                            options.create(true);
                            options.truncate(true);
                            options.append(true);'''),
        ('here-string-no-newline', IN, "            expanded_word.push('\\n');\n", ""),
        ('here-string-default-fd-stdout', IN, '''            // If not specified, default to stdin (fd 0).
            let fd_num = fd_num.unwrap_or(0);

            let mut expanded_word''', '''            let fd_num = fd_num.unwrap_or(1);

            let mut expanded_word'''),
        ('quoted-heredoc-expanded', IN, 'let io_here_doc = if io_here.requires_expansion {', 'let io_here_doc = if !io_here.requires_expansion {'),
        ('procsubst-fd-zero', IN, '''        candidate_fd_num -= 1;
        if candidate_fd_num == 0 {''', '''        candidate_fd_num -= 1;
        if candidate_fd_num < 0 {'''),
    ],
    'U22': [
        ('escaped-brace-skipped-with-sloppy-escape-flag', 'brush-core/src/expansion.rs', "            if !last_was_unescaped_dollar_sign {\n                saw_opening_brace = true;", "            if !last_was_unescaped_dollar_sign && !last_was_escape {\n                saw_opening_brace = true;"),
        ('closing-brace-after-dollar-skipped-again', 'brush-core/src/expansion.rs', "        } else if c == '}' {\n            saw_closing_brace = true;", "        } else if c == '}' && !last_was_unescaped_dollar_sign {\n            saw_closing_brace = true;"),
        ('dollar-flag-ignores-escape', 'brush-core/src/expansion.rs', "last_was_unescaped_dollar_sign = !last_was_escape && c == '$';", "last_was_unescaped_dollar_sign = c == '$';"),
    ],
    'U23': [
        ('parameter-word-forgets-to-restore-the-quote-state', 'brush-core/src/expansion.rs', "                let result = self.basic_expand(inner).await;\n                self.in_double_quotes = previously_in_double_quotes;\n", "                let result = self.basic_expand(inner).await;\n"),
        ('wholly-quoted-parameter-word-stays-in-quotes', 'brush-core/src/expansion.rs', "                let previously_in_double_quotes = self.in_double_quotes;\n                self.in_double_quotes = false;\n", "                let previously_in_double_quotes = self.in_double_quotes;\n"),
        ('parameter-word-quotes-kept-inside-quotes', 'brush-core/src/expansion.rs', "                let result = self.basic_expand(inner).await;", "                let result = self.basic_expand(stripped).await;"),
        ('single-quoted-text-splittable', 'brush-core/src/expansion.rs', "            brush_parser::word::WordPiece::SingleQuotedText(s) => {\n                Expansion::from(ExpansionPiece::Unsplittable(s))", "            brush_parser::word::WordPiece::SingleQuotedText(s) => {\n                Expansion::from(ExpansionPiece::Splittable(s))"),
        ('unquoted-text-unsplittable', 'brush-core/src/expansion.rs', "            brush_parser::word::WordPiece::Text(s) => {\n                Expansion::from(ExpansionPiece::Splittable(s))", "            brush_parser::word::WordPiece::Text(s) => {\n                Expansion::from(ExpansionPiece::Unsplittable(s))"),
        ('tilde-result-via-string-conversion', 'brush-core/src/expansion.rs', "                Expansion::from(ExpansionPiece::Unsplittable(\n                    self.expand_tilde_expression(&tilde_expr)?.to_string(),\n                ))", "                Expansion::from(self.expand_tilde_expression(&tilde_expr)?.to_string())"),
        ('field-from-piece-drops-it', 'brush-core/src/expansion.rs', "impl From<ExpansionPiece> for WordField {\n    fn from(piece: ExpansionPiece) -> Self {\n        Self(vec![piece])", "impl From<ExpansionPiece> for WordField {\n    fn from(piece: ExpansionPiece) -> Self {\n        Self(vec![ExpansionPiece::Splittable(String::new()), piece])"),
    ],
    'U5b': [
        ('subscript-evaluated-from-depth-zero', 'brush-core/src/arithmetic.rs', "let index_str = eval_expr_impl(index_expr, shell, depth)?.to_string();", "let index_str = index_expr.eval(shell)?.to_string();", 0),
        ('contents-evaluated-at-same-depth', 'brush-core/src/arithmetic.rs', "    eval_expr_impl(&parsed_value, shell, new_depth)\n}", "    eval_expr_impl(&parsed_value, shell, depth)\n}"),
        ('limit-check-dropped', 'brush-core/src/arithmetic.rs', "    if new_depth > MAX_VARIABLE_DEREF_DEPTH {\n        return Err(EvalError::RecursionLimitExceeded);\n    }\n", ""),
        ('limit-check-off-by-far', 'brush-core/src/arithmetic.rs', "    if new_depth > MAX_VARIABLE_DEREF_DEPTH {", "    if new_depth > MAX_VARIABLE_DEREF_DEPTH * 1024 {"),
    ],
    'U24': [
        ('cursor-not-backed-up-to-a-boundary', 'brush-core/src/completion.rs', "        while !input.is_char_boundary(position) {\n            position -= 1;\n        }\n", ""),
        ('cursor-backs-up-one-byte-only', 'brush-core/src/completion.rs', "        while !input.is_char_boundary(position) {", "        if !input.is_char_boundary(position) {"),
        ('prefix-cut-from-the-line-start', 'brush-core/src/completion.rs', "let offset_into_token = cursor - insertion_index;", "let offset_into_token = cursor;"),
        ('token-range-includes-one-past-the-end', 'brush-core/src/completion.rs', "else if cursor >= token.start && cursor <= token.end() {", "else if cursor >= token.start && cursor <= token.end() + 1 {"),
    ],
    'U25': [
        ('rest-cut-at-the-mapped-chars-length', 'brush-core/src/expansion.rs', "                    result.extend(s.chars().skip(1));", "                    result.push_str(&s[upper_char.len_utf8()..]);"),
        ('rest-cut-at-byte-one', 'brush-core/src/expansion.rs', "                    result.extend(s.chars().skip(1));", "                    result.push_str(&s[1..]);"),
        ('pattern-error-swallowed', 'brush-core/src/expansion.rs', "pattern.is_empty() || pattern.exactly_matches(first_char.to_string().as_str())?", "pattern.is_empty() || matches!(pattern.exactly_matches(first_char.to_string().as_str()), Ok(true))"),
    ],
    'U26': [
        ('substitution-resets-the-exemption', 'brush-core/src/commands.rs', "    params.process_group_policy = ProcessGroupPolicy::SameProcessGroup;\n\n    // Set up pipe so we can read the output.", "    params.process_group_policy = ProcessGroupPolicy::SameProcessGroup;\n    params.suppress_errexit = false;\n\n    // Set up pipe so we can read the output."),
        ('errexit-always-inherited', 'brush-core/src/commands.rs', "    if !shell.options().command_subst_inherits_errexit {\n        subshell.options_mut().exit_on_nonzero_command_exit = false;\n    }\n", ""),
        ('errexit-switched-off-in-the-parent', 'brush-core/src/commands.rs', "        subshell.options_mut().exit_on_nonzero_command_exit = false;", "        shell.options_mut().exit_on_nonzero_command_exit = false;"),
        ('pipe-installed-as-stdin', 'brush-core/src/commands.rs', "    params.set_fd(OpenFiles::STDOUT_FD, writer.into());\n\n    let mut async_reader", "    params.set_fd(OpenFiles::STDIN_FD, writer.into());\n\n    let mut async_reader"),
    ],
    'U10b': [
        ('backslashes-inserted-front-to-back', 'brush-core/src/regex.rs', "    for pos in insertion_positions.iter().rev() {\n        updated.insert(*pos, '\\\\');", "    for pos in insertion_positions.iter() {\n        updated.insert(*pos, '\\\\');"),
        ('backslash-inserted-one-byte-late', 'brush-core/src/regex.rs', "        updated.insert(*pos, '\\\\');", "        updated.insert(*pos + 1, '\\\\');"),
        ('escape-flag-set-after-every-backslash', 'brush-core/src/regex.rs', "        in_escape = !in_escape && c == '\\\\';", "        in_escape = c == '\\\\';"),
        ('class-name-check-dropped', 'brush-core/src/regex.rs', "            '[' if !in_escape && in_brackets && !next_is_colon => {", "            '[' if !in_escape && in_brackets => {"),
        ('escaped-close-bracket-closes', 'brush-core/src/regex.rs', "            ']' if !in_escape && in_brackets => {", "            ']' if in_brackets => {"),
    ],
    'U10c': [
        ('dot-policy-looks-at-any-piece', 'brush-core/src/patterns.rs', "                let subpattern_starts_with_dot = component\n                    .iter()\n                    .map(|piece| piece.as_str())\n                    .collect::<String>()\n                    .starts_with('.');", "                let subpattern_starts_with_dot = component\n                    .iter()\n                    .any(|piece| piece.as_str().starts_with('.'));"),
        ('dot-policy-looks-at-first-piece', 'brush-core/src/patterns.rs', "                let subpattern_starts_with_dot = component\n                    .iter()\n                    .map(|piece| piece.as_str())\n                    .collect::<String>()\n                    .starts_with('.');", "                let subpattern_starts_with_dot = subpattern\n                    .pieces\n                    .first()\n                    .is_some_and(|piece| piece.as_str().starts_with('.'));"),
        ('dot-policy-inverted-option', 'brush-core/src/patterns.rs', "let allow_dot_files = !options.require_dot_in_pattern_to_match_dot_files", "let allow_dot_files = options.require_dot_in_pattern_to_match_dot_files"),
    ],
    'U4r': [
        ('empty-name-early-exit-skips-the-hook', 'brush-core/src/commands.rs', "        // First see if it's the name of a builtin.\n        let builtin = self.shell.builtins().get(&self.command_name).cloned();", "        if self.command_name.is_empty() {\n            return Err(ErrorKind::CommandNotFound(self.command_name).into());\n        }\n\n        // First see if it's the name of a builtin.\n        let builtin = self.shell.builtins().get(&self.command_name).cloned();"),
        ('not-found-path-skips-the-hook', 'brush-core/src/commands.rs', "                if let Some(post_execute) = self.post_execute {\n                    let _ = post_execute(&mut self.shell);\n                }\n\n                Err(ErrorKind::CommandNotFound(self.command_name).into())", "                Err(ErrorKind::CommandNotFound(self.command_name).into())"),
        ('hook-runs-before-dispatch-too', 'brush-core/src/commands.rs', "        // We still haven't found a command to invoke. We'll need to look for an external command.\n", "        if let Some(post_execute) = self.post_execute {\n            let _ = post_execute(&mut self.shell);\n        }\n"),
        ('unwrap-of-unchecked-builtin', 'brush-core/src/commands.rs', "        if self.shell.options().posix_mode\n            && builtin\n                .as_ref()\n                .is_some_and(|r| !r.disabled && r.special_builtin)\n        {", "        if self.shell.options().posix_mode {"),
    ],
    'U15b': [
        ('duplicates-of-the-std-streams-are-not-injected', 'brush-core/src/commands.rs', "    let other_files = context.iter_fds().filter(|(fd, _)| {\n        *fd != OpenFiles::STDIN_FD && *fd != OpenFiles::STDOUT_FD && *fd != OpenFiles::STDERR_FD\n    });", "    let other_files = context.iter_fds().filter(|(fd, file)| {\n        *fd > OpenFiles::STDERR_FD\n            && !matches!(\n                file,\n                OpenFile::Stdin(_) | OpenFile::Stdout(_) | OpenFile::Stderr(_)\n            )\n    });"),
        ('stderr-entry-goes-to-the-stdout-slot', 'brush-core/src/commands.rs', "            let as_stdio: Stdio = stderr_file.try_into()?;\n            cmd.stderr(as_stdio);", "            let as_stdio: Stdio = stderr_file.try_into()?;\n            cmd.stdout(as_stdio);"),
        ('stdout-slot-left-alone-when-it-holds-the-shells-stderr', 'brush-core/src/commands.rs', "        Some(OpenFile::Stdout(_)) | None => (),", "        Some(OpenFile::Stdout(_) | OpenFile::Stderr(_)) | None => (),"),
    ],
    'U15c': [
        ('output-and-error-accepts-zero-fields', 'brush-core/src/interp.rs', "            if expanded_fields.len() != 1 {\n                return Err(error::ErrorKind::InvalidRedirection.into());\n            }\n\n            let expanded_file_path = expanded_fields.remove(0);", "            if expanded_fields.len() > 1 {\n                return Err(error::ErrorKind::InvalidRedirection.into());\n            }\n\n            let expanded_file_path = expanded_fields.remove(0);"),
        ('file-target-takes-the-first-of-several-words', 'brush-core/src/interp.rs', "                    if expanded_fields.len() != 1 {\n                        return Err(error::ErrorKind::InvalidRedirection.into());\n                    }\n\n                    let expanded_file_path: PathBuf =", "                    if expanded_fields.is_empty() {\n                        return Err(error::ErrorKind::InvalidRedirection.into());\n                    }\n\n                    let expanded_file_path: PathBuf ="),
        ('duplicate-target-check-dropped', 'brush-core/src/interp.rs', "                    if expanded_fields.len() != 1 {\n                        return Err(error::ErrorKind::InvalidRedirection.into());\n                    }\n\n                    let mut expanded = expanded_fields.remove(0);", "                    if expanded_fields.len() > 1 {\n                        return Err(error::ErrorKind::InvalidRedirection.into());\n                    }\n\n                    let mut expanded = expanded_fields.remove(0);"),
    ],
    'U3c': [
        ('status-update-counted-only-when-the-value-changes', 'brush-core/src/shell.rs', "        self.last_exit_status = status;\n        self.last_exit_status_change_count += 1;", "        if self.last_exit_status != status {\n            self.last_exit_status = status;\n            self.last_exit_status_change_count += 1;\n        }"),
        ('assignment-only-command-always-succeeds', 'brush-core/src/interp.rs', "            if status_change_count_before_expansion == context.shell.last_exit_status_change_count()\n            {\n                context.shell.set_last_exit_status(0);\n            }", "            context.shell.set_last_exit_status(0);"),
        ('assignment-only-command-compares-with-greater-than', 'brush-core/src/interp.rs', "            if status_change_count_before_expansion == context.shell.last_exit_status_change_count()\n            {", "            if status_change_count_before_expansion > context.shell.last_exit_status_change_count()\n            {"),
    ],
    'U27c': [
        ('only-a-leading-quote-turns-expansion-off', 'brush-parser/src/parser/peg.rs', [("specific_operator(\"<<-\") here_tag:here_tag() doc:[_] closing_tag:here_tag() {\n                let requires_expansion = !here_tag.to_str().contains(['\\'', '\"', '\\\\']);", "specific_operator(\"<<-\") here_tag:here_tag() doc:[_] closing_tag:here_tag() {\n                let requires_expansion = !here_tag.to_str().starts_with(['\\'', '\"', '\\\\']);")]),
        ('plain-operator-strips-tabs', 'brush-parser/src/parser/peg.rs', "                    remove_tabs: false,", "                    remove_tabs: true,"),
        ('backslash-in-the-delimiter-does-not-count-as-quoting', 'brush-parser/src/parser/peg.rs', [("specific_operator(\"<<\") here_tag:here_tag() doc:[_] closing_tag:here_tag() {\n                let requires_expansion = !here_tag.to_str().contains(['\\'', '\"', '\\\\']);", "specific_operator(\"<<\") here_tag:here_tag() doc:[_] closing_tag:here_tag() {\n                let requires_expansion = !here_tag.to_str().contains(['\\'', '\"', '\"']);")]),
    ],
    'U70': [
        ('process-substitution-loses-errexit', 'brush-core/src/interp.rs', "    let mut subshell = shell.clone();\n\n    // Set up execution parameters for the child execution.", "    let mut subshell = shell.clone();\n    subshell.options_mut().exit_on_nonzero_command_exit = false;\n\n    // Set up execution parameters for the child execution."),
        ('descriptor-search-also-skips-the-shells-own-table', 'brush-core/src/interp.rs', "    while params.open_files.contains_fd(candidate_fd_num) {", "    while params.open_files.contains_fd(candidate_fd_num)\n        || shell.persistent_open_files().contains_fd(candidate_fd_num)\n    {"),
        ('descriptor-search-starts-at-62', 'brush-core/src/interp.rs', "    let mut candidate_fd_num = 63;", "    let mut candidate_fd_num = 62;"),
        ('descriptor-search-may-return-zero', 'brush-core/src/interp.rs', "        if candidate_fd_num == 0 {\n            return error::unimp(\"no available file descriptors\");\n        }\n    }\n\n    Ok((candidate_fd_num, target_file))", "        if candidate_fd_num < 0 {\n            return error::unimp(\"no available file descriptors\");\n        }\n    }\n\n    Ok((candidate_fd_num, target_file))"),
    ],
    'U80': [
        ('first-field-glued-on-before-it-is-made-unsplittable', 'brush-core/src/expansion.rs', [("            for (i, WordField(next_pieces)) in fields_to_append.into_iter().enumerate() {\n                // Flip to unsplittable.\n                let mut next_pieces: Vec<_> = next_pieces\n                    .into_iter()\n                    .map(|piece| piece.make_unsplittable())\n                    .collect();\n\n", "            for (i, WordField(mut next_pieces)) in fields_to_append.into_iter().enumerate() {\n"), ("                    continue;\n                }\n\n                fields.push(WordField(next_pieces));", "                    continue;\n                }\n\n                let next_pieces: Vec<_> = next_pieces\n                    .into_iter()\n                    .map(|piece| piece.make_unsplittable())\n                    .collect();\n\n                fields.push(WordField(next_pieces));")]),
        ('later-fields-not-made-unsplittable', 'brush-core/src/expansion.rs', "                let mut next_pieces: Vec<_> = next_pieces\n                    .into_iter()\n                    .map(|piece| piece.make_unsplittable())\n                    .collect();\n\n                if i == 0", "                let mut next_pieces: Vec<_> = next_pieces;\n\n                if i == 0"),
    ],
    'U79': [
        ('first-character-replaced-through-one-byte', 'brush-core/src/variables.rs', "s.replace_range(0..c.len_utf8(), &c.to_uppercase().to_string());", "s.replace_range(0..1, &c.to_uppercase().to_string());"),
    ],
    'U78': [
        ('root-looked-for-in-the-first-piece-only', 'brush-core/src/patterns.rs', "        let absolute_root = components.first().and_then(|first_component| {\n            let flattened: String = first_component.iter().map(|p| p.as_str()).collect();\n            sys::fs::pattern_path_root(&flattened)\n        });", "        let absolute_root = components\n            .first()\n            .and_then(|first_component| first_component.first())\n            .and_then(|first_piece| sys::fs::pattern_path_root(first_piece.as_str()));"),
        ('slash-always-added-to-the-prefix', 'brush-core/src/patterns.rs', "            if !working_dir_str.ends_with('/') {\n                working_dir_str.push('/');\n            }", "            working_dir_str.push('/');"),
    ],
    'U77': [
        ('star-slices-without-dollar-zero', 'brush-core/src/expansion.rs', "                            concatenate: _\n                        },\n                    )\n                ) {\n                    let shell_name", "                            concatenate: false\n                        },\n                    )\n                ) {\n                    let shell_name"),
    ],
    'U76': [
        ('declared-without-a-value-reads-as-zero-under-nounset', 'brush-core/src/arithmetic.rs', "    if let Some(value) = value\n        && value.is_set()\n    {", "    if let Some(value) = value {"),
        ('unset-name-in-arithmetic-never-an-error', 'brush-core/src/arithmetic.rs', "    if shell.options().treat_unset_variables_as_error {\n        return Err(EvalError::ExpandingUnsetVariable(name.into()));\n    }\n\n    Ok(\"\".into())", "    Ok(\"\".into())"),
    ],
    'U75': [
        ('assignable-scalar-quoted-only-if-needed', 'brush-core/src/variables.rs', "            Self::String(s) => Ok(escape::force_quote(\n                s.as_str(),\n                escape::QuoteMode::SingleQuote,\n            )),", "            Self::String(s) => Ok(escape::quote_if_needed(\n                s.as_str(),\n                escape::QuoteMode::SingleQuote,\n            )\n            .into_owned()),"),
        ('declare-p-scalar-single-quoted', 'brush-core/src/variables.rs', "                    Ok(escape::force_quote(s.as_str(), escape::QuoteMode::DoubleQuote).into())", "                    Ok(escape::force_quote(s.as_str(), escape::QuoteMode::SingleQuote).into())"),
        ('missing-element-written-as-two-quotes', 'brush-core/src/variables.rs', "                    } else {\n                        Ok(String::new())\n                    }\n                } else {\n                    Ok(self.format(FormatStyle::DeclarePrint, shell)?.into_owned())", "                    } else {\n                        Ok(escape::force_quote(\"\", escape::QuoteMode::SingleQuote))\n                    }\n                } else {\n                    Ok(self.format(FormatStyle::DeclarePrint, shell)?.into_owned())"),
    ],
    'U74': [
        ('substitution-pattern-stops-spanning-newlines', 'brush-core/src/expansion.rs', "                    .set_extended_globbing(self.parser_options.enable_extended_globbing)\n                    .set_case_insensitive(self.shell.options().case_insensitive_conditionals);\n\n                // If no replacement was provided", "                    .set_extended_globbing(self.parser_options.enable_extended_globbing)\n                    .set_multiline(false)\n                    .set_case_insensitive(self.shell.options().case_insensitive_conditionals);\n\n                // If no replacement was provided"),
        ('case-setter-also-clears-the-newline-flag', 'brush-core/src/patterns.rs', "        self.case_insensitive = value;\n        self", "        self.case_insensitive = value;\n        self.multiline = !value;\n        self"),
        ('extglob-setter-sets-the-case-flag', 'brush-core/src/patterns.rs', "        self.enable_extended_globbing = value;\n        self", "        self.case_insensitive = value;\n        self"),
    ],
    'U73': [
        ('every-field-of-a-piece-glued-onto-the-last-field', 'brush-core/src/expansion.rs', "                    Some(last) if i == 0 => {\n                        last.0.append(&mut field.0);", "                    Some(last) => {\n                        last.0.append(&mut field.0);"),
        ('first-field-of-a-piece-stands-alone', 'brush-core/src/expansion.rs', "                    Some(last) if i == 0 => {", "                    Some(last) if i == 1 => {"),
        ('flags-of-the-first-piece-kept', 'brush-core/src/expansion.rs', "            acc.concatenate = expansion.concatenate;\n            acc.from_array = expansion.from_array;", "            acc.from_array = acc.from_array || expansion.from_array;\n            acc.concatenate = expansion.concatenate;"),
    ],
    'U72': [
        ('fields-globbed-although-noglob-is-on', 'brush-core/src/expansion.rs', "            if self.disable_pathname_expansion || self.shell.options().disable_filename_globbing {", "            if self.disable_pathname_expansion && self.shell.options().disable_filename_globbing {"),
        ('a-field-whose-pattern-fails-is-skipped', 'brush-core/src/expansion.rs', "                result.extend(self.expand_pathnames_in_field(field)?);", "                if let Ok(paths) = self.expand_pathnames_in_field(field) {\n                    result.extend(paths);\n                }"),
        ('words-of-a-field-put-in-front', 'brush-core/src/expansion.rs', "                result.push(String::from(field));\n            } else {", "                result.insert(0, String::from(field));\n            } else {"),
    ],
    'U71': [
        ('tilde-user-only-when-the-home-directory-exists', 'brush-core/src/sys/unix/users.rs', "    if let Some(user_info) = uzers::get_user_by_name(username) {\n        return Some(user_info.home_dir().to_path_buf());", "    if let Some(user_info) = uzers::get_user_by_name(username)\n        && user_info.home_dir().is_dir()\n    {\n        return Some(user_info.home_dir().to_path_buf());"),
    ],
    'U69': [
        ('unmatched-pattern-kept-without-its-quoted-pieces', 'brush-core/src/expansion.rs', "            } else {\n                Ok(vec![String::from(field)])\n            }", "            } else {\n                Ok(vec![String::from(field.clone()), String::from(field)])\n            }"),
        ('nullglob-and-default-swapped', 'brush-core/src/expansion.rs', "            if self.shell.options().expand_non_matching_patterns_to_null {\n                Ok(vec![])", "            if !self.shell.options().expand_non_matching_patterns_to_null {\n                Ok(vec![])"),
        ('failglob-also-for-words-without-a-pattern', 'brush-core/src/expansion.rs', "        if expansion.is_unmatched_glob()\n            && self.shell.options().fail_expansion_on_globs_without_match", "        if self.shell.options().fail_expansion_on_globs_without_match"),
        ('dotglob-inverted', 'brush-core/src/expansion.rs', "require_dot_in_pattern_to_match_dot_files: !self.shell.options().glob_matches_dotfiles,", "require_dot_in_pattern_to_match_dot_files: self.shell.options().glob_matches_dotfiles,"),
    ],
    'U67': [
        ('attribute-flags-arm-skipped-for-special-parameters', 'brush-core/src/expansion.rs', "                op: ParameterTransformOp::ToAttributeFlags,\n            } => {", "                op: ParameterTransformOp::ToAttributeFlags,\n            } if !matches!(parameter, brush_parser::word::Parameter::Special(_)) => {"),
        ('assignment-logic-arm-only-for-direct-parameters', 'brush-core/src/expansion.rs', "                op: ParameterTransformOp::ToAssignmentLogic,\n            } => {", "                op: ParameterTransformOp::ToAssignmentLogic,\n            } if !indirect => {"),
        ('quoted-operator-declared-unreachable', 'brush-core/src/expansion.rs', "            brush_parser::word::ParameterTransformOp::ToAssignmentLogic\n            | brush_parser::word::ParameterTransformOp::ToAttributeFlags => {\n                unreachable!(\"covered in caller\")", "            brush_parser::word::ParameterTransformOp::ToAssignmentLogic\n            | brush_parser::word::ParameterTransformOp::CapitalizeInitial\n            | brush_parser::word::ParameterTransformOp::ToAttributeFlags => {\n                unreachable!(\"covered in caller\")"),
    ],
    'U66': [
        ('failed-redirection-of-a-compound-command-ends-the-script', 'brush-core/src/interp.rs', "                        if let Err(e) =\n                            setup_redirect(&mut pipeline_context.shell, &mut params, redirect).await\n                        {\n                            writeln!(params.stderr(&pipeline_context.shell), \"error: {e}\")?;\n                            let mut result = ExecutionResult::general_error();\n                            if !params.suppress_errexit {\n                                pipeline_context.shell.apply_errexit_if_enabled(&mut result);\n                            }\n                            return Ok(result.into());\n                        }", "                        setup_redirect(&mut pipeline_context.shell, &mut params, redirect).await?;"),
        ('failed-redirection-of-a-compound-command-ignored', 'brush-core/src/interp.rs', "                            if !params.suppress_errexit {\n                                pipeline_context.shell.apply_errexit_if_enabled(&mut result);\n                            }\n                            return Ok(result.into());", "                            if !params.suppress_errexit {\n                                pipeline_context.shell.apply_errexit_if_enabled(&mut result);\n                            }"),
        ('failed-redirection-exits-under-errexit-even-when-exempt', 'brush-core/src/interp.rs', "                            if !params.suppress_errexit {\n                                pipeline_context.shell.apply_errexit_if_enabled(&mut result);\n                            }", "                            pipeline_context.shell.apply_errexit_if_enabled(&mut result);"),
        ('failed-redirection-reported-as-success', 'brush-core/src/interp.rs', "                            let mut result = ExecutionResult::general_error();\n                            if !params.suppress_errexit {", "                            let mut result = ExecutionResult::success();\n                            if !params.suppress_errexit {"),
    ],
    'U65': [
        ('missing-key-of-an-associative-array-tolerated', 'brush-core/src/expansion.rs', "                    Ok(Expansion::from(value.to_string()))\n                } else {\n                    self.undefined_expansion(parameter, allow_unset_vars)\n                }\n            }\n            brush_parser::word::Parameter::NamedWithAllIndices", "                    Ok(Expansion::from(value.to_string()))\n                } else {\n                    self.undefined_expansion(parameter, allow_unset_vars || is_set_assoc_array)\n                }\n            }\n            brush_parser::word::Parameter::NamedWithAllIndices"),
        ('unset-positional-parameter-always-tolerated', 'brush-core/src/expansion.rs', "                    Ok(Expansion::from(parameter.to_owned()))\n                } else {\n                    self.undefined_expansion(parameter, allow_unset_vars)", "                    Ok(Expansion::from(parameter.to_owned()))\n                } else {\n                    self.undefined_expansion(parameter, true)"),
        ('declared-but-unset-name-reads-as-empty', 'brush-core/src/expansion.rs', "                    if matches!(var.value(), ShellValue::Unset(_)) {\n                        self.undefined_expansion(parameter, allow_unset_vars)", "                    if matches!(var.value(), ShellValue::Unset(_)) {\n                        Ok(Expansion::from(String::new()))"),
        ('positional-parameters-counted-from-zero', 'brush-core/src/expansion.rs', "self.shell.current_shell_args().get((p - 1) as usize)", "self.shell.current_shell_args().get(*p as usize)"),
    ],
    'U64': [
        ('keys-of-an-array-literal-transformed-too', 'brush-core/src/variables.rs', ".map(|(k, v)| (k, self.convert_value_str_for_assignment(v)))", ".map(|(k, v)| (k.map(|k| self.convert_value_str_for_assignment(k)), self.convert_value_str_for_assignment(v)))"),
        ('values-of-an-array-literal-not-transformed', 'brush-core/src/variables.rs', ".map(|(k, v)| (k, self.convert_value_str_for_assignment(v)))", ".map(|(k, v)| (k, v))"),
        ('scalar-transformed-as-a-string-whatever-the-integer-attribute', 'brush-core/src/variables.rs', "            &mut s,\n            self.is_treated_as_integer(),\n            self.get_update_transform(),", "            &mut s,\n            false,\n            self.get_update_transform(),"),
    ],
    'U63': [
        ('backslash-no-longer-leaves-the-quick-path-in-a-here-document', 'brush-core/src/expansion.rs', "            &['$', '`', '\\\\']\n        } else {", "            &['$', '`']\n        } else {"),
        ('tilde-no-longer-leaves-the-quick-path', 'brush-core/src/expansion.rs', "            &['$', '`', '\\\\', '\\'', '\\\"', '~', '{']", "            &['$', '`', '\\\\', '\\'', '\\\"', '{']"),
        ('contexts-swapped', 'brush-core/src/expansion.rs', "let expansion_chars: &[char] = if self.heredoc_mode {", "let expansion_chars: &[char] = if !self.heredoc_mode {"),
    ],
    'U62': [
        ('implied-redirection-put-in-front-of-the-suffix', 'brush-parser/src/parser/peg.rs', "            if let Some(l) = &mut c.suffix {\n                l.0.push(r);", "            if let Some(l) = &mut c.suffix {\n                l.0.insert(0, r);"),
        ('implied-redirection-replaces-the-redirections-of-a-compound-command', 'brush-parser/src/parser/peg.rs', "        if let Some(l) = l {\n            l.0.push(r);\n        } else {", "        if let Some(_) = l {\n            *l = Some(ast::RedirectList(vec![r]));\n        } else {"),
        ('implied-redirection-duplicates-input', 'brush-parser/src/parser/peg.rs', "        ast::IoFileRedirectKind::DuplicateOutput,\n        ast::IoFileRedirectTarget::Fd(1),", "        ast::IoFileRedirectKind::DuplicateInput,\n        ast::IoFileRedirectTarget::Fd(1),"),
    ],
    'U61': [
        ('first-argument-indexed-without-looking', 'brush-core/src/interp.rs', "                            if let Some(first_arg) = next_args.first() {\n                                if context\n                                    .shell\n                                    .builtins()\n                                    .get(first_arg.as_str())", "                            {\n                                let first_arg = &next_args[0];\n                                if context\n                                    .shell\n                                    .builtins()\n                                    .get(first_arg.as_str())"),
        ('redirection-before-the-command-name-skipped', 'brush-core/src/interp.rs', "                CommandPrefixOrSuffixItem::IoRedirect(redirect) => {\n                    if let Err(e) = setup_redirect(&mut context.shell, &mut params, redirect).await\n                    {", "                CommandPrefixOrSuffixItem::IoRedirect(redirect) => {\n                    if !args.is_empty()\n                        && let Err(e) = setup_redirect(&mut context.shell, &mut params, redirect).await\n                    {"),
        ('failed-redirection-ignored', 'brush-core/src/interp.rs', "                        writeln!(params.stderr(&context.shell), \"error: {e}\")?;\n                        return Ok(ExecutionResult::general_error().into());", "                        writeln!(params.stderr(&context.shell), \"error: {e}\")?;"),
        ('redirection-set-up-twice', 'brush-core/src/interp.rs', "                    if let Err(e) = setup_redirect(&mut context.shell, &mut params, redirect).await\n                    {", "                    let _ = setup_redirect(&mut context.shell, &mut params, redirect).await;\n                    if let Err(e) = setup_redirect(&mut context.shell, &mut params, redirect).await\n                    {"),
    ],
    'U60': [
        ('only-a-single-bang-negates', 'brush-parser/src/parser/peg.rs', "let invert = bang.len() % 2 == 1;", "let invert = bang.len() == 1;"),
        ('any-bang-negates', 'brush-parser/src/parser/peg.rs', "let invert = bang.len() % 2 == 1;", "let invert = !bang.is_empty();"),
        ('bare-time-refused', 'brush-parser/src/parser/peg.rs', "if timed.is_none() && bang.is_empty() && seq.is_empty() {", "if bang.is_empty() && seq.is_empty() {"),
    ],
    'U27e': [
        ('cursor-index-counts-only-the-characters-of-the-first-line', 'brush-parser/src/tokenizer.rs', "                self.cross_state.cursor.column += 1;\n            }\n            self.cross_state.cursor.index += 1;", "                self.cross_state.cursor.column += 1;\n                self.cross_state.cursor.index += 1;\n            }"),
        ('column-not-reset-after-a-newline', 'brush-parser/src/tokenizer.rs', "                self.cross_state.cursor.line += 1;\n                self.cross_state.cursor.column = 1;", "                self.cross_state.cursor.line += 1;\n                self.cross_state.cursor.column = 0;"),
        ('token-start-read-after-it-was-taken', 'brush-parser/src/tokenizer.rs', "            start: Arc::new(std::mem::take(&mut self.start_position)),\n            end,", "            start: Arc::new({ let _ = std::mem::take(&mut self.start_position); std::mem::take(&mut self.start_position) }),\n            end,"),
        ('next-token-does-not-restart-at-the-cut', 'brush-parser/src/tokenizer.rs', "        end_position.clone_into(&mut self.start_position);\n", ""),
        ('operator-flag-left-set', 'brush-parser/src/tokenizer.rs', "        let token = if std::mem::take(&mut self.token_is_operator) {", "        let token = if self.token_is_operator {"),
        ('operator-and-word-swapped', 'brush-parser/src/tokenizer.rs', "            Token::Operator(std::mem::take(&mut self.token_so_far), token_location)\n        } else {\n            Token::Word(std::mem::take(&mut self.token_so_far), token_location)", "            Token::Word(std::mem::take(&mut self.token_so_far), token_location)\n        } else {\n            Token::Operator(std::mem::take(&mut self.token_so_far), token_location)"),
    ],
    'U27d': [
        ('here-documents-not-set-aside-for-dollar-paren', 'brush-parser/src/tokenizer.rs', [("        let outer_here_state = std::mem::take(&mut self.cross_state.here_state);\n        let outer_here_tags = std::mem::take(&mut self.cross_state.current_here_tags);\n", ""), ("        self.cross_state.here_state = outer_here_state;\n        self.cross_state.current_here_tags = outer_here_tags;\n\n        state.append_char(", "        state.append_char(")]),
        ('pending-tags-not-put-back-after-dollar-paren', 'brush-parser/src/tokenizer.rs', "        self.cross_state.here_state = outer_here_state;\n        self.cross_state.current_here_tags = outer_here_tags;\n\n        state.append_char(", "        self.cross_state.here_state = outer_here_state;\n        let _ = outer_here_tags;\n\n        state.append_char("),
        ('here-state-not-put-back-after-dollar-brace', 'brush-parser/src/tokenizer.rs', "                            self.cross_state.here_state = outer_here_state;\n                            self.cross_state.current_here_tags = outer_here_tags;", "                            let _ = outer_here_state;\n                            self.cross_state.current_here_tags = outer_here_tags;"),
        ('here-state-put-back-before-the-construct-is-read', 'brush-parser/src/tokenizer.rs', [("                            let outer_here_tags =\n                                std::mem::take(&mut self.cross_state.current_here_tags);\n", "                            let outer_here_tags =\n                                std::mem::take(&mut self.cross_state.current_here_tags);\n                            self.cross_state.here_state = outer_here_state;\n"), ("                            self.cross_state.here_state = outer_here_state;\n                            self.cross_state.current_here_tags = outer_here_tags;", "                            self.cross_state.current_here_tags = outer_here_tags;")]),
    ],
    'U27b': [
        ('delimiter-recognised-after-any-blank', 'brush-parser/src/tokenizer.rs', "                || current_token_without_here_tag.ends_with('\\n')", "                || current_token_without_here_tag.ends_with(char::is_whitespace)"),
        ('here-docs-state-kept-after-the-last-pending-body', 'brush-parser/src/tokenizer.rs', "                if cross_token_state.current_here_tags.is_empty() {\n                    cross_token_state.here_state = HereState::None;", "                if !cross_token_state.current_here_tags.is_empty() {\n                    cross_token_state.here_state = HereState::None;"),
        ('character-after-the-terminator-unwrapped', 'brush-parser/src/tokenizer.rs', "                    state.append_char(\n                        self.next_char()?\n                            .ok_or(TokenizerError::UnterminatedExpansion)?,\n                    );", "                    state.append_char(self.next_char()?.unwrap());"),
        ('closing-character-of-the-construct-unwrapped', 'brush-parser/src/tokenizer.rs', "        state.append_char(\n            self.next_char()?\n                .ok_or(TokenizerError::UnterminatedExpansion)?,\n        );\n        Ok(())", "        state.append_char(self.next_char()?.unwrap());\n        Ok(())"),
        ('end-tag-match-attempted-on-an-empty-token-before-the-body', 'brush-parser/src/tokenizer.rs', "                    if (matches!(self.cross_state.here_state, HereState::InHereDocs)\n                        || state.started_token())\n                        && self.remove_here_end_tag(&mut state, &mut result, false)?\n                    {", "                    if self.remove_here_end_tag(&mut state, &mut result, false)? {"),
        ('end-tag-reported-matched-without-delimiting', 'brush-parser/src/tokenizer.rs', "                // Delimit the end of the here-document body.\n                *result = state.delimit_current_token(\n                    TokenEndReason::HereDocumentBodyEnd,\n                    &mut self.cross_state,\n                )?;\n", ""),
    ],
    'U16d': [
        ('array-literal-quoted-as-one-word', 'brush-core/src/commands.rs', [("                match &a.value {\n                    ast::AssignmentValue::Scalar(word) => {", "                match &a.value {\n                    ast::AssignmentValue::Array(_) => {\n                        s.push_str(&escape::quote_if_needed(\n                            a.value.to_string().as_str(),\n                            escape::QuoteMode::SingleQuote,\n                        ));\n                    }\n                    ast::AssignmentValue::Scalar(word) => {"), ("                    ast::AssignmentValue::Array(elements) => {\n                        s.push('(');", "                    #[allow(unreachable_patterns)]\n                    ast::AssignmentValue::Array(elements) => {\n                        s.push('(');")]),
        ('array-keys-not-quoted', 'brush-core/src/commands.rs', "                                s.push_str(&escape::quote_if_needed(\n                                    key.to_string().as_str(),\n                                    escape::QuoteMode::SingleQuote,\n                                ));", "                                s.push_str(key.to_string().as_str());"),
        ('elements-not-separated', 'brush-core/src/commands.rs', "                            if i > 0 {\n                                s.push(' ');\n                            }", "                            if i > 1 {\n                                s.push(' ');\n                            }"),
    ],
    'U18b': [
        ('job-wait-ends-after-its-first-finished-task', 'brush-core/src/jobs.rs', "                    result = execution_result;\n                    self.tasks.pop_back();\n", "                    result = execution_result;\n                    self.tasks.pop_back();\n                    break;\n"),
        ('job-wait-keeps-the-finished-task', 'brush-core/src/jobs.rs', "                    result = execution_result;\n                    self.tasks.pop_back();\n", "                    result = execution_result;\n"),
        ('poll-done-reports-a-result-while-tasks-remain', 'brush-core/src/jobs.rs', "                None => {\n                    return Ok(None);\n                }", "                None => {\n                    return Ok(result);\n                }"),
        ('stopped-job-marked-done', 'brush-core/src/jobs.rs', "                    self.state = JobState::Stopped;\n                    return Ok(ExecutionResult::stopped());", "                    self.state = JobState::Done;\n                    return Ok(ExecutionResult::stopped());"),
    ],
    'U24b': [
        ('token-cut-one-byte-past-the-delimiter', 'brush-core/src/completion.rs', "            if word_is_delimiters {\n                if let Some(start) = word_start {\n                    tokens.push(CompletionToken {\n                        text: &input[start..i],", "            if word_is_delimiters {\n                if let Some(start) = word_start {\n                    tokens.push(CompletionToken {\n                        text: &input[start..i + 1],"),
        ('token-start-reported-as-its-end', 'brush-core/src/completion.rs', "        tokens.push(CompletionToken {\n            text: &input[start..],\n            start,\n        });", "        tokens.push(CompletionToken {\n            text: &input[start..],\n            start: input.len(),\n        });"),
        ('word-start-taken-one-byte-late', 'brush-core/src/completion.rs', "            // Start or continue a word\n            if word_start.is_none() {\n                word_start = Some(i);", "            // Start or continue a word\n            if word_start.is_none() {\n                word_start = Some(i + 1);"),
    ],
    'U10d': [
        ('dot-file-eligibility-sticks-across-components', 'brush-core/src/patterns.rs', [("        for component in components {\n            if !component.iter().any(|piece| {", "        let mut allow_dot_files = !options.require_dot_in_pattern_to_match_dot_files;\n\n        for component in components {\n            if !component.iter().any(|piece| {"), ("                let allow_dot_files = !options.require_dot_in_pattern_to_match_dot_files\n                    || subpattern_starts_with_dot;\n", "                allow_dot_files = allow_dot_files || subpattern_starts_with_dot;\n")]),
        ('dot-files-always-listed', 'brush-core/src/patterns.rs', "                    !dir_entry.file_name().to_string_lossy().starts_with('.') || allow_dot_files\n", "                    !dir_entry.file_name().to_string_lossy().starts_with('.') || true\n"),
    ],
    'U3d': [
        ('length-of-a-bare-name-tolerates-unset', 'brush-core/src/expansion.rs', "                let allow_unset = match &parameter {\n                    brush_parser::word::Parameter::NamedWithIndex { name, .. }", "                let allow_unset = match &parameter {\n                    brush_parser::word::Parameter::Named(name)\n                    | brush_parser::word::Parameter::NamedWithIndex { name, .. }"),
        ('subscripted-length-always-tolerates-unset', 'brush-core/src/expansion.rs', "                    | brush_parser::word::Parameter::NamedWithAllIndices { name, .. } => {\n                        self.shell.env().get(name).is_some()\n                    }\n                    _ => false,\n                };\n                let expansion = if allow_unset {", "                    | brush_parser::word::Parameter::NamedWithAllIndices { name, .. } => {\n                        let _ = name;\n                        true\n                    }\n                    _ => false,\n                };\n                let expansion = if allow_unset {"),
    ],
    'U40': [
        ('export-letter-dropped-for-uppercasing-variables', 'brush-core/src/variables.rs', "            result.push('u');\n        }\n        if self.is_exported() {", "            result.push('u');\n        } else if self.is_exported() {"),
        ('readonly-letter-printed-for-traced-variables', 'brush-core/src/variables.rs', "        if self.is_readonly() {\n            result.push('r');", "        if self.is_readonly() || self.is_trace_enabled() {\n            result.push('r');"),
    ],
    'U38': [
        ('blanks-after-the-opening-dropped-from-the-command-text', 'brush-parser/src/word.rs', '            "$(" c:command() ")" { WordPiece::CommandSubstitution(c.to_owned()) } /', '            "$(" [\' \' | \'\\t\']* c:command() ")" { WordPiece::CommandSubstitution(c.to_owned()) } /'),
    ],
    'U39': [
        ('pipe-output-read-only-once-partially', 'brush-core/src/sys/unix/async_pipe.rs', "        self.0.read_to_string(&mut s).await?;\n        Ok(s)", "        self.0.read_to_string(&mut s).await?;\n        s.truncate(0);\n        Ok(s)"),
    ],
    'U35': [
        ('handler-word-that-names-a-signal-resets-instead', 'brush-builtins/src/trap.rs', "            Ok(ExecutionResult::success())\n        } else {\n            let handler = &self.args[0];", "            Ok(ExecutionResult::success())\n        } else if self.args[0].parse::<TrapSignal>().is_ok() {\n            for signal in &self.args {\n                Self::remove_all_handlers(&mut context, signal.parse()?);\n            }\n            Ok(ExecutionResult::success())\n        } else {\n            let handler = &self.args[0];"),
        ('handler-also-installed-for-its-own-name', 'brush-builtins/src/trap.rs', "            for signal in &self.args[1..] {\n                signal_types.push(signal.parse()?);\n            }", "            for signal in &self.args {\n                if let Ok(s) = signal.parse() { signal_types.push(s); }\n            }"),
        ('dash-form-skips-the-first-condition', 'brush-builtins/src/trap.rs', "            for signal in &self.args[1..] {\n                Self::remove_all_handlers(&mut context, signal.parse()?);\n            }", "            for signal in &self.args[2..] {\n                Self::remove_all_handlers(&mut context, signal.parse()?);\n            }"),
    ],
    'U34': [
        ('declare-g-modifies-the-local-again', 'brush-builtins/src/declare.rs', "        } else if self.create_global {\n            // `-g` names the global variable, whatever locals of that name are in scope.\n            EnvironmentLookup::OnlyInGlobal\n        } else {", "        } else {"),
        ('unset-readonly-variable-accepts-its-first-value', 'brush-core/src/variables.rs', "    pub fn assign(&mut self, value: ShellValueLiteral, append: bool) -> Result<(), error::Error> {\n        if self.is_readonly() {", "    pub fn assign(&mut self, value: ShellValueLiteral, append: bool) -> Result<(), error::Error> {\n        if self.is_readonly() && self.value.is_set() {"),
        ('declare-in-a-function-looks-everywhere', 'brush-builtins/src/declare.rs', "        let lookup = if create_var_local {", "        let lookup = if matches!(verb, DeclareVerb::Local) {"),
        ('declare-g-still-creates-a-local', 'brush-builtins/src/declare.rs', "                && context.shell.in_function()\n                && !self.create_global);", "                && context.shell.in_function());"),
        ('local-lookup-reaches-callers-locals', 'brush-builtins/src/declare.rs', "        let lookup = if create_var_local {\n            EnvironmentLookup::OnlyInCurrentLocal", "        let lookup = if create_var_local {\n            EnvironmentLookup::OnlyInLocal"),
    ],
    'U33': [
        ('plain-key-tried-before-the-quote-aware-key', 'brush-parser/src/word.rs', [('            "[" inner:array_index() "]=" value:$([_]*) {\n                (Some(inner.to_owned()), value.to_owned())\n            } /\n            "[" inner:$((!"]" [_])*) "]=" value:$([_]*) {', '            "[" inner:$((!"]" [_])*) "]=" value:$([_]*) {\n                (Some(inner.to_owned()), value.to_owned())\n            } /\n            "[" inner:array_index() "]=" value:$([_]*) {')]),
        ('quote-aware-alternative-dropped', 'brush-parser/src/word.rs', '            "[" inner:array_index() "]=" value:$([_]*) {\n                (Some(inner.to_owned()), value.to_owned())\n            } /\n', ''),
    ],
    'U32': [
        ('negation-and-leading-close-bracket-swapped', 'brush-parser/src/pattern.rs', '"[" invert:(invert_char()?) leading:leading_close_bracket()? rest:bracket_member()* "]" {?', '"[" leading:leading_close_bracket()? invert:(invert_char()?) rest:bracket_member()* "]" {?'),
        ('leading-close-bracket-not-optional', 'brush-parser/src/pattern.rs', '"[" invert:(invert_char()?) leading:leading_close_bracket()? rest:bracket_member()* "]" {?', '"[" invert:(invert_char()?) leading:leading_close_bracket() rest:bracket_member()* "]" {?'),
        ('caret-is-not-a-negation-marker', 'brush-parser/src/pattern.rs', "            ['!' | '^'] { true }", "            ['!'] { true }"),
        ('leading-member-is-an-opening-bracket', 'brush-parser/src/pattern.rs', 'rule leading_close_bracket() -> String =\n            "]" { String::from(r"\\]") }', 'rule leading_close_bracket() -> String =\n            "[" { String::from(r"\\]") }'),
    ],
    'U31': [
        ('not-equal-reads-nocaseglob', 'brush-core/src/extendedtests.rs', """                .set_case_insensitive(shell.options().case_insensitive_conditionals);

            if shell.options().print_commands_and_arguments {
                let expanded_right = expansion::basic_expand_word(shell, params, right).await?;
                let escaped_right = escape::quote_if_needed(
                    expanded_right.as_str(),
                    escape::QuoteMode::BackslashEscape,
                );
                shell
                    .trace_command(params, std::format!("[[ {s} {op} {escaped_right} ]]"))
                    .await;
            }

            let eq = pattern.exactly_matches(s.as_str())?;""", """                .set_case_insensitive(shell.options().case_insensitive_pathname_expansion);

            if shell.options().print_commands_and_arguments {
                let expanded_right = expansion::basic_expand_word(shell, params, right).await?;
                let escaped_right = escape::quote_if_needed(
                    expanded_right.as_str(),
                    escape::QuoteMode::BackslashEscape,
                );
                shell
                    .trace_command(params, std::format!("[[ {s} {op} {escaped_right} ]]"))
                    .await;
            }

            let eq = pattern.exactly_matches(s.as_str())?;"""),
        ('string-test-not-equal-not-negated', 'brush-core/src/extendedtests.rs', "            let eq = pattern.exactly_matches(left)?;\n            Ok(!eq)", "            let eq = pattern.exactly_matches(left)?;\n            Ok(eq)"),
        ('string-test-ignores-extglob-option', 'brush-core/src/extendedtests.rs', "            let pattern = patterns::Pattern::from(right)\n                .set_extended_globbing(shell.options().extended_globbing)\n                .set_case_insensitive(shell.options().case_insensitive_conditionals);\n\n            pattern.exactly_matches(left)\n", "            let pattern = patterns::Pattern::from(right)\n                .set_extended_globbing(true)\n                .set_case_insensitive(shell.options().case_insensitive_conditionals);\n\n            pattern.exactly_matches(left)\n"),
    ],
    'U30': [
        ('shift-and-additive-levels-swapped', 'brush-parser/src/arithmetic.rs', '''            x:(@) _ "<<" _ y:@ { ast::ArithmeticExpr::BinaryOp(ast::BinaryOperator::ShiftLeft, Box::new(x), Box::new(y)) }
            x:(@) _ ">>" _ y:@ { ast::ArithmeticExpr::BinaryOp(ast::BinaryOperator::ShiftRight, Box::new(x), Box::new(y)) }
            --
            x:(@) _ "+" _ y:@ { ast::ArithmeticExpr::BinaryOp(ast::BinaryOperator::Add, Box::new(x), Box::new(y)) }
            x:(@) _ "-" _ y:@ { ast::ArithmeticExpr::BinaryOp(ast::BinaryOperator::Subtract, Box::new(x), Box::new(y)) }
''', '''            x:(@) _ "+" _ y:@ { ast::ArithmeticExpr::BinaryOp(ast::BinaryOperator::Add, Box::new(x), Box::new(y)) }
            x:(@) _ "-" _ y:@ { ast::ArithmeticExpr::BinaryOp(ast::BinaryOperator::Subtract, Box::new(x), Box::new(y)) }
            --
            x:(@) _ "<<" _ y:@ { ast::ArithmeticExpr::BinaryOp(ast::BinaryOperator::ShiftLeft, Box::new(x), Box::new(y)) }
            x:(@) _ ">>" _ y:@ { ast::ArithmeticExpr::BinaryOp(ast::BinaryOperator::ShiftRight, Box::new(x), Box::new(y)) }
'''),
        ('power-left-associative', 'brush-parser/src/arithmetic.rs', 'x:@ _ "**" _ y:(@) {', 'x:(@) _ "**" _ y:@ {'),
        ('subtract-right-associative', 'brush-parser/src/arithmetic.rs', 'x:(@) _ "-" _ y:@ { ast::ArithmeticExpr::BinaryOp(ast::BinaryOperator::Subtract', 'x:@ _ "-" _ y:(@) { ast::ArithmeticExpr::BinaryOp(ast::BinaryOperator::Subtract'),
        ('modulo-operands-swapped', 'brush-parser/src/arithmetic.rs', 'ast::ArithmeticExpr::BinaryOp(ast::BinaryOperator::Modulo, Box::new(x), Box::new(y))', 'ast::ArithmeticExpr::BinaryOp(ast::BinaryOperator::Modulo, Box::new(y), Box::new(x))'),
        ('xor-assign-builds-or-assign', 'brush-parser/src/arithmetic.rs', 'x:lvalue() _ "^=" _ y:(@) { ast::ArithmeticExpr::BinaryAssignment(ast::BinaryOperator::BitwiseXor,', 'x:lvalue() _ "^=" _ y:(@) { ast::ArithmeticExpr::BinaryAssignment(ast::BinaryOperator::BitwiseOr,'),
        ('ternary-below-assignment', 'brush-parser/src/arithmetic.rs', '''            x:lvalue() _ "=" _ y:(@) { ast::ArithmeticExpr::Assignment(x, Box::new(y)) }
            --
            x:@ _ "?" _ y:expression() _ ":" _ z:(@) { ast::ArithmeticExpr::Conditional(Box::new(x), Box::new(y), Box::new(z)) }
            --
''', '''            x:lvalue() _ "=" _ y:(@) { ast::ArithmeticExpr::Assignment(x, Box::new(y)) }
            x:@ _ "?" _ y:expression() _ ":" _ z:(@) { ast::ArithmeticExpr::Conditional(Box::new(x), Box::new(y), Box::new(z)) }
            --
'''),
        ('logical-not-below-power', 'brush-parser/src/arithmetic.rs', '''            x:@ _ "**" _ y:(@) { ast::ArithmeticExpr::BinaryOp(ast::BinaryOperator::Power, Box::new(x), Box::new(y)) }
            --
            "!" _ x:(@) { ast::ArithmeticExpr::UnaryOp(ast::UnaryOperator::LogicalNot, Box::new(x)) }
            "~" _ x:(@) { ast::ArithmeticExpr::UnaryOp(ast::UnaryOperator::BitwiseNot, Box::new(x)) }
            --
''', '''            "!" _ x:(@) { ast::ArithmeticExpr::UnaryOp(ast::UnaryOperator::LogicalNot, Box::new(x)) }
            "~" _ x:(@) { ast::ArithmeticExpr::UnaryOp(ast::UnaryOperator::BitwiseNot, Box::new(x)) }
            --
            x:@ _ "**" _ y:(@) { ast::ArithmeticExpr::BinaryOp(ast::BinaryOperator::Power, Box::new(x), Box::new(y)) }
            --
'''),
        ('assignment-right-operand-one-level-up', 'brush-parser/src/arithmetic.rs', 'x:lvalue() _ "=" _ y:(@) { ast::ArithmeticExpr::Assignment', 'x:lvalue() _ "=" _ y:@ { ast::ArithmeticExpr::Assignment'),
    ],
    'U4s': [
        ('guard-detached-before-the-assignments', 'brush-core/src/interp.rs', "    let mut guard = crate::env::ScopeGuard::new(&mut context.shell, EnvironmentScope::Command);\n", "    let mut guard = crate::env::ScopeGuard::new(&mut context.shell, EnvironmentScope::Command);\n    guard.detach();\n"),
        ('guard-never-detached-scope-popped-twice', 'brush-core/src/interp.rs', "    guard.detach();\n    drop(guard);", "    drop(guard);"),
        ('hook-not-installed', 'brush-core/src/interp.rs', "    cmd.post_execute = Some(|shell| shell.env_mut().pop_scope(EnvironmentScope::Command));\n", ""),
        ('drop-ignores-the-detached-flag', 'brush-core/src/env.rs', "        if !self.detached {\n            let _ = self.shell.env_mut().pop_scope(self.scope_type);\n        }", "        let _ = self.shell.env_mut().pop_scope(self.scope_type);"),
        ('detach-is-a-no-op', 'brush-core/src/env.rs', "        self.detached = true;", "        self.detached = false;"),
        ('guard-pushes-two-scopes', 'brush-core/src/env.rs', "        shell.env_mut().push_scope(scope_type);\n", "        shell.env_mut().push_scope(scope_type);\n        shell.env_mut().push_scope(scope_type);\n"),
    ],
    'U4q': [
        ('owned-shell-builtin-keeps-its-control-flow', 'brush-core/src/commands.rs', "            result.map(|result| ExecutionResult::from(result.exit_code))\n", "            result\n"),
    ],
    'U20c': [
        ('tokens-walked-in-the-order-the-tokenizer-yields-them', 'brush-interactive/src/highlighting.rs', "            tokens.sort_by_key(|token| token.location().start.index);\n", ""),
        ('fallback-span-runs-to-the-end-of-the-input', 'brush-interactive/src/highlighting.rs', "                global_offset..global_offset + line.len(),", "                global_offset..self.input_line.len(),"),
        ('subpieces-offset-from-the-quoted-piece', 'brush-interactive/src/highlighting.rs', "self.highlight_word_piece(subpiece, HighlightKind::Quoted, global_offset);", "self.highlight_word_piece(subpiece, HighlightKind::Quoted, piece.start);"),
        ('command-substitution-offset-off-by-one', 'brush-interactive/src/highlighting.rs', "self.highlight_program(command.as_str(), piece.start + 2 /* opening $( */);", "self.highlight_program(command.as_str(), piece.start + 4);"),
        ('operator-span-uses-char-index', 'brush-interactive/src/highlighting.rs', "let end = global_offset + byte_offset(token_location.end.index);", "let end = global_offset + token_location.end.index;"),
        ('trailing-gap-not-covered', 'brush-interactive/src/highlighting.rs', "            self.skip_ahead(global_offset + line.len());\n", ""),
        ('piece-end-not-reached', 'brush-interactive/src/highlighting.rs', "        self.skip_ahead(piece.end);\n    }", "    }"),
    ],
    'U27': [
        ('tab-stripping-follows-the-last-pending-document', 'brush-parser/src/tokenizer.rs', "                if !self.cross_state.current_here_tags.is_empty()\n                    && self.cross_state.current_here_tags[0].remove_tabs", "                if self\n                    .cross_state\n                    .current_here_tags\n                    .last()\n                    .is_some_and(|tag| tag.remove_tabs)"),
        ('tab-stripping-if-any-pending-document-uses-dash', 'brush-parser/src/tokenizer.rs', "                if !self.cross_state.current_here_tags.is_empty()\n                    && self.cross_state.current_here_tags[0].remove_tabs", "                if self.cross_state.current_here_tags.iter().any(|tag| tag.remove_tabs)"),
        ('tabs-stripped-anywhere-in-the-line', 'brush-parser/src/tokenizer.rs', "                    && (!state.started_token() || state.current_token().ends_with('\\n'))\n                    && c == '\\t'", "                    && c == '\\t'"),
        ('stripped-tab-not-consumed', 'brush-parser/src/tokenizer.rs', "                    // Consume it but don't include it.\n                    self.consume_char()?;", "                    // Consume it but don't include it."),
    ],
    'U16b': [
        ('alias-body-not-escaped', 'brush-builtins/src/alias.rs', "    std::format!(\"'{}'\", s.replace('\\'', \"'\\\\''\"))", "    std::format!(\"'{}'\", s.replace('\\'', \"'\"))"),
        ('alias-quote-escaped-with-backslash-inside-quotes', 'brush-builtins/src/alias.rs', "s.replace('\\'', \"'\\\\''\")", "s.replace('\\'', \"\\\\'\")"),
    ],
    'U29': [
        ('declared-but-unset-associative-array-gets-a-numeric-subscript', 'brush-core/src/expansion.rs', "                    matches!(\n                        var.value(),\n                        ShellValue::AssociativeArray(_)\n                            | ShellValue::Unset(ShellValueUnsetType::AssociativeArray)\n                    )\n                } else {\n                    false\n                };\n\n                let index_to_use = self\n                    .expand_array_index(index.as_str(), is_set_assoc_array)", "                    matches!(var.value(), ShellValue::AssociativeArray(_))\n                } else {\n                    false\n                };\n\n                let index_to_use = self\n                    .expand_array_index(index.as_str(), is_set_assoc_array)"),
        ('subscript-always-a-string-key', 'brush-core/src/expansion.rs', "                    .expand_array_index(index.as_str(), is_set_assoc_array)\n                    .await?;\n                (name, Some(index_to_use))", "                    .expand_array_index(index.as_str(), true)\n                    .await?;\n                (name, Some(index_to_use))"),
    ],
    'U16c': [
        ('ansi-c-zero-escape-takes-three-more-digits', 'brush-core/src/escape.rs', "                let max_to_take = if matches!(mode, EscapeExpansionMode::AnsiCQuotes) {\n                    2\n                } else {\n                    3\n                };", "                let max_to_take = 3;"),
        ('ansi-c-nonzero-escape-takes-four-digits', 'brush-core/src/escape.rs', "                    if taken_so_far < 3 && matches!(next_c, '0'..='7') {", "                    if taken_so_far <= 3 && matches!(next_c, '0'..='7') {"),
    ],
    'U16': [
        ('trace-of-an-assignment-leaves-newlines-out-of-ansi-c-quoting', 'brush-core/src/variables.rs', "        let processed = escape::quote_if_needed(s, escape::QuoteMode::SingleQuote);\n        write!(f, \"{processed}\")", "        let options = escape::QuoteOptions {\n            preferred_mode: escape::QuoteMode::SingleQuote,\n            avoid_ansi_c_quoting_newline: true,\n            ..Default::default()\n        };\n        let processed = escape::quote(s, &options);\n        write!(f, \"{processed}\")"),
        ('trace-of-an-assignment-writes-the-raw-value', 'brush-core/src/variables.rs', "        let processed = escape::quote_if_needed(s, escape::QuoteMode::SingleQuote);\n        write!(f, \"{processed}\")", "        let processed = s.to_string();\n        write!(f, \"{processed}\")"),
        ('tilde-not-flagged-at-start', 'brush-core/src/escape.rs', "    matches!(c, '#' | '~')", "    matches!(c, '#')"),
        ('bang-not-flagged', 'brush-core/src/escape.rs', "            | '!'\n", ""),
        ('c1-controls-get-byte-octal', 'brush-core/src/escape.rs', "    c.is_ascii_control()", "    c.is_control()"),
        ('tab-written-as-vertical-tab', 'brush-core/src/escape.rs', '''            '\\t' => result.push_str("\\\\t"),''', '''            '\\t' => result.push_str("\\\\v"),'''),
        ('single-quote-first-flag-never-cleared', 'brush-core/src/escape.rs', "        } else {\n            first = false;\n        }\n", "        }\n"),
        ('empty-value-left-unquoted', 'brush-core/src/escape.rs', "            || s.is_empty()\n            || s.contains(needs_escaping)", "            || s.contains(needs_escaping)"),
        ('backslash-start-rule-on-second-char', 'brush-core/src/escape.rs', "(i == 0 && needs_escaping_at_start(c))", "(i == 1 && needs_escaping_at_start(c))"),
        ('ansi-closing-quote-missing', 'brush-core/src/escape.rs', "    result.push('\\'');\n\n    result\n}\n\n// Returns whether", "    result\n}\n\n// Returns whether"),
        ('default-quotes-skip-start-rule', 'brush-core/src/escape.rs', "            || s.starts_with(needs_escaping_at_start));", "            );"),
        ('dq-backquote-not-escaped', 'brush-core/src/escape.rs', "if matches!(c, '$' | '`' | '\"' | '\\\\') {", "if matches!(c, '$' | '\"' | '\\\\') {"),
    ],
    'U17': [
        ('status-not-restored', 'brush-core/src/shell/traps.rs', '        self.leave_trap_handler();\n        self.last_exit_status = orig_last_exit_status;', '        self.leave_trap_handler();'),
        ('handler-frame-leaked-on-error', 'brush-core/src/shell/traps.rs', '''        let result = self
            .run_string(&handler.command, &handler.source_info, &params)
            .await;

        self.leave_trap_handler();''', '''        let result = self
            .run_string(&handler.command, &handler.source_info, &params)
            .await?;

        self.leave_trap_handler();
        let result = Ok(result);'''),
        ('recursion-guard-dropped', 'brush-core/src/shell/traps.rs', '''        if self.call_stack().is_trap_signal_active(signal) {
            return Ok(ExecutionResult::success());
        }
''', ''),
        ('exit-trap-gated-by-errtrace', 'brush-core/src/shell/traps.rs', '            TrapSignal::Err => self.options().shell_functions_inherit_err_trap,', '            TrapSignal::Err | TrapSignal::Exit => self.options().shell_functions_inherit_err_trap,'),
        ('dash-c-skips-exit-hook', 'brush-core/src/shell/execution.rs', '''        self.end_command_string_mode()?;

        // Give the shell a chance to run on-exit tasks, but ignore the result.
        let _ = self.on_exit().await;
''', '''        self.end_command_string_mode()?;
'''),
        ('dash-c-exit-hook-twice', 'brush-core/src/shell/execution.rs', '''        self.end_command_string_mode()?;

        // Give the shell a chance to run on-exit tasks, but ignore the result.
        let _ = self.on_exit().await;
''', '''        let _ = self.on_exit().await;
        self.end_command_string_mode()?;

        // Give the shell a chance to run on-exit tasks, but ignore the result.
        let _ = self.on_exit().await;
'''),
        ('on-exit-runs-err-trap', 'brush-core/src/shell/traps.rs', 'self.invoke_trap_handler(TrapSignal::Exit, &self.default_exec_params())', 'self.invoke_trap_handler(TrapSignal::Err, &self.default_exec_params())'),
    ],
    'U18': [
        ('id-is-len-plus-one-again', 'brush-core/src/jobs.rs', '''        let mut id = 1;
        for j in &self.jobs {
            if j.id >= id {
                id = j.id + 1;
            }
        }
        job.id = id;''', '''        let mut id = 1;
        for j in &self.jobs {
            if j.id >= id {
                id = j.id + 1;
            }
        }
        job.id = self.jobs.len() + 1;'''),
        ('id-ignores-last-job', 'brush-core/src/jobs.rs', '            if j.id >= id {\n                id = j.id + 1;', '            if j.id > id {\n                id = j.id + 1;'),
        ('new-job-not-current', 'brush-core/src/jobs.rs', '        job.annotation = JobAnnotation::Current;\n', ''),
        ('sweep-skips-after-remove', 'brush-core/src/jobs.rs', '''                completed_jobs.push(self.jobs.remove(i));
            } else {
                i += 1;
            }''', '''                completed_jobs.push(self.jobs.remove(i));
                i += 1;
            } else {
                i += 1;
            }'''),
        ('sweep-removes-running-jobs', 'brush-core/src/jobs.rs', 'if self.jobs[i].tasks.is_empty() {\n                completed_jobs.push', 'if !self.jobs[i].tasks.is_empty() {\n                completed_jobs.push'),
        ('wait-all-stops-at-first-done-job', 'brush-core/src/jobs.rs', '            job.wait().await?;\n        }\n\n        Ok(self.sweep_completed_jobs())', '            if matches!(job.state, JobState::Done) {\n                break;\n            }\n            job.wait().await?;\n        }\n\n        Ok(self.sweep_completed_jobs())'),
        ('wait-all-does-not-wait', 'brush-core/src/jobs.rs', '        for job in &mut self.jobs {\n            job.wait().await?;\n        }\n\n        Ok(self.sweep_completed_jobs())', '        Ok(self.sweep_completed_jobs())'),
        ('previous-current-not-demoted', 'brush-core/src/jobs.rs', '                j.annotation = JobAnnotation::Previous;\n', ''),
        ('id-from-last-and-poll-reorders', 'brush-core/src/jobs.rs', [('let job = self.jobs.remove(i);', 'let job = self.jobs.swap_remove(i);'), ('            if j.id >= id {\n                id = j.id + 1;', '            if j.id >= id || true {\n                id = j.id + 1;')]),
        ('poll-drops-done-job', 'brush-core/src/jobs.rs', '                results.push((self.jobs.remove(i), Ok(ExecutionResult::success())));', '                self.jobs.remove(i);'),
    ],
    'U19': [
        ('pop-forgets-function-depth', 'brush-core/src/callstack.rs', '''        if frame.frame_type.is_function() {
            self.func_call_depth = self.func_call_depth.saturating_sub(1);
        }
''', ''),
        ('push-function-no-depth', 'brush-core/src/callstack.rs', '        self.func_call_depth += 1;\n', ''),
        ('run-script-counted-as-sourced', 'brush-core/src/callstack.rs', 'if matches!(call_type, ScriptCallType::Source) {\n            self.script_source_depth += 1;', 'if matches!(call_type, ScriptCallType::Source | ScriptCallType::Run) {\n            self.script_source_depth += 1;'),
        ('handler-signal-not-marked-active', 'brush-core/src/callstack.rs', '        self.active_trap_signals.insert(signal);\n', ''),
        ('pop-keeps-signal-active', 'brush-core/src/callstack.rs', '''        if let FrameType::TrapHandler(signal) = &frame.frame_type {
            self.active_trap_signals.remove(signal);
        }
''', ''),
        ('release-block-underflows', 'brush-core/src/callstack.rs', 'self.trap_delivery_suppress_count = self.trap_delivery_suppress_count.saturating_sub(1);', 'self.trap_delivery_suppress_count -= 1;'),
        ('push-at-back', 'brush-core/src/callstack.rs', '''    pub fn push_eval(&mut self) {
        self.frames.push_front(Frame {''', '''    pub fn push_eval(&mut self) {
        self.frames.push_back(Frame {'''),
    ],
    'U20': [
        ('gap-ge', HL, 'if range.start > self.current_byte_index {', 'if range.start >= self.current_byte_index {'),
        ('push-empty-range', HL, '        if !range.is_empty() {', '        if true {'),
        ('gap-end-wrong', HL, '                self.current_byte_index..range.start,', '                self.current_byte_index..range.end,'),
    ],
    'U36': [
        ('wait-for-a-job-spec-empties-the-table', 'brush-builtins/src/wait.rs', "                        job.wait().await?;\n", "                        job.wait().await?;\n                        context.shell.jobs_mut().jobs.clear();\n"),
        ('unknown-job-spec-drops-the-newest-job', 'brush-builtins/src/wait.rs', "                        result = ExecutionExitCode::GeneralError.into();\n", "                        context.shell.jobs_mut().jobs.pop();\n                        result = ExecutionExitCode::GeneralError.into();\n"),
    ],
    'U37': [
        ('io-number-unwrapped-again', 'brush-parser/src/parser/peg.rs', "                w.parse().or(Err(\"io number\"))", "                Ok(w.parse().unwrap())"),
        ('tilde-index-unwrapped-again', 'brush-parser/src/word.rs', 'TildeExpr::NthDirFromTopOfDirStack { n: n.parse().or(Err("directory stack index"))?, plus_used', 'TildeExpr::NthDirFromTopOfDirStack { n: n.parse().unwrap(), plus_used'),
        ('positional-index-unwrapped', 'brush-parser/src/word.rs', "n:$(['1'..='9'](['0'..='9']*)) {? n.parse().or(Err(\"u32\")) }", "n:$(['1'..='9'](['0'..='9']*)) { n.parse().unwrap() }"),
    ],
    'U28': [
        ('exec-forgets-to-install-its-redirections', 'brush-builtins/src/exec.rs', "            context.shell.replace_open_files(fds.into_iter());\n", ""),
    ],
    'U9': [
        ('smallest-prefix-forgets-the-empty-prefix', 'brush-core/src/patterns.rs', "        // The smallest possible prefix is the empty one.\n        if re.is_match(\"\")? {\n            return Ok(s);\n        }\n", ""),
        ('largest-suffix-scans-from-the-end', 'brush-core/src/patterns.rs', "        for (idx, _) in s.char_indices() {\n            let suffix = &s[idx..];", "        for (idx, _) in s.char_indices().rev() {\n            let suffix = &s[idx..];"),
        ('largest-prefix-skips-the-whole-string', 'brush-core/src/patterns.rs', "        for (idx, _) in indices {\n            let prefix = &s[0..last_idx];\n            if re.is_match(prefix)? {\n                return Ok(&s[last_idx..]);\n            }\n\n            last_idx = idx;\n        }", "        for (idx, _) in indices {\n            last_idx = idx;\n            let prefix = &s[0..last_idx];\n            if re.is_match(prefix)? {\n                return Ok(&s[last_idx..]);\n            }\n        }"),
    ],
    'U21': [
        ('descending-letter-range-stops-one-short', 'brush-core/src/braceexpansion.rs', "                        let next = char::from_u32((c as u32).checked_sub(increment)?)?;\n                        (next >= end).then_some(next)", "                        let next = char::from_u32((c as u32).checked_sub(increment)?)?;\n                        (next > end).then_some(next)"),
        ('letter-range-step-loses-its-magnitude', 'brush-core/src/braceexpansion.rs', "            let mut increment = increment.unsigned_abs() as usize;\n            if increment == 0 {\n                increment = 1;\n            }\n\n            if start <= end {\n                Box::new((start..=end).step_by(increment).map(|c| c.to_string()))", "            let mut increment = increment.unsigned_abs() as usize;\n            if increment == 0 {\n                increment = 1;\n            }\n\n            if start <= end {\n                Box::new((start..=end).step_by(increment.min(2)).map(|c| c.to_string()))"),
    ],
    'U4o': [
        ('background-error-surfaces-at-wait', 'brush-core/src/interp.rs', "                let _ = cloned_shell.display_error(&mut stderr, &error);\n                Ok(error.into_result(&cloned_shell))", "                let _ = cloned_shell.display_error(&mut stderr, &error);\n                Err(error)"),
        ('background-error-reported-as-success', 'brush-core/src/interp.rs', "                let _ = cloned_shell.display_error(&mut stderr, &error);\n                Ok(error.into_result(&cloned_shell))", "                let _ = cloned_shell.display_error(&mut stderr, &error);\n                Ok(ExecutionResult::success())"),
    ],
    'U45': [
        ('restart-answer-leaves-trap-delivery-blocked', 'brush-core/src/completion.rs', "        shell.release_trap_delivery_block();\n\n        // Make a best-effort", "        if !matches!(invoke_result, Ok(124)) { shell.release_trap_delivery_block(); }\n\n        // Make a best-effort"),
        ('block-released-twice', 'brush-core/src/completion.rs', "        shell.release_trap_delivery_block();\n\n        // Make a best-effort", "        shell.release_trap_delivery_block();\n        shell.release_trap_delivery_block();\n\n        // Make a best-effort"),
        ('block-never-released', 'brush-core/src/completion.rs', "        shell.release_trap_delivery_block();\n\n        // Make a best-effort", "        // Make a best-effort"),
    ],
    'U42': [
        ('null-scalar-has-no-key', 'brush-core/src/variables.rs', "            Self::String(_) => vec![\"0\".to_owned()],", "            Self::String(s) if s.is_empty() => vec![],\n            Self::String(_) => vec![\"0\".to_owned()],"),
        ('scalar-key-is-one', 'brush-core/src/variables.rs', "            Self::String(_) => vec![\"0\".to_owned()],", "            Self::String(_) => vec![\"1\".to_owned()],"),
        ('null-scalar-has-no-element', 'brush-core/src/variables.rs', "            Self::String(s) => vec![s.to_owned()],\n            Self::AssociativeArray(array) => array.values()", "            Self::String(s) if s.is_empty() => vec![],\n            Self::String(s) => vec![s.to_owned()],\n            Self::AssociativeArray(array) => array.values()"),
        ('unsubscripted-array-reads-as-first-element', 'brush-core/src/variables.rs', "Self::IndexedArray(values) => values.get(&0).map(|s| Cow::Borrowed(s.as_str())),\n            Self::Dynamic { .. } => None,", "Self::IndexedArray(values) => values.values().next().map(|s| Cow::Borrowed(s.as_str())),\n            Self::Dynamic { .. } => None,"),
        ('unsubscripted-array-reads-as-element-one', 'brush-core/src/variables.rs', "Self::IndexedArray(values) => values.get(&0).map(|s| Cow::Borrowed(s.as_str())),\n            Self::Dynamic { .. } => None,", "Self::IndexedArray(values) => values.get(&1).map(|s| Cow::Borrowed(s.as_str())),\n            Self::Dynamic { .. } => None,"),
        ('declared-unset-reads-as-empty', 'brush-core/src/variables.rs', "            Self::Unset(_) => None,\n            Self::String(s) => Some(Cow::Borrowed(s.as_str())),\n            Self::AssociativeArray(values) => values.get(\"0\")", "            Self::Unset(_) => Some(Cow::Borrowed(\"\")),\n            Self::String(s) => Some(Cow::Borrowed(s.as_str())),\n            Self::AssociativeArray(values) => values.get(\"0\")"),
    ],
    'U43': [
        ('keyed-element-value-is-split', 'brush-core/src/interp.rs', "                    let value =\n                        expansion::basic_expand_assignment_word(shell, params, unexpanded_value)\n                            .await?;\n                    elements.push((key, value));", "                    let mut values =\n                        expansion::full_expand_and_split_word(shell, params, unexpanded_value)\n                            .await?;\n                    let value = values.pop().unwrap_or_default();\n                    elements.push((key, value));"),
        ('plain-elements-reversed', 'brush-core/src/interp.rs', "                    for value in values {\n                        elements.push((None, value));\n                    }", "                    for value in values {\n                        elements.insert(0, (None, value));\n                    }"),
        ('value-expanded-before-key', 'brush-core/src/interp.rs', "                if key.is_some() {\n                    let value =\n                        expansion::basic_expand_assignment_word(shell, params, unexpanded_value)\n                            .await?;\n                    elements.push((key, value));", "                if key.is_some() {\n                    let value =\n                        expansion::basic_expand_assignment_word(shell, params, unexpanded_key.as_ref().unwrap())\n                            .await?;\n                    elements.push((key, value));"),
    ],
    'U46': [
        ('empty-exported-value-not-handed-to-the-child', 'brush-core/src/commands.rs', "            if v.value().is_set() {\n                cmd.env(", "            if v.value().is_set() && !v.value().to_cow_str(context.shell).is_empty() {\n                cmd.env("),
        ('export-append-forgets-the-attribute', 'brush-builtins/src/export.rs', "                    if self.unexport {\n                        variable.unexport();\n                    } else {\n                        variable.export();\n                    }\n                    return Ok(ExecutionResult::success());", "                    if self.unexport {\n                        variable.unexport();\n                    }\n                    return Ok(ExecutionResult::success());"),
        ('export-n-with-a-value-still-exports', 'brush-builtins/src/export.rs', "                    |var| {\n                        if self.unexport {\n                            var.unexport();\n                        } else {\n                            var.export();\n                        }", "                    |var| {\n                        if self.unexport && false {\n                            var.unexport();\n                        } else {\n                            var.export();\n                        }"),
        ('export-name-on-an-existing-variable-does-nothing-with-n', 'brush-builtins/src/export.rs', "                    if self.unexport {\n                        variable.unexport();\n                    } else {\n                        variable.export();\n                    }\n                }\n            }", "                    if !self.unexport {\n                        variable.export();\n                    }\n                }\n            }"),
    ],
    'U48': [
        ('required-scope-means-any-scope-of-that-type-again', 'brush-core/src/interp.rs', "            || (Some(existing_value_scope) == required_scope && in_innermost_scope)", "            || Some(existing_value_scope) == required_scope"),
        ('appending-temporary-assignment-forgets-the-old-value', 'brush-core/src/interp.rs', "            let mut new_var = existing_value.clone();\n            new_var.assign(new_value, true)?;", "            let mut new_var = ShellVariable::new(ShellValue::String(String::new()));\n            new_var.assign(new_value, true)?;"),
        ('temporary-assignment-shadows-a-readonly-variable-again', 'brush-core/src/interp.rs', "        if existing_value.is_readonly() {\n            return Err(error::ErrorKind::ReadonlyVariable.into());\n        }\n", ""),
        ('assignment-drops-the-export-attribute', 'brush-core/src/interp.rs', "            if export {\n                existing_value.export();\n            }\n\n            // That's it!", "            if export {\n                existing_value.export();\n            } else {\n                existing_value.unexport();\n            }\n\n            // That's it!"),
        ('new-variable-goes-to-the-global-scope', 'brush-core/src/interp.rs', "    shell.env_mut().add(variable_name, new_var, creation_scope)\n}", "    shell.env_mut().add(variable_name, new_var, EnvironmentScope::Global)\n}"),
        ('temporary-assignment-forgets-export', 'brush-core/src/interp.rs', "    if export {\n        new_var.export();\n    }\n\n    shell.env_mut().add(", "    shell.env_mut().add("),
    ],
    'U49': [
        ('new-local-does-not-inherit-export', 'brush-builtins/src/declare.rs', "            {\n                var.export();\n            }\n\n            self.apply_attributes_before_update(&mut var)?;", "            {\n            }\n\n            self.apply_attributes_before_update(&mut var)?;"),
        ('declare-in-function-creates-a-global', 'brush-builtins/src/declare.rs', "            let scope = if create_var_local {\n                EnvironmentScope::Local", "            let scope = if create_var_local && matches!(verb, DeclareVerb::Local) {\n                EnvironmentScope::Local"),
        ('inherited-export-overrides-the-flags', 'brush-builtins/src/declare.rs', "            self.apply_attributes_after_update(&mut var, verb)?;\n\n            let scope = if create_var_local {", "            self.apply_attributes_after_update(&mut var, verb)?;\n            if create_var_local { var.export(); }\n\n            let scope = if create_var_local {"),
    ],
    'U44': [
        ('fragments-of-a-quoted-piece-become-patterns', 'brush-core/src/patterns.rs', "                    PatternPiece::Literal(_) => PatternPiece::Literal(s.to_owned()),\n                })\n                .collect();", "                    PatternPiece::Literal(_) => PatternPiece::Pattern(s.to_owned()),\n                })\n                .collect();"),
        ('first-fragment-always-starts-a-component', 'brush-core/src/patterns.rs', "                if let Some(last_component) = components.last_mut() {\n                    last_component.push(first_piece);\n                } else {\n                    components.push(vec![first_piece]);\n                }", "                components.push(vec![first_piece]);"),
        ('further-fragments-join-the-last-component', 'brush-core/src/patterns.rs', "            while let Some(piece) = split_result.pop_front() {\n                components.push(vec![piece]);\n            }", "            while let Some(piece) = split_result.pop_front() {\n                if let Some(last_component) = components.last_mut() { last_component.push(piece); }\n            }"),
        ('last-fragment-dropped', 'brush-core/src/patterns.rs', "            while let Some(piece) = split_result.pop_front() {\n                components.push(vec![piece]);\n            }", "            while let Some(piece) = split_result.pop_front() {\n                if split_result.len() > 0 { components.push(vec![piece]); }\n            }"),
    ],
    'U50': [
        ('upper-end-of-a-range-loses-its-backslash', 'brush-parser/src/pattern.rs', [("                let (to_str, to_c) = to;", "                let (_, to_c) = to;"), ("                    Some(std::format!(\"{from_str}-{to_str}\"))", "                    Some(std::format!(\"{from_str}-{to_c}\"))")]),
        ('equal-ends-are-no-range', 'brush-parser/src/pattern.rs', "                if from_c <= to_c {", "                if from_c < to_c {"),
        ('every-escape-passed-through', 'brush-parser/src/pattern.rs', "            sequence:$(['\\\\'] [c if regex_char_needs_escaping(c)]) { sequence.to_owned() } /\n            ['\\\\'] [c] { c.to_string() }", "            sequence:$(['\\\\'] [_]) { sequence.to_owned() }"),
        ('escape-dropped-before-special-characters', 'brush-parser/src/pattern.rs', "            sequence:$(['\\\\'] [c if regex_char_needs_escaping(c)]) { sequence.to_owned() } /\n            ['\\\\'] [c] { c.to_string() }", "            ['\\\\'] [c] { c.to_string() }"),
        ('escaped-letter-in-brackets-is-a-class-again', 'brush-parser/src/pattern.rs', "            ['\\\\'] [c if c.is_ascii_alphanumeric()] { (c.to_string(), c) } /\n", ""),
    ],
    'U41': [
        ('arithmetic-cache-key-drops-blanks', 'brush-parser/src/arithmetic.rs', 'convert = r#"{ input.to_owned() }"#', 'convert = r#"{ input.split_whitespace().collect::<String>() }"#'),
        ('word-cache-ignores-the-options', 'brush-parser/src/word.rs', 'key = "(String, ParserOptions)",\n    convert = r#"{ (word.to_owned(), options.to_owned()) }"#', 'key = "String",\n    convert = r#"{ word.to_owned() }"#'),
    ],
    'U20d': [
        ('operator-span-starts-one-byte-late', 'brush-interactive/src/highlighting.rs', "let start = global_offset + byte_offset(token_location.start.index);", "let start = global_offset + byte_offset(token_location.start.index) + 1;"),
        ('token-offsets-used-as-bytes', 'brush-interactive/src/highlighting.rs', "let end = global_offset + byte_offset(token_location.end.index);", "let end = global_offset + token_location.end.index;"),
        ('substituted-command-starts-after-one-byte', 'brush-interactive/src/highlighting.rs', "self.highlight_program(command.as_str(), piece.start + 2 /* opening $( */);", "self.highlight_program(command.as_str(), piece.start + 1 /* opening $( */);"),
        ('backquoted-command-from-the-cooked-text', 'brush-interactive/src/highlighting.rs', "                    .get(piece.start + 1..piece.end.saturating_sub(1))\n                    .unwrap_or(command.as_str());", "                    .get(piece.start + 1..piece.start + 1 + command.len())\n                    .unwrap_or(command.as_str());"),
        ('fallback-span-ends-in-the-middle', 'brush-interactive/src/highlighting.rs', "                global_offset..global_offset + line.len(),", "                global_offset..global_offset + line.len() / 2,"),
    ],
    'U53': [
        ('alternative-word-expanded-even-when-unused', 'brush-core/src/expansion.rs', "                let alternative_value = alternative_value.as_ref().map_or(\"\", |v| v.as_str());\n\n                match (test_type, expanded_parameter.classify()) {\n                    (_, ParameterState::NonZeroLength)\n                    | (\n                        brush_parser::word::ParameterTestType::Unset,\n                        ParameterState::DefinedEmptyString,\n                    ) => Ok(self.expand_parameter_word(alternative_value).await?),", "                let alternative_value = alternative_value.as_ref().map_or(\"\", |v| v.as_str());\n                let expanded_alternative = self.expand_parameter_word(alternative_value).await?;\n\n                match (test_type, expanded_parameter.classify()) {\n                    (_, ParameterState::NonZeroLength)\n                    | (\n                        brush_parser::word::ParameterTestType::Unset,\n                        ParameterState::DefinedEmptyString,\n                    ) => Ok(expanded_alternative),"),
        ('default-word-used-although-the-parameter-is-there', 'brush-core/src/expansion.rs', "                    ) => Ok(expanded_parameter),\n                    _ => Ok(self.expand_parameter_word(default_value).await?),", "                    ) => Ok(self.expand_parameter_word(default_value).await?),\n                    _ => Ok(self.expand_parameter_word(default_value).await?),"),
        ('assign-default-stores-before-expanding', 'brush-core/src/expansion.rs', "                        let expanded_default_value = self.fields_to_string(expanded_default);\n                        self.assign_to_parameter(&parameter, expanded_default_value.clone())\n                            .await?;", "                        let expanded_default_value = self.fields_to_string(expanded_default);\n                        self.assign_to_parameter(&parameter, String::new())\n                            .await?;"),
        ('missing-parameter-with-message-succeeds', 'brush-core/src/expansion.rs', "                        // Expansion errors are fatal per POSIX spec\n                        Err(err.into_fatal())", "                        // Expansion errors are fatal per POSIX spec\n                        let _ = err.into_fatal();\n                        Ok(expanded_parameter)"),
    ],
}
