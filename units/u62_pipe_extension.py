"""U62: add_pipe_extension_redirection (brush-parser/src/parser/peg.rs), whole function with the real ast types: the `2>&1` implied by
`cmd |& next` is put AFTER every redirection the command already carries (bash: "the implicit redirection of the standard error to the
standard output is performed after any redirections specified by command"), and nothing else of the command changes."""
from vx.unit import Unit
from vx.extract import C
from .common import replay_scripts

PROPS = ['C10']
HEADER = 'use vstd::prelude::*;\nverus! {\n'
FOOTER = '\n} // verus!\nfn main() {}\n'
OPAQUE = ('CompoundCommand', 'CommandPrefix', 'Word', 'Assignment', 'ProcessSubstitutionKind', 'SubshellCommand', 'IoHereDocument')
R = 'ast::IoRedirect::File(Some(2i32), ast::IoFileRedirectKind::DuplicateOutput, ast::IoFileRedirectTarget::Fd(1i32))'


def build(repo, findings):
    u = Unit('U62', '`|&`: the implied 2>&1 comes after the redirections the command already has', repo, PROPS, safety_props=[])
    pg = u.source('brush-parser/src/parser/peg.rs')
    ast = u.source('brush-parser/src/ast.rs')
    u.raw(HEADER)
    u.raw('pub mod ast {\nuse vstd::prelude::*;\n' + ''.join('#[verifier::external_body]\npub struct %s { _p: u8 }\n' % t for t in OPAQUE))
    ast.require_text(r'^pub type IoFd = i32;', 'IoFd is i32')
    u.raw('pub type IoFd = i32;\n')
    for hdr, name in ((r'^pub enum Command ', 'Command'), (r'^pub struct SimpleCommand ', 'SimpleCommand'), (r'^pub struct CommandSuffix\(', 'CommandSuffix'),
                      (r'^pub enum CommandPrefixOrSuffixItem ', 'CommandPrefixOrSuffixItem'), (r'^pub struct RedirectList\(', 'RedirectList'),
                      (r'^pub enum IoRedirect ', 'IoRedirect'), (r'^pub enum IoFileRedirectKind ', 'IoFileRedirectKind'),
                      (r'^pub enum IoFileRedirectTarget ', 'IoFileRedirectTarget'), (r'^pub struct FunctionDefinition ', 'FunctionDefinition'),
                      (r'^pub struct FunctionBody\(', 'FunctionBody')):
        u.add(ast.item(hdr, name).r1(keep_derive=()))
    u.raw('}\n')
    u.raw('''pub open spec fn implied() -> ast::IoRedirect { %s }
pub open spec fn list_after(l: Option<ast::RedirectList>) -> Seq<ast::IoRedirect> { (match l { Some(x) => x.0@, None => Seq::<ast::IoRedirect>::empty() }).push(implied()) }
pub open spec fn suffix_after(l: Option<ast::CommandSuffix>) -> Seq<ast::CommandPrefixOrSuffixItem> {
    (match l { Some(x) => x.0@, None => Seq::<ast::CommandPrefixOrSuffixItem>::empty() }).push(ast::CommandPrefixOrSuffixItem::IoRedirect(implied()))
}
''' % R)
    fn = 'add_pipe_extension_redirection'
    f = pg.item(r'^fn add_pipe_extension_redirection\(', fn).r1()
    # the helper nested in the function is hoisted in front of it (same text)
    import re
    m = re.search(r'\n(    fn add_to_redirect_list\(.*?\n    \}\n)', f.text, re.S)
    if not m:
        from vx.extract import ExtractError
        raise ExtractError('unsupported: add_pipe_extension_redirection no longer nests fn add_to_redirect_list')
    helper_text = m.group(1)
    f.resub(re.escape(helper_text), '', 'R6', 'nested helper fn hoisted to module level (same text, placed before the function)', count=1)
    h = pg.slice(fn, r'^    fn add_to_redirect_list\(', r'^    \}$', None, 'add_to_redirect_list') if False else None
    u.raw('// hoisted from inside add_pipe_extension_redirection (R6), text unchanged:\n' + '\n'.join(l[4:] if l.startswith('    ') else l for l in helper_text.split('\n')).replace(
        'fn add_to_redirect_list(l: &mut Option<ast::RedirectList>, r: ast::IoRedirect) {',
        'fn add_to_redirect_list(l: &mut Option<ast::RedirectList>, r: ast::IoRedirect)\n    ensures\n        //@ peg.rs:add_to_redirect_list:ensures#0 | C10 the-new-redirection-goes-after-the-ones-already-there\n        (*final(l)) is Some && (*final(l))->Some_0.0@ == (match *old(l) { Some(x) => x.0@, None => Seq::<ast::IoRedirect>::empty() }).push(r),\n{', 1),
        origin='hoisted from %s fn add_pipe_extension_redirection' % pg.rel)
    f.sig(fn, ensures=[
        C('C10 a-simple-command-gets-the-implied-redirection-after-everything-in-its-suffix', '''(*old(c)) is Simple ==> ((*final(c)) is Simple && (*final(c))->Simple_0.suffix is Some && (*final(c))->Simple_0.suffix->Some_0.0@ == suffix_after((*old(c))->Simple_0.suffix)
        && (*final(c))->Simple_0.prefix == (*old(c))->Simple_0.prefix && (*final(c))->Simple_0.word_or_name == (*old(c))->Simple_0.word_or_name)'''),
        C('C10 a-compound-command-gets-it-after-its-own-redirections', '''(*old(c)) is Compound ==> ((*final(c)) is Compound && (*final(c))->Compound_0 == (*old(c))->Compound_0 && (*final(c))->Compound_1 is Some && (*final(c))->Compound_1->Some_0.0@ == list_after((*old(c))->Compound_1))'''),
        C('C10 a-function-definition-gets-it-after-the-redirections-of-its-body', '''(*old(c)) is Function ==> ((*final(c)) is Function && (*final(c))->Function_0.fname == (*old(c))->Function_0.fname && (*final(c))->Function_0.body.0 == (*old(c))->Function_0.body.0
        && (*final(c))->Function_0.body.1 is Some && (*final(c))->Function_0.body.1->Some_0.0@ == list_after((*old(c))->Function_0.body.1))'''),
    ])
    u.add(f)
    u.raw(FOOTER)
    u.assume('external_body', 'payload types of the ast (%s) are opaque' % ', '.join(OPAQUE))
    u.assume('stub', 'that the rule pipe_sequence calls this function for exactly the commands followed by `|&` is read off the rule, not proved; redirections are applied in list order by the executors (U61 for simple commands)')
    u.expected_min_fns = 2
    u.counterexample = replay_scripts(repo, [
        ('both() { echo out; echo err >&2; }; both >/dev/null |& sed "s/^/piped:/"; echo end', 'end\n'),
        ('both() { echo out; echo err >&2; }; both 2>/dev/null |& sed "s/^/piped:/"', 'piped:out\npiped:err\n'),
        ('{ echo out; echo err >&2; } 2>/dev/null |& sed "s/^/piped:/"', 'piped:out\npiped:err\n'),
    ])
    return u
