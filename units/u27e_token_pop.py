"""U27e: TokenParseState::pop (brush-parser/src/tokenizer.rs) with the real Token, SourceSpan and SourcePosition: the token carries the
text gathered so far, is an operator exactly when the state says so, spans from the end of the previous token of this state to the
position given, and the next token starts exactly there — tokens handed out by one state are adjacent, never overlapping."""
from vx.unit import Unit
from vx.extract import C

PROPS = ['C19', 'C13']
HEADER = 'use vstd::prelude::*;\nuse std::sync::Arc;\nverus! {\n'
FOOTER = '\n} // verus!\nfn main() {}\n'


def build(repo, findings):
    u = Unit('U27e', 'a token spans from the end of the one before it to the position it is cut at, and carries the text gathered', repo, PROPS, safety_props=[])
    src = u.source('brush-parser/src/tokenizer.rs')
    ssrc = u.source('brush-parser/src/source.rs')
    u.raw(HEADER)
    u.add(ssrc.item(r'^pub struct SourcePosition ', 'SourcePosition').r1(keep_derive=('Default',)))
    u.add(ssrc.item(r'^pub struct SourceSpan ', 'SourceSpan').r1(keep_derive=()))
    u.add(src.item(r'^pub enum Token ', 'Token').r1(keep_derive=()))
    u.add(src.item(r'^struct TokenParseState ', 'TokenParseState').r1(keep_derive=()).r11_pub())
    u.prelude('tokenizer/pop_spec.rs')
    fn = 'pop'
    f = src.method(r'^impl TokenParseState ', fn).r1()
    f.resub(r'\bend_position\.to_owned\(\)', 'position_to_owned(end_position)', 'R14', 'ToOwned::to_owned on SourcePosition (derived Clone) -> stub', count=None)
    f.resub(r'\bend_position\.clone_into\(&mut self\.start_position\)', 'position_clone_into(end_position, &mut self.start_position)', 'R14', 'ToOwned::clone_into on SourcePosition (derived Clone) -> stub', count=None)
    f.sig(fn, ret='t', ensures=[
        C('C19 the-token-carries-the-text-gathered-so-far', 'token_text(t) == old(self).token_so_far@'),
        C('C19 the-token-is-an-operator-exactly-when-the-state-says-so', '(t is Operator) == old(self).token_is_operator'),
        C('C19 the-token-starts-where-the-previous-one-of-this-state-ended', '*token_span(t).start == old(self).start_position'),
        C('C19 the-token-ends-at-the-position-given', '*token_span(t).end == *end_position'),
        C('C19 the-next-token-starts-where-this-one-ends', 'final(self).start_position == *end_position'),
        C('C19 the-state-starts-an-empty-unquoted-word', 'final(self).token_so_far@.len() == 0 && !final(self).token_is_operator && !final(self).in_escape && final(self).quote_mode is None'),
    ])
    f.at_body_start(fn, 'broadcast use axiom_default_bool, axiom_default_string;')
    u.raw('impl TokenParseState {')
    u.add(f)
    u.raw('}\n')
    # ---- which character changes the quoting state (C13, read side: `\\'` inside $'..' must not end the quote)
    iq = src.item(r'^const fn is_quoting_char\(', 'is_quoting_char').r1()
    iq.sig('is_quoting_char', ret='r', ensures=[C('C13 the-three-quoting-characters', "r == (c == '\\\\' || c == '\\'' || c == '\"')")])
    u.add(iq)
    dq = src.item(r'^const fn does_char_newly_affect_quoting\(', 'does_char_newly_affect_quoting').r1()
    dq.sig('does_char_newly_affect_quoting', ret='r', ensures=[
        C('C13 after-a-backslash-nothing-changes-the-quoting', 'state.in_escape ==> !r'),
        C('C13 inside-double-and-ansi-c-quotes-a-backslash-escapes-the-next-character', "(!state.in_escape && (state.quote_mode is Double || state.quote_mode is AnsiC)) ==> r == (c == '\\\\')"),
        C('C13 inside-single-quotes-nothing-does', '(!state.in_escape && state.quote_mode is Single) ==> !r'),
        C('C13 outside-quotes-a-backslash-or-a-quote-mark-does', "(!state.in_escape && state.quote_mode is None) ==> r == (c == '\\\\' || c == '\\'' || c == '\"')"),
    ])
    u.add(dq)
    # ---- Tokenizer::next_char: the cursor counts characters
    src.require_text(r'char_reader: std::iter::Peekable<utf8_chars::Chars<\'a, R>>,', 'Tokenizer.char_reader is a peekable character reader')
    u.raw('''// projection of Tokenizer / CrossTokenParseState to what next_char touches (the reader is opaque: one character per call, None at the end)
#[verifier::external_body] pub struct CharReader { _p: u8 }
pub enum TokenizerError { ReadError, Other }
pub struct CrossTokenParseState { pub cursor: SourcePosition }
pub struct Tokenizer { pub char_reader: CharReader, pub cross_state: CrossTokenParseState }
#[verifier::external_body] pub fn reader_next(r: &mut CharReader) -> Result<Option<char>, TokenizerError> { unimplemented!() }    // char_reader.next().transpose().map_err(ReadError)
''')
    nc = src.method_anywhere('next_char').r1()
    nc.resub(r'self\s*\.char_reader\s*\.next\(\)\s*\.transpose\(\)\s*\.map_err\(TokenizerError::ReadError\)\?', 'reader_next(&mut self.char_reader)?', 'R14', 'reader call chain -> stub (one character, None at the end, Err on a read error)', count=1)
    nc.sig('next_char', ret='res', requires=[C('aux the-counters-have-room (one step per character of the input)', 'old(self).cross_state.cursor.index < usize::MAX && old(self).cross_state.cursor.line < usize::MAX && old(self).cross_state.cursor.column < usize::MAX')], ensures=[
        C('C19 the-cursor-index-counts-characters-one-per-character-read', 'res is Ok ==> final(self).cross_state.cursor.index == old(self).cross_state.cursor.index + (if res->Ok_0 is Some { 1int } else { 0int })'),
        C('C19 the-cursor-never-moves-back', 'final(self).cross_state.cursor.index >= old(self).cross_state.cursor.index'),
        C('C19 a-newline-starts-a-new-line-at-column-one', "(res is Ok && res->Ok_0 == Some('\\n')) ==> (final(self).cross_state.cursor.line == old(self).cross_state.cursor.line + 1 && final(self).cross_state.cursor.column == 1)"),
        C('C19 any-other-character-moves-one-column-on', "(res is Ok && res->Ok_0 is Some && res->Ok_0 != Some('\\n')) ==> (final(self).cross_state.cursor.line == old(self).cross_state.cursor.line && final(self).cross_state.cursor.column == old(self).cross_state.cursor.column + 1)"),
    ])
    u.raw('impl Tokenizer {')
    u.add(nc)
    u.raw('}\n')
    u.raw(FOOTER)
    u.assume('external_body', 'the derived Clone of SourcePosition behind to_owned / clone_into is a field-wise copy (ASSUMED)')
    u.assume('assume_specification', 'std::mem::take: the old value out, T::default() left; bool defaults to false and String to the empty string (axioms)')
    u.assume('uninterp', 'default_spec')
    u.assume('axiom', 'Default of bool and of String')
    u.assume('stub', 'that the position handed to pop is the cursor is read off the call sites, not proved; the cursor itself counts characters and never moves back (next_char, under contract here); tokens queued for here-documents leave their state in another order (sorted again by the highlighter: U20c)')
    u.expected_min_fns = 4
    return u
