"""U27e: TokenParseState::pop (brush-parser/src/tokenizer.rs) with the real Token, SourceSpan and SourcePosition: the token carries the
text gathered so far, is an operator exactly when the state says so, spans from the end of the previous token of this state to the
position given, and the next token starts exactly there — tokens handed out by one state are adjacent, never overlapping."""
from vx.unit import Unit
from vx.extract import C

PROPS = ['C19']
HEADER = 'use vstd::prelude::*;\nuse std::sync::Arc;\nverus! {\n'
FOOTER = '\n} // verus!\nfn main() {}\n'


def build(repo, findings):
    u = Unit('U27e', 'a token spans from the end of the one before it to the position it is cut at, and carries the text gathered', repo, PROPS, safety_props=[])
    src = u.source('brush-parser/src/tokenizer.rs')
    ssrc = u.source('brush-parser/src/source.rs')
    u.raw(HEADER)
    u.add(ssrc.item(r'^pub struct SourcePosition ', 'SourcePosition').r1(keep_derive=('Default',)))
    u.add(ssrc.item(r'^pub struct SourceSpan ', 'SourceSpan').r1(keep_derive=()))
    u.add(src.item(r'^pub enum Token ', 'Token').r1(keep_derive=()))
    u.add(src.item(r'^struct TokenParseState ', 'TokenParseState').r1(keep_derive=()).r11_pub())
    u.prelude('tokenizer/pop_spec.rs')
    fn = 'pop'
    f = src.method(r'^impl TokenParseState ', fn).r1()
    f.resub(r'\bend_position\.to_owned\(\)', 'position_to_owned(end_position)', 'R14', 'ToOwned::to_owned on SourcePosition (derived Clone) -> stub', count=None)
    f.resub(r'\bend_position\.clone_into\(&mut self\.start_position\)', 'position_clone_into(end_position, &mut self.start_position)', 'R14', 'ToOwned::clone_into on SourcePosition (derived Clone) -> stub', count=None)
    f.sig(fn, ret='t', ensures=[
        C('C19 the-token-carries-the-text-gathered-so-far', 'token_text(t) == old(self).token_so_far@'),
        C('C19 the-token-is-an-operator-exactly-when-the-state-says-so', '(t is Operator) == old(self).token_is_operator'),
        C('C19 the-token-starts-where-the-previous-one-of-this-state-ended', '*token_span(t).start == old(self).start_position'),
        C('C19 the-token-ends-at-the-position-given', '*token_span(t).end == *end_position'),
        C('C19 the-next-token-starts-where-this-one-ends', 'final(self).start_position == *end_position'),
        C('C19 the-state-starts-an-empty-unquoted-word', 'final(self).token_so_far@.len() == 0 && !final(self).token_is_operator && !final(self).in_escape && final(self).quote_mode is None'),
    ])
    f.at_body_start(fn, 'broadcast use axiom_default_bool, axiom_default_string;')
    u.raw('impl TokenParseState {')
    u.add(f)
    u.raw('}\n')
    u.raw(FOOTER)
    u.assume('external_body', 'the derived Clone of SourcePosition behind to_owned / clone_into is a field-wise copy (ASSUMED)')
    u.assume('assume_specification', 'std::mem::take: the old value out, T::default() left; bool defaults to false and String to the empty string (axioms)')
    u.assume('uninterp', 'default_spec')
    u.assume('axiom', 'Default of bool and of String')
    u.assume('stub', 'that the position given is the cursor and that the cursor never moves back (Tokenizer::next_char only adds) is read off next_char, not proved; tokens queued for here-documents leave their state in another order (sorted again by the highlighter: U20c)')
    u.expected_min_fns = 1
    return u
