"""U30: the operator table of the arithmetic parser (`precedence!{}` in brush-parser/src/arithmetic.rs) against the bash manual's list.
The table is a peg macro invocation, not a function: it is read row by row into a Verus constant (generated on every run from the
source text) and compared with the specification table; peg's documented meaning of levels and `@` / `(@)` markers is assumed."""
import re
from vx.unit import Unit
from vx.extract import C, ExtractError

PROPS = ['C07']
HEADER = 'use vstd::prelude::*;\nverus! {\n'
FOOTER = '\n} // verus!\nfn main() {}\n'

TOK = re.compile(r'\s*(?:(?P<same>\w+):\(@\)|(?P<next>\w+):@|(?P<rule>\w+):(?P<rname>\w+)\(\)|"(?P<lit>[^"]+)"|(?P<ws>_)(?!\w)|(?P<la>!\[\'.\'\]))')


def parse_rows(text):
    m = re.search(r'rule expression\(\) -> ast::ArithmeticExpr = precedence!\{\n', text)
    if not m:
        raise ExtractError('precedence table: `rule expression() -> ast::ArithmeticExpr = precedence!{` not found')
    depth, i = 1, m.end()
    while depth and i < len(text):
        depth += {'{': 1, '}': -1}.get(text[i], 0)
        i += 1
    block = text[m.end():i - 1]
    rows, level = [], 0
    for ln in block.split('\n'):
        s = ln.strip()
        if not s or s.startswith('//'):
            continue
        if s == '--':
            level += 1
            continue
        k = s.find(' {')
        if k < 0 or not s.endswith('}'):
            raise ExtractError('precedence table: row without an action: %r' % s)
        pat, act = s[:k], s[k + 2:-1].strip()
        pos, toks = 0, []
        while pos < len(pat):
            t = TOK.match(pat, pos)
            if not t:
                raise ExtractError('precedence table: unsupported pattern element at %r' % pat[pos:])
            pos = t.end()
            if t.group('same'):
                toks.append(('same', t.group('same')))
            elif t.group('next'):
                toks.append(('next', t.group('next')))
            elif t.group('rule'):
                toks.append(('rule:' + t.group('rname'), t.group('rule')))
            elif t.group('lit'):
                toks.append(('lit', t.group('lit')))
        kinds = [a for a, _ in toks]
        lits = [b for a, b in toks if a == 'lit']
        names = [b for a, b in toks if a != 'lit']
        K = tuple(kinds)
        if len(K) == 3 and K[1] == 'lit' and K[0] in ('same', 'next') and K[2] in ('same', 'next'):
            fix = {('same', 'next'): 'InfixL', ('next', 'same'): 'InfixR', ('next', 'next'): 'InfixNone', ('same', 'same'): 'InfixBoth'}[(K[0], K[2])]
        elif len(K) == 3 and K[0] == 'rule:lvalue' and K[1] == 'lit' and K[2] in ('same', 'next'):
            fix = 'AssignR' if K[2] == 'same' else 'AssignTight'
        elif len(K) == 5 and K[1] == 'lit' and K[3] == 'lit' and lits == ['?', ':'] and K[2] == 'rule:expression' and K[0] in ('same', 'next') and K[4] in ('same', 'next'):
            fix = 'TernaryR' if (K[0], K[4]) == ('next', 'same') else 'TernaryOther'
        elif K == ('lit', 'same'):
            fix = 'Prefix'
        elif K == ('lit', 'next'):
            fix = 'PrefixTight'
        elif K == ('lit', 'rule:lvalue'):
            fix = 'PrefixLvalue'
        elif K == ('rule:lvalue', 'lit'):
            fix = 'PostfixLvalue'
        elif K in (('rule:literal_number',), ('rule:lvalue',)) or (K == ('lit', 'rule:expression', 'lit') and lits == ['(', ')']):
            fix = 'Atom'
        else:
            raise ExtractError('precedence table: unsupported row shape %r in %r' % (K, s))
        lex = ''.join(lits)
        # the action
        a = act
        mm = re.match(r'^ast::ArithmeticExpr::BinaryOp\(ast::BinaryOperator::(\w+), Box::new\((\w+)\), Box::new\((\w+)\)\)$', a)
        if mm:
            ctor, args = 'Ctor::Bin(ast::BinaryOperator::%s)' % mm.group(1), [mm.group(2), mm.group(3)]
        elif re.match(r'^ast::ArithmeticExpr::BinaryAssignment\(ast::BinaryOperator::(\w+), (\w+), Box::new\((\w+)\)\)$', a):
            mm = re.match(r'^ast::ArithmeticExpr::BinaryAssignment\(ast::BinaryOperator::(\w+), (\w+), Box::new\((\w+)\)\)$', a)
            ctor, args = 'Ctor::OpAssign(ast::BinaryOperator::%s)' % mm.group(1), [mm.group(2), mm.group(3)]
        elif re.match(r'^ast::ArithmeticExpr::Assignment\((\w+), Box::new\((\w+)\)\)$', a):
            mm = re.match(r'^ast::ArithmeticExpr::Assignment\((\w+), Box::new\((\w+)\)\)$', a)
            ctor, args = 'Ctor::Assign', [mm.group(1), mm.group(2)]
        elif re.match(r'^ast::ArithmeticExpr::Conditional\(Box::new\((\w+)\), Box::new\((\w+)\), Box::new\((\w+)\)\)$', a):
            mm = re.match(r'^ast::ArithmeticExpr::Conditional\(Box::new\((\w+)\), Box::new\((\w+)\), Box::new\((\w+)\)\)$', a)
            ctor, args = 'Ctor::Cond', [mm.group(1), mm.group(2), mm.group(3)]
        elif re.match(r'^ast::ArithmeticExpr::UnaryOp\(ast::UnaryOperator::(\w+), Box::new\((\w+)\)\)$', a):
            mm = re.match(r'^ast::ArithmeticExpr::UnaryOp\(ast::UnaryOperator::(\w+), Box::new\((\w+)\)\)$', a)
            ctor, args = 'Ctor::Un(ast::UnaryOperator::%s)' % mm.group(1), [mm.group(2)]
        elif re.match(r'^ast::ArithmeticExpr::UnaryAssignment\(ast::UnaryAssignmentOperator::(\w+), (\w+)\)$', a):
            mm = re.match(r'^ast::ArithmeticExpr::UnaryAssignment\(ast::UnaryAssignmentOperator::(\w+), (\w+)\)$', a)
            ctor, args = 'Ctor::IncDec(ast::UnaryAssignmentOperator::%s)' % mm.group(1), [mm.group(2)]
        elif re.match(r'^ast::ArithmeticExpr::Literal\((\w+)\)$', a):
            ctor, args = 'Ctor::Literal', [re.match(r'^ast::ArithmeticExpr::Literal\((\w+)\)$', a).group(1)]
        elif re.match(r'^ast::ArithmeticExpr::Reference\((\w+)\)$', a):
            ctor, args = 'Ctor::Reference', [re.match(r'^ast::ArithmeticExpr::Reference\((\w+)\)$', a).group(1)]
        elif re.match(r'^\w+$', a) and fix == 'Atom':
            ctor, args = 'Ctor::Paren', [a]
        else:
            raise ExtractError('precedence table: unsupported action %r' % a)
        if ctor in ('Ctor::Literal', 'Ctor::Reference'):
            lex = ''
        rows.append(dict(level=level, fix=fix, ctor=ctor, lexeme=lex, in_order=(args == names), src=s))
    return rows


def lex_num(s):
    n = 0
    for ch in s:
        if ord(ch) > 255:
            raise ExtractError('precedence table: non-ASCII operator %r' % s)
        n = n * 256 + ord(ch)
    return n


def build(repo, findings):
    u = Unit('U30', 'arithmetic operator table (peg precedence! block) equals the bash manual\'s precedence / associativity list', repo, ['C07'], safety_props=['C07'])
    ar = u.source('brush-parser/src/arithmetic.rs')
    ast = u.source('brush-parser/src/ast.rs')
    rows = parse_rows(ar.text)
    if len(rows) < 30:
        raise ExtractError('precedence table: only %d rows read' % len(rows))
    u.raw(HEADER)
    u.raw('pub mod ast {\nuse vstd::prelude::*;')
    for n in ['BinaryOperator', 'UnaryOperator', 'UnaryAssignmentOperator']:
        u.add(ast.item(r'^pub enum %s ' % n, n).r1(structural=False))
    u.raw('}\n')
    u.prelude('arith/precedence_spec.rs')
    out = ['// GENERATED on every run from the `precedence!{}` block of brush-parser/src/arithmetic.rs (one row per rule, in source order)',
           'pub open spec fn n_rows() -> int { %d }' % len(rows), 'pub open spec fn row(i: int) -> Row {']
    for k, r in enumerate(rows):
        head = 'if i == %d' % k if k == 0 else 'else if i == %d' % k
        if k == len(rows) - 1:
            head = 'else'
        out.append('    %s { Row { level: %d, fix: Fix::%s, ctor: %s, lexeme: %d, args_in_order: %s } }   // %s' % (
            head, r['level'], r['fix'], r['ctor'], lex_num(r['lexeme']), 'true' if r['in_order'] else 'false', r['src'][:110]))
    out.append('}')
    out.append('''// each of the four facts is evaluated by Verus' interpreter over the generated constant (one lemma each, so that each is reported by name)
pub proof fn lemma_rows()
    ensures
        //@ arithmetic.rs:precedence:rows | C07 every-row-has-its-operator-text-associativity-and-operand-order
        rows_ok_upto(n_rows()),
{ assert(rows_ok_upto(n_rows())) by (compute); }   // the interpreter leaves `code == char as int` to the solver
pub proof fn lemma_once_all()
    ensures
        //@ arithmetic.rs:precedence:once | C07 every-operator-of-the-manual-has-exactly-one-row
        once_upto(n_wanted()),
{ assert(once_upto(n_wanted())) by (compute_only); }
pub proof fn lemma_order()
    ensures
        //@ arithmetic.rs:precedence:order | C07 binary-ternary-assignment-levels-ordered-as-in-the-manual
        order_upto(n_rows()),
{ assert(order_upto(n_rows())) by (compute_only); }
pub proof fn lemma_tighter()
    ensures
        //@ arithmetic.rs:precedence:tighter | C07 unary-and-primary-rows-bind-tighter-than-every-binary-row
        tighter_upto(n_rows()),
{ assert(tighter_upto(n_rows())) by (compute_only); }
pub proof fn precedence_table_is_the_manuals_table()
    ensures
        forall|i: int| 0 <= i < n_rows() ==> row_ok(#[trigger] row(i)),
        forall|k: int| 0 <= k < n_wanted() ==> count(#[trigger] wanted_at(k), n_rows()) == 1,
        forall|i: int, j: int| 0 <= i < n_rows() && 0 <= j < n_rows() ==> order_ok(#[trigger] row(i), #[trigger] row(j)),
        forall|i: int, j: int| 0 <= i < n_rows() && 0 <= j < n_rows() ==> tighter_ok(#[trigger] row(i), #[trigger] row(j)),
{
    lemma_rows();
    lemma_once_all();
    lemma_order();
    lemma_tighter();
    assert forall|i: int| 0 <= i < n_rows() implies row_ok(#[trigger] row(i)) by { lemma_rows_ok(n_rows(), i); }
    assert forall|k: int| 0 <= k < n_wanted() implies count(#[trigger] wanted_at(k), n_rows()) == 1 by { lemma_once(n_wanted(), k); }
    assert forall|i: int, j: int| 0 <= i < n_rows() && 0 <= j < n_rows() implies order_ok(#[trigger] row(i), #[trigger] row(j)) by { lemma_order_upto(n_rows(), i, j); }
    assert forall|i: int, j: int| 0 <= i < n_rows() && 0 <= j < n_rows() implies tighter_ok(#[trigger] row(i), #[trigger] row(j)) by { lemma_tighter_upto(n_rows(), i, j); }
}''')
    u.raw('\n'.join(out) + '\n', origin='generated from brush-parser/src/arithmetic.rs precedence!{}')
    u.raw(FOOTER)
    u.notes.append('precedence table: %d rows on %d levels read from the source' % (len(rows), rows[-1]['level'] + 1))
    u.assume('dependency', 'peg `precedence!`: levels listed loosest first; `x:(@) OP y:@` left-associative, `x:@ OP y:(@)` right-associative; the order of alternatives inside one level and the lexing of operators that are prefixes of one another (`<` / `<<` / `<=`, `=` / `==`) are NOT modelled')
    u.assume('generated', 'the table constant is produced by units/u30_precedence.py from the macro invocation text (row shapes outside the recognised set stop the run undecided)')
    u.expected_min_fns = 0
    u.counterexample = counterexample_for(repo)
    return u


# ---- failing-input search for a table violation: an expression the extracted table parses differently from the manual's table, run on the real binary
BIN = {'Comma': (',', 0), 'LogicalOr': ('||', 3), 'LogicalAnd': ('&&', 4), 'BitwiseOr': ('|', 5), 'BitwiseXor': ('^', 6), 'BitwiseAnd': ('&', 7),
       'Equals': ('==', 8), 'NotEquals': ('!=', 8), 'LessThan': ('<', 9), 'LessThanOrEqualTo': ('<=', 9), 'GreaterThan': ('>', 9),
       'GreaterThanOrEqualTo': ('>=', 9), 'ShiftLeft': ('<<', 10), 'ShiftRight': ('>>', 10), 'Add': ('+', 11), 'Subtract': ('-', 11),
       'Multiply': ('*', 12), 'Divide': ('/', 12), 'Modulo': ('%', 12), 'Power': ('**', 13)}


def _apply(op, a, b):
    import operator
    if op in ('/', '%') and b == 0:
        raise ZeroDivisionError
    if op == '**' and (b < 0 or b > 8):
        raise ZeroDivisionError
    if op in ('<<', '>>') and not 0 <= b < 16:
        raise ZeroDivisionError
    f = {',': lambda x, y: y, '||': lambda x, y: int(bool(x) or bool(y)), '&&': lambda x, y: int(bool(x) and bool(y)), '|': operator.or_, '^': operator.xor,
         '&': operator.and_, '==': lambda x, y: int(x == y), '!=': lambda x, y: int(x != y), '<': lambda x, y: int(x < y), '<=': lambda x, y: int(x <= y),
         '>': lambda x, y: int(x > y), '>=': lambda x, y: int(x >= y), '<<': operator.lshift, '>>': operator.rshift, '+': operator.add, '-': operator.sub,
         '*': operator.mul, '/': lambda x, y: int(x / y), '%': lambda x, y: x - y * int(x / y), '**': operator.pow}[op]
    return f(a, b)


def _eval3(tbl, x, a, y, b, z):
    """value of `x a y b z` under a table {lexeme: (level, right_assoc)} (precedence climbing)"""
    la, ra = tbl[a]
    lb, rb = tbl[b]
    if lb > la or (lb == la and ra):
        return _apply(a, x, _apply(b, y, z))
    return _apply(b, _apply(a, x, y), z)


def counterexample_for(repo):
    def cb(failure, workdir):
        import itertools, os, subprocess
        try:
            rows = parse_rows(open(os.path.join(repo, 'brush-parser/src/arithmetic.rs')).read())
        except Exception:
            return None
        actual = {}
        for r in rows:
            m = re.match(r'Ctor::Bin\(ast::BinaryOperator::(\w+)\)', r['ctor'])
            if m and r['fix'] in ('InfixL', 'InfixR') and r['lexeme'] not in actual:
                actual[r['lexeme']] = (r['level'], r['fix'] == 'InfixR')
        want = dict((lx, (g, lx == '**')) for lx, g in BIN.values())
        ops = [o for o in want if o in actual and o != ',']
        cand = None
        for a, b in itertools.permutations(ops, 2):
            for x, y, z in itertools.product((3, 0, 1, 2, 5), repeat=3):
                try:
                    va, vw = _eval3(actual, x, a, y, b, z), _eval3(want, x, a, y, b, z)
                except ZeroDivisionError:
                    continue
                if va != vw:
                    cand = ('%d %s %d %s %d' % (x, a, y, b, z), vw, va)
                    break
            if cand:
                break
        if not cand:
            for a in ops:     # associativity of one operator
                for x, y, z in itertools.product((3, 0, 1, 2, 5), repeat=3):
                    try:
                        va, vw = _eval3(actual, x, a, y, a, z), _eval3(want, x, a, y, a, z)
                    except ZeroDivisionError:
                        continue
                    if va != vw:
                        cand = ('%d %s %d %s %d' % (x, a, y, a, z), vw, va)
                        break
                if cand:
                    break
        if not cand:
            return None
        expr, vw, va = cand
        text = 'candidate: echo $(( %s ))   value under the manual\'s table: %d   value under the table read from the source: %d\n' % (expr, vw, va)
        if not os.path.exists(os.path.join(repo, 'Cargo.lock')) or os.environ.get('VERIF_NO_REPLAY_BUILD'):
            failure.replay_note = text + 'not replayed: the tree under check is a source export without a build set-up'
            return None
        try:
            b = subprocess.run(['cargo', 'build', '--offline', '-q', '-p', 'brush-shell'], cwd=repo, capture_output=True, text=True, timeout=1800)
            if b.returncode != 0:
                failure.replay_note = text + 'not replayed: cargo build failed'
                return None
            out = subprocess.run([os.path.join(repo, 'target/debug/brush'), '--norc', '--noprofile', '-c', 'echo $(( %s ))' % expr], capture_output=True, text=True, timeout=20).stdout.strip()
        except Exception as e:
            failure.replay_note = text + 'not replayed: %r' % e
            return None
        if out == str(vw):
            failure.replay_note = text + 'replayed on target/debug/brush: prints %s, the expected value — candidate does not fail' % out
            return None
        return text + 'replayed on %s/target/debug/brush (built from the tree under check): prints %r, expected %d' % (repo, out, vw)
    return cb
