"""U27d: a nested construct on a line whose here-documents are still pending (brush-parser/src/tokenizer.rs): the whole of
Tokenizer::consume_nested_construct ($(..), $((..)), $[..]) and the `${` arm of next_token_until (R6 block slice).  The recursive
next_token_until is a stub that must be entered with no enclosing here-document pending (otherwise delimit_current_token files the
construct's tokens behind the enclosing here tag: `cat <<E $(echo f)` ran cat with the words echo and f), and both functions hand the
enclosing line's here state and pending tags back exactly as they found them."""
from vx.unit import Unit
from vx.extract import C
from .common import replay_scripts

PROPS = ['C10', 'C19', 'C05', 'C01']
HEADER = 'use vstd::prelude::*;\nverus! {\n'
FOOTER = '\n} // verus!\nfn main() {}\n'
INV = 'inner_only(%s.cross_state.here_state, %s.cross_state.current_here_tags@)'


def common(f, me):
    f.r1()
    f.resub(r'std::mem::take\(&mut %s\.cross_state\.here_state\)' % me, 'take_here_state(&mut %s.cross_state.here_state)' % me, 'R14', 'std::mem::take on HereState -> stub (old value out, None left)', count=None)
    f.resub(r'std::mem::take\(&mut %s\.cross_state\.current_here_tags\)' % me, 'take_here_tags(&mut %s.cross_state.current_here_tags)' % me, 'R14', 'std::mem::take on Vec<HereTag> -> stub (old value out, empty left)', count=None)
    f.resub(r'\bpending_here_doc_tokens\.remove\(0\)', 'vx_remove_first(&mut pending_here_doc_tokens)', 'R14', 'Vec::remove(0) -> stub', count=None)
    f.resub(r'let mut pending_here_doc_tokens = vec!\[\];', 'let mut pending_here_doc_tokens: Vec<TokenizeResult> = Vec::new();', 'R14', 'vec![] -> Vec::new() with the element type spelled out', count=None)
    return f


def build(repo, findings):
    u = Unit('U27d', 'a nested construct leaves the here-documents pending on its line alone, and is read without them', repo, PROPS, safety_props=['C19', 'C01'])
    src = u.source('brush-parser/src/tokenizer.rs')
    for v in (r'\n\s*UnterminatedExpansion,', r'\n\s*UnterminatedVariable,'):
        src.require_text(v, 'projected variant of TokenizerError')
    src.require_text(r'#\[default\]\n\s*None,', 'HereState defaults to None (std::mem::take leaves None)')
    u.raw(HEADER)
    u.add(src.item(r'^pub\(crate\) enum TokenEndReason ', 'TokenEndReason').r1(keep_derive=()).r11_pub())
    u.add(src.item(r'^pub enum Token ', 'Token').r1(keep_derive=()))
    u.add(src.item(r'^pub\(crate\) struct TokenizeResult ', 'TokenizeResult').r1(keep_derive=()).r11_pub())
    u.add(src.item(r'^enum HereState ', 'HereState').r1(keep_derive=()).resub(r'\n\s*#\[default\]', '', 'R1', '#[default] attribute dropped (its meaning is carried by take_here_state)', count=None).r11_pub())
    u.add(src.item(r'^struct HereTag ', 'HereTag').r1(keep_derive=()).r11_pub().pub_fields())
    u.add(src.item(r'^struct CrossTokenParseState ', 'CrossTokenParseState').r1(keep_derive=()).r11_pub().pub_fields())
    u.add(src.item(r'^struct TokenParseState ', 'TokenParseState').r1(keep_derive=()).r11_pub())
    u.prelude('tokenizer/nested_spec.rs')
    frame = lambda me: ('res is Ok ==> final(%s).cross_state.here_state == old(%s).cross_state.here_state && final(%s).cross_state.current_here_tags == old(%s).cross_state.current_here_tags' % (me, me, me, me))
    # ---- consume_nested_construct, whole
    fn = 'consume_nested_construct'
    f = common(src.method_anywhere(fn), 'self')
    f.resub(r'matches!\(cur_token_value, Token::Operator\(o, _\) if o == nesting_open\)', 'is_operator_named(&cur_token_value, nesting_open)', 'R14', 'matches! with a String == &str guard -> helper defined next to it', count=1)
    f.resub(r'\bnesting_count \+= 1;', 'nesting_count = vx_inc(nesting_count);', 'R14', 'counter increment -> stub (2^32 nested delimiters not considered)', count=1)
    f.resub(r'state\.append_char\(\s*self\.next_char\(\)\?\s*\.ok_or\(TokenizerError::UnterminatedExpansion\)\?,\s*\);', 'state.append_char(vx_ok_or_unterminated(self.next_char()?)?);', 'R14', 'Option::ok_or(variant) -> helper defined next to it', count=None)
    f.sig(fn, ret='res', attrs=['#[verifier::exec_allows_no_decreases_clause]', '#[verifier::loop_isolation(false)]'],
          requires=[C('aux an-open-construct', 'nesting_count >= 1')],
          ensures=[C('C10,C19,C05 the-here-documents-pending-on-the-enclosing-line-are-handed-back-untouched', frame('self'))])
    f.loop(0, fn, invariant=[C('aux no-foreign-here-document-while-inside', INV % ('self', 'self')), C('aux count-positive', 'nesting_count >= 1')])
    f.at_body_start(fn, 'broadcast use axiom_clean_is_inner_only;')
    u.raw('''pub fn is_operator_named(t: &Token, name: &str) -> bool { match t { Token::Operator(o, _) => str_eq(o.as_str(), name), _ => false } }
pub fn vx_ok_or_unterminated(c: Option<char>) -> (r: Result<char, TokenizerError>) ensures c is Some ==> r is Ok { match c { Some(ch) => Ok(ch), None => Err(TokenizerError::UnterminatedExpansion) } }
impl Tokenizer {''')
    u.add(f)
    u.raw('}\n')
    # ---- the `${` arm of next_token_until
    fn = 'brace_construct'
    b = src.block_slice(r"^\s*Some\('\{'\) => \{$", 'fn brace_construct(self_: &mut Tokenizer, state: &mut TokenParseState) -> Result<(), TokenizerError>', fn, within_fn='next_token_until')
    b.resub(r'\bself\b', 'self_', 'R6', 'slice wrapper: self -> self_', count=None)
    common(b, 'self_')
    b.resub(r'self_\.next_char\(\)\?\.unwrap\(\)', 'self_.vx_next_char_peeked()?', 'R14', 'next_char()?.unwrap() on a character just peeked -> stub', count=None)
    b.resub(r'\n\}$', '\n    Ok(())\n}', 'R6', 'wrapper epilogue', count=1)
    b.sig(fn, ret='res', attrs=['#[verifier::exec_allows_no_decreases_clause]', '#[verifier::loop_isolation(false)]'],
          ensures=[C('C10,C19,C05 the-here-documents-pending-on-the-enclosing-line-are-handed-back-untouched', frame('self_'))])
    b.loop(0, fn, invariant=[C('aux no-foreign-here-document-while-inside', INV % ('self_', 'self_'))])
    b.at_body_start(fn, 'broadcast use axiom_clean_is_inner_only;')
    u.add(b)
    u.raw(FOOTER)
    u.assume('external_body', 'Tokenizer::next_token_until (the recursion: arbitrary result; requires and keeps "no foreign here-document pending"), next_char (moves the cursor only), TokenParseState::{append_char, append_str}, Token::to_str and the small std stand-ins of contracts/tokenizer/nested_spec.rs are stubs')
    u.assume('uninterp', 'inner_only')
    u.assume('axiom', 'the clean here state (None, no pending tag) has no foreign here-document pending')
    u.assume('exec_allows_no_decreases_clause', 'termination of the two loops (each round consumes input through the recursion) is NOT checked here')
    u.assume('stub', 'that delimit_current_token defers a token only in the NextLineIsHereDoc state with a pending tag is read off its body (U27b extracts it), not linked by a contract; the backquote form reads characters, not tokens, and is outside')
    u.expected_min_fns = 2
    u.counterexample = replay_scripts(repo, [
        ('cat <<E - $(echo /dev/null)\nbody\nE\necho rc=$?', 'body\nrc=0\n'),
        ('x=; echo <<E "$(echo hi)" ${x:-a b}\nbody\nE', 'hi a b\n'),
        ('cat <<E; echo "$[1+2]" $((2*3))\nbb\nE', 'bb\n3 6\n'),
        ('cat <<A; echo $(cat <<B\ninner\nB\n) after\nouter\nA', 'outer\ninner after\n'),
        ('echo $(cat <<B\nin2\nB\n) <<C tail\nc\nC', 'in2 tail\n'),
    ])
    return u
