"""U16b: the listing builtins that quote by hand: alias (single_quote) and trap -p (display_handlers_for)."""
from vx.unit import Unit
from vx.extract import C

PROPS = ['C13', 'C01']
HEADER = 'use vstd::prelude::*;\nverus! {\n'
FOOTER = '\n} // verus!\nfn main() {}\n'


def build(repo, findings):
    u = Unit('U16b', 'alias / trap -p: the hand-quoted text re-reads as the value', repo, ['C13'], safety_props=['C01', 'C13'])
    al = u.source('brush-builtins/src/alias.rs')
    tr = u.source('brush-builtins/src/trap.rs')
    u.raw(HEADER)
    u.prelude('quoting/reader_spec.rs')
    u.prelude('quoting/listing_spec.rs')
    fn = 'single_quote'
    f = al.item(r'^fn single_quote\(', fn).r1().r11()
    f.resub(r"\.replace\(('(?:\\.|[^'\\])'), (\"(?:[^\"\\]|\\.)*\")\)", r'.vx_replace_char(\1, \2)', 'R14', 'str::replace(char, &str) -> stub (method form, so chained calls keep their shape)', count=None)
    f.resub(r"std::format!\(\s*\"'\{\}'\",\s*(.*\))\s*\)\n", r'vx_fmt_single_quoted(\1.as_str())\n', 'R8', "format!(\"'{}'\", x) -> stub: x between two single quotes", count=None, flags=16)
    f.sig(fn, ret='r', ensures=[C('C13 alias-body-re-reads-as-the-value', 'reads_as(r@, s@)')])
    f.at_body_start(fn, '''proof { reveal_strlit("'\\\\''"); assert("'\\\\''"@ =~= sq_esc()); lemma_sq_replaced_word(s@); }''')
    u.add(f)
    fn = 'trap_line_text'
    g = tr.slice('display_handlers_for', r'^\s*if let Some\(handler\) = context\.shell\.traps\(\)\.get_handler\(signal_type\) \{', None,
                 'fn trap_line_text(context: &ExecutionContext, signal_type: TrapSignal) -> Result<(), Error>', fn)
    g.r1()
    g.resub(r'context\.shell\.traps\(\)\.get_handler\(signal_type\)', 'traps_get_handler(context, &signal_type)', 'R14', 'receiver-chain lookup -> stub', count=None)
    g.resub(r"writeln!\(\s*context\.stdout\(\),\s*\"trap -- '\{\}' \{signal_type\}\",\s*(.*?)\s*\)\?;", r"write_trap_line(context, vx_fmt_single_quoted(\1.as_str()), &handler.command, &signal_type)?;", 'R8', "writeln!(\"trap -- '{}' {signal}\", x) -> stub taking the quoted text and the value it stands for", flags=16)
    u.raw('''// the line written by trap -p: `trap -- <text> <signal>`; <text> must re-read as the handler's command
#[verifier::external_body]
pub fn write_trap_line(context: &ExecutionContext, text: String, original: &String, signal: &TrapSignal) -> (r: Result<(), Error>)
    requires
        //@ trap.rs:display_handlers_for:requires#0 | C13 trap-command-re-reads-as-the-value kf=C13:trap-p-unescaped-single-quote
        {{KF:C13:trap-p-unescaped-single-quote}} || reads_as(text@, original@),
{ unimplemented!() }
''')
    g.before(r'^\s*write_trap_line\(', "proof { lemma_sq_replaced_word(handler.command@); if !handler.command@.contains('\\'') { lemma_replace_id(handler.command@, '\\'', sq_esc()); } }", fn_name=fn, optional=True)
    u.add(g)
    # ---- ${v@Q}: the arm of apply_transform_to (expansion.rs, R6 block slice)
    ex = u.source('brush-core/src/expansion.rs')
    u.raw('''pub mod error { use vstd::prelude::*; #[verifier::external_body] pub struct Error { _p: u8 } }
pub mod escape {
    use vstd::prelude::*;
    pub enum QuoteMode { BackslashEscape, SingleQuote, DoubleQuote }      // projection of escape.rs QuoteMode
    // force_quote: proved in unit U16 to return a text that reads back as the value (for values without NUL)
    #[verifier::external_body]
    pub fn force_quote(s: &str, mode: QuoteMode) -> (r: String) ensures super::reads_as(r@, s@) { unimplemented!() }
}
''')
    fn = 'quoted_transform_arm'
    q = ex.block_slice(r'^\s*brush_parser::word::ParameterTransformOp::Quoted => \{$',
                       'fn quoted_transform_arm(s: &str, came_from_undefined: bool) -> Result<String, error::Error>', fn, within_fn='apply_transform_to')
    q.r1()
    q.sig(fn, ret='res', ensures=[C('C13 at-Q-of-a-set-parameter-reads-back-as-its-value-the-empty-string-included', '!came_from_undefined ==> res is Ok && reads_as(res->Ok_0@, s@)')])
    u.add(q)
    u.raw(FOOTER)
    u.assume('external_body', 'escape::force_quote carries the contract proved for it in U16; str::replace(char, &str) and the two format strings are stubs stating their documented result; the trap table lookup is abstract; write_trap_line stands for writeln! to stdout')
    u.assume('stub', 'export -p / declare -p / set / ${v@A} call escape::force_quote (verified in U16) inside format strings that are NOT verified')
    u.expected_min_fns = 3
    return u
