"""U61: the loop of SimpleCommand::execute_in_pipeline (brush-core/src/interp.rs, R6 slice) that walks the prefix, the command name and
the suffix of a simple command: the redirections are set up in the order written, one setup per redirection, interleaved with the
expansions around them, and a failing one ends the command at once; no index runs past the end of a word list (an alias with an
empty value used to panic here: repaired, 7e19bf6)."""
from vx.unit import Unit
from vx.extract import C
from .common import replay_scripts

PROPS = ['C10', 'C01']
HEADER = 'use vstd::prelude::*;\nuse vstd::std_specs::iter::IteratorSpec;\nverus! {\n'
FOOTER = '\n} // verus!\nfn main() {}\n'
NEW = 'new_events(old(shell).log(), %s.log())'


def build(repo, findings):
    u = Unit('U61', 'simple command: redirections set up left to right, one by one; no index past the end of a word list', repo, PROPS, safety_props=['C01'])
    interp = u.source('brush-core/src/interp.rs')
    ast = u.source('brush-parser/src/ast.rs')
    cm = u.source('brush-core/src/commands.rs')
    # the three parts are chained in source order: prefix, name, suffix
    interp.require_text(r'let prefix_iter = self\.prefix\.as_ref\(\)\.map\(\|s\| s\.0\.iter\(\)\)\.unwrap_or_default\(\);\n\s*let suffix_iter = self\.suffix\.as_ref\(\)\.map\(\|s\| s\.0\.iter\(\)\)\.unwrap_or_default\(\);\n\s*let cmd_name_items = self\s*\.word_or_name\s*\.as_ref\(\)\s*\.map\(\|won\| CommandPrefixOrSuffixItem::Word\(won\.clone\(\)\)\);',
                        'prefix_iter / suffix_iter / cmd_name_items are the items of the prefix, of the suffix, and the command name as a Word item')
    u.raw(HEADER)
    u.prelude('exec/words_loop_spec.rs')
    u.add(ast.item(r'^pub enum CommandPrefixOrSuffixItem ', 'CommandPrefixOrSuffixItem').r1(keep_derive=()))
    u.raw('}\nuse ast::CommandPrefixOrSuffixItem;\n')
    u.add(cm.item(r'^pub enum CommandArg ', 'CommandArg').r1(keep_derive=()))
    u.prelude('exec/words_loop_spec2.rs')
    fn = 'command_words_loop'
    anchor = r'^\s*for item in prefix_iter\.chain\(cmd_name_items\.iter\(\)\)\.chain\(suffix_iter\) \{$'
    f = interp.slice('execute_in_pipeline', anchor, anchor,
                     "fn command_words_loop<'a>(shell: &mut Shell, params: &mut ExecutionParameters, items: &'a Vec<CommandPrefixOrSuffixItem>, assignments: &mut Vec<&'a ast::Assignment>, args: &mut Vec<CommandArg>, command_takes_assignments_: &mut bool) -> Result<Option<ExecutionSpawnResult>, error::Error>",
                     fn, nth=2)
    f.r1().r3()
    f.resub(r'prefix_iter\.chain\(cmd_name_items\.iter\(\)\)\.chain\(suffix_iter\)', 'items.iter()', 'R6', 'the chained iterator (prefix, name, suffix: text pinned) -> the items as one list, a parameter of the wrapper', count=1)
    f.resub(r'&mut context\.shell\b', '&mut *shell', 'R6', 'slice wrapper: context.shell -> the `&mut` parameter', count=None)
    f.resub(r'&context\.shell\b', '&*shell', 'R6', 'slice wrapper: context.shell -> the `&mut` parameter', count=None)
    f.resub(r'&mut params\b', '&mut *params', 'R6', 'slice wrapper: the local `params` is a `&mut` parameter', count=None)
    f.resub(r'&params\b', '&*params', 'R6', 'slice wrapper: the local `params` is a `&mut` parameter', count=None)
    f.resub(r'writeln!\(params\.stderr\(&\*shell\), "error: \{e\}"\)\?;', 'report_redirect_error(&*params, &*shell, &e)?;', 'R8', 'writeln! to the command\'s stderr -> opaque I/O stub with the same error path', count=1)
    f.resub(r'return Ok\(ExecutionResult::general_error\(\)\.into\(\)\);', 'return Ok(Some(general_error_spawn_result()));', 'R6', '`return` of the enclosing function -> the wrapper reports "the command ended here"', count=None)
    f.resub(r'std::format!\(\s*"/dev/fd/\{installed_fd_num\}"\s*\)', 'dev_fd_path(installed_fd_num)', 'R14', 'format! -> stub', count=1)
    f.resub(r'\s*\.into_iter\(\)\s*\.map\(CommandArg::String\)\s*\.collect\(\)', '.vx_string_args()', 'R14', '.into_iter().map(CommandArg::String).collect() -> stub (every string as an argument, in order)', count=None)
    f.resub(r'context\s*\.shell\s*\.aliases\(\)\s*\.get\(([^)]*\(\))\)', r'shell.alias_value(\1)', 'R14', 'alias table lookup -> stub', count=1)
    f.resub(r'let mut alias_pieces: Vec<_> = alias_value\s*\.split_ascii_whitespace\(\)\s*\.map\(\|i\| i\.to_owned\(\)\)\s*\.collect\(\);', 'let mut alias_pieces: Vec<String> = split_alias_words(alias_value);', 'R14', 'split_ascii_whitespace().map(to_owned).collect() -> stub (possibly no word at all)', count=1)
    f.resub(r'context\s*\.shell\s*\.builtins\(\)\s*\.get\(([^)]*\(\))\)\s*\.is_some_and\(\|r\| !r\.disabled && r\.declaration_builtin\)', r'shell.is_declaration_builtin(\1)', 'R14', 'builtin table lookup with a closure -> stub', count=1)
    f.resub(r'\bcommand_takes_assignments = true;', '*command_takes_assignments_ = true;', 'R6', 'the local flag is a `&mut` parameter of the wrapper', count=None)
    f.resub(r'\bif command_takes_assignments \{', 'if *command_takes_assignments_ {', 'R6', 'the local flag is a `&mut` parameter of the wrapper', count=None)
    f.resub(r'\n\}$', '\n    Ok(None)\n}', 'R6', 'wrapper epilogue: the loop ran to its end', count=1)
    f.sig(fn, ret='res', ensures=[
        C('aux log-extends', 'old(shell).log().is_prefix_of(final(shell).log())'),
        C('C10 every-redirection-of-the-command-is-set-up-once-in-the-order-written', 'res == Ok::<Option<ExecutionSpawnResult>, error::Error>(None) ==> redirs(%s) == item_redirs(items@)' % (NEW % 'final(shell)')),
        C('C10 a-command-is-run-only-when-every-one-of-its-redirections-was-set-up', 'res == Ok::<Option<ExecutionSpawnResult>, error::Error>(None) ==> all_redirs_ok(%s)' % (NEW % 'final(shell)')),
        C('C10 a-command-that-ends-early-has-set-up-a-prefix-of-its-redirections-in-order', '!(res == Ok::<Option<ExecutionSpawnResult>, error::Error>(None)) ==> exists|k: int| 0 <= k <= items@.len() && redirs(%s) == item_redirs(#[trigger] items@.take(k))' % (NEW % 'final(shell)')),
    ])
    f.at_body_start(fn, 'broadcast use {lemma_redirs_push, lemma_item_redirs_push, lemma_new_events_push};\nproof { assert(new_events(old(shell).log(), shell.log()) =~= Seq::<Ev>::empty()); assert(items@.take(0) =~= Seq::<CommandPrefixOrSuffixItem>::empty()); }')
    f.loop(0, fn, iter_name='it', invariant=[
        C('aux', 'it.index@ + it.iter.remaining().len() == items@.len()'),
        C('aux', 'forall|i: int| 0 <= i < it.iter.remaining().len() ==> *(#[trigger] it.iter.remaining()[i]) == items@[it.index@ + i]'),
        C('aux', 'old(shell).log().is_prefix_of(shell.log())'),
        C('C10 no-redirection-so-far-has-failed', 'all_redirs_ok(%s)' % (NEW % 'shell')),
        C('C10 redirections-so-far-are-those-of-the-items-so-far-in-order', 'redirs(%s) == item_redirs(items@.take(it.index@ as int))' % (NEW % 'shell')),
    ], body_first='broadcast use {lemma_redirs_push, lemma_item_redirs_push, lemma_new_events_push};\nproof { assert(items@.take(it.index@ as int + 1) =~= items@.take(it.index@ as int).push(items@[it.index@ as int])); }')
    f.after_loop(fn, 0, 'proof { assert(items@.take(items@.len() as int) =~= items@); }')
    u.add(f)
    u.raw(FOOTER)
    u.assume('external_body', 'setup_redirect (one Redirect event; its arms: U15), expand_assignment / full_expand_and_split_word (one event each, arbitrary results), setup_process_substitution, alias and builtin lookups, the small std stand-ins of contracts/exec/words_loop_spec2.rs are stubs; Shell, ExecutionParameters.open_files, ast payloads are opaque')
    u.assume('uninterp', 'Shell::log (ghost event log)')
    u.assume('stub', 'std: Iterator::chain yields the first iterator\'s items, then the second\'s (the three `let`s before the loop are pinned by text); what the words expand to and which assignments reach the command are not constrained here')
    u.expected_min_fns = 1
    u.counterexample = replay_scripts(repo, [
        ('alias e=""\ne\necho "rc=$?"', 'rc=0\n'),
        ('alias e=" "\ne echo hi\necho "rc=$?"', 'hi\nrc=0\n'),
        ('cd /tmp; f() { echo out; echo err >&2; }; f 2>&1 >/dev/null | sed s/^/p:/; f >/dev/null 2>&1 | sed s/^/p:/; echo end', 'p:err\nend\n'),
        ('cd /tmp; echo a >/nonexistent/x 2>/tmp/vx_u61_should_not_exist; test -e /tmp/vx_u61_should_not_exist && echo created || echo not-created', 'not-created\n'),
    ])
    return u
