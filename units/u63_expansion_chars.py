"""U63: the quick path at the head of WordExpander::basic_expand (brush-core/src/expansion.rs): a word is handed back unexpanded only
when it contains none of the characters that can mean something in its context — in a here-document body `$`, backquote and backslash
(POSIX 2.7.4: "the <backslash> in the here-document shall behave as the <backslash> inside double-quotes"), elsewhere also the quotes,
tilde and the opening brace.  The statement choosing the characters is an R6 slice; the test that uses them is pinned by text."""
from vx.unit import Unit
from vx.extract import C
from .common import replay_scripts

PROPS = ['C10', 'C04', 'C05']
HEADER = 'use vstd::prelude::*;\nverus! {\n'
FOOTER = '\n} // verus!\nfn main() {}\n'


def build(repo, findings):
    u = Unit('U63', 'basic_expand: the no-expansion quick path is taken only for text without a special character of its context', repo, PROPS, safety_props=[])
    ex = u.source('brush-core/src/expansion.rs')
    ex.require_text(r'\n\s*\};\n\s*if !word\.contains\(expansion_chars\) \{\n\s*return Ok\(Expansion::from\(ExpansionPiece::Splittable\(word\.to_owned\(\)\)\)\);\n\s*\}',
                    'the quick path: `if !word.contains(expansion_chars) { return the word as one splittable piece }` right after the choice of characters')
    u.raw(HEADER)
    u.raw('''// the characters that can start an expansion, a quoting or an escape in each context
pub open spec fn special_in_heredoc(c: char) -> bool { c == '$' || c == '`' || c == '\\\\' }
pub open spec fn special_in_word(c: char) -> bool { c == '$' || c == '`' || c == '\\\\' || c == '\\'' || c == '"' || c == '~' || c == '{' }
pub struct WordExpander { pub heredoc_mode: bool }
''')
    fn = 'expansion_chars_for'
    f = ex.slice('basic_expand', r'^\s*let expansion_chars: &\[char\] = ', r'^\s*\};$',
                 "fn expansion_chars_for(self_: &WordExpander) -> &'static [char]", fn)
    f.r1()
    f.resub(r'\bself\.', 'self_.', 'R6', 'slice wrapper: self -> self_', count=None)
    f.resub(r'\n\}$', '\n    expansion_chars\n}', 'R6', 'wrapper epilogue: the live variable `expansion_chars`', count=1)
    f.sig(fn, ret='r', ensures=[
        C('C10 in-a-here-document-dollar-backquote-and-backslash-all-leave-the-quick-path', 'self_.heredoc_mode ==> (forall|c: char| special_in_heredoc(c) ==> r@.contains(c))'),
        C('C04,C05 elsewhere-every-expansion-quote-tilde-and-brace-character-leaves-the-quick-path', '!self_.heredoc_mode ==> (forall|c: char| special_in_word(c) ==> r@.contains(c))'),
    ])
    f.at_body_start(fn, '''proof {
    assert(seq!['$', '`', '\\\\'].contains('$')) by { assert(seq!['$', '`', '\\\\'][0] == '$'); }
    assert(seq!['$', '`', '\\\\'].contains('`')) by { assert(seq!['$', '`', '\\\\'][1] == '`'); }
    assert(seq!['$', '`', '\\\\'].contains('\\\\')) by { assert(seq!['$', '`', '\\\\'][2] == '\\\\'); }
}''')
    u.add(f)
    u.raw(FOOTER)
    u.assume('stub', 'str::contains(&[char]) is true iff some character of the text is in the list (std); the slow path (parse, expand pieces) is outside this unit')
    u.expected_min_fns = 1
    u.counterexample = replay_scripts(repo, [
        ('cat <<EOF\na\\\\b\nEOF', 'a\\b\n'),
        ('f() { cat <<-EOF\n\tx\\\\y \\\\\\\\ z\n\tEOF\n}; f', 'x\\y \\\\ z\n'),
        ("cat <<'EOF'\na\\\\b\nEOF", 'a\\\\b\n'),
    ])
    return u
