"""U4s: interp::execute_command (brush-core/src/interp.rs) with env::ScopeGuard (brush-core/src/env.rs): the Command scope pushed for
`NAME=v cmd` is popped exactly once on every exit.  Drops of the guard are made explicit (R23)."""
import re
from vx.unit import Unit
from vx.extract import C

PROPS = ['C09', 'C18', 'C01']
HEADER = 'use vstd::prelude::*;\nverus! {\n'
FOOTER = '\n} // verus!\nfn main() {}\n'


def build(repo, findings):
    u = Unit('U4s', 'execute_command: the Command scope is popped exactly once on every exit (guard drop or post_execute hook)', repo, ['C09', 'C18'], safety_props=['C01', 'C09'])
    interp = u.source('brush-core/src/interp.rs')
    env = u.source('brush-core/src/env.rs')
    u.raw(HEADER)
    u.prelude('exec/execcmd_spec.rs')
    # ---- ScopeGuard: struct, new / shell / detach, and the body of its Drop impl as a function
    sg = env.item(r"^pub\(crate\) struct ScopeGuard<'a, SE: extensions::ShellExtensions> ", 'ScopeGuard').r1(keep_derive=())
    sg.replace("<'a, SE: extensions::ShellExtensions>", "<'a>", 'R4', 'extension generic erased').replace('crate::Shell<SE>', 'Shell', 'R4', 'Shell<SE> -> context stub')
    sg.r11_pub().pub_fields()
    u.add(sg)
    im = env.item(r"^impl<'a, SE: extensions::ShellExtensions> ScopeGuard<'a, SE> ", 'impl ScopeGuard').r1()
    im.replace("impl<'a, SE: extensions::ShellExtensions> ScopeGuard<'a, SE>", "impl<'a> ScopeGuard<'a>", 'R4', 'extension generic erased')
    im.resub(r'crate::Shell<SE>', 'Shell', 'R4', 'Shell<SE> -> context stub', count=None)
    im.resub(r'\bshell\.env_mut\(\)\.push_scope\((\w+)\)', r'env_push_scope(shell, \1)', 'R14', 'receiver-chain call -> stub', count=None)
    im.drop_fn('shell', 'returns a `&mut` sub-borrow; its uses are inlined (R22: the body is `self.shell`)')
    im.r11_pub()
    im.sig('new', ret='r', ensures=[
        C('C09,C18 guard-pushes-one-scope', '(*r.shell).depth() == old(shell).depth() + 1 && !r.detached && *final(r.shell) == *final(shell)')])
    im.sig('detach', ensures=[
        C('aux detach-only-sets-the-flag', 'final(self).detached && *final(self).shell == *old(self).shell && *final(final(self).shell) == *final(old(self).shell) && final(self).scope_type == old(self).scope_type')])
    u.add(im)
    env.require_text(r'pub const fn shell\(&mut self\) -> &mut crate::Shell<SE> \{\s*self\.shell\s*\}', 'ScopeGuard::shell is `self.shell`')
    dr = env.item(r"^impl<SE: extensions::ShellExtensions> Drop for ScopeGuard<'_, SE> ", 'impl Drop for ScopeGuard').r1()
    dr.resub(r"impl<SE: extensions::ShellExtensions> Drop for ScopeGuard<'_, SE> \{\n\s*fn drop\(&mut self\) \{", "pub fn scope_guard_drop(self_: ScopeGuard<'_>) {\n    let mut self_ = self_;", 'R23', 'the Drop impl as a function taking the guard by value', flags=0)
    dr.resub(r'\n\}\s*$', '\n', 'R23', 'closing brace of the impl block', count=1)
    dr.resub(r'\bself\.', 'self_.', 'R23', 'self -> self_', count=None)
    dr.resub(r'\bself_\.shell\.env_mut\(\)\.pop_scope\((self_\.\w+)\)', r'env_pop_scope(&mut *self_.shell, \1)', 'R14', 'receiver-chain call -> stub', count=None)
    dr.sig('scope_guard_drop', ensures=[
        C('C09,C18 dropping-the-guard-pops-unless-detached', 'final(self_.shell).depth() == old(self_.shell).depth() - (if self_.detached { 0int } else { 1int })')])
    u.add(dr)
    # ---- execute_command
    fn = 'execute_command'
    f = interp.item(r'^async fn execute_command<', fn).r1().r3().r4()
    f.replace('fn execute_command<T: Into<String>>(', 'fn execute_command(', 'R10', 'generic T: Into<String> instantiated at String')
    f.replace('cmd_name: T,', 'cmd_name: String,', 'R10', 'generic T: Into<String> instantiated at String')
    f.replace('cmd_name.into()', 'cmd_name', 'R10', '`.into()` is the identity at String')
    f.resub(r"mut context: PipelineExecutionContext<'_, impl extensions::ShellExtensions>", "mut context: PipelineExecutionContext<'_>", 'R4', 'extension generic erased', count=None)
    f.resub(r'crate::env::ScopeGuard::new\(&mut context\.shell, ', 'ScopeGuard::new(&mut *context.shell, ', 'R22', 'DerefMut of ShellForCommand made explicit (projection: the parent-shell case)', count=None)
    f.resub(r'\bguard\s*\.shell\(\)', '(&mut *guard.shell)', 'R22', 'accessor inlined: guard.shell() is `self.shell`', count=None)
    f.resub(r'args\.iter\(\)\.map\(\|arg\| arg\.quote_for_tracing\(\)\)\.join\(" "\)', 'quote_args_for_tracing(args)', 'R14', 'iterator chain building the trace text -> stub', count=None)
    f.resub(r'commands::SimpleCommand::new\(context\.shell, params, cmd_name, args\.iter\(\)\.cloned\(\)\)', 'simple_command_new(context.shell, params, cmd_name, args)', 'R14', 'constructor -> stub', count=None)
    f.resub(r'Some\(\|shell\| shell\.env_mut\(\)\.pop_scope\(EnvironmentScope::Command\)\)', 'Some(pop_command_scope_hook())', 'R14', 'the hook closure -> named stub value', count=None)
    f.resub(r'commands::on_preexecute\(&mut cmd\)', 'on_preexecute(&mut cmd)', 'R14', 'module path', count=None)
    f.resub(r'\bcmd\.execute\(\)', 'simple_command_execute(cmd)', 'R14', 'consuming method -> stub', count=None)
    f.r23_drop_elab(fn, 'guard', 'scope_guard_drop')
    f.sig(fn, ret='res', attrs=['#[verifier::loop_isolation(false)]'], ensures=[
        C('C09,C18 command-scope-popped-exactly-once-on-every-exit', 'final(context.shell).depth() == old(context.shell).depth()')])
    f.loop(0, fn_name=fn, iter_name='it', invariant=[
        C('C09,C18 dropping-the-guard-here-restores-the-scope-stack', '(*guard.shell).depth() - (if guard.detached { 0int } else { 1int }) == old(context.shell).depth()'),
    ])
    u.add(f)
    u.raw(FOOTER)
    u.assume('external_body', 'apply_assignment, trace_command, on_preexecute keep the scope depth; push_scope / pop_scope change it by one (U13); SimpleCommand::execute runs the hook exactly once (U4r, U4m) and the hook pops one scope')
    u.assume('uninterp', 'Shell::depth (ghost)')
    u.assume('stub', 'PipelineExecutionContext.shell is projected to the parent-shell case (`&mut Shell`); drops of other locals are not modelled')
    u.expected_min_fns = 4
    return u
