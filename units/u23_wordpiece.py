"""U23: what may be split/globbed later: the From impls that build an Expansion from a piece or a String, and the literal-text,
single-quoted and tilde arms of WordExpander::expand_word_piece (brush-core/src/expansion.rs, R6 block slices)."""
from vx.unit import Unit
from vx.extract import C

PROPS = ['C05', 'C04', 'C01']
HEADER = 'use vstd::prelude::*;\nuse vstd::string::*;\nuse vstd::std_specs::convert::*;\nverus! {\n'
FOOTER = '\n} // verus!\nfn main() {}\n'
WP = r'^\s*brush_parser::word::WordPiece::%s\((\w+)\) => \{$'
RET = 'Result<Expansion, error::Error>'


def build(repo, findings):
    u = Unit('U23', 'quoted text and tilde results are unsplittable pieces; unquoted text is splittable', repo, ['C05', 'C04'], safety_props=['C01', 'C05'])
    ex = u.source('brush-core/src/expansion.rs')
    u.raw(HEADER)
    u.add(ex.item(r'^enum ExpansionPiece ', 'ExpansionPiece').r1(keep_derive=()).r11())
    u.add(ex.item(r'^struct WordField\(', 'WordField').r1(keep_derive=()).r11().resub(r'struct WordField\(Vec', 'struct WordField(pub Vec', 'R11', 'tuple field made visible'))
    u.add(ex.item(r'^struct Expansion ', 'Expansion').r1(keep_derive=()).r11().pub_fields())
    wsrc = u.source('brush-parser/src/word.rs')
    u.add(wsrc.item(r'^pub struct WordPieceWithSource ', 'WordPieceWithSource').r1(keep_derive=()))
    u.add(wsrc.item(r'^pub enum WordPiece ', 'WordPiece').r1(keep_derive=()))
    u.prelude('std/utf8.rs')
    u.prelude('wordpiece/spec.rs')
    f = ex.item(r'^impl Default for Expansion ', 'impl Default for Expansion').r1()
    f.sig('default', ret='r', ensures=[C('aux default-expansion', 'r.fields@.len() == 0 && !r.from_array && !r.undefined')], no_canary=True)
    u.add(f)
    f = ex.item(r'^impl From<ExpansionPiece> for WordField ', 'impl From<ExpansionPiece> for WordField').r1()
    f.sig('from', ret='r', ensures=[C('C05,C04 field-from-piece-keeps-the-piece', 'r.0@ == seq![piece]')], no_canary=True)
    u.add(f)
    f = ex.item(r'^impl From<String> for WordField ', 'impl From<String> for WordField').r1()
    f.sig('from', ret='r', ensures=[C('aux field-from-string-is-splittable', 'r.0@.len() == 1 && r.0@[0] is Splittable && r.0@[0]->Splittable_0@ == value@')], no_canary=True)
    u.add(f)
    f = ex.item(r'^impl From<ExpansionPiece> for Expansion ', 'impl From<ExpansionPiece> for Expansion').r1()
    f.sig('from', ret='r', ensures=[C('C05,C04 expansion-from-piece-keeps-the-piece', 'is_single(r, piece) && !r.undefined && !r.from_array')], no_canary=True)
    u.add(f)
    f = ex.item(r'^impl From<String> for Expansion ', 'impl From<String> for Expansion').r1()
    f.sig('from', ret='r', ensures=[C('aux expansion-from-string-is-splittable', 'single_splittable(r, value@) && !r.undefined && !r.from_array')], no_canary=True)
    u.add(f)
    # ---- arms of expand_word_piece
    for kind, var, fn, ens in [
        ('Text', 's', 'text_arm', C('C05,C04 unquoted-text-is-splittable', 'res is Ok && single_splittable(res->Ok_0, s@)')),
        ('SingleQuotedText', 's', 'single_quoted_arm', C('C05,C04 single-quoted-text-is-never-split-or-globbed', 'res is Ok && single_unsplittable(res->Ok_0, s@)')),
    ]:
        g = ex.block_slice(WP % kind, 'fn %s(self_: &mut WordExpander, %s: String) -> %s' % (fn, var, RET), fn, within_fn='expand_word_piece', wrap=('Ok({', '})'))
        g.r1()
        g.sig(fn, ret='res', ensures=[ens])
        u.add(g)
    fn = 'tilde_arm'
    g = ex.block_slice(WP % 'TildeExpansion', 'fn tilde_arm(self_: &mut WordExpander, tilde_expr: brush_parser::word::TildeExpr) -> %s' % RET, fn, within_fn='expand_word_piece', wrap=('Ok({', '})'))
    g.r1().r17_cow()
    g.resub(r'\bself\b', 'self_', 'R6', 'slice wrapper: self -> self_', count=None)
    g.at_body_start(fn, 'broadcast use axiom_string_to_string;')
    g.sig(fn, ret='res', ensures=[
        C('C05 tilde-result-is-never-split-or-globbed', 'match tilde_spec(tilde_expr) { Ok(v) => res is Ok && single_unsplittable(res->Ok_0, v), Err(e) => res is Err }'),
    ])
    u.add(g)
    # ---- the command-substitution arm
    fn = 'command_substitution_arm'
    g = ex.block_slice(r'^\s*\| brush_parser::word::WordPiece::CommandSubstitution\((\w+)\) => \{$', 'fn command_substitution_arm(self_: &mut WordExpander, s: String) -> %s' % RET, fn, within_fn='expand_word_piece', wrap=('Ok({', '})'))
    g.r1().r3()
    g.resub(r'\bself\b', 'self_', 'R6', 'slice wrapper: self -> self_', count=None)
    g.resub(r'commands::invoke_command_in_subshell_and_get_output\(self_\.shell, self_\.params, (\w+)\)', r'invoke_command_in_subshell_and_get_output(self_, \1)', 'R14', 'subshell launch -> stub with an uninterpreted output', count=None)
    g.resub(r'\bcmd_output\.contains\((\'\\0\')\)', r'string_contains_char(&cmd_output, \1)', 'R14', 'String::contains(char) -> stub', count=None)
    g.resub(r'writeln!\(\s*self_\.params\.stderr\(self_\.shell\),\s*"warning: command substitution: ignored null byte in input",?\s*\)\?', 'warn_ignored_nul(self_)?', 'R14', 'warning to stderr -> stub with the same error path', count=None)
    g.resub(r'\bcmd_output\.retain\(\|c\| c != \'\\0\'\)', 'string_retain_not_nul(&mut cmd_output)', 'R14', 'String::retain(closure) -> stub', count=None)
    g.resub(r"\bcmd_output\.trim_end_matches\('(\\?.)'\)\.len\(\)", r"trimmed_len_of(&cmd_output, &['\1'])", 'R19', "trim_end_matches(char).len() -> stub (byte length without the trailing run)", count=None)
    g.resub(r"\bcmd_output\.trim_end_matches\((\[[^\]]*\])\)\.len\(\)", r"trimmed_len_of(&cmd_output, &\1)", 'R19', "trim_end_matches([chars]).len() -> stub", count=None)
    g.resub(r'\bcmd_output\.trim_end\(\)\.len\(\)', 'trimmed_len_ws(&cmd_output)', 'R19', 'trim_end().len() -> stub (byte length without the trailing whitespace run, std\'s notion of whitespace uninterpreted)', count=None)
    g.resub(r'\bcmd_output\.truncate\((\w+)\)', r'string_truncate(&mut cmd_output, \1)', 'R19', 'String::truncate -> stub with the char-boundary precondition', count=None)
    g.resub(r'!self_\.disable_command_substitutions', '!self_.disable_command_substitutions', 'R0', 'no-op', count=None)
    g.sig(fn, ret='res', ensures=[
        C('C04,C05 substitution-result-is-the-output-minus-trailing-newlines', '''!old(self_).disable_command_substitutions ==> match subst_output_spec(s@) {
    Ok(v) => res is Ok ==> single_splittable(res->Ok_0, strip_trailing(without_nul(v), seq!['\\n'])),   // (Err: the warning about a NUL could not be written)
    Err(e) => res is Err,
}'''),
    ])
    g.before(r'^\s*let trimmed_len = ', 'proof { if subst_output_spec(s@) is Ok { let v = subst_output_spec(s@)->Ok_0; if !v.contains(\'\\0\') { lemma_without_nul_id(v); } } lemma_boundary_unique_all(cmd_output@); }', fn_name=fn, optional=True)
    g.after_line(r'^\s*let trimmed_len = ', "proof { assert(['\\n']@ =~= seq!['\\n']); }", fn_name=fn, optional=True)
    u.add(g)
    # ---- the double-quoted arm: flag set while the pieces are processed, restored on every exit, result unsplittable
    ex.require_text(r'\n\s*in_double_quotes: bool,', 'projected field WordExpander.in_double_quotes')
    fn = 'double_quoted_arm'
    g = ex.block_slice(r'^\s*\| brush_parser::word::WordPiece::GettextDoubleQuotedSequence\(pieces\) => \{$',
                       'fn double_quoted_arm(self_: &mut WordExpander, pieces: Vec<WordPieceWithSource>) -> %s' % RET, fn, within_fn='expand_word_piece', wrap=('Ok({', '})'))
    g.r1().r3()
    g.resub(r'\bself\b', 'self_', 'R6', 'slice wrapper: self -> self_', count=None)
    g.sig(fn, ret='res', ensures=[
        C('C04,C05 quote-state-restored-on-every-exit-of-a-double-quoted-sequence', 'final(self_).in_double_quotes == old(self_).in_double_quotes'),
        C('C04,C05 double-quoted-sequence-yields-unsplittable-pieces-and-at-least-one-field-when-empty', 'res is Ok ==> all_unsplittable(res->Ok_0.fields@) && (pieces@.len() == 0 ==> res->Ok_0.fields@.len() > 0)'),
    ])
    g.before(r'^\s*Expansion \{$', 'proof { assert forall|i: int, j: int| 0 <= i < fields@.len() && 0 <= j < fields@[i].0@.len() implies (#[trigger] fields@[i].0@[j]) is Unsplittable by { } }', fn_name=fn, optional=True)
    u.add(g)
    # ---- the word of ${p:-word}: which text is expanded under which quote state, and the state afterwards
    fn = 'expand_parameter_word'
    g = ex.method_anywhere(fn).r1().r3().r11()
    g.resub(r"\b(\w+)\.strip_prefix\('\"'\)", r"str_strip_prefix_char(\1, '\"')", 'R14', 'str::strip_prefix(char) -> stub', count=None)
    g.resub(r"\b(\w+)\.strip_suffix\('\"'\)", r"str_strip_suffix_char(\1, '\"')", 'R14', 'str::strip_suffix(char) -> stub', count=None)
    g.resub(r'std::format!\("\\"\{word\}\\""\)', 'vx_wrap_in_double_quotes(word)', 'R8', 'format!("\\"{word}\\"") -> stub returning the quoted text', count=None)
    g.sig(fn, ret='res', ensures=[
        C('C04,C05 quote-state-restored-after-a-parameter-word', 'final(self).in_double_quotes == old(self).in_double_quotes'),
        C('C05,C04 parameter-word-read-with-the-rules-of-its-context', '''final(self).calls@ == old(self).calls@.push(parameter_word_call(word@, old(self).in_double_quotes))
    && res == basic_expand_result(parameter_word_call(word@, old(self).in_double_quotes).0, parameter_word_call(word@, old(self).in_double_quotes).1, old(self).calls@.len())'''),
    ])
    g.at_body_start(fn, '''proof {
    if word@.len() > 0 && word@[0] == '"' {
        let st = word@.subrange(1, word@.len() as int);
        if st.len() > 0 { assert(st.last() == word@.last()); assert(st.subrange(0, st.len() - 1) =~= word@.subrange(1, word@.len() - 1)); }
    }
}''')
    u.raw('impl WordExpander {')
    u.add(g)
    u.raw('}\n')
    u.raw(FOOTER)
    u.assume('external_body', 'basic_expand is a stub: leaves the quote state as found (ASSUMED), result uninterpreted, call logged in a ghost field; process_double_quoted_pieces is a stub (flag left as found, unsplittable pieces only — ASSUMED); expand_tilde_expression is a stub with an uninterpreted result; TildeExpr, Error opaque; vx_owned (R17)')
    u.assume('uninterp', 'tilde_spec, std_whitespace')
    u.assume('axiom', 'String::to_string() returns an equal string')
    u.assume('stub', 'the other arms of expand_word_piece (parameter/arithmetic expansions, escape sequences), process_double_quoted_pieces and the conversion of pieces into glob patterns are NOT covered by this unit')
    u.expected_min_fns = 10
    return u
