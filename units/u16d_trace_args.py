"""U16d: the `set -x` text of a command argument (brush-core/src/commands.rs CommandArg::quote_for_tracing): strings and scalar values
are quoted as a whole, the keys and values of an array literal one by one."""
from vx.unit import Unit
from vx.extract import C

PROPS = ['C13']
HEADER = 'use vstd::prelude::*;\nuse vstd::std_specs::iter::IteratorSpec;\nverus! {\n'
FOOTER = '\n} // verus!\nfn main() {}\n'


def build(repo, findings):
    u = Unit('U16d', 'xtrace text of a command argument: every value and every array element goes through the quoting function on its own', repo, ['C13'], safety_props=['C01', 'C13'])
    cm = u.source('brush-core/src/commands.rs')
    ast = u.source('brush-parser/src/ast.rs')
    es = u.source('brush-core/src/escape.rs')
    es.require_text(r'pub enum QuoteMode \{(?:[^}]|\n)*?SingleQuote,', 'projected variant QuoteMode::SingleQuote')
    u.raw(HEADER)
    u.prelude('quoting/trace_spec.rs')          # ends inside `pub mod ast {`
    u.add(ast.item(r'^pub enum AssignmentValue ', 'AssignmentValue').r1(keep_derive=()))
    u.add(ast.item(r'^pub struct Assignment ', 'Assignment').r1(keep_derive=()))
    u.prelude('quoting/trace_spec_tail.rs')     # closes the module
    u.add(cm.item(r'^pub enum CommandArg ', 'CommandArg').r1(keep_derive=()))
    fn = 'quote_for_tracing'
    f = cm.method_anywhere(fn).r1().r11_pub().r17_cow()
    f.resub(r'\b(\w+(?:\.\w+)*)\.to_string\(\)\.as_str\(\)', r'\1.vx_text().as_str()', 'R14', 'Display::to_string -> stub returning the text', count=None)
    f.resub(r'\b(a\.name)\.to_string\(\)', r'\1.vx_text()', 'R14', 'Display::to_string -> stub returning the text', count=None)
    f.resub(r'\bs\.push_str\(&escape::quote_if_needed\(', 'vx_push_string(&mut s, &escape::quote_if_needed(', 'R14', 's.push_str(&String) -> stub (append)', count=None)
    f.resub(r'\bs\.push_str\((op|"[^"]*")\)', r'vx_push_lit(&mut s, \1)', 'R14', 's.push_str(literal) -> stub (append)', count=None)
    f.resub(r"\bs\.push\(('[^']*')\)", r'vx_push_char(&mut s, \1)', 'R14', 's.push(char) -> stub (append)', count=None)
    f.resub(r'Self::String\(s\) => escape::quote_if_needed\(s, ', 'Self::String(s) => escape::quote_if_needed(s.as_str(), ', 'R14', 'deref coercion &String -> &str spelled out', count=None)
    if 'enumerate()' in f.text:
        f.r12(fn, 0)
    f.sig(fn, ret='res', ensures=[C('C13 traced-argument-quotes-every-value-and-every-array-element-on-its-own', 'res@ == arg_text(*self)')])
    f.at_body_start(fn, '''proof { reveal_strlit("+="); reveal_strlit("="); reveal_strlit("]="); assert("+="@ =~= seq!['+', '=']); assert("="@ =~= seq!['=']); assert("]="@ =~= seq![']', '=']); }''')
    if 'let mut __n' in f.text:
        f.loop(0, fn_name=fn, iter_name='it', invariant=[
            C('aux', '__n == it.index@ && it.index@ + it.iter.remaining().len() == elements@.len() && elements@.len() <= usize::MAX'),
            C('aux', 'forall|k: int| 0 <= k < it.iter.remaining().len() ==> *(#[trigger] it.iter.remaining()[k]) == elements@[it.index@ + k]'),
            C('C13 elements-so-far-each-quoted-on-its-own', 's@ == a.name.text() + (if a.append { seq![\'+\', \'=\'] } else { seq![\'=\'] }) + seq![\'(\'] + elems_text(elements@.take(it.index@ as int))'),
        ], body_first='''let ghost s0 = s@;
let ghost k0 = it.index@ as int;
proof { assert(*__e == elements@[k0]); assert(k0 < elements@.len()); reveal_strlit("]="); assert("]="@ =~= seq![']', '=']); }''', body_last='''proof {
    let t1 = elements@.take(k0 + 1);
    assert(t1.drop_last() =~= elements@.take(k0));
    assert(t1.last() == elements@[k0]);
    assert(s@ =~= s0 + (if k0 > 0 { seq![' '] } else { Seq::<char>::empty() }) + elem_text(elements@[k0]));
    assert(s@ =~= a.name.text() + (if a.append { seq!['+', '='] } else { seq!['='] }) + seq!['('] + elems_text(t1));
}''')
        f.before_loop(fn, 0, "proof { assert(elements@.take(0) =~= Seq::<(Option<ast::Word>, ast::Word)>::empty()); axiom_vec_len_fits(elements); }")
        f.after_loop(fn, 0, 'proof { assert(elements@.take(elements@.len() as int) =~= elements@); }')
    u.raw('impl CommandArg {')
    u.add(f)
    u.raw('}\n')
    u.raw(FOOTER)
    u.assume('external_body', 'escape::quote_if_needed is a stub returning the uninterpreted qtext(value) (its read-back property is unit U16); Display of Word / AssignmentName and the String append calls are stubs')
    u.assume('uninterp', 'qtext, Word::text, AssignmentName::text, AssignmentValue::display_text')
    u.assume('axiom', 'a Vec holds at most usize::MAX elements (for the R12 counter that replaces enumerate())')
    u.assume('stub', 'that the text `name=(elem ..)` is read back by the declaration builtins as the same elements is NOT verified (array-literal reader: PEG, unit U33 covers the key alternative order only)')
    u.expected_min_fns = 1
    return u
