"""U45: Spec::call_completion_function (brush-core/src/completion.rs), from the blocking of trap delivery to the end (R6 tail slice):
every way out leaves the trap-delivery block count as it found it, so a later EXIT / ERR trap is not silently dropped."""
from vx.unit import Unit
from vx.extract import C

PROPS = ['C16', 'C18']
HEADER = 'use vstd::prelude::*;\nuse vstd::std_specs::iter::IteratorSpec;\nverus! {\n'
FOOTER = '\n} // verus!\nfn main() {}\n'


def build(repo, findings):
    u = Unit('U45', 'completion function call: trap delivery is unblocked again on every way out', repo, ['C16', 'C18'], safety_props=['C16'])
    cp = u.source('brush-core/src/completion.rs')
    sc = u.source('brush-core/src/shell/callstack.rs')
    cs = u.source('brush-core/src/callstack.rs')
    tr = u.source('brush-core/src/shell/traps.rs')
    sc.require_text(r'fn acquire_trap_delivery_block\(&mut self\) \{\s*self\.call_stack\.acquire_trap_delivery_block\(\);\s*\}', 'Shell::acquire_trap_delivery_block delegates to the call stack')
    sc.require_text(r'fn release_trap_delivery_block\(&mut self\) \{\s*self\.call_stack\.release_trap_delivery_block\(\);\s*\}', 'Shell::release_trap_delivery_block delegates to the call stack')
    cs.require_text(r'\n\s*trap_delivery_suppress_count: usize,', 'projected field CallStack.trap_delivery_suppress_count')
    tr.require_text(r'if self\.call_stack\(\)\.is_trap_delivery_suppressed\(\) \{', 'invoke_trap_handler consults the block count')
    cp.require_text(r'pub enum Answer \{\s*(///[^\n]*\n\s*)*Candidates\(Vec<String>, ProcessingOptions\),\s*(///[^\n]*\n\s*)*RestartCompletionProcess,\s*\}', 'enum Answer as extracted')
    u.raw(HEADER)
    u.prelude('completion/function_call_spec.rs')
    u.add(cp.item(r'^pub enum Answer ', 'Answer').r1(keep_derive=()))
    fn = 'completion_function_tail'
    f = cp.slice('call_completion_function', r'^\s*shell\.acquire_trap_delivery_block\(\);', None,
                 "fn completion_function_tail(shell: &mut Shell, function_name: &str, args: Vec<&str>, vars_to_remove: Vec<&str>) -> Result<Answer, error::Error>", fn)
    f.r1().r2().r3()
    f.resub(r'\.invoke_function\(function_name, args\.iter\(\), params\)', '.invoke_function(function_name, &args, params)', 'R14', 'args.iter() -> the argument list by reference (stub)', count=None)
    f.resub(r'invoke_result\.unwrap_or_else\(\|e\| \{.*?\n\s*\}\)', 'vx_status_or_1(invoke_result)', 'R14', 'unwrap_or_else(closure logging the error and yielding 1) -> stub', count=None, flags=__import__('re').S | __import__('re').M)
    f.resub(r'(\w+)\.values\(\)\.map\(\|v\| v\.to_owned\(\)\)\.collect\(\)', r'vx_values_owned(\1)', 'R14', 'values().map(to_owned).collect() -> stub', count=None)
    f.resub(r'\bvec!\[s\.to_owned\(\)\]', 'vec![s.clone()]', 'R14', '<String as ToOwned>::to_owned is Clone::clone', count=None)
    f.sig(fn, ret='res', attrs=['#[verifier::loop_isolation(false)]'], requires=[C('aux nesting-depth-fits', 'old(shell).blocks() < usize::MAX')], ensures=[
        C('C16,C18 trap-delivery-unblocked-again-on-every-way-out', 'final(shell).blocks() == old(shell).blocks()'),
    ])
    k = f.loop_ordinal(fn, r'for var_name in vars_to_remove')
    f.loop(k, fn_name=fn, invariant=[C('aux cleanup-leaves-the-block-count-alone', 'shell.blocks() == blocks_at_cleanup')])
    f.before(r'^\s*for var_name in vars_to_remove', 'let ghost blocks_at_cleanup = shell.blocks();', fn_name=fn)
    u.add(f)
    u.raw(FOOTER)
    u.assume('external_body', 'Shell::invoke_function (ASSUMED to leave the block count as found), default_exec_params, Env::unset, ShellVariable::value, the R14 stubs; Shell is projected to env / call_stack / rest; ShellValue to the two variants looked at')
    u.assume('stub', 'the first half of call_completion_function (COMP_* variables; its `?` exits happen before the block is taken), and the other users of the block count, are NOT covered')
    u.expected_min_fns = 1
    return u
