"""U58: arithmetic.rs `assign` (brush-core): an arithmetic assignment writes to the variable visible under the name — scalar and array
element alike — and creates a global only when there is none; the text written is the decimal value."""
from vx.unit import Unit
from vx.extract import C
from .common import replay_scripts

PROPS = ['C09', 'C07']
HEADER = 'use vstd::prelude::*;\nverus! {\n'
FOOTER = '\n} // verus!\nfn main() {}\n'
W0, W1 = 'old(shell).env.writes@', 'final(shell).env.writes@'


def build(repo, findings):
    u = Unit('U58', 'arithmetic assignment writes to the visible variable, scalar and array element alike', repo, ['C09', 'C07'], safety_props=['C09'])
    ar = u.source('brush-core/src/arithmetic.rs')
    en = u.source('brush-core/src/env.rs')
    pa = u.source('brush-parser/src/ast.rs')
    pa.require_text(r'pub enum ArithmeticTarget \{\s*(///[^\n]*\n\s*)*Variable\(String\),\s*(///[^\n]*\n\s*)*ArrayElement\(String, Box<ArithmeticExpr>\),\s*\}', 'enum ArithmeticTarget as projected')
    ar.require_text(r'\n\s*FailedToUpdateEnvironment,', 'projected variant EvalError::FailedToUpdateEnvironment')
    u.raw(HEADER)
    u.add(en.item(r'^pub enum EnvironmentLookup ', 'EnvironmentLookup').r1())
    u.add(en.item(r'^pub enum EnvironmentScope ', 'EnvironmentScope').r1())
    u.prelude('vars/writers_spec.rs')
    fn = 'assign'
    f = ar.item(r'^fn assign\(', fn).r1().r4()
    f.resub(r'\|_\| Ok\(\(\)\),', 'vx_no_updater(),', 'R14', 'the no-op updater closure -> marker value', count=None)
    f.resub(r'\bvalue\.to_string\(\)', 'i64_to_string(value)', 'R14', 'i64::to_string -> stub', count=None)
    f.resub(r'eval_expr_impl\(index_expr, shell, depth\)\?\.to_string\(\)', 'i64_to_string(eval_expr_impl(index_expr, shell, depth)?)', 'R14', 'i64::to_string -> stub', count=None)
    f.resub(r'(shell\s*\.env_mut\(\)\s*\.update_or_add(?:_array_element)?\((?:[^;]|\n)*?\))\s*\.map_err\(\|_err\| EvalError::FailedToUpdateEnvironment\)\?;', r'vx_update_err(\1)?;', 'R14', 'map_err(closure) -> stub keeping Ok / Err', count=None)
    f.sig(fn, ret='res', ensures=[
        C('C09,C07 a-scalar-target-is-written-where-the-name-is-visible-else-created-global', '''lvalue is Variable ==> %s == %s.push(Write::Scalar {
    name: lvalue->Variable_0@, text: int_text(value), lookup: EnvironmentLookup::Anywhere, scope: EnvironmentScope::Global })''' % (W1, W0)),
        C('C09,C07 an-array-element-target-is-written-where-the-name-is-visible-else-created-global', '''lvalue is ArrayElement ==> (match index_value(*lvalue->ArrayElement_1, depth) {
    Ok(i) => %s == %s.push(Write::Element { name: lvalue->ArrayElement_0@, index: int_text(i), text: int_text(value), lookup: EnvironmentLookup::Anywhere, scope: EnvironmentScope::Global }),
    Err(e) => res is Err && %s == %s })''' % (W1, W0, W1, W0)),
        C('C07 the-value-assigned-is-the-value-of-the-expression', 'res is Ok ==> res->Ok_0 == value'),
    ])
    u.add(f)
    u.raw(FOOTER)
    u.assume('external_body', 'Env::update_or_add / update_or_add_array_element (logged in a ghost sequence), eval_expr_impl (the subscript value: U5), the R14 stubs')
    u.assume('uninterp', 'int_text, index_value')
    u.assume('stub', 'update_or_add* themselves (lookup under the policy, creation in the scope) are NOT verified here')
    u.expected_min_fns = 1
    u.counterexample = replay_scripts(repo, [
        ('a=(g0 g1); f() { local a=(l0 l1); (( a[1] = 7 )); (( a[0]++ )); echo "in: ${a[*]}"; }; f; echo "out: ${a[*]}"', 'in: 1 7\nout: g0 g1\n'),
        ('x=1; f() { local x=5; (( x += 2 )); echo "in: $x"; }; f; echo "out: $x"', 'in: 7\nout: 1\n'),
    ])
    return u
