"""U77: the test in the Substring arm of WordExpander::expand_parameter_expr (brush-core/src/expansion.rs) that decides whether `$0` is
put in front of the list being sliced: `${@:o:l}` and `${*:o:l}` both slice the positional parameters counted from $0 (bash: "If
parameter is @ or *, the result is length positional parameters beginning at offset ... $0 is prefixed to the list").  The pattern of
the `matches!` is read into a generated function on every run."""
import re
from vx.unit import Unit
from vx.extract import ExtractError, fn_span
from .common import replay_scripts

PROPS = ['C06', 'C05']
HEADER = 'use vstd::prelude::*;\nverus! {\n'
FOOTER = '\n} // verus!\nfn main() {}\n'


def build(repo, findings):
    u = Unit('U77', '${@:o:l} and ${*:o:l} both slice the positional parameters counted from $0', repo, PROPS, safety_props=[])
    ex = u.source('brush-core/src/expansion.rs')
    wd = u.source('brush-parser/src/word.rs')
    b, o, e = fn_span(ex.text, 'expand_parameter_expr')
    body = ex.text[o:e]
    m = re.search(r'// If this is \$\{@:\.\.\.\} then make sure \$0 is in the array being sliced\.\n\s*if matches!\(\s*parameter,\s*(.*?)\s*\) \{\n\s*let shell_name = ', body, re.S)
    if not m:
        raise ExtractError('anchor lost: the `$0` insertion of the Substring arm is no longer guarded by `if matches!(parameter, ..) {` under its comment')
    pat = ' '.join(m.group(1).split())
    u.raw(HEADER)
    u.raw('pub mod brush_parser { pub mod word {\nuse vstd::prelude::*;\n')
    u.add(wd.item(r'^pub enum SpecialParameter ', 'SpecialParameter').r1(keep_derive=()))
    u.add(wd.item(r'^pub enum Parameter ', 'Parameter').r1(keep_derive=()))
    u.raw('}}\n')
    u.raw('''// GENERATED on every run from the `matches!` that guards the `$0` insertion in the Substring arm of expand_parameter_expr: its pattern verbatim
fn slices_the_positional_parameters(parameter: &brush_parser::word::Parameter) -> (r: bool)
    ensures
        //@ expansion.rs:substring_arm:dollar-zero | C06,C05 at-and-star-both-slice-the-positional-parameters-counted-from-dollar-zero
        r == (parameter is Special && parameter->Special_0 is AllPositionalParameters),
{ matches!(parameter, %s) }
''' % pat, origin='generated from brush-core/src/expansion.rs (Substring arm of expand_parameter_expr)')
    u.raw(FOOTER)
    u.notes.append('pattern read: %s' % pat)
    u.assume('generated', 'the function is produced by units/u77_positional_slice.py from the pattern text (another shape of the test stops the run undecided)')
    u.assume('stub', 'the insertion itself and the offset arithmetic that follows are U7\'s')
    u.expected_min_fns = 1
    u.counterexample = replay_scripts(repo, [
        ('set -- "a b" c "" d; printf "<%s>" "${@:2}"; echo; printf "<%s>" "${*:2}"; echo; printf "<%s>" ${*:1:1}; echo; IFS=:; echo "${*:2:2}"', '<c><><d>\n<c  d>\n<a><b>\nc:\n'),
    ])
    return u
