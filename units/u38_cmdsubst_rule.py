"""U38: the `$(..)` alternative of the PEG rule `command_substitution` (brush-parser/src/word.rs): the command text captured is exactly
what stands between `$(` and `)` — for every input.  The element sequence is read into generated definitions; peg sequence semantics
assumed."""
import re
from vx.unit import Unit
from vx.extract import C, ExtractError

PROPS = ['C19']
HEADER = 'use vstd::prelude::*;\nverus! {\n'
FOOTER = '\n} // verus!\nfn main() {}\n'
ELEM = re.compile(r'\s*(?:"(?P<lit>(?:[^"\\]|\\.)+)"|(?P<cls>\[[^\]]*\])(?P<cq>[*+?])|(?:(?P<label>\w+):)?(?P<rule>\w+)\(\)(?P<rq>[*+?])?)')


def parse_alt(text):
    m = re.search(r'rule command_substitution\(\) -> WordPiece =\n\s*(.*?) \{ WordPiece::CommandSubstitution\((\w+)\.to_owned\(\)\) \} /\n', text)
    if not m:
        raise ExtractError('command substitution rule: the `$(` alternative with the action `WordPiece::CommandSubstitution(x.to_owned())` not found')
    seq, var, pos, elems = m.group(1), m.group(2), 0, []
    while pos < len(seq):
        t = ELEM.match(seq, pos)
        if not t or t.end() == pos:
            raise ExtractError('command substitution rule: unsupported element at %r' % seq[pos:])
        pos = t.end()
        if t.group('lit'):
            elems.append(('lit', t.group('lit').replace('\\"', '"')))
        elif t.group('cls'):
            if t.group('cq') != '*':
                raise ExtractError('command substitution rule: unsupported repetition %r' % t.group(0))
            elems.append(('clsstar', t.group('cls')))
        else:
            if t.group('rq'):
                raise ExtractError('command substitution rule: unsupported repetition %r' % t.group(0))
            elems.append(('rule', t.group('rule'), t.group('label')))
    return elems, var, seq


def build(repo, findings):
    u = Unit('U38', '`$(..)`: the captured command is exactly the text between the delimiters', repo, ['C19'], safety_props=['C19'])
    wd = u.source('brush-parser/src/word.rs')
    elems, var, seq = parse_alt(wd.text)
    wd.require_text(r"pub\(crate\) rule command\(\) -> &'input str =\n\s*\$\(command_piece\(\)\*\)", 'rule command() captures the matched text')
    if len(elems) > 7:
        raise ExtractError('command substitution rule: %d elements (the proof unfolds at most 7)' % len(elems))
    u.raw(HEADER)
    u.prelude('parser/cmdsubst_rule_spec.rs')
    n = len(elems)
    out = ['// GENERATED on every run from the `$(` alternative of `rule command_substitution()` of brush-parser/src/word.rs',
           '//   sequence read: %s   (captured variable handed to the piece: %s)' % (seq, var),
           'pub open spec fn match_%d(s: Seq<char>, pos: int, c: Caps) -> Option<(int, Caps)> { Some((pos, c)) }' % n]
    for k in range(n - 1, -1, -1):
        e = elems[k]
        if e[0] == 'lit':
            cond = ' && '.join(['0 <= pos', 'pos + %d <= s.len()' % len(e[1])] + ["s[pos + %d] == '%s'" % (i, ch if ch not in "'\\" else '\\' + ch) for i, ch in enumerate(e[1])])
            body = 'if %s { match_%d(s, pos + %d, c) } else { None }' % (cond, k + 1, len(e[1]))
        elif e[0] == 'clsstar':
            body = 'match_%d(s, class_star_end(%d, s, pos), c)' % (k + 1, k)
        else:
            bind = 'Caps { c_from: pos, c_to: p }' if e[2] == var else 'c'
            body = 'match rule_end(%d, s, pos) { Some(p) => match_%d(s, p, %s), None => None }' % (k, k + 1, bind)
        out.append('pub open spec fn match_%d(s: Seq<char>, pos: int, c: Caps) -> Option<(int, Caps)> { %s }' % (k, body))
    calls = ' '.join('axiom_class_star(%d, s, pos + 2);' % k for k, e in enumerate(elems) if e[0] == 'clsstar')
    out.append('''pub proof fn command_text_is_exactly_between_the_delimiters(s: Seq<char>, pos: int)
    ensures
        //@ word.rs:command_substitution:verbatim | C19 substituted-command-text-starts-right-after-the-opening-and-ends-right-before-the-closing-delimiter
        match_0(s, pos, caps0()) is Some ==> ({
            let (end, c) = match_0(s, pos, caps0())->Some_0;
            c.c_from == pos + 2 && end == c.c_to + 1 && s[pos] == '$' && s[pos + 1] == '('
        }),
{ %s }''' % calls)
    u.raw('\n'.join(out) + '\n', origin='generated from brush-parser/src/word.rs rule command_substitution')
    u.raw(FOOTER)
    u.notes.append('command substitution rule: elements read: %s' % seq)
    u.assume('dependency', 'peg sequences: elements in order, `*` greedy and not re-entered, `$(e)` / `x:rule()` bind the matched text; rule command() (its pieces) is NOT verified')
    u.assume('axiom', 'a greedy repetition ends at or after where it starts')
    u.assume('uninterp', 'rule_end, class_star_end')
    u.assume('generated', 'the match_<i> definitions are produced by units/u38_cmdsubst_rule.py from the rule text (element forms outside the recognised set stop the run undecided)')
    u.expected_min_fns = 0
    return u
