"""Pieces shared between units (the results.rs types are used by the executors, the builtins and errexit)."""
from vx.extract import C

HEADER = 'use vstd::prelude::*;\nuse vstd::std_specs::convert::*;\nverus! {\n'
FOOTER = '\n} // verus!\nfn main() {}\n'


def results_items(u, props='C02', with_new=True):
    """Extract the results.rs kernel with its contracts into unit u.  Returns the list of items."""
    rs = u.source('brush-core/src/results.rs')
    items = []
    ecf = rs.item(r'^pub enum ExecutionControlFlow ', 'ExecutionControlFlow').r1().r11()
    eec = rs.item(r'^pub enum ExecutionExitCode ', 'ExecutionExitCode').r1().r11()
    er = rs.item(r'^pub struct ExecutionResult ', 'ExecutionResult').r1().r11()
    impl_cf = rs.item(r'^impl ExecutionControlFlow ', 'impl ExecutionControlFlow').r1().r11()
    impl_cf.sig('try_decrement_loop_levels', ret='r', ensures=[
        C(props + ' dec-levels', 'r == dec_spec(*self)')])
    impl_ec = rs.item(r'^impl ExecutionExitCode ', 'impl ExecutionExitCode').r1().r11()
    impl_ec.sig('is_success', ret='r', ensures=[C(props + ' code-success', 'r == (*self is Success)')])
    impl_er = rs.item(r'^impl ExecutionResult ', 'impl ExecutionResult').r1().r11()
    impl_er.replace('const SIGTSTP: std::os::raw::c_int = 20;', 'const SIGTSTP: i32 = 20;', 'R10',
                    'c_int instantiated at i32 (Linux)')
    for fn, cl in [
        ('new', 'r.next_control_flow is Normal && r.exit_code == code_of(exit_code)'),
        ('stopped', 'r.next_control_flow is Normal && u8_of(r.exit_code) == 148'),
        ('success', 'r.next_control_flow is Normal && r.exit_code is Success'),
        ('general_error', 'r.next_control_flow is Normal && r.exit_code is GeneralError'),
        ('is_success', 'r == (self.exit_code is Success)'),
        ('is_normal_flow', 'r == (self.next_control_flow is Normal)'),
        ('is_break', 'r == (self.next_control_flow is BreakLoop)'),
        ('is_continue', 'r == (self.next_control_flow is ContinueLoop)'),
        ('is_return_or_exit', 'r == (self.next_control_flow is ReturnFromFunctionOrScript || self.next_control_flow is ExitShell)'),
    ]:
        impl_er.sig(fn, ret='r', ensures=[C(props + ' result-' + fn.replace('_', '-'), cl)])
    from_u8 = rs.item(r'^impl From<u8> for ExecutionExitCode ', 'From<u8> for ExecutionExitCode').r1()
    to_u8 = rs.item(r'^impl From<ExecutionExitCode> for u8 ', 'From<ExecutionExitCode> for u8').r1()
    to_u8r = rs.item(r'^impl From<&ExecutionExitCode> for u8 ', 'From<&ExecutionExitCode> for u8').r1()
    from_ec = rs.item(r'^impl From<ExecutionExitCode> for ExecutionResult ', 'From<ExecutionExitCode> for ExecutionResult').r1()
    for it in (from_u8, to_u8, to_u8r, from_ec):
        # trait impls cannot carry `ensures`; vstd's FromSpec postcondition is the obligation (see spec.rs)
        it.table.append((it.name + ':from:ensures#0', props + ' from-spec', 'ensures', 'from'))
        it.default_label = props + ' from-spec'
    u.assume('assume_specification', 'derived Default::default of ExecutionResult / ExecutionExitCode / ExecutionControlFlow returns the #[default] variants (Normal, Success)')
    for it in (ecf, eec, er):
        u.add(it)
    u.prelude('results/spec.rs')
    for it in (impl_cf, impl_ec, impl_er, from_u8, to_u8, to_u8r, from_ec):
        u.add(it)
    return [impl_cf, impl_ec, impl_er, from_u8, to_u8, to_u8r, from_ec]


def runtime_options_item(u):
    """The real RuntimeOptions struct (brush-core/src/options.rs), so that contracts can mention any option."""
    op = u.source('brush-core/src/options.rs')
    u.add(op.item(r'^pub struct RuntimeOptions ', 'RuntimeOptions').r1(keep_derive=()))


def replay_scripts(repo, candidates):
    """A `unit.counterexample` hook: candidate scripts with the output bash gives (written down here, bash is not run), run on the binary
    built from the tree under check; the first one that prints something else is the failing input."""
    def cb(failure, workdir):
        import os
        import subprocess
        if not os.path.exists(os.path.join(repo, 'Cargo.lock')) or os.environ.get('VERIF_NO_REPLAY_BUILD'):
            failure.replay_note = 'not replayed: the tree under check is a source export without a build set-up'
            return None
        try:
            b = subprocess.run(['cargo', 'build', '--offline', '-q', '-p', 'brush-shell'], cwd=repo, capture_output=True, text=True, timeout=1800)
            if b.returncode != 0:
                failure.replay_note = 'not replayed: cargo build failed'
                return None
            for script, expected in candidates:
                r = subprocess.run([os.path.join(repo, 'target/debug/brush'), '--norc', '--noprofile', '-c', script], capture_output=True, text=True, timeout=20)
                if r.stdout != expected:
                    return 'script: %s\nexpected output: %r\nreplayed on %s/target/debug/brush (built from the tree under check): stdout %r stderr %r' % (
                        script, expected, repo, r.stdout, r.stderr.strip()[:200])
        except Exception as e:
            failure.replay_note = 'not replayed: %r' % e
            return None
        failure.replay_note = '%d candidate script(s) replayed on target/debug/brush: all print what is expected — no failing input among them' % len(candidates)
        return None
    cb.candidates = candidates
    return cb
