"""U24b: completion.rs simple_tokenize_by_delimiters (whole function, R21 + R19): every token is a piece of the line between two
character positions with `start` the byte offset of the first one; the slices never panic.  Discharges the assumption of unit U24."""
from vx.unit import Unit
from vx.extract import C

PROPS = ['C01']
HEADER = 'use vstd::prelude::*;\nverus! {\n'
FOOTER = '\n} // verus!\nfn main() {}\n'
WS = '(match word_start { Some(s) => 0 <= ws_n <= %s && boundary_at(input@, s as int, ws_n), None => true })'


def build(repo, findings):
    u = Unit('U24b', 'completion tokenizer: tokens are pieces of the line at character positions; no slice off a boundary', repo, ['C01'], safety_props=['C01'])
    src = u.source('brush-core/src/completion.rs')
    src.require_text(r'simple_tokenize_by_delimiters\(input, delimiters\.as_slice\(\)\)\n\s*\}', 'tokenize_input_for_completion returns what simple_tokenize_by_delimiters returns')
    u.raw(HEADER)
    u.prelude('std/utf8.rs')
    u.add(src.item(r"^pub struct CompletionToken<'a> ", 'CompletionToken').r1(keep_derive=()))
    u.prelude('completion/tokenize_spec.rs')
    fn = 'simple_tokenize_by_delimiters'
    f = src.item(r"^fn simple_tokenize_by_delimiters<'a>\(", fn).r1()
    f.r21(fn, 0)
    f.resub(r'&input\[(\w+)\.\.(\w+)\]', r'str_slice(input, \1, \2)', 'R19', '&s[a..b] -> str_slice(s, a, b): the panic conditions become preconditions', count=None)
    f.resub(r'&input\[(\w+)\.\.\]', r'str_slice_from(input, \1)', 'R19', '&s[a..] -> str_slice_from(s, a)', count=None)
    f.resub(r'\bdelimiters\.contains\(&c\)', 'slice_contains_char(delimiters, c)', 'R14', 'slice::contains -> stub (uninterpreted membership)', count=None)
    f.resub(r'\bc\.is_ascii_whitespace\(\)', 'char_is_ascii_whitespace(c)', 'R14', 'char::is_ascii_whitespace -> stub (uninterpreted)', count=None)
    f.resub(r'let mut tokens = vec!\[\];', "let mut tokens: Vec<CompletionToken<'a>> = Vec::new();", 'R14', 'vec![] with its element type spelled out', count=None)
    f.sig(fn, ret='r', ensures=[C('C01 every-token-is-a-piece-of-the-line-at-character-positions', 'forall|k: int| 0 <= k < r@.len() ==> tok_ok(input@, #[trigger] r@[k])')])
    f.before_loop(fn, 0, 'let ghost mut ws_n: int = 0;\nproof { axiom_str_fits_usize(input); assert(input@.take(0) =~= Seq::<char>::empty()); }')
    f.loop(0, fn_name=fn, invariant=[
        C('aux', '__cs@ == input@ && __i <= __cs@.len() && __off == byte_len(input@.take(__i as int)) && byte_len(input@) <= isize::MAX'),
        C('C01 a-started-word-begins-at-a-character-position-not-after-the-current-one', WS % '__i'),
        C('C01 tokens-so-far-are-pieces-of-the-line', 'forall|k: int| 0 <= k < tokens@.len() ==> tok_ok(input@, #[trigger] tokens@[k])'),
    ], decreases='__cs@.len() - __i', body_first='''let ghost p0 = __i as int;
proof {
    assert(input@.take(p0 + 1).drop_last() =~= input@.take(p0));
    assert(input@.take(p0 + 1).last() == input@[p0]);
    lemma_byte_len_take(input@, p0 + 1, input@.len() as int);
    assert(input@.take(input@.len() as int) =~= input@);
}''')
    # after the counters have moved: `i` is the offset of character position p0
    f.after_line(r'^\s*__i \+= 1;', 'proof { assert(boundary_at(input@, i as int, p0)); if word_start is Some { if ws_n < p0 { lemma_byte_len_monotone(input@, ws_n, p0); } } }', fn_name=fn)
    f.after_line(r'^\s*word_start = Some\(i\);', 'proof { ws_n = p0; }', fn_name=fn, nth=None)
    f.before(r'^\s*tokens\.push\(CompletionToken \{$', 'let ghost toks0 = tokens@;', fn_name=fn, nth=None)
    n_in_loop = len(__import__('re').findall(r'text: str_slice\(input, start, i\),', f.text))
    KEEP = 'assert forall|k: int| 0 <= k < tokens@.len() implies tok_ok(input@, #[trigger] tokens@[k]) by { if k < toks0.len() { assert(tokens@[k] == toks0[k]); } }'
    for k in range(n_in_loop):
        f.after_line(r'^\s*\}\);$', 'proof { lemma_piece(input@, tokens@.last(), start as int, i as int, ws_n, p0); %s }' % KEEP, fn_name=fn, nth=k)
    f.after_line(r'^\s*\}\);$', '''proof {
    lemma_boundary_unique_all(input@);
    let n = choose|n: int| boundary_at(input@, start as int, n) && tokens@.last().text@ == input@.skip(n);
    assert(input@.skip(n) =~= input@.subrange(n, input@.len() as int));
    assert(tok_at(input@, tokens@.last(), n, input@.len() as int));
    %s
}''' % KEEP, fn_name=fn, nth=n_in_loop)
    u.add(f)
    u.raw(FOOTER)
    u.assume('external_body', 'str_chars_vec (the characters of a str), slice::contains and char::is_ascii_whitespace (uninterpreted), R19 slicing stubs with std\'s panic conditions as preconditions')
    u.assume('uninterp', 'is_delim, ascii_ws')
    u.assume('axiom', 'a string has at most isize::MAX bytes')
    u.assume('stub', 'which characters delimit (COMP_WORDBREAKS lookup in tokenize_input_for_completion) is not part of the contract')
    u.expected_min_fns = 1
    return u
