"""U76: get_var_value (brush-core/src/arithmetic.rs), whole function: the text an arithmetic expression gets for a name is the value
of the variable when it has one; a name that is unset — or declared without a value — is an error under nounset and the empty text
(which evaluates to 0) otherwise."""
from vx.unit import Unit
from vx.extract import C
from .common import replay_scripts

PROPS = ['C03', 'C07']
HEADER = 'use vstd::prelude::*;\nverus! {\n'
FOOTER = '\n} // verus!\nfn main() {}\n'


def build(repo, findings):
    u = Unit('U76', 'arithmetic: a name without a value is unbound under nounset, empty otherwise', repo, PROPS, safety_props=[])
    ar = u.source('brush-core/src/arithmetic.rs')
    ar.require_text(r'\n\s*ExpandingUnsetVariable\(String\),', 'projected variant EvalError::ExpandingUnsetVariable')
    u.raw(HEADER)
    u.raw('''#[verifier::external_body] pub struct Shell { _p: u8 }
#[verifier::external_body] pub struct ShellVariable { _p: u8 }
#[verifier::external_body] pub struct ShellValue { _p: u8 }
pub struct RuntimeOptionsP { pub treat_unset_variables_as_error: bool }
pub enum EvalError { ExpandingUnsetVariable(String), Other }
pub uninterp spec fn var_spec(sh: Shell, name: Seq<char>) -> Option<ShellVariable>;
pub uninterp spec fn resolved_spec(v: ShellVariable, sh: Shell) -> ShellValue;
pub uninterp spec fn set_spec(v: ShellValue) -> bool;
pub uninterp spec fn text_spec(v: ShellValue, sh: Shell) -> Seq<char>;
pub uninterp spec fn nounset_spec(sh: Shell) -> bool;
impl Shell {
    // R14: `shell.env_var(name).map(|var| var.resolve_value(shell))` -> one stub: the resolved value of the variable, if there is one
    #[verifier::external_body]
    pub fn resolved_var(&self, name: &str) -> (r: Option<ShellValue>)
        ensures r == (match var_spec(*self, name@) { Some(v) => Some(resolved_spec(v, *self)), None => None }) { unimplemented!() }
    #[verifier::external_body] pub fn options(&self) -> (r: RuntimeOptionsP) ensures r.treat_unset_variables_as_error == nounset_spec(*self) { unimplemented!() }
}
impl ShellValue {
    #[verifier::external_body] pub fn is_set(&self) -> (r: bool) ensures r == set_spec(*self) { unimplemented!() }
    // R17: to_cow_str(shell).to_string().into() -> the text as an owned string
    #[verifier::external_body] pub fn to_text(&self, shell: &Shell) -> (r: String) ensures r@ == text_spec(*self, *shell) { unimplemented!() }
}
#[verifier::external_body] pub fn str_to_string(s: &str) -> (r: String) ensures r@ == s@ { unimplemented!() }
#[verifier::external_body] pub fn vx_empty() -> (r: String) ensures r@ == Seq::<char>::empty() { unimplemented!() }
''')
    fn = 'get_var_value'
    f = ar.item(r'^fn get_var_value<', fn).r1()
    f.resub(r"fn get_var_value<'a>\(\s*shell: &'a Shell<impl extensions::ShellExtensions>,", 'fn get_var_value(\n    shell: &Shell,', 'R4', 'extension generic and lifetime erased', count=1)
    f.resub(r"Result<Cow<'a, str>, EvalError>", 'Result<String, EvalError>', 'R17', 'Cow<str> erased to its owned form', count=1)
    f.resub(r'shell\.env_var\(name\)\.map\(\|var\| var\.resolve_value\(shell\)\)', 'shell.resolved_var(name)', 'R14', 'lookup + resolve with a closure -> stub', count=1)
    f.resub(r'value\.to_cow_str\(shell\)\.to_string\(\)\.into\(\)', 'value.to_text(shell)', 'R17', 'Cow<str> -> owned text', count=None)
    f.resub(r'EvalError::ExpandingUnsetVariable\(name\.into\(\)\)', 'EvalError::ExpandingUnsetVariable(str_to_string(name))', 'R14', '&str -> String', count=None)
    f.resub(r'Ok\(""\.into\(\)\)', 'Ok(vx_empty())', 'R17', '"".into() -> the empty string', count=None)
    f.sig(fn, ret='res', ensures=[
        C('C07 a-variable-that-has-a-value-reads-as-its-text', '''(var_spec(*shell, name@) is Some && set_spec(resolved_spec(var_spec(*shell, name@)->Some_0, *shell))) ==>
    (res is Ok && res->Ok_0@ == text_spec(resolved_spec(var_spec(*shell, name@)->Some_0, *shell), *shell))'''),
        C('C03 a-name-that-is-unset-or-declared-without-a-value-is-unbound-under-nounset-and-empty-otherwise', '''!(var_spec(*shell, name@) is Some && set_spec(resolved_spec(var_spec(*shell, name@)->Some_0, *shell))) ==>
    (if nounset_spec(*shell) { res is Err && res->Err_0 is ExpandingUnsetVariable } else { res is Ok && res->Ok_0@.len() == 0 })'''),
    ])
    u.add(f)
    u.raw(FOOTER)
    u.assume('external_body', 'Shell, ShellVariable, ShellValue are opaque; lookup, resolve_value, is_set, to_cow_str are stubs with uninterpreted results')
    u.assume('uninterp', 'var_spec, resolved_spec, set_spec, text_spec, nounset_spec')
    u.expected_min_fns = 1
    u.counterexample = replay_scripts(repo, [
        ('set -u; f() { local n; echo "v=$((n+1))"; }; f; echo after', 'after\n'),
        ('f() { local n; echo "v=$((n+1))"; }; f; x=7; echo "$((x+1)) $((zz+1))"', 'v=1\n8 1\n'),
    ])
    return u
