"""U41: the memoising wrappers around the parsers (`#[cached::macros::cached(.. key = "..", convert = r#"{ .. }"#)]` on the arithmetic
parser, the word parser, the tokenizer, the program parser and the prompt parser): the `convert` block of each attribute is read into a
generated function on every run and proved to return the whole text and every option it is given, in order — so two different inputs
never share a cache entry and what an expression means cannot depend on what was parsed before it.

That contract is SUFFICIENT for the property, not necessary (a key that normalises the text in a meaning-preserving way would also be
fine), so a failed obligation of this unit alone is no violation: the check then looks for an input that misbehaves on the binary built
from the tree under check (a battery of snippets run alone and after one another in one process) and reports a violation only with it."""
import os
import re
import subprocess

from vx.unit import Unit
from vx.extract import ExtractError

PROPS = ['C07', 'C05', 'C02']
HEADER = 'use vstd::prelude::*;\nuse vstd::string::*;\nverus! {\n'
FOOTER = '\n} // verus!\nfn main() {}\n'

SITES = [
    # file, fn, generated name, label
    ('brush-parser/src/arithmetic.rs', 'cacheable_parse', 'arithmetic_parse_cache_key', 'C07 arithmetic-parse-cache-is-keyed-by-the-whole-expression-text'),
    ('brush-parser/src/word.rs', 'cacheable_parse', 'word_parse_cache_key', 'C05 word-parse-cache-is-keyed-by-the-whole-word-and-the-parser-options'),
    ('brush-parser/src/tokenizer.rs', 'uncached_tokenize_string', 'tokenize_cache_key', 'C02 tokenizer-cache-is-keyed-by-the-whole-text-and-the-tokenizer-options'),
    ('brush-core/src/shell/parsing.rs', 'parse_string_impl', 'program_parse_cache_key', 'C02 program-parse-cache-is-keyed-by-the-whole-text-and-the-parser-options'),
    ('brush-core/src/prompt.rs', 'parse_prompt', 'prompt_parse_cache_key', 'aux prompt-parse-cache-is-keyed-by-the-whole-prompt-text'),
]
ATTR = r'#\[cached::macros::cached\((?P<args>(?:[^\]]|\](?!\s*\n\s*(?:pub(?:\([a-z]+\))?\s+)?fn))*?)\)\]\s*\n\s*(?:pub(?:\([a-z]+\))?\s+)?fn %s\s*\((?P<params>[^)]*)\)'


def split_top(s):
    out, depth, cur = [], 0, ''
    for ch in s:
        if ch in '(<[':
            depth += 1
        elif ch in ')>]':
            depth -= 1
        if ch == ',' and depth == 0:
            out.append(cur.strip())
            cur = ''
        else:
            cur += ch
    if cur.strip():
        out.append(cur.strip())
    return out


def read_site(src, fn):
    m = re.search(ATTR % re.escape(fn), src.text)
    if not m:
        raise ExtractError('anchor lost: %s: no #[cached::macros::cached(..)] attribute directly on fn %s' % (src.rel, fn))
    args = m.group('args')
    mk = re.search(r'\bkey\s*=\s*"([^"]*)"', args)
    mc = re.search(r'\bconvert\s*=\s*r#"\{(.*?)\}"#', args, re.S)
    if not mk or not mc:
        # without key/convert the macro keys on the (cloned) arguments themselves: nothing to prove, but the shape is not the one this
        # unit reads
        raise ExtractError('unsupported: %s: the cached attribute on fn %s has no key / convert pair' % (src.rel, fn))
    params = []
    for p in split_top(m.group('params')):
        name, ty = [x.strip() for x in p.split(':', 1)]
        params.append((name, ty))
    return mk.group(1).strip(), mc.group(1).strip(), params, src.text.count('\n', 0, m.start()) + 1


def build(repo, findings):
    u = Unit('U41', 'parse caches: the key is the whole text and every option', repo, ['C07', 'C05', 'C02'], safety_props=['C07'])
    u.violation_needs_replay = True
    u.raw(HEADER)
    u.prelude('parser/cache_key_spec.rs')
    n = 0
    for rel, fn, gname, label in SITES:
        src = u.source(rel)
        key_ty, convert, params, line = read_site(src, fn)
        comps = split_top(key_ty[1:-1]) if key_ty.startswith('(') else [key_ty]
        ens = []
        if len(comps) != len(params):
            ens.append('false /* the key has %d component(s) for %d parameter(s): some parameter cannot be part of it */' % (len(comps), len(params)))
        else:
            for i, (pn, pt) in enumerate(params):
                acc = 'r' if len(comps) == 1 else 'r.%d' % i
                ens.append('%s@ == %s@' % (acc, pn) if pt == '&str' else '%s == *%s' % (acc, pn))
        body = convert
        if not re.match(r'^\(?\s*\w+\.to_owned\(\)(\s*,\s*\w+\.to_owned\(\))*\s*\)?$', convert):
            # a convert block outside what Verus reads (iterator chains, closures ..): its value is left open, so the obligation below
            # cannot be discharged and the verdict falls to the search for a misbehaving input on the built binary
            body = 'vx_unrecognised_convert() /* convert block as written: { %s } */' % convert.replace('*/', '* /')
            u.notes.append('%s fn %s: convert block not of the form `x.to_owned(), ..`; value left open' % (rel, fn))
        text = '''// GENERATED on every run from the attribute on `fn %s` (%s:%d): parameters and key type as written, body = the `convert` block verbatim
fn %s(%s) -> (r: %s)
    ensures
        //@ %s:%s:cache-key | %s
        %s,
{ %s }
''' % (fn, rel, line, gname, ', '.join('%s: %s' % p for p in params), key_ty, os.path.basename(rel), fn, label, ' && '.join(ens), body)
        u.raw(text, origin='generated from %s #[cached] on fn %s' % (rel, fn))
        u.notes.append('%s fn %s: key = %s, convert = { %s }' % (rel, fn, key_ty, convert))
        n += 1
    # no other memoised function may appear unnoticed in the parser crates
    for rel in ('brush-parser/src', 'brush-core/src'):
        root = os.path.join(repo, rel)
        for dp, _, fs in os.walk(root):
            for f in fs:
                if not f.endswith('.rs'):
                    continue
                p = os.path.join(dp, f)
                relp = os.path.relpath(p, repo)
                c = open(p).read().count('cached::macros::cached')
                want = sum(1 for s in SITES if s[0] == relp)
                if c != want:
                    raise ExtractError('unsupported: %s has %d cached::macros::cached attribute(s), this unit reads %d there' % (relp, c, want))
    u.raw(FOOTER)
    u.assume('dependency', 'the `cached` crate: a later call whose converted key equals an earlier one returns the stored result (bounded LRU, 64 entries); the memoised functions are otherwise pure in their arguments (NOT verified)')
    u.assume('external_body', 'ParserOptions / TokenizerOptions are opaque; their to_owned() (derived Clone) returns an equal value (ASSUMED)')
    u.assume('generated', 'the key functions are produced by units/u41_parse_cache_keys.py from the attribute text (other attribute shapes stop the run undecided)')
    u.expected_min_fns = n
    u.counterexample = counterexample_for(repo)
    return u


# ---- failing-input search on the binary built from the tree under check: each snippet alone, then all in one process (both orders)
ARITH = ['a++ + b', 'a + ++b', 'a+++b', 'a-- - b', 'a - --b', 'a---b', 'a+1', ' a+1', 'a+1 ', 'a + 1', 'a+10', 'a+100', 'A+1', 'a+1,b', 'b,a+1',
         'a*b+1', 'a*(b+1)', 'a<<1', 'a<1', 'a <1', 'a==b', 'a=b', 'a+b+a+b+a+b+a+b+a+b+a+b+a+b+a+b+a+b+a+b+a+b+a+b+a+b+a+b+a+b+a+b+1',
         'a+b+a+b+a+b+a+b+a+b+a+b+a+b+a+b+a+b+a+b+a+b+a+b+a+b+a+b+a+b+a+b+2', '1+a+b+a+b+a+b+a+b+a+b+a+b+a+b+a+b+a+b+a+b+a+b+a+b+a+b+a+b+a+b+a+b',
         '2+a+b+a+b+a+b+a+b+a+b+a+b+a+b+a+b+a+b+a+b+a+b+a+b+a+b+a+b+a+b+a+b']
WORDS = ["x${v}y", "x${v} y", "x$ {v}y", "'x${v}y'", '"x${v}y"', 'x${V}y', 'x${v}Y', ' x${v}y', '@(a|b)', '!(zz)', '~+', ' ~+', '{a,b}c', '{a, b}c']


def snippets():
    """(state, text): `state` is run as a command of its own BEFORE `text` is parsed (by eval), so that what `text` parses to depends on
    the text and the options only, not on what an earlier snippet left behind."""
    out = []
    for e in ARITH:
        out.append(('shopt -s extglob', "a=2; b=10; A=7; echo \"$(( %s )) $a $b\"" % e))
    for w in WORDS:
        for ext in ('-u', '-s'):
            out.append(('shopt %s extglob' % ext, "v=1; V=2; cd /; for w in %s; do echo \"<$w>\"; done | tr '\\n' ' '; echo" % w))
    return out


def counterexample_for(repo):
    def cb(failure, workdir):
        ss = snippets()
        if not os.path.exists(os.path.join(repo, 'Cargo.lock')) or os.environ.get('VERIF_NO_REPLAY_BUILD'):
            failure.replay_note = 'not replayed: the tree under check is a source export without a build set-up'
            return None
        try:
            b = subprocess.run(['cargo', 'build', '--offline', '-q', '-p', 'brush-shell'], cwd=repo, capture_output=True, text=True, timeout=1800)
            if b.returncode != 0:
                failure.replay_note = 'not replayed: cargo build failed'
                return None
            exe = os.path.join(repo, 'target/debug/brush')

            def run(script):
                r = subprocess.run([exe, '--norc', '--noprofile', '-c', script], capture_output=True, text=True, timeout=60)
                return r.stdout

            def quoted(s):
                return "'" + s.replace("'", "'\\''") + "'"
            alone = [run('%s\neval %s 2>/dev/null || echo FAILED' % (st, quoted(s))).strip() for st, s in ss]
            for order, idx in (('in order', list(range(len(ss)))), ('in reverse order', list(range(len(ss) - 1, -1, -1)))):
                script = '\n'.join('%s\neval %s 2>/dev/null || echo FAILED; echo "@@@"' % (ss[i][0], quoted(ss[i][1])) for i in idx)
                got = [x.strip() for x in run(script).split('@@@\n')]
                for k, i in enumerate(idx):
                    if k < len(got) and got[k] != alone[i]:
                        return ('snippet (after `%s`): %s\nrun alone in a fresh shell it prints %r; run after the other %d snippets of the battery (%s) in one shell it prints %r\n'
                                'replayed on %s/target/debug/brush (built from the tree under check); battery: units/u41_parse_cache_keys.py' % (ss[i][0], ss[i][1], alone[i], k, order, got[k], repo))
        except Exception as e:
            failure.replay_note = 'not replayed: %r' % e
            return None
        failure.replay_note = 'battery of %d snippets (alone vs. after one another, both orders) on target/debug/brush: no difference' % len(ss)
        return None
    return cb
