"""U5b: deref_lvalue (brush-core/src/arithmetic.rs): evaluation of a variable's contents goes exactly one level deeper, bounded."""
from vx.unit import Unit
from vx.extract import C

PROPS = ['C01', 'C07']
HEADER = 'use vstd::prelude::*;\nuse vstd::string::*;\nverus! {\n'
FOOTER = '\n} // verus!\nfn main() {}\n'


def build(repo, findings):
    u = Unit('U5b', 'variable dereference in arithmetic: one level deeper per indirection, never past the limit', repo, ['C01', 'C07'], safety_props=['C01'])
    ar = u.source('brush-core/src/arithmetic.rs')
    ast = u.source('brush-parser/src/ast.rs')
    ar.require_text(r'impl Evaluatable for ast::ArithmeticExpr \{\s*fn eval\(&self, shell: &mut Shell<impl extensions::ShellExtensions>\) -> Result<i64, EvalError> \{\s*eval_expr_impl\(self, shell, 0\)\s*\}', 'Evaluatable::eval starts the evaluator at depth 0 (stubbed as such)')
    u.raw(HEADER)
    u.raw('pub mod ast {\nuse vstd::prelude::*;')
    for n in ['ArithmeticExpr', 'ArithmeticTarget', 'BinaryOperator', 'UnaryOperator', 'UnaryAssignmentOperator']:
        u.add(ast.item(r'^pub enum %s ' % n, n).r1(structural=False))
    u.raw('}\n')
    u.add(ar.item(r'^pub enum EvalError ', 'EvalError').r1())
    u.add(ar.item(r'^const MAX_VARIABLE_DEREF_DEPTH', 'MAX_VARIABLE_DEREF_DEPTH').r1())
    u.prelude('arith/deref_spec.rs')
    fn = 'deref_lvalue'
    f = ar.item(r'^fn deref_lvalue\(', fn).r1().r4().r11().r17_cow()
    f.resub(r'shell\s*\.env\(\)\s*\.get\(name\)\s*\.map_or_else\(.*?\)\s*\.map_err\(\|_err\| EvalError::FailedToAccessArray\)\?\s*\.unwrap_or\(\(""\)\.vx_owned\(\)\)',
            'env_get_at(shell, name, index_str.as_str())?', 'R14', 'environment lookup chain (closures, Option/Result adapters) -> env_get_at stub with the same error path', flags=16)
    f.resub(r'brush_parser::arithmetic::parse\(value_str\.as_ref\(\)\)\s*\.map_err\(\|_err\| EvalError::ParseError\(value_str\.to_string\(\)\)\)\?',
            'parse_arith(&value_str)?', 'R14', 'arithmetic parser call + error mapping -> parse_arith stub with the same error path', flags=16)
    f.resub(r'(\w+)\.trim\(\)\.parse::<i64>\(\)', r'vx_parse_i64(\1.as_str().trim())', 'R14', 'str::parse::<i64> -> stub with an arbitrary result', count=None)
    f.sig(fn, ret='res', requires=[C('aux depth-within-limit', 'depth <= MAX_VARIABLE_DEREF_DEPTH')], ensures=[
        C('aux log-extends', 'old(shell).evals().is_prefix_of(final(shell).evals())'),
        C('C01 nested-evaluation-one-level-deeper-and-bounded',
          'forall|k: int| old(shell).evals().len() <= k < final(shell).evals().len() ==> deref_call_ok(#[trigger] final(shell).evals()[k], *lvalue, depth)'),
        C('C07 the-value-of-a-variable-is-its-text-evaluated-as-an-arithmetic-expression', '''(lvalue is Variable && res is Ok) ==> ({
    let t = var_text(old(shell).vars(), lvalue->Variable_0@);
    &&& t is Ok && parse_spec(t->Ok_0) is Ok
    &&& final(shell).evals().len() == old(shell).evals().len() + 1
    &&& final(shell).evals().last().expr == parse_spec(t->Ok_0)->Ok_0
    &&& final(shell).evals().last().ret == res
})'''),
    ])
    u.add(f)
    u.raw(FOOTER)
    u.assume('external_body', 'eval_expr_impl / ArithmeticExpr::eval are stubs that log (expression, depth); get_var_value, env_get_at, parse_arith are stubs with arbitrary results; Shell opaque')
    u.assume('uninterp', 'Shell::evals (ghost log of evaluator entries and their results), Shell::vars, var_text, parse_spec')
    u.assume('assume_specification', 'str::trim (no meaning attached)')
    u.assume('stub', 'assign() also evaluates a subscript (same depth) and is NOT verified; the composition of U5 (depth passed unchanged inside one expression) and U5b into a global termination measure is argued in DESIGN.md, not machine-checked')
    u.expected_min_fns = 1
    return u
