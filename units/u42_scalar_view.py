"""U42: ShellValue::try_get_cow_str_without_dynamic_support / to_cow_str_without_dynamic_support (brush-core/src/variables.rs): a value
referenced without a subscript reads as its element 0 (key "0"), and as unset when that element is missing."""
from vx.unit import Unit
from vx.extract import C
from .common import replay_scripts

PROPS = ['C06', 'C05']
HEADER = '#![feature(allocator_api)]\nuse vstd::prelude::*;\nuse vstd::string::*;\nuse std::collections::BTreeMap;\nverus! {\n'
FOOTER = '\n} // verus!\nfn main() {}\n'


def build(repo, findings):
    u = Unit('U42', 'a value used without a subscript reads as element 0, or as unset when there is none', repo, ['C06', 'C05'], safety_props=['C06'])
    va = u.source('brush-core/src/variables.rs')
    va.require_text(r'type DynamicValueGetter = fn\(', 'DynamicValueGetter is a fn pointer (projected to an opaque struct)')
    va.require_text(r'type DynamicValueSetter = fn\(', 'DynamicValueSetter is a fn pointer (projected to an opaque struct)')
    u.raw(HEADER)
    u.add(va.item(r'^pub enum ShellValueUnsetType ', 'ShellValueUnsetType').r1(keep_derive=()))
    u.add(va.item(r'^pub enum ShellValue ', 'ShellValue').r1(keep_derive=()))
    u.prelude('vars/scalar_view_spec.rs')
    u.raw('impl ShellValue {')
    fn = 'try_get_cow_str_without_dynamic_support'
    f = va.method_anywhere(fn).r1().r11()
    f.resub(r'\b(\w+)\.get\("0"\)', r'btree_get_by_str(\1, "0")', 'R14', 'BTreeMap<String, _>::get(&str) -> stub over the abstract contents', count=None)
    f.resub(r"Option<Cow<'_, str>>", 'Option<String>', 'R17', 'Cow<str> erased to its owned form', count=None)
    f.resub(r'\.map\(\|s\| Cow::Borrowed\(s\.as_str\(\)\)\)', '.vx_map_owned_()', 'R14', 'Option::map with the closure `|s| Cow::Borrowed(s.as_str())` -> stub (same characters)', count=None)
    f.resub(r'(?m)=> ((?:[^\n,]|\([^\n]*?\))*?)\.vx_map_owned_\(\)', r'=> vx_map_owned(\1)', 'R14', 'method form -> call form of the stub', count=None)
    f.resub(r'Cow::Borrowed\((\w+)\.as_str\(\)\)', r'vx_str_owned(\1.as_str())', 'R17', 'Cow::Borrowed(&str) -> owned string with the same characters', count=None)
    f.resub(r'Cow::Borrowed\(("[^"]*")\)', r'vx_str_owned(\1)', 'R17', 'Cow::Borrowed(literal) -> owned string with the same characters', count=None)
    f.sig(fn, ret='r', ensures=[
        C('C06,C05 unsubscripted-value-reads-as-element-zero-or-unset', '(r is Some) == (scalar_view(*self) is Some) && (r is Some ==> r->Some_0@ == scalar_view(*self)->Some_0)'),
    ])
    f.at_body_start(fn, "proof { assert(\"0\"@ =~= seq!['0']) by { reveal_strlit(\"0\"); } }")
    u.add(f)
    fn2 = 'to_cow_str_without_dynamic_support'
    g = va.method_anywhere(fn2).r1().r11()
    g.resub(r"Cow<'_, str>", 'String', 'R17', 'Cow<str> erased to its owned form', count=None)
    g.resub(r'\.unwrap_or\(Cow::Borrowed\(""\)\)', '.unwrap_or(vx_empty_string())', 'R17', 'Cow::Borrowed("") -> the empty string', count=None)
    g.sig(fn2, ret='r', ensures=[
        C('C06,C05 unsubscripted-value-reads-as-empty-when-unset', 'r@ == (match scalar_view(*self) { Some(t) => t, None => Seq::<char>::empty() })'),
    ])
    u.add(g)
    # ---- element_keys / element_values: a scalar, empty or not, is the one element 0; an unset value has none
    for fnk, stub_a, stub_i, what in (('element_keys', 'assoc_keys', 'indexed_keys', 'keys'), ('element_values', 'assoc_values', 'indexed_values', 'values')):
        h = va.method_anywhere(fnk).r1().r4().r11()
        h.resub(r'shell: &Shell<impl extensions::ShellExtensions>', 'shell: &Shell', 'R4', 'extension generic erased', count=None)
        h.resub(r'(Self::IndexedArray\(array\) => )array\.%s\(\)\.map\(\|\w\| \w\.to_(?:string|owned)\(\)\)\.collect\(\)' % what, r'\1%s(array)' % stub_i, 'R14', 'iterator chain over the indexed map -> stub', count=None)
        h.resub(r'array\.%s\(\)\.map\(\|\w\| \w\.to_owned\(\)\)\.collect\(\)' % what, '%s(array)' % stub_a, 'R14', 'iterator chain over the associative map -> stub', count=None)
        h.resub(r'getter\(shell\)\.%s\(shell\)' % fnk, 'dynamic_%s(getter, shell)' % what, 'R14', 'call through the getter fn pointer -> stub', count=None)
        h.resub(r'vec!\["0"\.to_owned\(\)\]', 'vec![vx_str_owned("0")]', 'R14', 'str::to_owned -> stub (same characters)', count=None)
        h.resub(r'vec!\[s\.to_owned\(\)\]', 'vec![s.clone()]', 'R14', 'String::to_owned -> clone', count=None)
        if fnk == 'element_keys':
            h.sig(fnk, ret='r', ensures=[
                C('C06,C05 a-scalar-empty-or-not-has-exactly-the-key-0', "self is String ==> (r@.len() == 1 && r@[0]@ == seq!['0'])"),
                C('C06,C05 an-unset-value-has-no-key', 'self is Unset ==> r@.len() == 0')])
            h.at_body_start(fnk, "proof { assert(\"0\"@ =~= seq!['0']) by { reveal_strlit(\"0\"); } }")
        else:
            h.sig(fnk, ret='r', ensures=[
                C('C06,C05 a-scalar-empty-or-not-is-its-one-element', 'self is String ==> (r@.len() == 1 && r@[0]@ == self->String_0@)'),
                C('C06,C05 an-unset-value-has-no-element', 'self is Unset ==> r@.len() == 0')])
        u.add(h)
    u.raw('}\n')
    u.raw('''#[verifier::external_body] pub struct Shell { _p: u8 }
#[verifier::external_body] pub fn assoc_keys(m: &BTreeMap<String, String>) -> Vec<String> { unimplemented!() }
#[verifier::external_body] pub fn assoc_values(m: &BTreeMap<String, String>) -> Vec<String> { unimplemented!() }
#[verifier::external_body] pub fn indexed_keys(m: &BTreeMap<u64, String>) -> Vec<String> { unimplemented!() }
#[verifier::external_body] pub fn indexed_values(m: &BTreeMap<u64, String>) -> Vec<String> { unimplemented!() }
#[verifier::external_body] pub fn dynamic_keys(g: &DynamicValueGetter, shell: &Shell) -> Vec<String> { unimplemented!() }
#[verifier::external_body] pub fn dynamic_values(g: &DynamicValueGetter, shell: &Shell) -> Vec<String> { unimplemented!() }
''')
    u.raw(FOOTER)
    u.assume('dependency', "vstd's specification of BTreeMap<u64, _> (view as a map, get) is used as shipped")
    u.assume('uninterp', 'assoc_view (contents of the associative representation)')
    u.assume('external_body', 'btree_get_by_str (BTreeMap<String, _>::get with a &str key returns the value stored under that text); vx_map_owned / vx_str_owned / vx_empty_string (R17: Cow<str> erased to String); the fn-pointer fields of ShellValue::Dynamic are projected to opaque structs')
    u.assume('stub', 'the Dynamic arm of try_get_cow_str (calls the getter) and every caller that goes from a parameter to this reading are NOT verified')
    u.expected_min_fns = 4
    u.counterexample = replay_scripts(repo, [
        ('a=([3]=xyz [5]=q); echo "<${a}> <${#a}> <${a:-unset}> <${a+set}>"', '<> <0> <unset> <>\n'),
        ('a=(p q); unset "a[0]"; echo "<$a> <${a:-unset}>"', '<> <unset>\n'),
        ('declare -A m=([1]=one [k]=v); echo "<$m> <${m:-unset}>"', '<> <unset>\n'),
        ('declare -A m=([0]=zero [k]=v); a=(x y); s=str; echo "<$m> <$a> <$s>"', '<zero> <x> <str>\n'),
        ('n=; s=x; unset u; echo "<${!n[@]}> <${!s[@]}> <${!u[@]}> <${#n[@]}> <${n[@]}>"; for i in "${!n[@]}"; do echo "key $i"; done', '<0> <0> <> <1> <>\nkey 0\n'),
    ])
    return u
