"""U39: AsyncPipeReader::read_to_string (brush-core/src/sys/unix/async_pipe.rs): the output of a command substitution is everything
the pipe delivers until end of file, decoded once as a whole."""
from vx.unit import Unit
from vx.extract import C

PROPS = ['C04']
HEADER = 'use vstd::prelude::*;\nverus! {\n'
FOOTER = '\n} // verus!\nfn main() {}\n'


def build(repo, findings):
    u = Unit('U39', 'command-substitution pipe reader: the whole output decoded as one UTF-8 text', repo, ['C04'], safety_props=['C01', 'C04'])
    src = u.source('brush-core/src/sys/unix/async_pipe.rs')
    src.require_text(r'pub\(crate\) struct AsyncPipeReader\(pipe::Receiver\);', 'AsyncPipeReader wraps one pipe::Receiver')
    u.raw(HEADER)
    u.prelude('io/pipe_reader_spec.rs')
    fn = 'read_to_string'
    f = src.method_anywhere(fn).r1().r3().r11_pub()
    f.resub(r'^[ \t]*use tokio::io::AsyncReadExt;\n', '', 'R2', 'trait import inside the function dropped (the method is a stub on the receiver)', count=None)
    f.sig(fn, ret='res', ensures=[
        C('C04 substitution-output-is-the-whole-stream-decoded-once', '''match utf8_decode(old(self).0.pending()) {
    Some(t) => res is Ok && res->Ok_0@ == t,
    None => res is Err,
}''')])
    f.at_body_start(fn, 'proof { assert(Seq::<char>::empty() + utf8_decode(old(self).0.pending())->Some_0 =~= utf8_decode(old(self).0.pending())->Some_0); }')
    u.raw('impl AsyncPipeReader {')
    u.add(f)
    u.raw('}\n')
    u.raw(FOOTER)
    u.assume('external_body', 'tokio AsyncReadExt::read_to_string on the pipe receiver is a stub stating its documented behaviour (read to end of file; error on invalid UTF-8); io::Error opaque')
    u.assume('uninterp', 'Receiver::pending (ghost), utf8_decode')
    u.assume('stub', 'tokio scheduling, the writer side of the pipe, and the non-unix implementation are NOT verified; a chunked re-implementation (a loop over reads) is outside the subset and stops the run')
    u.expected_min_fns = 1
    return u
