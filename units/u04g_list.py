"""U4g: CompoundList executor (brush-core/src/interp.rs)."""
from .common import runtime_options_item
from vx.extract import C
from .exec_common import exec_unit, begin_ast, end_ast, child_stub, FOOTER

PROPS = ['C02', 'C03', 'C16', 'C01']

RUN = 'cl_run(new_events(old(shell).trace(), %s.trace()), *self_, params.suppress_errexit)'


def build(repo, findings):
    u, interp = exec_unit('U4g', 'compound-list executor vs POSIX fold semantics', repo,
                          ['AndOrList'], 'pub enum Node { AndOr(ast::AndOrList), Async(ast::AndOrList) }\n')
    ast = u.source('brush-parser/src/ast.rs')
    begin_ast(u)
    u.add(ast.item(r'^pub struct CompoundList\(', 'CompoundList').r1(keep_derive=()))
    u.add(ast.item(r'^pub struct CompoundListItem\(', 'CompoundListItem').r1(keep_derive=()))
    u.add(ast.item(r'^pub enum SeparatorOperator ', 'SeparatorOperator').r1(keep_derive=()))
    end_ast(u)
    runtime_options_item(u)
    u.prelude('exec/list_spec.rs')
    u.raw(child_stub('AndOrList', 'Node::AndOr(*self)'))
    fn = 'compound_list_execute'
    f = interp.method(r'^impl Execute for ast::CompoundList ', 'execute', fn)
    f.r1().r3().r4().r5_self('ast::CompoundList', fn)
    f.replace('writeln!(params.stderr(shell), "{job_formatted}")?;', 'vx_io_write(shell, params, &job_formatted)?;', 'R8',
              'writeln! to the shell stderr -> opaque I/O stub with the same error path (formatted text lost)')
    f.sig(fn, ret='res', ensures=[
        C('aux trace-extends', 'old(shell).trace().is_prefix_of(final(shell).trace())'),
        C('C02,C03 list-fold', '''({
    let st = %s;
    match res {
        Ok(r) => st == St::Done(r.next_control_flow, r.exit_code)
            || (st is At && st->k == self_.0@.len() && r.next_control_flow is Normal && r.exit_code == st->code
                && (st->synced ==> final(shell).status() == u8_of(r.exit_code))),
        // the only error that is not a child's: announcing a job that was just spawned
        Err(_) => st is Err || (st is At && st->k > 0 && self_.0@[st->k - 1].1 is Async),
    }
})''' % (RUN % 'final(shell)')),
    ])
    f.at_body_start(fn, 'broadcast use {lemma_new_events_push, lemma_cl_run_push};\nproof { lemma_new_events_empty(old(shell).trace()); }')
    f.loop(0, fn_name=fn, iter_name='it', invariant_except_break=[
        C('aux', 'it.index@ + it.iter.remaining().len() == self_.0@.len()'),
        C('aux', 'forall|i: int| 0 <= i < it.iter.remaining().len() ==> *(#[trigger] it.iter.remaining()[i]) == self_.0@[it.index@ + i]'),
        C('aux', 'result.next_control_flow is Normal'),
        C('C02,C03 list-fold-running', (RUN % 'shell') + ' is At && ' + (RUN % 'shell') + '->k == it.index@ && ' + (RUN % 'shell') + '->code == result.exit_code'),
        C('C02 list-status', (RUN % 'shell') + '->synced ==> shell.status() == u8_of(result.exit_code)'),
    ], invariant=[
        C('aux', 'old(shell).trace().is_prefix_of(shell.trace())'),
    ], ensures=[
        C('C02,C03 list-fold-done', '''({
    let st = %s;
    st == St::Done(result.next_control_flow, result.exit_code)
        || (st is At && st->k == self_.0@.len() && result.next_control_flow is Normal && result.exit_code == st->code
            && (st->synced ==> shell.status() == u8_of(result.exit_code)))
})''' % (RUN % 'shell')),
    ], body_first='broadcast use {lemma_new_events_push, lemma_cl_run_push};')
    u.add(f)
    u.raw(FOOTER)
    u.assume('external_body', 'spawn_async_ao_list_in_task (tokio::spawn of a cloned shell) is a stub: one Async event, $? untouched; jobs::Job, Shell::options/is_subshell, vx_io_write are opaque')
    u.expected_min_fns = 18
    return u
