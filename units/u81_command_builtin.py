"""U81: the tail of CommandCommand::execute_command (brush-builtins/src/command.rs, R6 slice): `command NAME ..` hands back the result
of the command it ran as it is — exit status AND control flow — so `command exit 3`, `command eval 'exit 3'`, `command . file` leave
the shell exactly as the bare forms do, and the EXIT trap sees the status asked for."""
from vx.unit import Unit
from vx.extract import C
from .common import replay_scripts

PROPS = ['C16', 'C02']
HEADER = 'use vstd::prelude::*;\nverus! {\n'
FOOTER = '\n} // verus!\nfn main() {}\n'


def build(repo, findings):
    u = Unit('U81', '`command NAME`: the result of the command run is handed back untouched, control flow included', repo, PROPS, safety_props=[])
    cm = u.source('brush-builtins/src/command.rs')
    u.raw(HEADER)
    u.raw('''pub mod brush_core { use vstd::prelude::*; #[verifier::external_body] pub struct Error { _p: u8 }
    pub mod results { pub use super::super::ExecutionWaitResult; } }
#[verifier::external_body] pub struct ExecutionExitCode { _p: u8 }
#[verifier::external_body] pub struct ExecutionControlFlow { _p: u8 }
#[verifier::external_body] pub struct StoppedInfo { _p: u8 }
pub struct ExecutionResult { pub exit_code: ExecutionExitCode, pub next_control_flow: ExecutionControlFlow }      // projection of results.rs (fields checked)
pub enum ExecutionWaitResult { Completed(ExecutionResult), Stopped(StoppedInfo) }                                   // projection (variants checked)
pub uninterp spec fn stopped_spec() -> ExecutionResult;
pub uninterp spec fn normal_flow() -> ExecutionControlFlow;
impl ExecutionResult { #[verifier::external_body] pub fn stopped() -> (r: Self) ensures r == stopped_spec() { unimplemented!() } }
// From<ExecutionWaitResult> for ExecutionResult (results.rs): the completed result as it is; a stopped child gives the "stopped" result
#[verifier::external_body]
pub fn result_from_wait(w: ExecutionWaitResult) -> (r: ExecutionResult) ensures r == (match w { ExecutionWaitResult::Completed(x) => x, ExecutionWaitResult::Stopped(_) => stopped_spec() }) { unimplemented!() }
// From<ExecutionExitCode> for ExecutionResult (results.rs; U1): that status with NORMAL control flow
#[verifier::external_body]
pub fn result_from_code(c: ExecutionExitCode) -> (r: ExecutionResult) ensures r.exit_code == c && r.next_control_flow == normal_flow() { unimplemented!() }
#[verifier::external_body] pub struct SimpleCommand { _p: u8 }
#[verifier::external_body] pub struct ExecutionSpawnResult { _p: u8 }
pub uninterp spec fn waited(s: ExecutionSpawnResult) -> Result<ExecutionWaitResult, brush_core::Error>;
impl SimpleCommand { #[verifier::external_body] pub fn execute(self) -> Result<ExecutionSpawnResult, brush_core::Error> { unimplemented!() } }
impl ExecutionSpawnResult { #[verifier::external_body] pub fn wait(self) -> (r: Result<ExecutionWaitResult, brush_core::Error>) ensures r == waited(self) { unimplemented!() } }
pub uninterp spec fn spawned(c: SimpleCommand) -> Result<ExecutionSpawnResult, brush_core::Error>;
''')
    rs = u.source('brush-core/src/results.rs')
    rs.require_text(r'pub enum ExecutionWaitResult \{(?:[^}]|\n)*?Completed\(ExecutionResult\),(?:[^}]|\n)*?Stopped\(', 'projection ExecutionWaitResult')
    fn = 'command_tail'
    f = cm.slice('execute_command', r'^\s*let spawn_result = cmd\.execute\(\)\.await\?;', None, 'fn command_tail(cmd: SimpleCommand) -> Result<ExecutionResult, brush_core::Error>', fn)
    f.r1().r3()
    f.resub(r'\bwait_result\.into\(\)', 'result_from_wait(wait_result)', 'R14', 'From<ExecutionWaitResult> for ExecutionResult -> stub', count=None)
    f.resub(r'\b(\w+)\.exit_code\.into\(\)', r'result_from_code(\1.exit_code)', 'R14', 'From<ExecutionExitCode> for ExecutionResult -> stub (normal control flow)', count=None)
    f.sig(fn, ret='res', ensures=[
        C('C16,C02 what-the-command-run-asked-for-exit-return-break-is-handed-back-with-its-status', '''res is Ok ==> (exists|s: ExecutionSpawnResult| waited(s) is Ok && (match waited(s)->Ok_0 {
    ExecutionWaitResult::Completed(x) => res->Ok_0 == x,
    ExecutionWaitResult::Stopped(_) => res->Ok_0 == stopped_spec(),
}))'''),
    ])
    u.add(f)
    u.raw(FOOTER)
    u.assume('external_body', 'SimpleCommand::execute (U4r) and ExecutionSpawnResult::wait are stubs; the two From impls of results.rs are stubs read off their bodies')
    u.assume('uninterp', 'waited, spawned, stopped_spec, normal_flow')
    u.expected_min_fns = 1
    u.counterexample = replay_scripts(repo, [
        ("trap 'echo T $?' EXIT; command exit 3; echo not-reached", 'T 3\n'),
        ("f() { command return 4; echo not-reached; }; f; echo $?; for i in 1 2; do command break; echo no; done; echo end", '4\nend\n'),
    ])
    return u
