"""U4f: case executor (brush-core/src/interp.rs): first match, `;;` `;&` `;;&`."""
from .common import runtime_options_item
import re
from vx.extract import C
from .exec_common import exec_unit, begin_ast, end_ast, FOOTER

PROPS = ['C02', 'C03', 'C16', 'C08', 'C01']

RUN = 'case_run(new_events(old(shell).trace(), %s.trace()), *self_, outer)'


def build(repo, findings):
    u, interp = exec_unit(
        'U4f', 'case executor vs POSIX/bash fold semantics', repo, ['CompoundList', 'SourceSpan'],
        'pub enum Node { Cmd(ast::CompoundList), ExpandWord(ast::Word), ExpandPat(ast::Word) }\n',
        aux='pub struct Aux { pub s: Seq<char>, pub pat: patterns::Pattern, pub eg: bool, pub ci: bool }\n')
    ast = u.source('brush-parser/src/ast.rs')
    begin_ast(u)
    u.add(ast.item(r'^pub struct Word ', 'Word').r1(keep_derive=()))     # the real struct: a fast path that looks at the raw text of a pattern is then real code too
    u.add(ast.item(r'^pub struct CaseClauseCommand ', 'CaseClauseCommand').r1(keep_derive=()))
    u.add(ast.item(r'^pub struct CaseItem ', 'CaseItem').r1(keep_derive=()))
    u.add(ast.item(r'^pub enum CaseItemPostAction ', 'CaseItemPostAction').r1(keep_derive=()))
    end_ast(u)
    runtime_options_item(u)
    u.prelude('exec/case_spec.rs')
    u.raw('''impl ast::CompoundList {
    #[verifier::external_body]
    pub fn execute(&self, shell: &mut Shell, params: &ExecutionParameters) -> (r: Result<ExecutionResult, error::Error>)
        ensures child_event(old(shell).trace(), final(shell).trace(), Node::Cmd(*self), params.suppress_errexit, r),
    { unimplemented!() }
}
''')
    fn = 'case_clause_execute'
    f = interp.method(r'^impl Execute for ast::CaseClauseCommand ', 'execute', fn)
    f.r1().r2_xtrace().r3().r4().r5_self('ast::CaseClauseCommand', fn)
    f.r13(fn, 0)   # outer loop over clauses contains `continue`
    b1, o1, e1 = f._loop_span(fn, 1)
    inner_continue = re.search(r'\bcontinue\b', f.text[o1:e1]) is not None
    if inner_continue:
        f.r13(fn, 1, itname='__it2')
    f.resub(r'\.contains\(\[([^\]]*)\]\)', r'.vx_contains_any(&[\1])', 'R14', 'str::contains([chars]) -> stub (uninterpreted)', count=None)
    f.sig(fn, ret='res', ensures=[
        C('aux trace-extends', 'old(shell).trace().is_prefix_of(final(shell).trace())'),
        C('C02,C03,C08 case-fold', '''({
    let st = case_run(new_events(old(shell).trace(), final(shell).trace()), *self_, params.suppress_errexit);
    match res {
        Ok(r) => st == St::Done(r.next_control_flow, r.exit_code) && final(shell).status() == u8_of(r.exit_code),
        Err(_) => st is Err,
    }
})'''),
    ])
    f.at_body_start(fn, 'broadcast use {lemma_new_events_push, lemma_case_run_push};\nproof { lemma_new_events_empty(old(shell).trace()); }\nlet ghost outer = params.suppress_errexit;')
    IDX = 'gi'
    f.before(r'^\s*let mut __it = ', 'let ghost mut gi: int = 0;', fn_name=fn)
    f.loop(0, fn_name=fn, invariant_except_break=[
        C('aux', '0 <= gi && gi + __it.remaining().len() == self_.cases@.len()'),
        C('aux', 'forall|i: int| 0 <= i < __it.remaining().len() ==> *(#[trigger] __it.remaining()[i]) == self_.cases@[%s + i]' % IDX),
        C('aux', '__it.obeys_prophetic_iter_laws()'),
        C('aux', 'result.next_control_flow is Normal'),
        C('C02,C03,C08 case-fold-running-every-pattern-is-expanded-and-matched-under-the-extglob-and-nocasematch-options', '''({
    let st = %s;
    let v = expanded_value@;
    if force_execute_next_case { st == select(*self_, v, %s, result.exit_code) }
    else { st == norm_test(*self_, v, %s, 0, result.exit_code) }
})''' % (RUN % 'shell', IDX, IDX)),
    ], invariant=[
        C('aux', 'outer == params.suppress_errexit'),
        C('aux', 'old(shell).trace().is_prefix_of(shell.trace())'),
    ], ensures=[
        C('C02,C03 case-fold-done', (RUN % 'shell') + ' == St::Done(result.next_control_flow, result.exit_code)'),
    ], decreases='self_.cases@.len() - gi', body_first='let ghost r0 = __it.remaining();\nlet ghost idx = gi;\nbroadcast use {lemma_new_events_push, lemma_case_run_push};')
    # facts about the element just pulled (right after the R13 `let case = match __it.next() {..};`)
    f.after_line(r'^\s*None => break,\n\s*\};', 'proof { assert(r0.len() > 0); assert(*case == *r0[0]); assert(__it.remaining() =~= r0.skip(1)); assert(*case == self_.cases@[idx]); gi = gi + 1; }', fn_name=fn)
    # inner loop over the patterns of one clause.  As written it has no `continue` and stays a `for`; a version that has one (Verus takes no
    # `continue` in a for loop) is put into the language-defined loop/next form (R13) with the same invariants over a ghost index.
    if inner_continue:
        f.before(r'^\s*let mut __it2 = ', 'let ghost mut gj: int = 0;', fn_name=fn)
        f.loop(1, fn_name=fn, invariant_except_break=[
            C('aux', '0 <= gj && gj + __it2.remaining().len() == case.patterns@.len()'),
            C('aux', 'forall|i: int| 0 <= i < __it2.remaining().len() ==> *(#[trigger] __it2.remaining()[i]) == case.patterns@[gj + i]'),
            C('aux', '__it2.obeys_prophetic_iter_laws()'),
            C('aux', '!matches'),
            C('C02,C03,C08 case-testing', (RUN % 'shell') + ' == norm_test(*self_, expanded_value@, idx, gj, result.exit_code)'),
        ], invariant=[
            C('aux', 'outer == params.suppress_errexit'),
            C('aux', '0 <= idx < self_.cases@.len() && *case == self_.cases@[idx]'),
            C('aux', 'old(shell).trace().is_prefix_of(shell.trace())'),
        ], ensures=[
            C('C02,C03,C08 case-tested', '''({
    let st = %s;
    if matches { st == select(*self_, expanded_value@, idx, result.exit_code) }
    else { st == norm_test(*self_, expanded_value@, idx + 1, 0, result.exit_code) }
})''' % (RUN % 'shell')),
        ], decreases='case.patterns@.len() - gj', body_first='let ghost r1 = __it2.remaining();\nbroadcast use {lemma_new_events_push, lemma_case_run_push};')
        f.after_line(r'^\s*None => break,\n\s*\};', 'proof { assert(r1.len() > 0); assert(*pattern == *r1[0]); assert(__it2.remaining() =~= r1.skip(1)); assert(*pattern == case.patterns@[gj]); gj = gj + 1; }', fn_name=fn, nth=1)
    else:
        f.loop(1, fn_name=fn, iter_name='it2', invariant_except_break=[
            C('aux', 'it2.index@ + it2.iter.remaining().len() == case.patterns@.len()'),
            C('aux', 'forall|i: int| 0 <= i < it2.iter.remaining().len() ==> *(#[trigger] it2.iter.remaining()[i]) == case.patterns@[it2.index@ + i]'),
            C('aux', '!matches'),
            C('C02,C03,C08 case-testing', (RUN % 'shell') + ' == norm_test(*self_, expanded_value@, idx, it2.index@ as int, result.exit_code)'),
        ], invariant=[
            C('aux', 'outer == params.suppress_errexit'),
            C('aux', '0 <= idx < self_.cases@.len() && *case == self_.cases@[idx]'),
            C('aux', 'old(shell).trace().is_prefix_of(shell.trace())'),
        ], ensures=[
            C('C02,C03 case-tested', '''({
        let st = %s;
        if matches { st == select(*self_, expanded_value@, idx, result.exit_code) }
        else { st == norm_test(*self_, expanded_value@, idx + 1, 0, result.exit_code) }
    })''' % (RUN % 'shell')),
        ], body_first='broadcast use {lemma_new_events_push, lemma_case_run_push};\nproof { assert(*pattern == case.patterns@[it2.index@ as int]); }')
    u.add(f)
    u.raw(FOOTER)
    u.assume('external_body', 'basic_expand_word / basic_expand_pattern are abstract children (one event each); patterns::Pattern and its set_extended_globbing / set_case_insensitive / exactly_matches are opaque with uninterpreted results; Shell::options is a view of opts()')
    u.assume('uninterp', 'pat_with_extglob, pat_with_nocase, match_spec, Shell::opts')
    u.expected_min_fns = 18
    return u
