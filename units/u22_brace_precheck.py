"""U22: may_contain_braces_to_expand (brush-core/src/expansion.rs): the cheap pre-check never rejects a word with a brace pair."""
from vx.unit import Unit
from vx.extract import C

PROPS = ['C05', 'C01']
HEADER = 'use vstd::prelude::*;\nuse vstd::std_specs::iter::IteratorSpec;\nverus! {\n'
FOOTER = '\n} // verus!\nfn main() {}\n'


def build(repo, findings):
    u = Unit('U22', 'brace pre-check accepts every word that has an opening and a later closing brace', repo, ['C05'], safety_props=['C01', 'C05'])
    src = u.source('brush-core/src/expansion.rs')
    u.raw(HEADER)
    u.prelude('braces/precheck_spec.rs')
    fn = 'may_contain_braces_to_expand'
    f = src.item(r'^fn may_contain_braces_to_expand\(', fn).r1().r11()
    f.sig(fn, ret='r', ensures=[C('C05 pre-check-accepts-every-word-with-a-brace-pair', 'has_brace_pair(s@) ==> r')])
    H = 'it.history@'
    f.loop(0, fn_name=fn, iter_name='it', invariant=[
        C('aux', '%s + it.iter.remaining() == s@' % H),
        C('aux escape-flag-set-after-every-backslash', '(%s.len() > 0 && %s.last() == \'\\\\\') ==> last_was_escape' % (H, H)),
        C('aux dollar-flag-implies-dollar-before-next', 'last_was_unescaped_dollar_sign ==> dollar_before(%s.push(\'{\'), %s.len() as int)' % (H, H)),
        C('C05 every-opening-brace-so-far-was-noticed', '(exists|i: int| #[trigger] opens(%s, i)) ==> saw_opening_brace' % H),
        C('C05 every-closing-brace-so-far-was-noticed', '(exists|j: int| 0 <= j < %s.len() && #[trigger] %s[j] == \'}\') ==> saw_closing_brace' % (H, H)),
        C('C05 no-pair-so-far', 'forall|i: int, j: int| #![trigger opens(%s, i), %s[j]] !(opens(%s, i) && i < j < %s.len() && %s[j] == \'}\')' % (H, H, H, H, H)),
    ], body_first='''proof {
    let h0 = it.history@;
    let h1 = h0.push(c);
    assert(h1.drop_last() =~= h0);
    assert forall|i: int| opens(h1, i) == (opens(h0, i) || (i == h0.len() && c == '{' && !dollar_before(h1, i))) by {
        if 0 <= i < h0.len() { assert(h1[i] == h0[i]); if i > 0 { assert(h1[i - 1] == h0[i - 1]); } if i > 1 { assert(h1[i - 2] == h0[i - 2]); } }
    }
    assert(dollar_before(h0.push('{'), h0.len() as int) == dollar_before(h1, h0.len() as int)) by {
        if h0.len() > 0 { assert(h0.push('{')[h0.len() - 1] == h1[h0.len() - 1]); } if h0.len() > 1 { assert(h0.push('{')[h0.len() - 2] == h1[h0.len() - 2]); }
    }
}''')
    u.add(f)
    u.raw(FOOTER)
    u.assume('stub', 'the brace grammar itself (brush-parser word.rs brace_expansions, a peg::parser! rule) and braceexpansion.rs generate_and_combine are NOT covered by this unit; the necessary condition is written from the bash manual')
    u.expected_min_fns = 1
    return u
