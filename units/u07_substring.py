"""U7 substring: offset/length arithmetic of ${v:o:l} (slice of the Substring arm, brush-core/src/expansion.rs)."""
from vx.unit import Unit
from vx.extract import C

PROPS = ['C06', 'C01']
HEADER = 'use vstd::prelude::*;\nuse vstd::std_specs::cmp::OrdSpec;\nuse std::cmp::min;\nverus! {\n'
FOOTER = '\n} // verus!\nfn main() {}\n'


def build(repo, findings):
    u = Unit('U7', 'substring offset/length arithmetic', repo, ['C06'], safety_props=['C01', 'C06'])
    src = u.source('brush-core/src/expansion.rs')
    er = u.source('brush-core/src/error.rs')
    er.require_text(r'\bCheckedExpansionError\(String\)', 'projected variant ErrorKind::CheckedExpansionError')
    src.require_text(r'^struct Expansion \{(?:[^}]|\n)*?from_array: bool,', 'projected field Expansion.from_array')
    u.raw(HEADER)
    u.prelude('std/int_ops.rs')
    u.prelude('substring/spec.rs')
    fn = 'substring_bounds'
    f = src.slice('expand_parameter_expr', r'^\s*let expanded_parameter_len = expanded_parameter\.polymorphic_len\(\) as i64;',
                  r'^\s*\.polymorphic_subslice\(',
                  "fn substring_bounds(self_: &mut WordExpander<'_>, expanded_parameter: Expansion, offset: ArithExpr, length: Option<ArithExpr>) -> Result<Expansion, error::Error>", fn)
    f.r1().r3()
    f.resub(r'\bself\.', 'self_.', 'R6', 'slice wrapper: self -> self_', count=None)
    f.resub(r'std::format!\((?:[^()]|\n)*?\)', 'vx_format()', 'R8', 'format! -> opaque String stub (message text lost)', count=None)
    f.sig(ret='res', requires=[C('aux length-fits', 'expanded_parameter.plen() <= i64::MAX')], ensures=[
        C('C06 substring-bounds', '''({
    let n = expanded_parameter.plen() as int;
    let l = match length { Some(e) => Some(e.val() as int), None => None::<int> };
    match res {
        Ok(r) => sub_bounds(n, expanded_parameter.from_array, offset.val() as int, l) is Some
            && r.slice_of(expanded_parameter, sub_bounds(n, expanded_parameter.from_array, offset.val() as int, l)->Some_0.0, sub_bounds(n, expanded_parameter.from_array, offset.val() as int, l)->Some_0.1),
        Err(_) => true,       // evaluation of offset/length may fail; the bash error case is the next clause
    }
})'''),
        C('C06 no-other-error (a substring that ends exactly where it starts is empty, not an error)', '''({
    let n = expanded_parameter.plen() as int;
    let l = match length { Some(e) => Some(e.val() as int), None => None::<int> };
    (offset.evaluates() && (length is Some ==> length->Some_0.evaluates()) && sub_bounds(n, expanded_parameter.from_array, offset.val() as int, l) is Some) ==> res is Ok
})'''),
        C('C06 negative-length-before-start-is-an-error', '''(length is Some && length->Some_0.val() < 0 && (expanded_parameter.from_array
    || expanded_parameter.plen() + length->Some_0.val() < start_of(expanded_parameter.plen() as int, offset.val() as int))) ==> res is Err'''),
    ])
    u.add(f)
    u.raw(FOOTER)
    u.assume('assume_specification', 'contracts/std/int_ops.rs incl. core::cmp::min (discharged by Kani in the thorough tier)')
    u.assume('external_body', 'Expansion::polymorphic_len / polymorphic_subslice are stubs (the subslice body — chars/skip/take/collect — is NOT verified by Verus; its panic-freedom precondition `index <= end && index <= len` is what this unit proves at the call site); ArithExpr::eval is abstract; vx_format stands for format!; Shell, ExecutionParameters opaque')
    u.assume('uninterp', 'Expansion::plen, slice_of, ArithExpr::val / evaluates')
    u.expected_min_fns = 1
    return u
