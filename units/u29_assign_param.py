"""U29: WordExpander::assign_to_parameter (brush-core/src/expansion.rs): how the subscript of ${a[k]:=w} is interpreted."""
from vx.unit import Unit
from vx.extract import C

PROPS = ['C06', 'C09', 'C01']
HEADER = 'use vstd::prelude::*;\nuse vstd::std_specs::convert::*;\nverus! {\n'
FOOTER = '\n} // verus!\nfn main() {}\n'


def build(repo, findings):
    u = Unit('U29', 'assigning default: the subscript of an associative array (set or only declared) is a string key', repo, ['C06', 'C09'], safety_props=['C01', 'C06'])
    ex = u.source('brush-core/src/expansion.rs')
    va = u.source('brush-core/src/variables.rs')
    wd = u.source('brush-parser/src/word.rs')
    ev = u.source('brush-core/src/env.rs')
    ev.require_text(r'pub enum EnvironmentLookup \{(?:[^}]|\n)*?\bAnywhere,(?:[^}]|\n)*?\bOnlyInGlobal,(?:[^}]|\n)*?\bOnlyInCurrentLocal,(?:[^}]|\n)*?\bOnlyInLocal,', 'projected variants of EnvironmentLookup')
    ev.require_text(r'pub enum EnvironmentScope \{(?:[^}]|\n)*?\bLocal,(?:[^}]|\n)*?\bGlobal,(?:[^}]|\n)*?\bCommand,', 'projected variants of EnvironmentScope')
    u.raw(HEADER)
    u.add(va.item(r'^pub enum ShellValueUnsetType ', 'ShellValueUnsetType').r1(keep_derive=()))
    sv = va.item(r'^pub enum ShellValue ', 'ShellValue').r1(keep_derive=())
    sv.replace('BTreeMap<String, String>', 'AssocMap', 'R9', 'payload type -> opaque stub').replace('BTreeMap<u64, String>', 'IndexedMap', 'R9', 'payload type -> opaque stub')
    u.add(sv)
    u.raw('pub mod brush_parser { pub mod word {\nuse vstd::prelude::*;\npub use super::super::SpecialParameter;\n')
    u.add(wd.item(r'^pub enum Parameter ', 'Parameter').r1(keep_derive=()))
    u.raw('} }\n')
    u.prelude('vars/assign_param_spec.rs')
    fn = 'assign_to_parameter'
    f = ex.method_anywhere(fn).r1().r3()
    f.replace('async fn assign_to_parameter<T: Into<String>>(', 'fn assign_to_parameter(', 'R10', 'generic T: Into<String> instantiated at String') if 'async fn assign_to_parameter<T: Into<String>>(' in f.text else f.replace('fn assign_to_parameter<T: Into<String>>(', 'fn assign_to_parameter(', 'R10', 'generic T: Into<String> instantiated at String')
    f.replace('value: T,', 'value: String,', 'R10', 'generic T: Into<String> instantiated at String')
    f.resub(r'let value = value\.into\(\);\n', '', 'R10', '`value.into()` is the identity at String', count=None)
    f.resub(r'self\s*\.shell\s*\.env\(\)\s*\.get\(name\)', 'env_get(&*self.shell, name)', 'R14', 'environment lookup -> stub', count=None)
    f.resub(r'env_get\(&\*self\.shell, name\)\s*\.is_some_and\(\|(\([^|]*\))\| ([^;]*)\);', r'match env_get(&*self.shell, name) { Some(\1) => \2, None => false };', 'R14', 'Option::is_some_and(|pat| e) -> match { Some(pat) => e, None => false } (std)', count=None)
    f.resub(r'self\.shell\.env_mut\(\)\.update_or_add_array_element\(\s*variable_name,\s*index,\s*value,.*?\)\n', 'env_update_or_add_array_element(&mut *self.shell, variable_name, index, value)\n', 'R14', 'environment write -> stub', flags=16)
    f.resub(r'self\.shell\.env_mut\(\)\.update_or_add\(\s*variable_name,\s*variables::ShellValueLiteral::Scalar\(value\),\s*\|_\| Ok\(\(\)\),\s*(env::EnvironmentLookup::\w+),\s*(env::EnvironmentScope::\w+),?\s*\)\n', r'env_update_or_add_scalar(&mut *self.shell, variable_name, value, \1, \2)\n', 'R14', 'environment write -> stub that keeps the lookup policy and the creation scope', flags=16)
    f.sig(fn, ret='res', ensures=[
        C('C06,C09 subscript-kind-follows-the-declared-kind-of-the-variable', '''match *parameter {
    brush_parser::word::Parameter::NamedWithIndex { name, index } => final(self).evals@ == old(self).evals@.push(IndexEval { index: index@,
        as_string_key: match lookup_spec(*old(self).shell, name@) { Some(v) => is_associative(v.val), None => false } }),
    _ => final(self).evals@ == old(self).evals@,
}'''),
        C('C06 special-and-positional-parameters-cannot-be-assigned', '''(*parameter is Positional || *parameter is Special || *parameter is NamedWithAllIndices) ==> res is Err'''),
    ])
    u.raw("impl<'a> WordExpander<'a> {")
    u.add(f)
    u.raw('}\n')
    u.raw(FOOTER)
    u.assume('external_body', 'environment lookup / writes and expand_array_index are stubs (the latter logs whether the subscript was taken as a string key); payload types of ShellValue are opaque')
    u.assume('uninterp', 'lookup_spec')
    u.assume('stub', 'the read half of ${a[k]:=w} (expand_parameter) and the writers update_or_add* are NOT covered')
    u.expected_min_fns = 1
    return u
