"""U79: the Capitalize arm of ShellVariable::apply_value_transforms (brush-core/src/variables.rs, R6 block slice): the first character
of the lower-cased value is replaced through a byte range that ends on a character boundary (String::replace_range panics otherwise:
`declare -c x; x=éab` did, repaired in 5e514ac)."""
from vx.unit import Unit
from vx.extract import C
from .common import replay_scripts

PROPS = ['C01', 'C09']
HEADER = 'use vstd::prelude::*;\nverus! {\n'
FOOTER = '\n} // verus!\nfn main() {}\n'


def build(repo, findings):
    u = Unit('U79', 'capitalise attribute: the first character is replaced through a range that ends on a character boundary', repo, PROPS, safety_props=['C01'])
    vs = u.source('brush-core/src/variables.rs')
    u.raw(HEADER)
    u.prelude('std/utf8.rs')
    u.raw('''#[verifier::external_body] pub fn string_to_lowercase(s: &String) -> String { unimplemented!() }                                   // str::to_lowercase (arbitrary text here)
#[verifier::external_body] pub fn str_first_char(s: &String) -> (r: Option<char>) ensures r is Some ==> s@.len() > 0 && r->Some_0 == s@[0], r is None ==> s@.len() == 0 { unimplemented!() }   // s.chars().next()
#[verifier::external_body] pub fn char_to_uppercase_string(c: char) -> String { unimplemented!() }                                     // c.to_uppercase().to_string()
#[verifier::external_body] pub fn char_len_utf8(c: char) -> (r: usize) ensures r == utf8_len(c) { unimplemented!() }                   // char::len_utf8
// String::replace_range(0..end, with): panics unless `end` is a character boundary (0 always is)
#[verifier::external_body]
pub fn string_replace_range_to(s: &mut String, end: usize, with: &String)
    requires boundary(old(s)@, end as int),
{ unimplemented!() }
''')
    fn = 'capitalize_value'
    f = vs.block_slice(r'^\s*ShellVariableUpdateTransform::Capitalize => \{$', 'fn capitalize_value(s: &mut String)', fn, within_fn='apply_value_transforms')
    f.r1()
    f.resub(r'\*s = s\.to_lowercase\(\);', '*s = string_to_lowercase(s);', 'R14', 'str::to_lowercase -> stub', count=1)
    f.resub(r'\bs\.chars\(\)\.next\(\)', 'str_first_char(s)', 'R14', 'chars().next() -> stub (the first character, if any)', count=None)
    f.resub(r'\bc\.len_utf8\(\)', 'char_len_utf8(c)', 'R19', 'char::len_utf8 -> stub over the byte-offset library', count=None)
    f.resub(r's\.replace_range\(0\.\.([^,]+), &c\.to_uppercase\(\)\.to_string\(\)\);', r'string_replace_range_to(s, \1, &char_to_uppercase_string(c));', 'R19', 'String::replace_range(0..end, text) -> stub whose precondition is std\'s panic condition', count=None)
    f.before(r'^\s*string_replace_range_to\(', 'proof { lemma_first_char_boundary(s@); lemma_boundary_zero_and_end(s@); }', fn_name=fn)
    f.sig(fn)
    u.add(f)
    u.raw(FOOTER)
    u.assume('external_body', 'to_lowercase / to_uppercase give arbitrary text here; replace_range is a stub with std\'s panic condition as precondition')
    u.assume('stub', 'what capitalising produces (U25 covers ${x^}) is not specified here; only that it cannot panic')
    u.expected_min_fns = 1
    u.counterexample = replay_scripts(repo, [
        ('declare -c x; x=éab; echo "$x"; x=hELLO; echo "$x"; x=; echo "[$x]"', 'Éab\nHello\n[]\n'),
    ])
    return u
