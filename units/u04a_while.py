"""U4a: while/until executor (brush-core/src/interp.rs) against the POSIX fold semantics."""
from vx.extract import C
from .exec_common import exec_unit, begin_ast, end_ast, child_stub, FOOTER

PROPS = ['C02', 'C03', 'C16', 'C01']

RUN = 'wrun(new_events(old(shell).trace(), %s.trace()), %s, params.suppress_errexit, self_.1.0, self_.1.1.list)'


def build(repo, findings):
    u, interp = exec_unit('U4a', 'while/until executor vs POSIX fold semantics', repo,
                          ['CompoundList', 'SourceSpan'], 'pub enum Node { List(ast::CompoundList) }\n')
    ast = u.source('brush-parser/src/ast.rs')
    begin_ast(u)
    u.add(ast.item(r'^pub struct WhileOrUntilClauseCommand\(', 'WhileOrUntilClauseCommand').r1(keep_derive=()))
    u.add(ast.item(r'^pub struct DoGroupCommand ', 'DoGroupCommand').r1(keep_derive=()))
    end_ast(u)
    u.prelude('exec/while_spec.rs')
    u.raw(child_stub('CompoundList', 'Node::List(*self)'))
    u.add(interp.item(r'^enum WhileOrUntil ', 'WhileOrUntil').r1().r11())
    f = interp.method(r'^impl Execute for \(WhileOrUntil, &ast::WhileOrUntilClauseCommand\) ', 'execute', 'while_or_until_execute')
    f.r1().r3().r4().r5_self('(WhileOrUntil, &ast::WhileOrUntilClauseCommand)', 'while_or_until_execute')
    f.sig('while_or_until_execute', ret='res', attrs=['#[verifier::exec_allows_no_decreases_clause]'], ensures=[
        C('aux trace-extends', 'old(shell).trace().is_prefix_of(final(shell).trace())'),
        C('C02,C03 while-fold', '''({
    let st = %s;
    match res {
        Ok(r) => st == St::Done(r.next_control_flow, r.exit_code) && final(shell).status() == u8_of(r.exit_code),
        Err(_) => st is Err,
    }
})''' % (RUN % ('final(shell)', 'self_.0 is While'))),
    ])
    f.loop(0, fn_name='while_or_until_execute', invariant_except_break=[
        C('aux', 'old(shell).trace().is_prefix_of(shell.trace())'),
        C('C03 cond-suppressed', 'condition_params.suppress_errexit'),
        C('aux', 'is_while == (self_.0 is While)'),
        C('aux', '*test_condition == self_.1.0'),
        C('aux', 'body.list == self_.1.1.list'),
        C('aux', 'result.next_control_flow is Normal'),
        C('C02,C03 while-fold-running', (RUN % ('shell', 'is_while')) + '\n    == (St::Running { expect_cond: true, last_code: result.exit_code })'),
    ], ensures=[
        C('aux', 'old(shell).trace().is_prefix_of(shell.trace())'),
        C('C02,C03 while-fold-done', (RUN % ('shell', 'is_while')) + '\n    == St::Done(result.next_control_flow, result.exit_code)'),
    ], body_first='broadcast use {lemma_new_events_push, lemma_wrun_push};')
    f.at_body_start('while_or_until_execute', 'proof { lemma_new_events_empty(shell.trace()); }')
    u.add(f)
    u.raw(FOOTER)
    u.assume('exec_allows_no_decreases_clause', 'while/until may legitimately run forever; termination is not claimed for command loops')
    u.expected_min_fns = 18
    return u
