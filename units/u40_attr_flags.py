"""U40: ShellVariable::attribute_flags (brush-core/src/variables.rs): each attribute letter appears iff the variable has the attribute,
independently of the others, in bash's order."""
from vx.unit import Unit
from vx.extract import C

PROPS = ['C13', 'C09']
HEADER = 'use vstd::prelude::*;\nverus! {\n'
FOOTER = '\n} // verus!\nfn main() {}\n'
ACCESSORS = ['is_exported', 'is_readonly', 'is_trace_enabled', 'get_update_transform', 'is_treated_as_integer', 'is_treated_as_nameref']


def build(repo, findings):
    u = Unit('U40', 'attribute letters of declare -p / ${v@A}: one per attribute, each on its own', repo, ['C13', 'C09'], safety_props=['C13'])
    vs = u.source('brush-core/src/variables.rs')
    u.raw(HEADER)
    u.add(vs.item(r'^pub enum ShellVariableUpdateTransform ', 'ShellVariableUpdateTransform').r1(keep_derive=('Clone', 'Copy')))
    st = vs.item(r'^pub struct ShellVariable ', 'ShellVariable').r1(keep_derive=()).pub_fields()
    u.add(st)
    u.prelude('vars/attr_flags_spec.rs')
    u.raw('impl ShellVariable {')
    for a in ACCESSORS:
        f = vs.method_anywhere(a).r1()
        field = {'is_exported': 'exported', 'is_readonly': 'readonly', 'is_trace_enabled': 'trace', 'get_update_transform': 'transform_on_update',
                 'is_treated_as_integer': 'treat_as_integer', 'is_treated_as_nameref': 'treat_as_nameref'}[a]
        f.sig(a, ret='r', ensures=[C('aux accessor', 'r == self.%s' % field)])
        u.add(f)
    fn = 'attribute_flags'
    g = vs.method_anywhere(fn).r1().r4()
    g.sig(fn, ret='r', ensures=[C('C13,C09 one-letter-per-attribute-each-on-its-own-in-bash-order', 'r@ == flags_spec(*self, self.resolved(*shell))')])
    n_ifs = len(__import__('re').findall(r'^\s*if (?:value\b|matches!|self\b)', g.text, __import__('re').M))
    for k in range(n_ifs - 1, -1, -1):     # from the last one backwards so that the ordinals of the earlier anchors stay put
        g.before(r'^\s*if (?:value\b|matches!|self\b)', 'proof { reveal_with_fuel(flags_upto, 2); assert(result@ =~= flags_upto(*self, value, %d)); }' % k, fn_name=fn, nth=k)
    g.before(r'^\s*result$', 'proof { reveal_with_fuel(flags_upto, 2); assert(result@ =~= flags_upto(*self, value, %d)); lemma_flags_all(*self, value); }' % n_ifs, fn_name=fn)
    u.add(g)
    u.raw('}\n')
    u.raw(FOOTER)
    u.assume('external_body', 'resolve_value (dynamic variables) and ShellValue::is_indexed_array / is_associative_array are stubs with uninterpreted results; Shell opaque')
    u.assume('uninterp', 'ShellValue::indexed / assoc, ShellVariable::resolved')
    u.assume('stub', 'the format strings of declare -p and ${v@A} that put the letters after `declare -` are NOT verified')
    u.rlimit = 40          # ten chained sequence equalities: some z3 seeds need more than the default budget (seed-stability run of the thorough tier)
    u.expected_min_fns = 7
    return u
