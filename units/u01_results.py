"""U1 results: break/continue level algebra and exit-code round trip (brush-core/src/results.rs)."""
from vx.unit import Unit
from .common import HEADER, FOOTER, results_items

PROPS = ['C02', 'C03', 'C01']


def build(repo, findings):
    u = Unit('U1', 'results.rs control-flow and exit-code kernel', repo, ['C02', 'C03'], safety_props=['C01', 'C02'])
    u.raw(HEADER)
    results_items(u, 'C02,C03')
    u.prelude('results/lemmas.rs')
    u.raw(FOOTER)
    u.expected_min_fns = 15
    return u
