"""U65: WordExpander::expand_parameter_without_indirect (brush-core/src/expansion.rs), whole function with the real Parameter /
SpecialParameter enums: every form of parameter without a value goes to undefined_expansion with the caller's tolerance flag
unchanged, and only then; `$@`-like forms are never unset.  Lookups, subscripts and the "all elements" arm are abstract."""
import re
from vx.unit import Unit
from vx.extract import C, ExtractError
from .common import replay_scripts

PROPS = ['C03', 'C06']
HEADER = 'use vstd::prelude::*;\nverus! {\n'
FOOTER = '\n} // verus!\nfn main() {}\n'
UNDEF = 'undef_spec(%s, *parameter, allow_unset_vars)'


def build(repo, findings):
    u = Unit('U65', 'parameter lookup: no value means undefined_expansion with the caller\'s flag, for every form of parameter', repo, PROPS, safety_props=[])
    ex = u.source('brush-core/src/expansion.rs')
    wd = u.source('brush-parser/src/word.rs')
    u.raw(HEADER)
    u.raw('pub mod brush_parser { pub mod word {\nuse vstd::prelude::*;\n')
    u.add(wd.item(r'^pub enum SpecialParameter ', 'SpecialParameter').r1(keep_derive=()))
    u.add(wd.item(r'^pub enum Parameter ', 'Parameter').r1(keep_derive=()))
    u.raw('}}\n')
    u.prelude('expansion/param_lookup_spec.rs')
    fn = 'expand_parameter_without_indirect'
    f = ex.method_anywhere(fn).r1().r3()
    f.resub(r'Expansion::from\((\w+)\.to_owned\(\)\)', r'expansion_from(\1.clone())', 'R14', 'From<String> for Expansion -> stub; to_owned on &String -> clone', count=None)
    f.resub(r'Expansion::from\(value\.to_string\(\)\)', 'expansion_from(cow_to_string(value))', 'R17', 'Cow<str>::to_string -> the owned text', count=None)
    f.resub(r'\bExpansion::from\(', 'expansion_from(', 'R14', 'From<String> for Expansion -> stub', count=None)
    f.resub(r'Err\(error::ErrorKind::BadSubstitution\((\w+)\.clone\(\)\)\.into\(\)\)', r'Err(bad_substitution(\1.clone()))', 'R14', 'ErrorKind::..into() -> stub', count=None)
    f.resub(r'\benv::valid_variable_name\(', 'valid_variable_name(', 'R4', 'crate path', count=None)
    f.resub(r'self\.shell\.env\(\)\.get\((\w+)\)', r'self.shell.env().get_str(\1.as_str())', 'R14', 'ShellEnvironment::get (generic over AsRef<str>) -> get_str(&str)', count=None)
    f.resub(r'matches!\(var\.value\(\), ShellValue::Unset\(_\)\)', 'var.value().vx_is_unset()', 'R14', 'matches! on the opaque ShellValue -> stub', count=None)
    f.resub(r'matches!\(\s*var\.value\(\),\s*ShellValue::AssociativeArray\(_\)\s*\|\s*ShellValue::Unset\(ShellValueUnsetType::AssociativeArray\)\s*\)', 'var.value().vx_is_assoc()', 'R14', 'matches! on the opaque ShellValue -> stub', count=None)
    f.resub(r'var\.value\(\)\.try_get_cow_str\(self\.shell\)', 'var.value().try_get_cow_str(&self.shell)', 'R14', 'reborrow of the `&mut` field spelled out', count=None)
    f.resub(r'let Ok\(Some\(value\)\) = var\.value\(\)\.get_at\(([^,]+), self\.shell\)', r'let Some(value) = var.value().get_at_ok_some(\1, &self.shell)', 'R14', '`let Ok(Some(v)) = get_at(..)` -> stub returning that reading', count=None)
    # the NamedWithAllIndices arm builds its value with iterator adapters: its block becomes one stub call
    m = re.search(r'(Parameter::NamedWithAllIndices \{ name, concatenate \} => \{\n)(.*)(\n\s*\}\n\s*\}\n\s*\}\s*)$', f.text, re.S)
    if not m or 'undefined: false' not in m.group(2) or 'undefined_expansion' in m.group(2):
        raise ExtractError('unsupported: the NamedWithAllIndices arm of %s is not the last arm / may be undefined' % fn)
    f.resub(re.escape(m.group(2)), '                Ok(self.all_elements(name, *concatenate))', 'R14', 'the arm for `${a[@]}` (iterator adapters; never undefined: `undefined: false` in both branches, checked) -> stub', count=1)
    S0 = 'old(self).shell'
    f.sig(fn, ret='res', ensures=[
        C('C03 an-unset-positional-parameter-is-undefined-with-the-callers-flag', '''parameter is Positional ==> ({ let p = parameter->Positional_0;
    if p == 0 { res == Ok::<Expansion, error::Error>(special_spec(%s, brush_parser::word::SpecialParameter::ShellName)) }
    else if (p - 1) < args_spec(%s).len() { res == Ok::<Expansion, error::Error>(exp_from(args_spec(%s)[p - 1]@)) }
    else { res == %s } })''' % (S0, S0, S0, UNDEF % S0)),
        C('C03 a-special-parameter-always-has-a-value', 'parameter is Special ==> res == Ok::<Expansion, error::Error>(special_spec(%s, parameter->Special_0))' % S0),
        C('C03,C06 a-name-without-a-value-is-undefined-with-the-callers-flag', '''parameter is Named ==> ({ let n = parameter->Named_0@;
    if !valid_name(n) { res is Err }
    else { match var_of(%s, n) {
        None => res == %s,
        Some(var) => if is_unset_value(value_of(var)) { res == %s } else { match cow_spec(value_of(var), %s) {
            Some(t) => res == Ok::<Expansion, error::Error>(exp_from(t)),
            None => res == %s } } } } })''' % (S0, UNDEF % S0, UNDEF % S0, S0, UNDEF % S0)),
        C('C03,C06 a-missing-array-element-is-undefined-with-the-callers-flag-whatever-kind-of-array', '''parameter is NamedWithIndex ==> ({
    let name = parameter->NamedWithIndex_name@; let index = parameter->NamedWithIndex_index@;
    let assoc = match var_of(%s, name) { Some(var) => is_assoc_value(value_of(var)), None => false };
    match index_spec(%s, index, assoc) {
        None => res is Err,
        Some((ix, sh)) => match var_of(sh, name) {
            None => res == undef_spec(sh, *parameter, allow_unset_vars),
            Some(var) => match at_spec(value_of(var), ix, sh) {
                Some(t) => res == Ok::<Expansion, error::Error>(exp_from(t)),
                None => res == undef_spec(sh, *parameter, allow_unset_vars) } } } })''' % (S0, S0)),
        C('C03 all-elements-of-an-array-are-never-unset', 'parameter is NamedWithAllIndices ==> res == Ok::<Expansion, error::Error>(all_spec(%s, parameter->NamedWithAllIndices_name@, parameter->NamedWithAllIndices_concatenate))' % S0),
    ])
    u.raw("impl WordExpander {")
    u.add(f)
    u.raw('}\n')
    u.raw(FOOTER)
    u.assume('external_body', 'Shell, Expansion, ShellVariable, ShellValue are opaque; variable lookup, the scalar reading (U42), get_at, subscript evaluation (may change the shell), expand_special_parameter and the `${a[@]}` arm are stubs with uninterpreted results; undefined_expansion carries the contract proved for it in U3')
    u.assume('uninterp', 'exp_from, special_spec, undef_spec, args_spec, valid_name, var_of, value_of, is_unset_value, is_assoc_value, cow_spec, at_spec, index_spec, all_spec, env_shell')
    u.expected_min_fns = 1
    u.counterexample = replay_scripts(repo, [
        ('set -u; declare -A m=([k]=v); echo "[${m[k]}]"; echo "[${m[zz]}]"; echo after', '[v]\n'),
        ('set -u; a=(x); echo "[${a[0]}]"; echo "[${a[3]}]"; echo after', '[x]\n'),
        ('set -u; set -- p; echo "[$1]"; echo "[$2]"; echo after', '[p]\n'),
        ('set -u; declare -A m=([k]=v); echo "[${m[zz]-d}] [${a[@]}] [$*] [${m[zz]+s}]"', '[d] [] [] []\n'),
    ])
    return u
