"""U4e: AndOrList executor (brush-core/src/interp.rs) — short-circuit by skipping; errexit exemption of non-final operands."""
from vx.extract import C
from .exec_common import exec_unit, begin_ast, end_ast, child_stub, FOOTER

PROPS = ['C02', 'C03', 'C16', 'C01']

STATE = '''({
    let st = ao_run(new_events(old(shell).trace(), shell.trace()), *self_, outer);
    &&& st is Running
    &&& st->cf == result.next_control_flow && st->code == result.exit_code
    &&& 0 <= st->k%s
    &&& result.next_control_flow is Normal ==> forall|j: int| st->k <= j < %s ==> !eligible(#[trigger] self_.additional@[j], result.exit_code is Success)
})'''


def build(repo, findings):
    u, interp = exec_unit('U4e', 'and-or list executor vs POSIX fold semantics', repo,
                          ['Pipeline'], 'pub enum Node { Pipe(ast::Pipeline) }\n')
    ast = u.source('brush-parser/src/ast.rs')
    begin_ast(u)
    u.add(ast.item(r'^pub struct AndOrList ', 'AndOrList').r1(keep_derive=()))
    u.add(ast.item(r'^pub enum AndOr ', 'AndOr').r1(keep_derive=()))
    end_ast(u)
    u.prelude('exec/andor_spec.rs')
    u.raw(child_stub('Pipeline', 'Node::Pipe(*self)'))
    f = interp.method(r'^impl Execute for ast::AndOrList ', 'execute', 'and_or_list_execute')
    f.r1().r3().r4().r5_self('ast::AndOrList', 'and_or_list_execute')
    f.r12('and_or_list_execute', 0).r13('and_or_list_execute', 0, into_iter=False)
    fn = 'and_or_list_execute'
    f.sig(fn, ret='res', ensures=[
        C('aux trace-extends', 'old(shell).trace().is_prefix_of(final(shell).trace())'),
        C('C02,C03 andor-fold', '''({
    let st = ao_run(new_events(old(shell).trace(), final(shell).trace()), *self_, params.suppress_errexit);
    match res { Ok(r) => ao_finished(st, *self_, r), Err(_) => st is Err }
})'''),
    ])
    f.at_body_start(fn, 'broadcast use {lemma_new_events_push, lemma_run_push};\nproof { lemma_new_events_empty(old(shell).trace()); }\nlet ghost outer = params.suppress_errexit;')
    f.loop(0, fn_name=fn, invariant=[
        C('aux', '__n + __it.remaining().len() == self_.additional@.len()'),
        C('aux', 'forall|i: int| 0 <= i < __it.remaining().len() ==> *(#[trigger] __it.remaining()[i]) == self_.additional@[__n + i]'),
        C('aux', '__it.obeys_prophetic_iter_laws()'),
        C('aux', 'outer == params.suppress_errexit'),
        C('aux', 'old(shell).trace().is_prefix_of(shell.trace())'),
        C('C02,C03 andor-fold-running', STATE % (' <= __n', '__n')),
    ], ensures=[
        C('aux', 'old(shell).trace().is_prefix_of(shell.trace())'),
        C('C02,C03 andor-fold-done', STATE % ('', 'self_.additional@.len()')),
    ], decreases='self_.additional@.len() - __n', body_first='let ghost r0 = __it.remaining();')
    f.before(r'^\s*let index = __n;', 'proof { assert(r0.len() > 0); assert(*next_ao == *r0[0]); assert(__it.remaining() =~= r0.skip(1)); assert(__n + r0.len() == self_.additional@.len()); assert(self_.additional.len() == self_.additional@.len()); assert(__n < usize::MAX); }\nbroadcast use {lemma_new_events_push, lemma_run_push};', fn_name=fn)
    f.after_line(r'^\s*__n \+= 1;', 'proof { assert(*next_ao == self_.additional@[index as int]); }', fn_name=fn)
    hint = 'proof { assert(!eligible(self_.additional@[index as int], result.exit_code is Success)); }'
    f.before(r'^\s*continue;', hint, nth=None, optional=True, fn_name=fn)
    f.before(r'^\s*result = pipeline\.execute\(shell, &params\)\?;', '''proof {
    let st = ao_run(new_events(old(shell).trace(), shell.trace()), *self_, outer);
    lemma_skip(*self_, st->k, index as int, result.exit_code is Success);
    assert(eligible(self_.additional@[index as int], result.exit_code is Success));
    assert(next_eligible(*self_, index as int, result.exit_code is Success) == index);
    assert(ao_pipe(self_.additional@[index as int]) == *pipeline);
}''', fn_name=fn)
    f.before(r'^\s*Ok\(result\)$', '''proof {
    let st = ao_run(new_events(old(shell).trace(), shell.trace()), *self_, outer);
    if result.next_control_flow is Normal { lemma_none(*self_, st->k, result.exit_code is Success); }
}''', fn_name=fn)
    u.add(f)
    u.raw(FOOTER)
    u.expected_min_fns = 18
    return u
