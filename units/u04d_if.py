"""U4d: if/elif/else executor (brush-core/src/interp.rs)."""
from vx.extract import C
from .exec_common import exec_unit, begin_ast, end_ast, child_stub, FOOTER

PROPS = ['C02', 'C03', 'C16', 'C01']

RUN = 'if_run(new_events(old(shell).trace(), %s.trace()), *self_, params.suppress_errexit)'


def build(repo, findings):
    u, interp = exec_unit('U4d', 'if/elif/else executor vs POSIX fold semantics', repo,
                          ['CompoundList', 'SourceSpan'], 'pub enum Node { List(ast::CompoundList) }\n')
    ast = u.source('brush-parser/src/ast.rs')
    begin_ast(u)
    u.add(ast.item(r'^pub struct IfClauseCommand ', 'IfClauseCommand').r1(keep_derive=()))
    u.add(ast.item(r'^pub struct ElseClause ', 'ElseClause').r1(keep_derive=()))
    end_ast(u)
    u.prelude('exec/if_spec.rs')
    u.raw(child_stub('CompoundList', 'Node::List(*self)'))
    fn = 'if_clause_execute'
    f = interp.method(r'^impl Execute for ast::IfClauseCommand ', 'execute', fn)
    f.r1().r3().r4().r5_self('ast::IfClauseCommand', fn)
    f.sig(fn, ret='res', ensures=[
        C('aux trace-extends', 'old(shell).trace().is_prefix_of(final(shell).trace())'),
        C('C02,C03 if-fold', '''({
    let st = %s;
    match res {
        Ok(r) => st == St::Done(r.next_control_flow, r.exit_code)
            || (st == (St::At { k: n_clauses(*self_) }) && r.next_control_flow is Normal && r.exit_code is Success && final(shell).status() == 0),
        Err(_) => st is Err,
    }
})''' % (RUN % 'final(shell)')),
    ])
    f.at_body_start(fn, 'broadcast use {lemma_new_events_push, lemma_if_run_push};\nproof { lemma_new_events_empty(old(shell).trace()); }')
    f.loop(0, fn_name=fn, iter_name='it', invariant=[
        C('aux', 'old(shell).trace().is_prefix_of(shell.trace())'),
        C('C03 cond-suppressed', 'condition_params.suppress_errexit'),
        C('aux', 'self_.elses == Some(*elses)'),
        C('aux', 'it.index@ + it.iter.remaining().len() == elses@.len()'),
        C('aux', 'forall|i: int| 0 <= i < it.iter.remaining().len() ==> *(#[trigger] it.iter.remaining()[i]) == elses@[it.index@ + i]'),
        C('C02,C03 if-fold-running', (RUN % 'shell') + ' == (St::At { k: 1 + it.index@ })'),
    ], body_first='broadcast use {lemma_new_events_push, lemma_if_run_push};\nproof { assert(*else_clause == elses@[it.index@ as int]); }')
    u.add(f)
    u.raw(FOOTER)
    u.expected_min_fns = 18
    return u
