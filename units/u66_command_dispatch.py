"""U66: `impl ExecuteInPipeline for ast::Command` (brush-core/src/interp.rs), whole method: a compound command sets up its
redirections one by one in the order written and then runs its body; the first redirection that fails ends that command with status 1
and the script goes on (it used to end the whole script: repaired, 0c29093); simple commands and function definitions are handed on."""
from vx.unit import Unit
from vx.extract import C
from .common import replay_scripts

PROPS = ['C10', 'C02', 'C03', 'C16']
HEADER = 'use vstd::prelude::*;\nuse vstd::std_specs::iter::IteratorSpec;\nverus! {\n'
FOOTER = '\n} // verus!\nfn main() {}\n'
OPAQUE = ('SimpleCommand', 'CompoundCommand', 'FunctionDefinition', 'IoRedirect')
NEW = 'new_events(old(shell).log(), %s.log())'


def build(repo, findings):
    u = Unit('U66', 'command dispatch: a compound command\'s redirections left to right, then its body; a failing one fails the command, not the script', repo, PROPS, safety_props=[])
    u.prop_alias = {'C02': ['C16']}      # an exit request raised here (errexit on a failing redirection) is what the EXIT trap then sees: as for the executors U4a-U4j
    interp = u.source('brush-core/src/interp.rs')
    ast = u.source('brush-parser/src/ast.rs')
    u.raw(HEADER)
    u.raw('pub mod ast {\nuse vstd::prelude::*;\n' + ''.join('#[verifier::external_body]\npub struct %s { _p: u8 }\n' % t for t in OPAQUE))
    u.add(ast.item(r'^pub enum Command ', 'Command').r1(keep_derive=()))
    u.add(ast.item(r'^pub struct RedirectList\(', 'RedirectList').r1(keep_derive=()))
    u.raw('}\n')
    u.prelude('exec/command_dispatch_spec.rs')
    fn = 'command_execute_in_pipeline'
    f = interp.method(r'^impl<SE: extensions::ShellExtensions> ExecuteInPipeline<SE> for ast::Command ', 'execute_in_pipeline', fn)
    f.r1().r3()
    f.resub(r'fn execute_in_pipeline\(\s*&self,\s*mut pipeline_context: PipelineExecutionContext<\'_, SE>,\s*mut params: ExecutionParameters,\s*\)',
            'fn command_execute_in_pipeline(self_: &ast::Command, shell: &mut Shell, mut params: ExecutionParameters)', 'R5',
            'trait method as free fn; the pipeline context is replaced by the shell handle it carries (a `&mut` parameter, so that its ghost log can be read after the call)', count=1)
    f.resub(r'&mut pipeline_context\.shell\b', '&mut *shell', 'R5', 'pipeline_context.shell -> shell', count=None)
    f.resub(r'&pipeline_context\.shell\b', '&*shell', 'R5', 'pipeline_context.shell -> shell', count=None)
    f.resub(r'\bpipeline_context\s*\.shell\b', 'shell', 'R5', 'pipeline_context.shell -> shell', count=None)
    f.resub(r'\bself\b', 'self_', 'R5', 'self -> self_', count=None)
    f.resub(r'\bSelf::', 'ast::Command::', 'R5', 'Self:: -> the type', count=None)
    f.resub(r'simple\.execute_in_pipeline\(pipeline_context, params\)', 'simple_execute_in_pipeline(simple, &mut *shell, params)', 'R5', 'child call through the trait -> stub taking the shell handle', count=1)
    f.resub(r'writeln!\(params\.stderr\(&\*shell\), "error: \{e\}"\)\?;', 'report_redirect_error(&params, &mut *shell, &e)?;', 'R8', 'writeln! to the command\'s stderr -> opaque I/O stub with the same error path', count=None)
    f.resub(r'\.into\(\)', '.vx_completed()', 'R14', 'From<ExecutionResult> for ExecutionSpawnResult -> stub (Completed)', count=None)
    f.sig(fn, ret='res', attrs=['#[verifier::loop_isolation(false)]'], ensures=[
        C('aux log-extends', 'old(shell).log().is_prefix_of(final(shell).log())'),
        C('C02 a-dry-run-executes-nothing', 'old(shell).dry_run() ==> final(shell).log() == old(shell).log() && res == Ok::<ExecutionSpawnResult, error::Error>(ExecutionSpawnResult::Completed(success_spec()))'),
        C('C10,C02,C03 a-compound-command-sets-up-its-redirections-in-order-then-runs-its-body-and-a-failing-one-fails-only-the-command',
          '(!old(shell).dry_run() && self_ is Compound) ==> compound_ran(redirect_list(self_->Compound_1), self_->Compound_0, params.suppress_errexit, %s, res, *final(shell))' % (NEW % 'final(shell)')),
        C('C02 a-simple-command-is-handed-on-with-the-parameters-it-was-given', '(!old(shell).dry_run() && self_ is Simple) ==> %s == seq![Ev::Simple(self_->Simple_0, params.suppress_errexit)]' % (NEW % 'final(shell)')),
        C('C02 a-function-definition-is-handed-on', '(!old(shell).dry_run() && self_ is Function) ==> %s == seq![Ev::Define(self_->Function_0)]' % (NEW % 'final(shell)')),
    ])
    f.at_body_start(fn, 'broadcast use lemma_new_events_push;\nproof { assert(new_events(old(shell).log(), shell.log()) =~= Seq::<Ev>::empty()); }\nlet ghost suppress0 = params.suppress_errexit;')
    f.loop(0, fn, iter_name='it', invariant=[
        C('aux', 'it.index@ + it.iter.remaining().len() == redirects.0@.len()'),
        C('aux', 'forall|i: int| 0 <= i < it.iter.remaining().len() ==> *(#[trigger] it.iter.remaining()[i]) == redirects.0@[it.index@ + i]'),
        C('aux', 'old(shell).log().is_prefix_of(shell.log())'),
        C('aux', 'params.suppress_errexit == suppress0'),
        C('C10 the-redirections-so-far-were-set-up-in-order-and-none-failed', '%s.len() == it.index@ && (forall|j: int| 0 <= j < it.index@ ==> #[trigger] %s[j] == Ev::Redirect(redirects.0@[j], true))' % (NEW % 'shell', NEW % 'shell')),
    ], body_first='broadcast use lemma_new_events_push;')
    u.add(f)
    u.raw(FOOTER)
    u.assume('external_body', 'the three kinds of command are abstract children (one event each: SimpleCommand::execute_in_pipeline is U61 / U4l, the compound executors are U4a-U4j); setup_redirect (one event, leaves the exemption flag alone), apply_errexit_if_enabled (U3), set_current_cmd, the stderr report are stubs')
    u.assume('uninterp', 'Shell::log (ghost), Shell::dry_run, success_spec, general_error_spec, errexit_spec')
    u.expected_min_fns = 1
    u.counterexample = replay_scripts(repo, [
        ('{ echo x; } > /nonexistent/y; echo "after $?"', 'after 1\n'),
        ('for i in 1; do echo in; done > /nonexistent/y || echo "handled $?"; echo after', 'handled 1\nafter\n'),
        ('set -e; { echo x; } > /nonexistent/y; echo after', ''),
        ('set -e; if { echo x; } > /nonexistent/y; then echo t; else echo e; fi; echo after', 'e\nafter\n'),
        ('cd /tmp; { echo out; echo err >&2; } 2>&1 >/dev/null | sed s/^/p:/; { echo out; echo err >&2; } >/dev/null 2>&1 | sed s/^/p:/; echo end', 'p:err\nend\n'),
    ])
    return u
