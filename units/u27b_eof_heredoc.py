"""U27b: end of input while here-documents are pending (brush-parser/src/tokenizer.rs): the end-of-input step of next_token_until
(R6 block slice), Tokenizer::remove_here_end_tag and TokenParseState::delimit_current_token — every round that asks for another round
strictly decreases  pending here-tags + 2 * (token started), so the loop cannot spin at end of input."""
from vx.unit import Unit
import re

from vx.extract import C, ExtractError

PROPS = ['C01', 'C19', 'C10']
HEADER = '#![feature(pattern)]\nuse vstd::prelude::*;\nverus! {\n'
FOOTER = '\n} // verus!\nfn main() {}\n'


def here_state_writers(src):
    """Frame by text scan: the here state and the list of pending tags are written only in delimit_current_token (under contract here),
    in Tokenizer::new (None, no tag), in consume_nested_construct and the `${` arm (set aside and put back: U27d), and where an
    operator `<<` / `<<-` ends (NextTokenIsHereTag, never InHereDocs).  Any other writer stops the run undecided."""
    from vx.extract import fn_span
    t = src.text
    spans = {}
    for fn in ('delimit_current_token', 'consume_nested_construct', 'next_token_until', 'new'):
        try:
            b, o, e = fn_span(t, fn) if fn != 'new' else fn_span(t[t.index('impl<\'a, R: ?Sized + std::io::BufRead> Tokenizer<'):], 'new')
        except Exception:
            raise ExtractError('anchor lost: %s: fn %s' % (src.rel, fn))
        if fn == 'new':
            off = t.index('impl<\'a, R: ?Sized + std::io::BufRead> Tokenizer<')
            b, o, e = b + off, o + off, e + off
        spans[fn] = (o, e)

    def inside(pos, fn):
        return spans[fn][0] <= pos < spans[fn][1]
    for m in re.finditer(r'\.here_state\s*=(?!=)\s*([A-Za-z_:]+)', t):
        rhs = m.group(1)
        ok = (inside(m.start(), 'delimit_current_token')
              or (rhs == 'outer_here_state' and (inside(m.start(), 'consume_nested_construct') or inside(m.start(), 'next_token_until')))
              or (rhs == 'HereState::NextTokenIsHereTag' and inside(m.start(), 'next_token_until')))
        if not ok:
            raise ExtractError('unsupported: %s line %d: the here state is written (`= %s`) at a place this unit does not read' % (src.rel, t.count('\n', 0, m.start()) + 1, rhs))
    for m in re.finditer(r'(?:&mut\s+(?:self\.cross_state|cross_token_state)\.(?:here_state|current_here_tags)\b|current_here_tags\s*(?:=(?!=)|\.\s*(?:push|remove|pop|clear|truncate|insert|drain|retain|last_mut|iter_mut|swap_remove|append|extend)\b))', t):
        if not (inside(m.start(), 'delimit_current_token') or inside(m.start(), 'consume_nested_construct') or inside(m.start(), 'next_token_until')):
            raise ExtractError('unsupported: %s line %d: the pending here tags are written at a place this unit does not read' % (src.rel, t.count('\n', 0, m.start()) + 1))
        if inside(m.start(), 'next_token_until') and 'take(' not in t[max(0, m.start() - 20):m.start()] and not re.match(r'current_here_tags\s*=\s*outer_here_tags', m.group(0) + t[m.end():m.end() + 20]):
            raise ExtractError('unsupported: %s line %d: next_token_until writes the pending here tags other than by setting them aside and putting them back' % (src.rel, t.count('\n', 0, m.start()) + 1))


def build(repo, findings):
    u = Unit('U27b', 'end of input inside a here-document: each extra round of the tokenizer loop makes progress', repo, ['C01', 'C19', 'C10'], safety_props=['C01', 'C19'])
    src = u.source('brush-parser/src/tokenizer.rs')
    for v in (r'\n\s*MissingHereTagForDocumentBody,', r'\n\s*MissingHereTag\(String\),', r'\n\s*UnterminatedHereDocuments\(String, String\),'):
        src.require_text(v, 'projected variant of TokenizerError')
    src.require_text(r'#\[default\]\n\s*None,', 'HereState defaults to None (std::mem::take leaves None)')
    here_state_writers(src)
    u.raw(HEADER)
    u.prelude('std/str_ops.rs')
    u.add(src.item(r'^pub\(crate\) enum TokenEndReason ', 'TokenEndReason').r1(keep_derive=()).r11_pub())
    u.add(src.item(r'^pub\(crate\) struct TokenizeResult ', 'TokenizeResult').r1(keep_derive=()).r11_pub())
    u.add(src.item(r'^enum HereState ', 'HereState').r1(keep_derive=()).resub(r'\n\s*#\[default\]', '', 'R1', '#[default] attribute dropped (its meaning is carried by take_here_state)', count=None).r11_pub())
    u.add(src.item(r'^struct HereTag ', 'HereTag').r1(keep_derive=()).r11_pub().pub_fields())
    u.add(src.item(r'^struct CrossTokenParseState ', 'CrossTokenParseState').r1(keep_derive=()).r11_pub().pub_fields())
    u.add(src.item(r'^struct TokenParseState ', 'TokenParseState').r1(keep_derive=()).r11_pub())
    u.prelude('tokenizer/eof_spec.rs')
    # ---- layer C: delimit_current_token
    fn = 'delimit_current_token'
    d = src.method_anywhere(fn).r1()
    d.resub(r'std::mem::take\(&mut cross_token_state\.here_state\)', 'take_here_state(&mut cross_token_state.here_state)', 'R14', 'std::mem::take on HereState -> stub (old value out, None left)', count=None)
    d.resub(r'std::format!\("\{\}\\n", self\.current_token\(\)\.trim_ascii_start\(\)\)', 'here_tag_text(self.current_token())', 'R14', 'format! of the tag text -> stub', count=None)
    d.resub(r'\btag\.contains\(is_quoting_char\)', 'str_has_quoting_char(&tag)', 'R14', 'str::contains(fn) -> stub', count=None)
    d.resub(r'self\.current_token\(\)\.to_owned\(\)', 'str_to_owned(self.current_token())', 'R14', 'str::to_owned -> stub', count=None)
    d.resub(r'for here_token in completed_here_tag\.tokens \{\s*cross_token_state\.queued_tokens\.push\(here_token\);\s*\}', 'queue_all(&mut cross_token_state.queued_tokens, completed_here_tag.tokens);', 'R14', 'by-value for loop pushing every element -> stub (append)', count=None)
    d.resub(r'for pending_token in completed_here_tag\.pending_tokens_after \{\s*cross_token_state\.queued_tokens\.push\(pending_token\);\s*\}', 'queue_all(&mut cross_token_state.queued_tokens, completed_here_tag.pending_tokens_after);', 'R14', 'by-value for loop pushing every element -> stub (append)', count=None)
    d.resub(r'unquote_str\(&completed_here_tag\.tag\)', 'unquote_str(completed_here_tag.tag.as_str())', 'R14', 'deref coercion &String -> &str spelled out', count=None)
    d.resub(r"self\.append_str\(end_tag\.trim_end_matches\('\\n'\)\);", 'self.append_str(strip_one_trailing_newline(&end_tag));', 'R14', "trim_end_matches('\\n') -> stub (the tag text ends in exactly one newline)", count=None)
    d.sig(fn, ret='res', requires=[
        C('aux in-here-docs-means-a-tag-is-pending', 'old(cross_token_state).here_state is InHereDocs ==> old(cross_token_state).current_here_tags@.len() > 0'),
    ], ensures=[
        C('C01 closing-a-body-pops-the-token-and-moves-the-tag-count-as-the-state-says', '(reason is HereDocumentBodyEnd && res is Ok) ==> body_end_effect(*old(cross_token_state), *final(cross_token_state), *final(self))'),
        C('C01,C19 in-here-docs-still-means-a-tag-is-pending', 'res is Ok ==> (final(cross_token_state).here_state is InHereDocs ==> final(cross_token_state).current_here_tags@.len() > 0)'),
    ])
    u.raw('impl TokenParseState {')
    u.add(d)
    u.raw('}\n')
    # ---- layer B: remove_here_end_tag
    fn = 'remove_here_end_tag'
    r = src.method_anywhere(fn).r1().r17_cow()
    r.resub(r"tag_str\s*\.strip_suffix\('\\n'\)\s*\.unwrap_or_else\(\|\| tag_str\.as_ref\(\)\)", 'strip_one_trailing_newline(&tag_str)', 'R14', "strip_suffix('\\n').unwrap_or_else(closure) -> stub", count=None)
    r.resub(r'\btag_str\.as_ref\(\)', 'tag_str.as_str()', 'R17', 'Cow::as_ref -> String::as_str', count=None)
    r.resub(r'state\.current_token\(\)\.strip_suffix\(tag_str\)', 'str_strip_suffix(state.current_token(), tag_str)', 'R14', 'str::strip_suffix(&str) -> stub', count=None)
    r.resub(r'current_token_without_here_tag\.to_owned\(\)', 'str_to_owned(current_token_without_here_tag)', 'R14', 'str::to_owned -> stub', count=None)
    r.resub(r'\bcurrent_token_without_here_tag\.is_empty\(\)', 'current_token_without_here_tag.is_empty()', 'R0', 'no-op', count=None)
    r.sig(fn, ret='res', requires=[
        C('aux in-here-docs-means-a-tag-is-pending', 'old(self).cross_state.here_state is InHereDocs ==> old(self).cross_state.current_here_tags@.len() > 0'),
    ], ensures=[
        C('C01 a-matched-end-tag-pops-the-token-and-moves-the-tag-count', 'res == Ok::<bool, TokenizerError>(true) ==> body_end_effect(old(self).cross_state, final(self).cross_state, *final(state))'),
    ])
    r.before(r'^\s*state\.replace_with_here_doc\(', '''proof {
    //@ remove_here_end_tag:line-start | C10,C01 the-delimiter-ends-the-document-only-at-the-start-of-a-line
    assert(current_token_without_here_tag@.len() == 0 || current_token_without_here_tag@.last() == '\\n');
}''', fn_name=fn)
    r.at_body_start(fn, 'broadcast use axiom_str_ends_with_char;')
    u.raw('impl Tokenizer {')
    u.add(r)
    u.raw('}\n')
    # ---- layer A: the end-of-input step
    fn = 'eof_in_here_doc'
    a = src.block_slice(r'^\s*if !matches!\(self\.cross_state\.here_state, HereState::None\) \{$',
                        'fn eof_in_here_doc(self_: &mut Tokenizer, state: &mut TokenParseState, result: &mut Option<TokenizeResult>) -> Result<bool, TokenizerError>', fn, within_fn='next_token_until')
    a.r1()
    a.resub(r'\bself\b', 'self_', 'R6', 'slice wrapper: self -> self_', count=None)
    a.resub(r'&mut state\b', '&mut *state', 'R6', 'the local `state` is a `&mut` parameter of the wrapper', count=None)
    a.resub(r'&mut result\b', '&mut *result', 'R6', 'the local `result` is a `&mut` parameter of the wrapper', count=None)
    a.resub(r'\bcontinue;', 'return Ok(true);', 'R6', '`continue` of the enclosing loop -> the wrapper reports "another round"', count=None)
    a.resub(r'let tag_names = self_\s*\.cross_state\s*\.current_here_tags\s*\.iter\(\)\s*\.map\(\|tag\| tag\.tag\.trim\(\)\)\s*\.collect::<Vec<_>>\(\)\s*\.join\(", "\);', 'let tag_names = here_tag_names(&self_.cross_state.current_here_tags);', 'R14', 'iterator chain building the error text -> stub', count=None)
    a.resub(r'let tag_positions = self_\s*\.cross_state\s*\.current_here_tags\s*\.iter\(\)\s*\.map\(\|tag\| std::format!\("\{\}", tag\.position\)\)\s*\.collect::<Vec<_>>\(\)\s*\.join\(", "\);', 'let tag_positions = here_tag_positions(&self_.cross_state.current_here_tags);', 'R14', 'iterator chain building the error text -> stub', count=None)
    a.sig(fn, ret='res', requires=[
        C('aux in-here-docs-means-a-tag-is-pending', 'old(self_).cross_state.here_state is InHereDocs ==> old(self_).cross_state.current_here_tags@.len() > 0'),
    ], ensures=[
        C('C01,C19 another-round-at-end-of-input-only-after-progress', 'res == Ok::<bool, TokenizerError>(true) ==> 0 <= measure(final(self_).cross_state, *final(state)) < measure(old(self_).cross_state, *old(state))'),
        C('C01,C19 otherwise-the-step-fails', '!(res == Ok::<bool, TokenizerError>(true)) ==> res is Err'),
    ])
    u.add(a)
    # ---- consume_nested_construct: the character after a terminating-char token may be missing (end of input): an error, not a panic
    src.require_text(r'\n\s*UnterminatedExpansion,', 'projected variant TokenizerError::UnterminatedExpansion')
    fn = 'nested_terminator_step'
    n1 = src.block_slice(r'^\s*TokenEndReason::SpecifiedTerminatingChar => \{$',
                         'fn nested_terminator_step(self_: &mut Tokenizer, state: &mut TokenParseState, nesting_count_: &mut u32) -> Result<bool, TokenizerError>', fn, within_fn='consume_nested_construct')
    n1.r1()
    n1.resub(r'\bself\b', 'self_', 'R6', 'slice wrapper: self -> self_', count=None)
    n1.resub(r'\bnesting_count\b', '*nesting_count_', 'R6', 'the local counter is a `&mut` parameter of the wrapper', count=None)
    n1.resub(r'\bbreak;', 'return Ok(true);', 'R6', '`break` of the enclosing loop -> the wrapper reports "construct closed"', count=None)
    n1.resub(r'\n\}$', '\n    Ok(false)\n}', 'R6', 'wrapper epilogue: the loop goes on', count=1)
    n1.sig(fn, ret='res', requires=[C('aux an-open-construct-is-being-closed', '*old(nesting_count_) >= 1')], ensures=[
        C('C01,C19 construct-closed-exactly-when-the-count-reaches-zero', 'res is Ok ==> res->Ok_0 == (*old(nesting_count_) == 1)')])
    u.add(n1)
    fn = 'nested_construct_tail'
    n2 = src.slice('consume_nested_construct', r'^ {8}state\.append_char\(', None,
                   'fn nested_construct_tail(self_: &mut Tokenizer, state: &mut TokenParseState) -> Result<(), TokenizerError>', fn)
    n2.r1()
    n2.resub(r'\bself\b', 'self_', 'R6', 'slice wrapper: self -> self_', count=None)
    n2.sig(fn, ret='res', ensures=[C('C01,C19 the-closing-character-is-appended-or-the-input-ended', 'res is Ok ==> final(state).token_so_far@.len() == old(state).token_so_far@.len() + 1')])
    u.add(n2)
    u.raw(FOOTER)
    u.assume('external_body', 'Tokenizer::next_char (None at the end of the input), TokenParseState::{pop, started_token, current_token, is_newline, append_str, replace_with_here_doc} and the string helpers are stubs read off their bodies; Token is opaque')
    u.assume('stub', 'the invariant "InHereDocs implies a pending tag" is a precondition of the three functions and a postcondition of delimit_current_token; that nothing else can break it is a frame by TEXT SCAN (here_state_writers: the state and the tag list are written only there, in Tokenizer::new, where an operator ends — never InHereDocs — and in the set-aside / put-back pairs U27d proves), not a Verus obligation; the rest of next_token_until (every other branch consumes a character or ends the token — argued in DESIGN.md, not machine-checked) is outside')
    u.assume('assume_specification', 'str::ends_with(char) (contracts/std/str_ops.rs)')
    u.assume('uninterp', 'str_ends_with_spec')
    u.assume('axiom', 'str::ends_with(char) looks at the last character')
    u.expected_min_fns = 5
    return u
