"""U54: the two alternatives of the PEG rule `for_clause` (brush-parser/src/parser/peg.rs): what they put into `values` — with `in` the
word list that follows it (the empty list when there is none), without `in` nothing (the positional parameters are meant).  The
expressions are read into generated functions on every run."""
import re
from vx.unit import Unit
from vx.extract import ExtractError

PROPS = ['C02']
HEADER = 'use vstd::prelude::*;\nverus! {\n'
FOOTER = '\n} // verus!\nfn main() {}\n'


def build(repo, findings):
    u = Unit('U54', 'for-clause rule: `in` with no words is an empty list, a missing `in` means the positional parameters', repo, ['C02'], safety_props=['C02'])
    pg = u.source('brush-parser/src/parser/peg.rs')
    m = re.search(r'rule for_clause\(\) -> ast::ForClauseCommand =\n(.*?)\n\n', pg.text, re.S)
    if not m:
        raise ExtractError('anchor lost: rule for_clause() in brush-parser/src/parser/peg.rs')
    alts = re.split(r'\} /\n', m.group(1))
    if len(alts) != 2:
        raise ExtractError('unsupported: rule for_clause() has %d alternatives, this unit reads 2' % len(alts))
    with_in, without_in = alts
    if not re.search(r'_in\(\) w:wordlist\(\)\? sequential_sep\(\)', with_in) or '_in()' in without_in:
        raise ExtractError('unsupported: the alternatives of rule for_clause() are not `.. _in() w:wordlist()? ..` followed by one without `in`')
    ex = []
    for a in (with_in, without_in):
        mm = re.search(r'ast::ForClauseCommand \{ variable_name: n\.to_owned\(\), values: (.*?), body: d, loc \}', a)
        if not mm:
            raise ExtractError('unsupported: the action of a for_clause alternative does not build `ast::ForClauseCommand { .., values: E, .. }` on one line')
        ex.append(mm.group(1))
    pg.require_text(r'rule wordlist\(\) -> Vec<ast::Word> =', 'rule wordlist() yields Vec<ast::Word>')
    u.raw(HEADER)
    u.raw('''// ---- C02: "for ... the commands that run, their order ...": POSIX XCU 2.9.4.2: "for name [ in [word ... ] ]": omitting `in word...`
//  is equivalent to `in "$@"`; with `in` and no words the list is empty and the body is not run at all.
pub mod ast { use vstd::prelude::*; #[verifier::external_body] pub struct Word { _p: u8 } }
// GENERATED on every run from the two actions of `rule for_clause()` (brush-parser/src/parser/peg.rs): the `values:` expressions verbatim
fn for_values_with_in(w: Option<Vec<ast::Word>>) -> (r: Option<Vec<ast::Word>>)
    ensures
        //@ peg.rs:for_clause:with-in | C02 in-with-no-words-is-an-empty-list-not-the-positional-parameters
        r is Some && r->Some_0@ == (match w { Some(v) => v@, None => Seq::<ast::Word>::empty() }),
{ %s }
fn for_values_without_in() -> (r: Option<Vec<ast::Word>>)
    ensures
        //@ peg.rs:for_clause:without-in | C02 a-missing-in-stands-for-the-positional-parameters
        r is None,
{ %s }
''' % (ex[0], ex[1]), origin='generated from brush-parser/src/parser/peg.rs rule for_clause')
    u.raw(FOOTER)
    u.notes.append('for_clause: values with `in`: %s; without: %s' % (ex[0], ex[1]))
    u.assume('dependency', 'peg: `w:wordlist()?` binds None when no word follows `in`; the executor reads `values: None` as the positional parameters (unit U4b)')
    u.assume('external_body', 'ast::Word is opaque')
    u.assume('generated', 'the two functions are produced by units/u54_for_clause_rule.py from the rule text (other shapes stop the run undecided)')
    u.expected_min_fns = 2
    from .common import replay_scripts
    u.counterexample = replay_scripts(repo, [
        ('set -- a b; for x in; do echo "it $x"; done; echo "rc=$?"', 'rc=0\n'),
        ('set -- a b; for x; do echo "it $x"; done', 'it a\nit b\n'),
    ])
    return u
