"""Shared scaffolding of the executor units (U4*): header, AST stubs, results.rs kernel, context stubs."""
from vx.unit import Unit
from vx.extract import C, ExtractError
from .common import results_items

HEADER = 'use vstd::prelude::*;\nuse vstd::std_specs::convert::*;\nuse vstd::std_specs::iter::IteratorSpec;\nverus! {\n'
FOOTER = '\n} // verus!\nfn main() {}\n'

OPAQUE = '#[verifier::external_body]\npub struct %s { _p: u8 }\n'


def child_stub(ty, node_ctor, method='execute', path='ast::'):
    """An abstract child: executing it appends exactly one event and returns an arbitrary result."""
    return '''impl %s%s {
    #[verifier::external_body]
    pub fn %s(&self, shell: &mut Shell, params: &ExecutionParameters) -> (r: Result<ExecutionResult, error::Error>)
        ensures
            child_event(old(shell).trace(), final(shell).trace(), %s, params.suppress_errexit, r),
            final(shell).xtrace() == old(shell).xtrace(),
    { unimplemented!() }
}
''' % (path, ty, method, node_ctor)


def exec_unit(uid, title, repo, opaque_ast, node_enum, props=('C02', 'C03'), aux='pub struct Aux { pub u: u8 }\n'):
    u = Unit(uid, title, repo, list(props), safety_props=['C01'] + list(props))
    # C16 ("exit n at any depth ... the EXIT trap sees the terminating status"): that an exit request raised inside a compound command
    # leaves it unchanged is exactly what the C02 clauses of these executors say, so they count for C16 where the unit is listed for it
    if 'C02' in props:
        u.prop_alias = {'C02': ['C16']}
        if 'C16' not in u.props:
            u.props.append('C16')
    u.raw(HEADER)
    interp = u.source('brush-core/src/interp.rs')
    # projection check: the fields the stub ExecutionParameters keeps must exist in the real struct
    ep = interp.item(r'^pub struct ExecutionParameters ', 'ExecutionParameters')
    if 'pub suppress_errexit: bool,' not in ep.text:
        raise ExtractError('ExecutionParameters no longer has `pub suppress_errexit: bool`')
    u.ast_open = 'pub mod ast {\nuse vstd::prelude::*;\n' + ''.join(OPAQUE % t for t in opaque_ast)
    u.node_enum = node_enum + aux
    u.assume('external_body', 'children are abstract: %s are opaque types whose execute() stubs append one event and return an arbitrary result (dynamic dispatch through the Execute trait is replaced by these stubs, rule R5)' % ', '.join(opaque_ast))
    u.assume('external_body', 'Shell, ParamsRest, error::Error are opaque; Shell::set_last_exit_status sets status() and leaves the trace alone; derived Clone of ExecutionParameters returns an equal value')
    u.assume('uninterp', 'Shell::trace (ghost event log), Shell::status ($?), Shell::xtrace')
    return u, interp


def begin_ast(u):
    u.raw(u.ast_open)


def end_ast(u, props='C02,C03'):
    u.raw('}\n')
    results_items(u, props)
    u.raw(u.node_enum)
    u.prelude('exec/ctx.rs')
