"""U15 fd-table: OpenFiles algebra (brush-core/src/openfiles.rs)."""
import re
from vx.unit import Unit
from vx.extract import C

PROPS = ['C10', 'C04', 'C01']

HEADER = '#![feature(pattern)]\nuse vstd::prelude::*;\nuse vstd::std_specs::iter::IteratorSpec;\nuse std::collections::HashMap;\nverus! {\n'
FOOTER = '\n} // verus!\nfn main() {}\n'

LOOKUP = ['r is Some <==> is_open(self@, %s)', 'r is Some ==> *r->Some_0 == self@[%s]->Some_0']


def build(repo, findings):
    u = Unit('U15', 'descriptor table algebra (OpenFiles)', repo, ['C10'], safety_props=['C01', 'C10'])
    src = u.source('brush-core/src/openfiles.rs')
    er = u.source('brush-core/src/error.rs')
    er.require_text(r'\bTooManyOpenFiles\b', 'projected variant ErrorKind::TooManyOpenFiles')
    u.raw(HEADER)
    u.prelude('fds/spec.rs')
    u.add(src.item(r"^pub enum OpenFileEntry<'a> ", 'OpenFileEntry').r1())
    u.add(src.item(r'^pub struct OpenFiles ', 'OpenFiles').r1(keep_derive=('Default',)).r11().pub_fields())
    u.prelude('fds/view.rs')
    im = src.item(r'^impl OpenFiles ', 'impl OpenFiles').r1()
    im.keep_only_fns(['try_stdin', 'try_stdout', 'try_stderr', 'remove_fd', 'try_fd', 'fd_entry', 'contains_fd', 'set_fd', 'add'],
                     'host stdio construction / iterator adapters (new, update_from, iter_fds) — NOT verified')
    im.r11()
    asref = ('&Option<OpenFile>', 'r: Option<&OpenFile>', 'r is Some <==> *f is Some, r is Some ==> *r->Some_0 == f->Some_0')
    for fn, fd in [('try_stdin', '0'), ('try_stdout', '1'), ('try_stderr', '2'), ('try_fd', 'fd')]:
        im.sig(fn, ret='r', ensures=[C('C10 lookup-open', LOOKUP[0] % fd), C('C10 lookup-value', LOOKUP[1] % fd)])
        im.closure(r'\|f\| f\.as_ref\(\)', asref[0], asref[1], asref[2], fn_name=fn)
    ident = ('Option<OpenFile>', 'r: Option<OpenFile>', 'r == f')
    im.sig('remove_fd', ret='r', ensures=[
        C('C10 close-marks-closed', 'final(self)@ == old(self)@.insert(fd, None)'),
        C('C10 close-returns-previous', 'r == prev(old(self)@, fd)')])
    im.closure(r'\|f\| f\)', ident[0], ident[1], ident[2], fn_name='remove_fd')
    im.sig('set_fd', ret='r', ensures=[
        C('C10 set-only-that-fd', 'final(self)@ == old(self)@.insert(fd, Some(file))'),
        C('C10 set-returns-previous', 'r == prev(old(self)@, fd)')])
    im.closure(r'\|f\| f\)', ident[0], ident[1], ident[2], fn_name='set_fd')
    im.sig('fd_entry', ret='r', ensures=[
        C('C10 entry-not-specified', '!self@.contains_key(fd) <==> r is NotSpecified'),
        C('C10 entry-closed', '(self@.contains_key(fd) && self@[fd] is None) <==> r is NotPresent'),
        C('C10 entry-open', 'is_open(self@, fd) <==> r is Open'),
        C('C10 entry-value', 'r is Open ==> *r->Open_0 == self@[fd]->Some_0')])
    im.closure(r'\|opt_file\| match opt_file', '&Option<OpenFile>', "r: OpenFileEntry<'_>",
               '(r is Open <==> *opt_file is Some), (r is NotPresent <==> *opt_file is None), !(r is NotSpecified), r is Open ==> *r->Open_0 == opt_file->Some_0',
               fn_name='fd_entry')
    im.sig('contains_fd', ret='r', ensures=[C('C10 contains', 'r == self@.contains_key(fd)')])
    im.sig('add', ret='r', ensures=[
        C('C10 add-least-free-fd', '''match r {
    Ok(fd) => 3 <= fd <= 1024 && !old(self)@.contains_key(fd)
        && (forall|k: ShellFd| 3 <= k < fd ==> old(self)@.contains_key(k))
        && final(self)@ == old(self)@.insert(fd, Some(file)),
    Err(_) => final(self)@ == old(self)@ && (forall|k: ShellFd| 3 <= k <= 1024 ==> old(self)@.contains_key(k)),
}''')])
    im.loop(0, fn_name='add', invariant=[
        C('safety fd-in-range', '3 <= fd <= 1024'),
        C('C10 table-untouched-while-searching', 'self@ == old(self)@'),
        C('C10 all-below-taken', 'forall|k: ShellFd| 3 <= k < fd ==> old(self)@.contains_key(k)'),
    ], decreases='1024 - fd')
    u.add(im)
    # ---- the per-command layer (interp.rs ExecutionParameters)
    interp = u.source('brush-core/src/interp.rs')
    u.prelude('fds/params_spec.rs')
    u.add(interp.item(r'^pub enum ProcessGroupPolicy ', 'ProcessGroupPolicy').r1(keep_derive=('Default',)))
    ep = interp.item(r'^pub struct ExecutionParameters ', 'ExecutionParameters').r1(keep_derive=('Default',)).r11().pub_fields()
    ep.resub(r'\bopenfiles::', '', 'R4', 'module path flattened (single-file artefact)', count=None)
    u.add(ep)
    ei = interp.item(r'^impl ExecutionParameters ', 'impl ExecutionParameters').r1().r4()
    ei.keep_only_fns(['try_stdin', 'try_stdout', 'try_stderr', 'try_fd', 'set_fd'],
                     'stdin/stdout/stderr build `impl Read/Write` trait objects with closures; iter_fds uses iterator adapters — NOT verified')
    ei.resub(r'\bopenfiles::', '', 'R4', 'module path flattened (single-file artefact)', count=None)
    ei.r11()
    LL = 'r == layer_lookup(self.open_files@, shell.persistent()@, %s)'
    for fn, fd in [('try_stdin', '0'), ('try_stdout', '1'), ('try_stderr', '2'), ('try_fd', 'fd')]:
        ei.sig(fn, ret='r', ensures=[C('C10 layered-lookup', LL % fd)])
    ei.sig('set_fd', ensures=[
        C('C10 set-touches-layer-only', 'final(self).open_files@ == old(self).open_files@.insert(fd, Some(file))'),
        C('C10 set-frame', 'final(self).suppress_errexit == old(self).suppress_errexit && final(self).process_group_policy == old(self).process_group_policy')])
    u.add(ei)
    # ---- redirection helpers
    ast = u.source('brush-parser/src/ast.rs')
    op = u.source('brush-core/src/options.rs')
    op.require_text(r'pub disallow_overwriting_regular_files_via_output_redirection: bool,', 'projected field RuntimeOptions.disallow_overwriting_regular_files_via_output_redirection')
    u.add(ast.item(r'^pub enum IoFileRedirectKind ', 'IoFileRedirectKind').r1(keep_derive=()))
    u.prelude('fds/redirect_spec.rs')
    d = interp.item(r'^const fn get_default_fd_for_redirect_kind\(', 'get_default_fd_for_redirect_kind').r1().r11()
    d.sig(ret='r', ensures=[C('C10 default-fd', 'r == default_fd(*kind)')])
    u.add(d)
    fs = interp.slice('setup_process_substitution', r'^\s*let mut candidate_fd_num = 63;', None,
                      'fn process_substitution_fd_search(params: &ExecutionParameters, target_file: OpenFile) -> Result<(ShellFd, OpenFile), error::Error>',
                      'process_substitution_fd_search')
    fs.r1().resub(r'\berror::unimp\(', 'error_fns::unimp(', 'R4', 'path of the error helper', count=None)
    fs.sig(ret='res', ensures=[
        C('C10 procsubst-fd-greatest-free', '''match res {
    Ok((fd, f)) => 1 <= fd <= 63 && !params.open_files@.contains_key(fd) && f == target_file
        && (forall|k: ShellFd| fd < k <= 63 ==> params.open_files@.contains_key(k)),
    Err(_) => forall|k: ShellFd| 1 <= k <= 63 ==> params.open_files@.contains_key(k),
}''')])
    fs.loop(0, invariant=[
        C('safety fd-stays-positive', '1 <= candidate_fd_num <= 63'),
        C('C10 all-above-taken', 'forall|k: ShellFd| candidate_fd_num < k <= 63 ==> params.open_files@.contains_key(k)'),
    ], decreases='candidate_fd_num')
    u.add(fs)
    # ---- `N>&M` / `N<&M` with M a number: the file is the one M names for THIS command (a close of M on the command counts), R6 slice
    dp = interp.slice('setup_redirect', r'^\s*let source_fd_num = expanded\s*$', r'^\s*params\.open_files\.set_fd\(fd_num, target_file\);',
                      'fn duplicate_from_descriptor(shell: &Shell, params: &mut ExecutionParameters, expanded: &String, fd_num: ShellFd) -> Result<(), error::Error>',
                      'duplicate_from_descriptor')
    dp.r1()
    dp.resub(r'expanded\s*\.parse::<ShellFd>\(\)\s*\.map_err\(\|_\| error::ErrorKind::InvalidRedirection\)\?', 'parse_shell_fd(expanded)?', 'R14', 'str::parse::<ShellFd>().map_err(..)? -> stub (the number the digits spell, or an error)', count=1)
    dp.resub(r'return Err\(error::ErrorKind::BadFileDescriptor\(source_fd_num\)\.into\(\)\);', 'return Err(bad_fd_error(source_fd_num));', 'R14', 'ErrorKind::..into() -> stub', count=None)
    dp.resub(r'\n\}$', '\n    Ok(())\n}', 'R6', 'wrapper epilogue `Ok(())`', count=1)
    dp.sig(ret='res', ensures=[
        C('C10 a-duplicate-names-the-file-the-source-descriptor-has-for-this-command-a-descriptor-closed-for-it-has-none', '''match fd_number_spec(expanded@) {
    None => res is Err && final(params).open_files@ == old(params).open_files@,
    Some(src) => match layer_lookup(old(params).open_files@, shell.persistent()@, src) {
        Some(file) => res is Ok && final(params).open_files@ == old(params).open_files@.insert(fd_num, Some(file)),
        None => res is Err && final(params).open_files@ == old(params).open_files@,
    },
}'''),
    ])
    u.raw('''pub uninterp spec fn fd_number_spec(digits: Seq<char>) -> Option<ShellFd>;
#[verifier::external_body] pub fn parse_shell_fd(s: &String) -> (r: Result<ShellFd, error::Error>) ensures (r is Ok) == (fd_number_spec(s@) is Some), r is Ok ==> r->Ok_0 == fd_number_spec(s@)->Some_0 { unimplemented!() }
#[verifier::external_body] pub fn bad_fd_error(fd: ShellFd) -> error::Error { unimplemented!() }
''')
    u.add(dp)
    oo = interp.slice('setup_redirect', r'^\s*let default_fd_if_unspecified = get_default_fd_for_redirect_kind\(kind\);',
                      r'^\s*let fd_num = specified_fd_num\.unwrap_or\(default_fd_if_unspecified\);',
                      'fn redirect_open_options(shell: &Shell, kind: &ast::IoFileRedirectKind, options: &mut OpenOptions, expanded_file_path: &PathBuf, specified_fd_num: &Option<ShellFd>) -> ShellFd',
                      'redirect_open_options')
    oo.r1().resub(r'\n\}$', '\n    fd_num\n}', 'R6', 'wrapper epilogue returning the live variable `fd_num`', count=1)
    oo.resub(r'\b(\w+)\s*\.symlink_metadata\(\)\s*\.is_ok_and\(\|m\| m\.is_file\(\)\)', r'path_is_file_nofollow(&\1)', 'R14', 'lstat probe chain -> stub (regular file, symbolic links not followed)', count=None)
    oo.sig(ret='r', requires=[C('aux fresh-options', '*old(options) == no_flags()')], ensures=[
        C('C10 open-flags', '*final(options) == want_flags(*kind, shell.opts().disallow_overwriting_regular_files_via_output_redirection, expanded_file_path.is_regular())'),
        C('C10 noclobber-never-truncates', '(*kind is Write && shell.opts().disallow_overwriting_regular_files_via_output_redirection) ==> !final(options).truncate && (expanded_file_path.is_regular() ==> final(options).create_new)'),
        C('C10 target-fd', 'r == (match *specified_fd_num { Some(n) => n, None => default_fd(*kind) })'),
    ])
    u.add(oo)
    # ---- the file-name target of a redirection, from the expanded word to the descriptor table (R6 slice)
    rf = interp.slice('setup_redirect', r'^\s*let expanded_file_path(?:: PathBuf)? =', r'^\s*params\.open_files\.set_fd\(fd_num, opened_file\);',
                      'fn redirect_to_file(shell: &mut Shell, params: &mut ExecutionParameters, expanded_fields: &mut Vec<String>, options: &mut OpenOptions, kind: &ast::IoFileRedirectKind, specified_fd_num: &Option<ShellFd>) -> Result<(), error::Error>',
                      'redirect_to_file', after_re=r'^\s*ast::IoFileRedirectTarget::Filename\(f\) => \{$')
    rf.r1().r3()
    rf.resub(r'shell\.absolute_path\(Path::new\((\w+)\.remove\(0\)\.as_str\(\)\)\)', r'shell_absolute_path(&*shell, \1.remove(0))', 'R14', 'Shell::absolute_path(Path::new(s)) -> stub (resolution against the shell\'s directory)', count=None)
    rf.resub(r'PathBuf::from\((\w+)\.remove\(0\)\)', r'pathbuf_from(\1.remove(0))', 'R14', 'PathBuf::from(String) -> stub', count=None)
    rf.resub(r'shell\s*\.open_file\(&options, &expanded_file_path, params\)\s*\.map_err\(\|err\| \{.*?\}\)\?', 'shell_open_file(&*shell, &*options, &expanded_file_path, &*params)?', 'R14', 'Shell::open_file(..).map_err(<message>)? -> stub with the same error path', flags=16)
    rf.resub(r'\b(\w+)\s*\.symlink_metadata\(\)\s*\.is_ok_and\(\|m\| m\.is_file\(\)\)', r'path_is_file_nofollow(&\1)', 'R14', 'lstat probe chain -> stub (regular file, symbolic links not followed)', count=None)
    rf.resub(r'\n\}$', '\n    Ok(())\n}', 'R6', 'wrapper epilogue `Ok(())`', count=1)
    rf.at_body_start('redirect_to_file', 'broadcast use axiom_resolve_absolute;\nlet ghost word = expanded_fields@[0]@;')
    NOCLOB = 'old(shell).opts().disallow_overwriting_regular_files_via_output_redirection'
    rf.sig(ret='res', requires=[C('aux one-field', 'old(expanded_fields)@.len() == 1'), C('aux fresh-options', '*old(options) == no_flags()')], ensures=[
        C('C10 the-file-opened-is-the-word-seen-from-the-shells-directory', '''res is Ok ==> ({
    let fd = match *specified_fd_num { Some(n) => n, None => default_fd(*kind) };
    &&& final(params).open_files@.contains_key(fd) && final(params).open_files@[fd] is Some
    &&& (old(expanded_fields)@[0]@.len() > 0 ==> final(params).open_files@[fd]->Some_0.opened_path() == resolve(old(shell).cwd(), old(expanded_fields)@[0]@))
    &&& final(params).open_files@ == old(params).open_files@.insert(fd, final(params).open_files@[fd])
})'''),
        C('C10 noclobber-looks-at-the-file-that-is-opened', '''(res is Ok && *kind is Write && %s && old(expanded_fields)@[0]@.len() > 0) ==> ({
    let fd = match *specified_fd_num { Some(n) => n, None => default_fd(*kind) };
    let f = final(params).open_files@[fd]->Some_0;
    !f.opened_with().truncate && (fs_regular(f.opened_path()) ==> f.opened_with().create_new)
})''' % NOCLOB),
        C('C10 flags-follow-the-operator', '''res is Ok ==> ({
    let fd = match *specified_fd_num { Some(n) => n, None => default_fd(*kind) };
    final(params).open_files@[fd]->Some_0.opened_with() == want_flags(*kind, %s, fs_regular(resolve(process_cwd(), resolve(old(shell).cwd(), old(expanded_fields)@[0]@))))
})''' % NOCLOB),
        C('C10 failed-open-leaves-the-table', 'res is Err ==> final(params).open_files@ == old(params).open_files@'),
    ])
    u.add(rf)
    # ---- `&> word` / `&>> word` / `>& word`: both standard streams to one file (whole function)
    src.require_text(r'pub const STDOUT_FD: ShellFd = 1;', 'constant OpenFiles::STDOUT_FD')
    src.require_text(r'pub const STDERR_FD: ShellFd = 2;', 'constant OpenFiles::STDERR_FD')
    fn = 'setup_redirect_output_and_error_to'
    oe = interp.item(r'^fn setup_redirect_output_and_error_to\(', fn).r1().r4()
    oe.resub(r'shell\.absolute_path\(Path::new\(file_path\)\)', 'shell_absolute_path_str(shell, file_path)', 'R14', 'Shell::absolute_path(Path::new(s)) -> stub (resolution against the shell\'s directory)', count=None)
    oe.resub(r'std::fs::File::options\(\)', 'new_open_options()', 'R14', 'File::options() -> the flag model with every flag false', count=None)
    # the builder chain `o.a(x).b(y);` -> one call per statement (the model's setters return nothing)
    mch = re.search(r'^([ \t]*)file_options((?:\s*\.\w+\([^()]*\))+);', oe.text, re.M)
    if mch:
        calls = re.findall(r'\.(\w+)\(([^()]*)\)', mch.group(2))
        oe.replace(mch.group(0), '\n'.join('%sfile_options.%s(%s);' % (mch.group(1), nm, arg) for nm, arg in calls), 'R14', 'OpenOptions builder chain -> one setter call per statement')
    oe.resub(r'shell\s*\.open_file\(&file_options, &abs_file_path, params\)\s*\.map_err\(\|err\| \{.*?\}\)\?', 'shell_open_file(shell, &file_options, &abs_file_path, &*params)?', 'R14', 'Shell::open_file(..).map_err(<message>)? -> stub with the same error path', flags=16)
    oe.resub(r'OpenFiles::STDOUT_FD', '1', 'R10', 'constant resolved (value checked)', count=None)
    oe.resub(r'OpenFiles::STDERR_FD', '2', 'R10', 'constant resolved (value checked)', count=None)
    oe.sig(fn, ret='res', ensures=[
        C('C10 both-streams-go-to-the-word-seen-from-the-shells-directory-appending-iff-asked', '''res is Ok ==> ({
    let want = OpenOptions { write: true, create: true, truncate: !append, append: append, ..no_flags() };
    &&& final(params).open_files@.contains_key(1) && final(params).open_files@[1] is Some
    &&& final(params).open_files@.contains_key(2) && final(params).open_files@[2] is Some
    &&& final(params).open_files@[1]->Some_0.opened_with() == want && final(params).open_files@[2]->Some_0.opened_with() == want
    &&& final(params).open_files@[1]->Some_0.opened_path() == final(params).open_files@[2]->Some_0.opened_path()
    &&& final(params).open_files@ == old(params).open_files@.insert(1, final(params).open_files@[1]).insert(2, final(params).open_files@[2])
})'''),
        C('C10 failed-open-leaves-the-table', 'res is Err ==> final(params).open_files@ == old(params).open_files@'),
    ])
    u.add(oe)
    # ---- here-string and here-document arms of setup_redirect (R6 block slices)
    ast.require_text(r'pub struct IoHereDocument \{(?:[^}]|\n)*?pub requires_expansion: bool,(?:[^}]|\n)*?pub doc: Word,', 'projection IoHereDocument')
    u.prelude('std/str_ops.rs')
    u.prelude('fds/here_spec.rs')
    hs = interp.block_slice(r'^\s*ast::IoRedirect::HereString\(fd_num, word\) => \{$',
                            'fn here_string_arm(shell: &mut Shell, params: &mut ExecutionParameters, fd_num: &Option<ShellFd>, word: &ast2::Word) -> Result<(), error::Error>', 'here_string_arm')
    hs.r1().r3().resub(r'\n\}$', '\n    Ok(())\n}', 'R6', 'wrapper epilogue `Ok(())` (what the enclosing function returns after the match)', count=1)
    hs.at_body_start('here_string_arm', 'broadcast use {axiom_str_starts_with_char, axiom_str_ends_with_char};')
    hs.sig(ret='res', ensures=[
        C('C10,C04 here-string-is-value-plus-newline', '''res is Ok ==> ({
    let fd = match *fd_num { Some(n) => n, None => 0 };
    &&& final(params).open_files@.contains_key(fd) && final(params).open_files@[fd] is Some
    &&& final(params).open_files@[fd]->Some_0.contents() == expand_word_spec(*word, *old(shell)).push('\\n')
    &&& final(params).open_files@ == old(params).open_files@.insert(fd, final(params).open_files@[fd])
})'''),
        C('C10 here-string-error-leaves-table', 'res is Err ==> final(params).open_files@ == old(params).open_files@'),
    ])
    u.add(hs)
    hd = interp.block_slice(r'^\s*ast::IoRedirect::HereDocument\(fd_num, io_here\) => \{$',
                            'fn here_document_arm(shell: &mut Shell, params: &mut ExecutionParameters, fd_num: &Option<ShellFd>, io_here: &ast2::IoHereDocument) -> Result<(), error::Error>', 'here_document_arm')
    hd.r1().r3().resub(r'\n\}$', '\n    Ok(())\n}', 'R6', 'wrapper epilogue `Ok(())`', count=1)
    hd.sig(ret='res', ensures=[
        C('C10 here-document-body-byte-exact', '''res is Ok ==> ({
    let fd = match *fd_num { Some(n) => n, None => 0 };
    &&& final(params).open_files@.contains_key(fd) && final(params).open_files@[fd] is Some
    &&& final(params).open_files@[fd]->Some_0.contents() == (if io_here.requires_expansion { expand_heredoc_spec(io_here.doc, *old(shell)) } else { io_here.doc.flat() })
    &&& final(params).open_files@ == old(params).open_files@.insert(fd, final(params).open_files@[fd])
})'''),
    ])
    u.add(hd)
    # ---- line continuations of an expanding here-document body
    ex = u.source('brush-core/src/expansion.rs')
    if ex.has(r'^fn remove_line_continuations\('):
        rl = ex.item(r'^fn remove_line_continuations\(', 'remove_line_continuations').r1().r11()
        rl.resub(r'\bs\.replace\(("[^"]*"), ("[^"]*")\)', r'str_replace_str(s, \1, \2)', 'R14', 'str::replace(&str, &str) -> stub (all matches, left to right)', count=None)
        has_loop = 'for c in s.chars()' in rl.text
        rl.sig(ret='result', ensures=[C('C10 backslash-newline-removed-unless-the-backslash-is-escaped', 'result@ == remove_cont(s@)')])
        rl.loop(0, iter_name='it', optional=True, invariant=[
            C('aux', 'it.history@ + it.iter.remaining() == s@'),
            C('C10 scan-state', 'remove_cont(s@) == result@ + remove_cont_from(after_backslash, s@.skip(it.history@.len() as int))'),
        ], body_first='''proof {
    let n = it.history@.len() as int;
    let rest0 = s@.skip(n);
    assert(it.iter.remaining().len() > 0 && it.iter.remaining()[0] == c);
    assert((it.history@ + it.iter.remaining())[n] == c);
    assert(rest0.len() > 0 && rest0[0] == c);
    assert(rest0.skip(1) =~= s@.skip(n + 1));
    if rest0.len() >= 2 { assert(rest0.skip(1).skip(1) =~= rest0.skip(2)); assert(rest0.skip(1)[0] == rest0[1]); }
}''')
        if has_loop:
          rl.before_loop('remove_line_continuations', 0, 'proof { assert(result@ =~= Seq::<char>::empty()); assert(s@.skip(0) =~= s@); assert(Seq::<char>::empty() + remove_cont(s@) =~= remove_cont(s@)); }')
        u.add(rl)
        # basic_expand_heredoc_word, whole function: continuations are removed from the body as written, then it is expanded, and what the
        # expansion returns is handed back untouched (content that comes out of an expansion is never re-read as syntax)
        hw = ex.item(r'^pub\(crate\) async fn basic_expand_heredoc_word\(', 'basic_expand_heredoc_word').r1().r3()
        hw.resub(r'shell: &mut Shell<impl extensions::ShellExtensions>', 'shell: &mut Shell', 'R4', 'extension generic erased', count=1)
        hw.resub(r'word_str: impl AsRef<str>', 'word_str: &str', 'R4', '`impl AsRef<str>` parameter -> &str (its only use is `.as_ref()`)', count=1)
        hw.resub(r'\bword_str\.as_ref\(\)', 'word_str', 'R4', '`impl AsRef<str>` parameter -> &str', count=None)
        hw.resub(r'\bfn basic_expand_heredoc_word\(', 'fn basic_expand_heredoc_word_real(', 'R5', 'renamed: the stub of the same name stays the contract its callers see', count=1)
        hw.resub(r'WordExpander::new\(shell, params\)', 'HeredocExpander::new(shell, params)', 'R14', 'WordExpander (generic over the extension type, borrows the shell) -> stub with the two mode flags', count=1)
        hw.sig('basic_expand_heredoc_word_real', ret='res', ensures=[
            C('C10,C04 the-body-is-expanded-after-its-line-continuations-are-removed-and-the-result-is-handed-back-untouched',
              'res == heredoc_expand_spec(*old(shell), remove_cont(word_str@), true, true)')])
        u.raw('''// the expander as far as this function uses it: two mode flags and the expansion itself (uninterpreted)
pub uninterp spec fn heredoc_expand_spec(sh: Shell, body: Seq<char>, heredoc_mode: bool, no_brace: bool) -> Result<String, error::Error>;
pub struct HeredocExpander { pub heredoc_mode: bool, pub disable_brace_expansion: bool, pub sh: Ghost<Shell> }
impl HeredocExpander {
    #[verifier::external_body]
    pub fn new(shell: &mut Shell, params: &ExecutionParameters) -> (r: Self) ensures !r.heredoc_mode && !r.disable_brace_expansion && r.sh@ == *old(shell) { unimplemented!() }
    #[verifier::external_body]
    pub fn basic_expand_to_str(&mut self, word: &str) -> (r: Result<String, error::Error>)
        ensures r == heredoc_expand_spec(old(self).sh@, word@, old(self).heredoc_mode, old(self).disable_brace_expansion) { unimplemented!() }
}
''')
        u.add(hw)
    else:
        u.raw('''pub proof fn heredoc_line_continuations_are_removed()
    ensures
        //@ expansion.rs:remove_line_continuations:exists | C10 backslash-newline-removed-unless-the-backslash-is-escaped (no such step before the body is expanded)
        false,
{}
''')
    u.raw(FOOTER)
    u.assume('axiom', 'str::starts_with / ends_with at a char pattern mean first / last character equals it (std documented behaviour)')
    u.assume('assume_specification', 'str::starts_with / ends_with (generic Pattern) are uninterpreted functions of text and pattern; Option::map_or(d, f) is d on None and f(x) on Some(x), Option::or_else(o, f) is o when Some else f() (std documented behaviour)')
    u.assume('external_body', 'OpenFile and error::Error are opaque; From<ErrorKind> for Error is a stub; OpenFile::clone returns an equal value (it dups the descriptor); Shell::persistent_open_files is a view of persistent()')
    u.assume('external_body', 'basic_expand_word / basic_expand_heredoc_word (uninterpreted results) and setup_open_file_with_contents (a pipe holding exactly the text) are stubs; the here-document tokenizer (delimiter recognition, tab stripping) is NOT verified')
    u.assume('uninterp', 'expand_word_spec, expand_heredoc_spec, OpenFile::contents, Word::flat, Shell::persistent, Shell::opts, PathBuf::is_regular, Error::is_unimplemented')
    u.assume('model', 'std::fs::OpenOptions is replaced by a struct of the six flags with setters that set exactly one flag (std documented behaviour); `std::fs::File::options()` starts with all flags false (precondition of the slice)')
    u.assume('stub', 'the rest of setup_redirect (expansion, open(2), left-to-right application, here-documents) is NOT under contract')
    u.expected_min_fns = 9
    return u
