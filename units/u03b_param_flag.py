"""U3b: the nounset tolerance flag is threaded through expand_parameter_internal, incl. the indirect ${!ref} step."""
from vx.unit import Unit
from vx.extract import C

PROPS = ['C03', 'C06', 'C01']
HEADER = 'use vstd::prelude::*;\nverus! {\n'
FOOTER = '\n} // verus!\nfn main() {}\n'


def build(repo, findings):
    u = Unit('U3b', 'nounset tolerance flag threading in parameter expansion', repo, ['C03', 'C06'], safety_props=['C01', 'C03'])
    ex = u.source('brush-core/src/expansion.rs')
    u.raw(HEADER)
    u.prelude('errexit/param_spec.rs')
    u.raw('impl WordExpander {')
    f = ex.method_anywhere('expand_parameter_internal').r1().r3().r11()
    f.sig('expand_parameter_internal', ret='res', ensures=[
        C('C03,C06 tolerance-flag-reaches-every-lookup', 'all_with_flag(old(self).lookups(), final(self).lookups(), allow_unset_vars)'),
        C('C03 direct-expansion-is-one-lookup', '!indirect ==> final(self).lookups() == old(self).lookups().push((*parameter, allow_unset_vars))'),
        C('C03 indirect-expansion-looks-up-twice', '(indirect && res is Ok) ==> final(self).lookups().len() == old(self).lookups().len() + 2 && final(self).lookups()[old(self).lookups().len() as int].0 == *parameter'),
    ])
    u.add(f)
    g = ex.method_anywhere('expand_parameter').r1().r3().r11()
    g.sig('expand_parameter', ret='res', ensures=[C('C03,C06 plain-expansion-does-not-tolerate-unset', 'all_with_flag(old(self).lookups(), final(self).lookups(), false)')])
    u.add(g)
    h = ex.method_anywhere('expand_parameter_allowing_unset').r1().r3().r11()
    h.sig('expand_parameter_allowing_unset', ret='res', ensures=[C('C03,C06 tolerant-operators-tolerate-unset', 'all_with_flag(old(self).lookups(), final(self).lookups(), true)')])
    u.add(h)
    u.raw('}\n')
    u.raw(FOOTER)
    u.assume('external_body', 'expand_parameter_without_indirect (the actual lookup; its use of the flag at undefined_expansion is decided in U3), fields_to_string, parse_parameter are abstract; which operator calls which wrapper (the 470-line expand_parameter_expr match) is NOT verified')
    u.assume('uninterp', 'ExpanderRest::lookups (ghost log)')
    u.expected_min_fns = 3
    return u
