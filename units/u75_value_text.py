"""U75: ShellValue::to_assignable_str and the scalar arms of ShellValue::format (brush-core/src/variables.rs): which quoting function and
which mode writes a value — `${v@A}` / `${v@Q}`-style text single-quoted by force, `declare -p` double-quoted by force, the `set` listing
quoted only if needed (single-quote mode), an unset value as nothing.  (That each of those texts re-reads as the value is U16's.)  The
array arms of format (loops over BTreeMaps with write!) are stubs."""
import re
from vx.unit import Unit
from vx.extract import C, ExtractError

PROPS = ['C13']
HEADER = '#![feature(allocator_api)]\nuse vstd::prelude::*;\nuse vstd::string::*;\nuse std::collections::BTreeMap;\nverus! {\n'
FOOTER = '\n} // verus!\nfn main() {}\n'


def build(repo, findings):
    u = Unit('U75', 'value text: which quoting function and mode writes a scalar, an element, an unset value', repo, PROPS, safety_props=[])
    va = u.source('brush-core/src/variables.rs')
    es = u.source('brush-core/src/escape.rs')
    va.require_text(r'type DynamicValueGetter = fn\(', 'DynamicValueGetter is a fn pointer (projected to an opaque struct)')
    u.raw(HEADER)
    u.add(va.item(r'^pub enum ShellValueUnsetType ', 'ShellValueUnsetType').r1(keep_derive=()))
    u.add(va.item(r'^pub enum ShellValue ', 'ShellValue').r1(keep_derive=()))
    u.add(va.item(r'^pub enum FormatStyle ', 'FormatStyle').r1(keep_derive=()))
    u.raw('pub mod escape {\nuse vstd::prelude::*;\n')
    u.add(es.item(r'^pub enum QuoteMode ', 'QuoteMode').r1(keep_derive=()).resub(r'\n\s*#\[default\]', '', 'R1', '#[default] attribute dropped', count=None))
    u.raw('''pub uninterp spec fn force_quote_spec(s: Seq<char>, m: QuoteMode) -> Seq<char>;
pub uninterp spec fn quote_if_needed_spec(s: Seq<char>, m: QuoteMode) -> Seq<char>;
#[verifier::external_body] pub fn force_quote(s: &str, mode: QuoteMode) -> (r: String) ensures r@ == force_quote_spec(s@, mode) { unimplemented!() }
#[verifier::external_body] pub fn quote_if_needed(s: &str, mode: QuoteMode) -> (r: String) ensures r@ == quote_if_needed_spec(s@, mode) { unimplemented!() }     // R17: Cow<str> erased
}
pub mod error { use vstd::prelude::*; #[verifier::external_body] pub struct Error { _p: u8 } }
#[verifier::external_body] pub struct Shell { _p: u8 }
pub struct DynamicValueGetter { pub u: u8 }
pub struct DynamicValueSetter { pub u: u8 }
pub uninterp spec fn at_spec(v: ShellValue, index: Seq<char>, sh: Shell) -> Option<Seq<char>>;     // Ok(Some(text)) of get_at
pub uninterp spec fn array_text_spec(v: ShellValue, sh: Shell) -> Result<String, error::Error>;     // the array arms of format(DeclarePrint)
impl ShellValue {
    #[verifier::external_body]
    pub fn get_at_ok_some(&self, index: &str, shell: &Shell) -> (r: Option<String>)
        ensures (r is Some) == (at_spec(*self, index@, *shell) is Some), r is Some ==> r->Some_0@ == at_spec(*self, index@, *shell)->Some_0 { unimplemented!() }
    #[verifier::external_body] pub fn format_array(&self, shell: &Shell) -> (r: Result<String, error::Error>) ensures r == array_text_spec(*self, *shell) { unimplemented!() }
    #[verifier::external_body] pub fn format_dynamic(&self, style: FormatStyle, shell: &Shell) -> Result<String, error::Error> { unimplemented!() }
    #[verifier::external_body] pub fn dynamic_assignable(&self, index: Option<&str>, shell: &Shell) -> Result<String, error::Error> { unimplemented!() }
}
#[verifier::external_body] pub fn vx_empty() -> (r: String) ensures r@ == Seq::<char>::empty() { unimplemented!() }
''')
    u.raw('impl ShellValue {')
    # ---- to_assignable_str
    fn = 'to_assignable_str'
    f = va.method_anywhere(fn).r1().r11()
    f.resub(r'shell: &Shell<impl extensions::ShellExtensions>', 'shell: &Shell', 'R4', 'extension generic erased', count=None)
    f.resub(r'let Ok\(Some\(value\)\) = self\.get_at\(index, shell\)', 'let Some(value) = self.get_at_ok_some(index, shell)', 'R14', '`let Ok(Some(v)) = get_at(..)` -> stub returning that reading', count=1)
    f.resub(r'\bvalue\.as_ref\(\)', 'value.as_str()', 'R17', 'Cow<str>::as_ref -> String::as_str', count=None)
    f.resub(r'Ok\(self\.format\(FormatStyle::DeclarePrint, shell\)\?\.into_owned\(\)\)', 'self.format_array(shell)', 'R14', 'the array arms of format(DeclarePrint) -> stub', count=1)
    f.resub(r'Self::Dynamic \{ getter, \.\. \} => getter\(shell\)\.to_assignable_str\(index, shell\),', 'Self::Dynamic { .. } => self.dynamic_assignable(index, shell),', 'R14', 'call through the getter fn pointer -> stub', count=1)
    f.resub(r'\)\s*\.into_owned\(\)', ')', 'R17', 'Cow<str>::into_owned on an erased Cow -> dropped', count=None)
    f.sig(fn, ret='res', ensures=[
        C('C13 a-scalar-is-written-single-quoted-by-force', 'self is String ==> (res is Ok && res->Ok_0@ == escape::force_quote_spec(self->String_0@, escape::QuoteMode::SingleQuote))'),
        C('C13 an-unset-value-is-written-as-nothing', 'self is Unset ==> (res is Ok && res->Ok_0@.len() == 0)'),
        C('C13 an-element-is-written-single-quoted-by-force-a-missing-one-as-nothing', '''((self is AssociativeArray || self is IndexedArray) && index is Some) ==> (res is Ok && res->Ok_0@ == (match at_spec(*self, index->Some_0@, *shell) {
    Some(t) => escape::force_quote_spec(t, escape::QuoteMode::SingleQuote), None => Seq::<char>::empty() }))'''),
        C('C13 a-whole-array-is-written-as-declare-prints-it', '((self is AssociativeArray || self is IndexedArray) && index is None) ==> res == array_text_spec(*self, *shell)'),
    ])
    u.add(f)
    # ---- format: the scalar arms
    fn2 = 'format'
    g = va.method_anywhere(fn2).r1().r11()
    g.resub(r'shell: &Shell<impl extensions::ShellExtensions>', 'shell: &Shell', 'R4', 'extension generic erased', count=None)
    g.resub(r"Result<Cow<'_, str>, error::Error>", 'Result<String, error::Error>', 'R17', 'Cow<str> erased to its owned form', count=1)
    g.resub(r'Ok\(""\.into\(\)\)', 'Ok(vx_empty())', 'R17', '"".into() -> the empty string', count=None)
    g.resub(r'Ok\(escape::force_quote\((.*?)\)\.into\(\)\)', r'Ok(escape::force_quote(\1))', 'R17', 'String -> Cow: .into() dropped', count=None, flags=re.S)
    m1 = re.search(r'(Self::AssociativeArray\(values\) => )\{.*?\n\s*\}\n(?=\s*Self::IndexedArray)', g.text, re.S)
    m2 = re.search(r'(Self::IndexedArray\(values\) => )\{.*?\n\s*\}\n(?=\s*Self::Dynamic)', g.text, re.S)
    m3 = re.search(r'Self::Dynamic \{ getter, \.\. \} => \{.*?\n\s*\}\n(?=\s*\}\n\s*\}\s*$)', g.text, re.S)
    if not (m1 and m2 and m3):
        raise ExtractError('unsupported: ShellValue::format no longer has its AssociativeArray / IndexedArray / Dynamic arms as blocks in that order')
    g.resub(re.escape(m3.group(0)), 'Self::Dynamic { .. } => self.format_dynamic(style, shell),\n', 'R14', 'the Dynamic arm (call through the getter) -> stub', count=1)
    g.resub(re.escape(m2.group(0)), 'Self::IndexedArray(_) => self.format_array(shell),\n', 'R14', 'the indexed-array arm (loop over a BTreeMap with write!) -> stub; NOT verified', count=1)
    g.resub(re.escape(m1.group(0)), 'Self::AssociativeArray(_) => self.format_array(shell),\n', 'R14', 'the associative-array arm (loop over a BTreeMap with write!) -> stub; NOT verified', count=1)
    g.sig(fn2, ret='res', ensures=[
        C('C13 declare-p-writes-a-scalar-double-quoted-by-force', '(self is String && style is DeclarePrint) ==> (res is Ok && res->Ok_0@ == escape::force_quote_spec(self->String_0@, escape::QuoteMode::DoubleQuote))'),
        C('C13 the-set-listing-quotes-a-scalar-only-if-needed-with-single-quotes', '(self is String && style is Basic) ==> (res is Ok && res->Ok_0@ == escape::quote_if_needed_spec(self->String_0@, escape::QuoteMode::SingleQuote))'),
        C('C13 an-unset-value-is-written-as-nothing', 'self is Unset ==> (res is Ok && res->Ok_0@.len() == 0)'),
    ])
    u.add(g)
    u.raw('}\n')
    u.raw(FOOTER)
    u.assume('external_body', 'escape::force_quote / quote_if_needed (uninterpreted texts; U16 proves they re-read as the value), get_at, the array and Dynamic arms of format are stubs; Shell is opaque')
    u.assume('uninterp', 'force_quote_spec, quote_if_needed_spec, at_spec, array_text_spec')
    u.assume('stub', 'the text of a whole array (`([k]="v" ..)`: key quoting, separators, order) is NOT verified (BTreeMap iteration with write!)')
    u.expected_min_fns = 2
    return u
