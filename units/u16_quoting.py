"""U16 quoting (brush-core/src/escape.rs): `quote` and the four writers it selects from, against a reader of one shell word
written from POSIX 2.2/2.3 and the bash manual's ANSI-C quoting section: for every value without NUL and every quoting mode the
text `quote` returns reads back as exactly that value."""
import re
from vx.unit import Unit
from vx.extract import C, ExtractError

PROPS = ['C13', 'C06', 'C01']
HEADER = 'use vstd::prelude::*;\nuse vstd::string::*;\nuse vstd::std_specs::iter::IteratorSpec;\nverus! {\n'
FOOTER = '\n} // verus!\nfn main() {}\n'
PREDS = ['needs_escaping', 'needs_escaping_at_start', 'needs_ansi_c_quoting']
TWIN_SUBST = [(r'\b(\w+)\.is_ascii_control\(\)', r'char_is_ascii_control_spec(\1)'), (r'\b(\w+)\.is_control\(\)', r'char_is_control_spec(\1)')]
STRLITS = ['\\\\a', '\\\\b', '\\\\E', '\\\\f', '\\\\n', '\\\\r', '\\\\t', '\\\\v', '\\\\\\\\', "\\\\'"]


def twinify(expr):
    return re.sub(r'\b(%s)\(' % '|'.join(PREDS), r'\1__twin(', expr)


def build(repo, findings):
    u = Unit('U16', 'quote(): every style it can pick reads back as the value (POSIX/bash word reader)', repo, ['C13'], safety_props=['C01', 'C13'])
    u.prop_alias = {'C13': ['C06']}      # ${v@Q} / ${v@A} hand out exactly what these functions write: their C13 clauses count for C06
    if 'C06' not in u.props:
        u.props.append('C06')
    src = u.source('brush-core/src/escape.rs')
    # precondition of `quote` below: nobody asks to leave newlines out of ANSI-C quoting (both constructors use Default for it)
    for rel in ('brush-core/src/escape.rs',):
        if re.search(r'avoid_ansi_c_quoting_newline\s*:\s*true', u.source(rel).text):
            raise ExtractError('a QuoteOptions constructor sets avoid_ansi_c_quoting_newline: true — the contract of quote() assumes it is never set')
    u.raw(HEADER)
    u.prelude('quoting/reader_spec.rs')
    u.prelude('quoting/spec.rs')
    u.add(src.item(r'^pub enum QuoteMode ', 'QuoteMode').r1(keep_derive=()).resub(r'^\s*#\[default\]\n', '', 'R1', 'derive helper attribute dropped', count=None))
    u.add(src.item(r'^pub\(crate\) struct QuoteOptions ', 'QuoteOptions').r1(keep_derive=()).r11_pub())
    # ---- the three character predicates: exec fn == its spec twin (same body text)
    for name in PREDS:
        hdr = r'^(?:const )?fn %s\(' % name
        if not src.has(hdr):
            if name == 'needs_escaping_at_start':
                # C13 finding fixed in /repo 1842231: without a predicate for a leading '#' / '~' the cover lemma cannot hold
                u.raw('pub open spec fn needs_escaping_at_start__twin(c: char) -> bool { false }\n')
                continue
            raise ExtractError('anchor lost: %s' % name)
        f = src.item(hdr, name).r1().r11()
        u.raw(f.twin(name, TWIN_SUBST))
        f.sig(ret='r', ensures=[C('aux exec-predicate-is-its-spec-twin', 'r == %s__twin(c)' % name)])
        u.add(f)
    # ---- double_quote
    f = src.item(r'^fn double_quote\(', 'double_quote').r1().r11()
    f.sig(ret='result', ensures=[C('C13 double-quote-output', "result@ == seq!['\"'] + flat_r(s@, dq_piece()) + seq!['\"']")])
    f.loop(0, iter_name='it', invariant=[
        C('aux', 'it.history@ + it.iter.remaining() == s@'),
        C('C13 double-quote-prefix', "result@ == seq!['\"'] + flat_r(it.history@, dq_piece())"),
    ], body_first='proof { assert((it.history@.push(c)).drop_last() =~= it.history@); }')
    u.add(f)
    # ---- ansi_c_quote
    f = src.item(r'^fn ansi_c_quote\(', 'ansi_c_quote').r1().r11()
    f.resub(r'std::format!\("\\\\\{:03o\}", (\w+) as u8\)', r'vx_fmt_backslash_octal3(\1 as u8)', 'R8', 'format!("\\\\{:03o}", c as u8) -> stub returning backslash + three octal digits of the byte', count=None)
    f.sig(ret='result', ensures=[C('C13 ansi-c-output', "result@ == seq!['$', '\\''] + flat_r(s@, ansi_piece(flag_fn())) + seq!['\\'']")])
    lits = ' '.join('reveal_strlit("%s");' % l for l in STRLITS + ["$'"])
    f.at_body_start('ansi_c_quote', 'proof { %s assert("$\'"@ =~= seq![\'$\', \'\\\'\']); }' % lits)
    f.loop(0, iter_name='it', invariant=[
        C('aux', 'it.history@ + it.iter.remaining() == s@'),
        C('C13 ansi-c-prefix', "result@ == seq!['$', '\\''] + flat_r(it.history@, ansi_piece(flag_fn()))"),
    ], body_first='''proof { assert((it.history@.push(c)).drop_last() =~= it.history@);
    %s
    assert("\\\\a"@ =~= seq!['\\\\', 'a']); assert("\\\\b"@ =~= seq!['\\\\', 'b']); assert("\\\\E"@ =~= seq!['\\\\', 'E']); assert("\\\\f"@ =~= seq!['\\\\', 'f']);
    assert("\\\\n"@ =~= seq!['\\\\', 'n']); assert("\\\\r"@ =~= seq!['\\\\', 'r']); assert("\\\\t"@ =~= seq!['\\\\', 't']); assert("\\\\v"@ =~= seq!['\\\\', 'v']);
    assert("\\\\\\\\"@ =~= seq!['\\\\', '\\\\']); assert("\\\\'"@ =~= seq!['\\\\', '\\'']);
}''' % lits)
    u.add(f)
    # ---- backslash_escape
    fn = 'backslash_escape'
    f = src.item(r'^fn backslash_escape\(', fn).r1().r11().r17_cow()
    f.resub(r'(\w+)\.chars\(\)\.any\((\w+)\)', r'str_any(\1, \2)', 'R14', 's.chars().any(pred) -> str_any(s, pred) stub', count=None)
    f.resub(r'(\w+)\.starts_with\((needs_\w+)\)', r'str_first_is(\1, \2)', 'R14', 's.starts_with(pred) -> str_first_is(s, pred) stub', count=None)
    f.resub(r'\b(\w+)\.bytes\(\)\.map\(char::from\)', r'str_bytes_as_chars(\1).into_iter()', 'R14', 'bytes().map(char::from) -> stub (each byte as a character of its own)', count=None)
    f.r12(fn, 0)
    f.sig(fn, ret='res', ensures=[
        C('C13 empty-value-is-two-quotes', "s@.len() == 0 ==> res@ == seq!['\\'', '\\'']"),
        C('C13 backslash-output', 's@.len() > 0 ==> res@ == flat_r(s@, bs_piece(esc_fn()))'),
    ])
    f.at_body_start(fn, 'proof { reveal_strlit("\'\'"); assert("\'\'"@ =~= seq![\'\\\'\', \'\\\'\']); axiom_str_chars_fit_usize(s);\n    if (forall|i: int| 0 <= i < s@.len() ==> !needs_escaping__twin(#[trigger] s@[i])) && (s@.len() == 0 || !needs_escaping_at_start__twin(s@[0])) { lemma_nothing_escaped(s@); } }')
    f.loop(0, fn_name=fn, iter_name='it', invariant=[
        C('aux', 'it.history@ + it.iter.remaining() == s@ && __n == it.history@.len() && s@.len() <= isize::MAX'),
        C('C13 backslash-prefix', 'output@ == flat_r(it.history@, bs_piece(esc_fn()))'),
    ], body_first='proof { assert((it.history@.push(c)).drop_last() =~= it.history@); assert(it.history@.len() < s@.len()) by { assert((it.history@ + it.iter.remaining()).len() == s@.len()); assert(it.iter.remaining().len() > 0); } }')
    u.add(f)
    # ---- single_quote
    fn = 'single_quote'
    f = src.item(r'^fn single_quote\(', fn).r1().r11().r17_cow()
    f.resub(r"^(\s*)for (\w+) in (\w+)\.split\('\\''\) \{", r"\1let __parts = str_split_char(\3, '\\'');\n\1for \2 in __parts.iter() {", 'R14', "s.split('\\'') -> str_split_char(s, '\\'') stub returning the parts as a Vec", count=None)
    f.sig(fn, ret='res', ensures=[
        C('C13 empty-value-is-two-quotes', "s@.len() == 0 ==> res@ == seq!['\\'', '\\'']"),
        C('C13 single-quote-output', "s@.len() > 0 ==> res@ == flat_r(split_char(s@, '\\''), sq_piece())"),
    ])
    f.at_body_start(fn, 'proof { reveal_strlit("\'\'"); assert("\'\'"@ =~= seq![\'\\\'\', \'\\\'\']); }')
    PS = "split_char(s@, '\\'')"
    f.loop(0, fn_name=fn, iter_name='it', invariant=[
        C('aux', 'it.index@ + it.iter.remaining().len() == __parts@.len()'),
        C('aux', 'forall|i: int| 0 <= i < it.iter.remaining().len() ==> *(#[trigger] it.iter.remaining()[i]) == __parts@[it.index@ + i]'),
        C('aux', '__parts@.len() == %s.len() && forall|i: int| 0 <= i < __parts@.len() ==> (#[trigger] __parts@[i])@ == %s[i]' % (PS, PS)),
        C('C13 first-flag-tracks-position', 'first == (it.index@ == 0)'),
        C('C13 single-quote-prefix', 'result@ == flat_r(%s.take(it.index@ as int), sq_piece())' % PS),
    ], body_first='''proof {
    let ps = %s;
    let k = it.index@ as int;
    assert(*part == __parts@[k]);
    assert(ps.take(k + 1).drop_last() =~= ps.take(k));
    assert(ps.take(k + 1).last() == ps[k]);
}''' % PS)
    f.after_loop(fn, 0, "proof { assert(%s.take(__parts@.len() as int) =~= %s); }" % (PS, PS))
    u.add(f)
    # ---- quote
    fn = 'quote'
    f = src.item(r'^pub\(crate\) fn quote<', fn).r1().r11().r17_cow()
    m = re.search(r'\.contains\(\|(\w+)\| \{\n(.*?)\n\s*\}\)', f.text, re.S)
    f.resub(r'(\w+)\.contains\(', r'str_any(\1, ', 'R14', 's.contains(pred) -> str_any(s, pred) stub', count=None)
    f.resub(r'(\w+)\.starts_with\((needs_\w+)\)', r'str_first_is(\1, \2)', 'R14', 's.starts_with(pred) -> str_first_is(s, pred) stub', count=None)
    f.sig(fn, ret='res', requires=[
        C('aux newline-exemption-never-requested', '!options.avoid_ansi_c_quoting_newline'),
        C('aux value-has-no-NUL', 'no_nul(s@)'),
    ], ensures=[
        C('C13 quoted-text-reads-back-as-the-value', 'reads_as(res@, s@)'),
    ])
    if m:
        # the closure's contract is its own body, with the predicates replaced by their twins (mechanical)
        f.closure(r'str_any\(\w+, \|', 'char', 'b: bool', 'b == (%s)' % twinify(' '.join(m.group(2).split())), fn_name=fn)
    f.at_body_start(fn, '''proof {
    lemma_predicates_cover(s@);
    lemma_empty_word();
    lemma_dq_word(s@);
    if s@.len() > 0 { lemma_sq_word(s@); }
    if ansi_flag_ok(flag_fn()) { lemma_ansi_word(s@, flag_fn()); }
    if s@.len() > 0 && bs_ok(s@, esc_fn(), 0) { lemma_bs_word(s@); }
    if bs_ok(s@, |i: int, c: char| false, 0) { lemma_raw_read(s@); }
}''')
    u.add(f)
    # ---- the two public entry points (they build the options with struct-update syntax over the derived Default)
    u.raw('''// #[derive(Default)] of QuoteOptions / QuoteMode (#[default] SingleQuote): all flags false.  ASSUMED (derive semantics).
impl Default for QuoteOptions {
    #[verifier::external_body]
    fn default() -> (r: Self) ensures !r.always_quote && !r.avoid_ansi_c_quoting_newline && r.preferred_mode is SingleQuote { unimplemented!() }
}
pub broadcast axiom fn axiom_string_to_string(s: String, r: String)
    requires #[trigger] vstd::string::to_string_from_display_ensures::<String>(&s, r),
    ensures r@ == s@;
''')
    for name in ('force_quote', 'quote_if_needed'):
        if not src.has(r'^pub fn %s\(' % name):
            continue
        g = src.item(r'^pub fn %s\(' % name, name).r1().r11().r17_cow()
        g.sig(name, ret='res', requires=[C('aux value-has-no-NUL', 'no_nul(s@)')], ensures=[
            C('C13 quoted-text-reads-back-as-the-value', 'reads_as(res@, s@)')])
        g.at_body_start(name, 'broadcast use axiom_string_to_string;')
        u.add(g)
    # ---- a call site outside escape.rs: the xtrace text of an assigned value (variables.rs); the options handed to quote() are checked
    #      against quote()'s precondition here, by the verifier, not by a text scan
    vs = u.source('brush-core/src/variables.rs')
    fn = 'fmt_scalar_for_tracing'
    t = vs.method_anywhere(fn).r1()
    t.resub(r"std::fmt::Formatter<'_>", 'VxFormatter', 'R8', 'fmt::Formatter -> stub with a ghost text', count=None)
    t.resub(r'std::fmt::Result', 'Result<(), VxFmtError>', 'R8', 'fmt::Result spelled out over a stub error', count=None)
    t.resub(r'\bescape::', '', 'R0', 'module path (the items are in this file)', count=None)
    t.resub(r'write!\(f, "\{processed\}"\)', 'vx_write_display(f, &processed)', 'R8', 'write!(f, "{x}") -> stub appending the characters of x', count=None)
    t.sig(fn, ret='res', requires=[C('aux value-has-no-NUL', 'no_nul(s@)')], ensures=[
        C('C13 traced-assignment-value-reads-back-as-the-value', 'res is Ok ==> final(f).text() == old(f).text() + final(f).last_written() && reads_as(final(f).last_written(), s@)')])
    u.raw('''#[verifier::external_body] pub struct VxFormatter { _p: u8 }
#[verifier::external_body] pub struct VxFmtError { _p: u8 }
impl VxFormatter { pub uninterp spec fn text(&self) -> Seq<char>; pub uninterp spec fn last_written(&self) -> Seq<char>; }
#[verifier::external_body]
pub fn vx_write_display(f: &mut VxFormatter, s: &String) -> (r: Result<(), VxFmtError>) ensures r is Ok ==> final(f).text() == old(f).text() + s@ && final(f).last_written() == s@ { unimplemented!() }
''')
    u.add(t)
    # every other mention of the newline exemption in brush-core must be inside code that is under contract above
    import os as _os
    for root, _dirs, files in _os.walk(_os.path.join(repo, 'brush-core', 'src')):
        for fnm in files:
            rel = _os.path.relpath(_os.path.join(root, fnm), repo)
            if not fnm.endswith('.rs') or rel == 'brush-core/src/escape.rs':
                continue
            txt = open(_os.path.join(root, fnm)).read()
            n = len(re.findall(r'avoid_ansi_c_quoting_newline', txt))
            if rel == 'brush-core/src/variables.rs':
                n -= len(re.findall(r'avoid_ansi_c_quoting_newline', vs.text[vs.text.find('fn fmt_scalar_for_tracing'):vs.text.find('fn fmt_scalar_for_tracing') + 1200]))
            if n > 0:
                raise ExtractError('%s mentions avoid_ansi_c_quoting_newline outside the call sites under contract — quote()\'s precondition cannot be checked there' % rel)
    u.raw(FOOTER)
    u.assume('assume_specification', 'String::with_capacity(n) is empty; char::is_ascii_control is c <= 0x1f || c == 0x7f (std documented behaviour)')
    u.assume('external_body', 'R14 stubs str_any / str_first_is (the std predicate searches: true iff the predicate returned true for some / the first char), str_split_char (std str::split on a char), vx_fmt_backslash_octal3 (format!("\\\\{:03o}", byte)), vx_owned (String from &str/String with the same chars)')
    u.assume('axiom', 'a string has at most isize::MAX chars (needed for the R12 counter that replaces enumerate())')
    u.assume('uninterp', 'VxFormatter::text / last_written (ghost: what has been written to the formatter)')
    u.assume('stub', 'every caller that assembles declare -p / set / alias / trap -p / xtrace lines around quote() are NOT verified; printf %q with other arguments goes through uucore (third party); the reader is a spec function written from POSIX 2.2/2.3 and the bash manual, not brush\'s or bash\'s parser; history expansion is off')
    u.expected_min_fns = 8
    return u
