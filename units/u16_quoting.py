"""U16 quoting: the character predicates `quote` consults and the double-quote writer (brush-core/src/escape.rs)."""
from vx.unit import Unit
from vx.extract import C

PROPS = ['C13', 'C01']
HEADER = 'use vstd::prelude::*;\nuse vstd::std_specs::iter::IteratorSpec;\nverus! {\n'
FOOTER = '\n} // verus!\nfn main() {}\n'


def build(repo, findings):
    u = Unit('U16', 'quoting predicates and double-quote writer vs a POSIX reader', repo, ['C13'], safety_props=['C01', 'C13'])
    src = u.source('brush-core/src/escape.rs')
    u.raw(HEADER)
    u.prelude('quoting/spec.rs')
    f = src.item(r'^const fn needs_escaping\(', 'needs_escaping').r1().r11()
    f.sig(ret='r', ensures=[C('C13 special-anywhere-table', 'r == needs_escaping_spec(c)')])
    u.add(f)
    if src.has(r'^const fn needs_escaping_at_start\('):
        f = src.item(r'^const fn needs_escaping_at_start\(', 'needs_escaping_at_start').r1().r11()
        f.sig(ret='r', ensures=[C('C13 special-at-start-table', 'r == needs_escaping_at_start_spec(c)')])
        u.add(f)
    else:
        # the property needs *some* predicate flagging a leading '#' / '~' (C13 finding fixed in /repo 1842231); without one the
        # obligation below cannot hold — reported as a violation, not as a lost anchor
        u.raw('''pub proof fn leading_hash_and_tilde_are_flagged()
    ensures
        //@ escape.rs:needs_escaping_at_start:exists | C13 special-at-start-table (no predicate flags a leading # or ~)
        false,
{}
''')
    f = src.item(r'^const fn needs_ansi_c_quoting\(', 'needs_ansi_c_quoting').r1().r11()
    f.sig(ret='r', ensures=[C('C13 control-chars-table', 'r == ansi_c_spec(c)')])
    u.add(f)
    f = src.item(r'^fn double_quote\(', 'double_quote').r1().r11()
    f.sig(ret='result', ensures=[C('C13 double-quote-output', "result@ == seq!['\"'] + dq_body(s@) + seq!['\"']")])
    f.loop(0, iter_name='it', invariant=[
        C('aux', 'it.history@ + it.iter.remaining() == s@'),
        C('C13 double-quote-prefix', "result@ == seq!['\"'] + dq_body(it.history@)"),
    ], body_first='proof { assert((it.history@.push(c)).drop_last() =~= it.history@); }')
    u.add(f)
    u.raw(FOOTER)
    u.assume('assume_specification', 'String::with_capacity(n) is empty; char::is_ascii_control is c <= 0x1f || c == 0x7f (std documented behaviour)')
    u.assume('stub', 'backslash_escape, single_quote, ansi_c_quote and quote (style selection, use of the three predicates) use Iterator::any / str::split / format! / str::contains(closure) and are NOT verified; the reader is a spec function written from POSIX 2.2, not brush\'s or bash\'s parser')
    u.expected_min_fns = 8
    return u
