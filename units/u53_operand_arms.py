"""U53: the four arms of WordExpander::expand_parameter_expr (brush-core/src/expansion.rs) for ${p:-w} ${p:=w} ${p:?w} ${p:+w} (R6 block
slices): the parameter is looked up once, tolerating unset; the colon decides whether a null value counts; the word is expanded only when
it is used; what is returned / assigned / reported."""
from vx.unit import Unit
from vx.extract import C
from .common import replay_scripts

PROPS = ['C06', 'C03']
HEADER = 'use vstd::prelude::*;\nuse vstd::std_specs::convert::*;\nverus! {\n'
FOOTER = '\n} // verus!\nfn main() {}\n'
L0, L1 = 'old(self_).log@', 'final(self_).log@'
LK = 'lookup_result(%s, parameter, indirect)' % L0
USED = 'parameter_is_used(test_type, %s->Ok_0.state())' % LK
LOG1 = '%s.push(Ev::Lookup(parameter, indirect))' % L0


def arm(ex, variant, word_field, fn):
    open_re = (r'^\s*brush_parser::word::ParameterExpr::%s \{\n\s*parameter,\n\s*indirect,\n\s*test_type,\n\s*%s,\n\s*\} => \{$' % (variant, word_field))
    f = ex.block_slice(open_re, 'fn %s(self_: &mut WordExpander, parameter: Parameter, indirect: bool, test_type: ParameterTestType, %s: Option<String>) -> Result<Expansion, error::Error>' % (fn, word_field),
                       fn, within_fn='expand_parameter_expr')
    f.r1().r3()
    f.resub(r'\bself\b', 'self_', 'R6', 'slice wrapper: self -> self_', count=None)
    f.resub(r'\b(\w+)\.as_ref\(\)\.map_or\("", \|v\| v\.as_str\(\)\)', r'opt_str_or_empty(&\1)', 'R14', 'Option::map_or with a closure -> stub (the text, or the empty string)', count=None)
    return f


def build(repo, findings):
    u = Unit('U53', '${p:-w} ${p:=w} ${p:?w} ${p:+w}: one tolerant lookup, the colon rule, the word expanded only when used', repo, ['C06', 'C03'], safety_props=['C06'])
    ex = u.source('brush-core/src/expansion.rs')
    wd = u.source('brush-parser/src/word.rs')
    er = u.source('brush-core/src/error.rs')
    er.require_text(r'\n\s*CheckedExpansionError\(String\),', 'projected variant ErrorKind::CheckedExpansionError')
    u.raw(HEADER)
    u.add(wd.item(r'^pub enum ParameterTestType ', 'ParameterTestType').r1(keep_derive=()))
    u.add(ex.item(r'^enum ParameterState ', 'ParameterState').r1(keep_derive=()).r11_pub())
    u.prelude('expansion/operand_arms_spec.rs')
    # ${p:-w}
    f = arm(ex, 'UseDefaultValues', 'default_value', 'use_default_arm')
    f.sig('use_default_arm', ret='res', ensures=[
        C('C06 the-parameter-is-looked-up-once-and-the-word-is-expanded-only-when-it-is-used', '''match %s {
    Err(e) => %s == %s,
    Ok(v) => %s == (if %s { %s } else { %s.push(Ev::Word(opt_text(default_value))) }),
}''' % (LK, L1, LOG1, L1, USED, LOG1, LOG1)),
        C('C06 default-value-result', '''match %s {
    Err(e) => res == Err::<Expansion, error::Error>(e),
    Ok(v) => res == (if %s { Ok::<Expansion, error::Error>(v) } else { word_result(%s, opt_text(default_value)) }),
}''' % (LK, USED, LOG1)),
    ])
    u.add(f)
    # ${p:+w}
    f = arm(ex, 'UseAlternativeValue', 'alternative_value', 'use_alternative_arm')
    f.sig('use_alternative_arm', ret='res', ensures=[
        C('C06,C03 the-parameter-is-looked-up-once-and-the-word-is-expanded-only-when-it-is-used', '''match %s {
    Err(e) => %s == %s,
    Ok(v) => %s == (if %s { %s.push(Ev::Word(opt_text(alternative_value))) } else { %s }),
}''' % (LK, L1, LOG1, L1, USED, LOG1, LOG1)),
        C('C06 alternative-value-result', '''match %s {
    Err(e) => res == Err::<Expansion, error::Error>(e),
    Ok(v) => res == (if %s { word_result(%s, opt_text(alternative_value)) } else { Ok::<Expansion, error::Error>(expansion_of_text(Seq::<char>::empty())) }),
}''' % (LK, USED, LOG1)),
    ])
    f.at_body_start('use_alternative_arm', 'proof { assert(""@ =~= Seq::<char>::empty()) by { reveal_strlit(""); } }')
    u.add(f)
    # ${p:=w}
    f = arm(ex, 'AssignDefaultValues', 'default_value', 'assign_default_arm')
    f.sig('assign_default_arm', ret='res', ensures=[
        C('C06 assignment-happens-only-when-the-word-is-used-and-stores-what-is-returned', '''match %s {
    Err(e) => %s == %s,
    Ok(v) => if %s { %s == %s && res == Ok::<Expansion, error::Error>(v) } else {
        match word_result(%s, opt_text(default_value)) {
            Err(e2) => %s == %s.push(Ev::Word(opt_text(default_value))),
            Ok(w) => %s == %s.push(Ev::Word(opt_text(default_value))).push(Ev::Assign(parameter, joined(w)))
                && (res is Ok ==> res->Ok_0 == expansion_of_text(joined(w))),
        }
    },
}''' % (LK, L1, LOG1, USED, L1, LOG1, LOG1, L1, LOG1, L1, LOG1)),
    ])
    u.add(f)
    # ${p:?w}
    f = arm(ex, 'IndicateErrorIfNullOrUnset', 'error_message', 'indicate_error_arm')
    f.sig('indicate_error_arm', ret='res', ensures=[
        C('C06 the-message-is-expanded-only-when-the-parameter-is-missing-and-then-the-expansion-fails', '''match %s {
    Err(e) => %s == %s,
    Ok(v) => if %s { %s == %s && res == Ok::<Expansion, error::Error>(v) } else { %s == %s.push(Ev::Text(opt_text(error_message))) && res is Err },
}''' % (LK, L1, LOG1, USED, L1, LOG1, L1, LOG1)),
    ])
    u.add(f)
    u.raw(FOOTER)
    u.assume('external_body', 'expand_parameter_allowing_unset, expand_parameter_word (U23), basic_expand_to_str, fields_to_string, assign_to_parameter (U29), Expansion::classify (U9 harnesses), From<String> for Expansion, the error conversions: results uninterpreted, each request logged in a ghost field')
    u.assume('uninterp', 'lookup_result, word_result, text_result, assign_ok, joined, expansion_of_text, Expansion::state')
    u.assume('stub', 'the PEG rule deciding which operator a text is, and the other arms of expand_parameter_expr, are NOT covered here')
    u.expected_min_fns = 4
    u.counterexample = replay_scripts(repo, [
        ('unset v b; : "${v:+${b:=leak}}"; echo "<${b-unset}>"; i=0; : "${v:+$((i+=1))}"; echo "$i"', '<unset>\n0\n'),
        ('set -u; unset v; echo "<${v:+$v}>"; echo "rc=$?"', '<>\nrc=0\n'),
        ('v=x; unset b; : "${v:-${b:=leak}}"; echo "<${b-unset}>"', '<unset>\n'),
    ])
    return u
