"""U4o: the body of the tokio task a background and-or list runs in (brush-core/src/interp.rs spawn_async_ao_list_in_task), an R6 block slice."""
from vx.extract import C
from .exec_common import exec_unit, begin_ast, end_ast, FOOTER

PROPS = ['C17', 'C01']


def build(repo, findings):
    u, interp = exec_unit('U4o', 'background task body: a failing list is a status, never an error surfacing at wait', repo,
                          ['AndOrList'], 'pub enum Node { List(ast::AndOrList) }\n', props=('C17',))
    begin_ast(u)
    end_ast(u, 'C17')
    u.prelude('exec/bgtask_spec.rs')
    fn = 'background_task_body'
    f = interp.block_slice(r'^\s*let join_handle = tokio::spawn\(async move \{$',
                           'fn background_task_body(cloned_ao_list: ast::AndOrList, mut cloned_shell: Shell, cloned_params: ExecutionParameters) -> Result<ExecutionResult, error::Error>', fn, within_fn='spawn_async_ao_list_in_task')
    f.r1().r3()
    f.sig(fn, ret='res', ensures=[
        C('C17 background-failure-is-a-status-not-a-wait-error', 'res is Ok'),
        C('C17 background-status-preserved', 'res is Ok ==> res->Ok_0.exit_code == list_code(cloned_ao_list, cloned_shell, cloned_params.suppress_errexit)'),
    ])
    u.add(f)
    # ---- the coprocess task body (same requirement)
    rs = u.source('brush-core/src/results.rs')
    rs.require_text(r'pub enum ExecutionWaitResult \{(?:[^}]|\n)*?Completed\(ExecutionResult\),(?:[^}]|\n)*?Stopped\(processes::ChildProcess\),', 'projection ExecutionWaitResult')
    u.prelude('exec/coproc_spec.rs')
    fn = 'coproc_task_body'
    g = interp.block_slice(r'^ {8}let join_handle = tokio::spawn\(async move \{$',
                           'fn coproc_task_body(body: CoprocBody, mut child_shell: Shell, child_params: ExecutionParameters) -> Result<ExecutionResult, error::Error>', fn)
    g.r1().r3()
    g.sig(fn, ret='res', ensures=[
        C('C17 coprocess-failure-is-a-status-not-a-wait-error', 'res is Ok'),
        C('C17 coprocess-status-preserved', '''match coproc_launch_spec(body, child_shell) {
    Ok(sr) => match coproc_wait_spec(sr) {
        Ok(ExecutionWaitResult::Completed(r)) => res == Ok::<ExecutionResult, error::Error>(r),
        _ => true,
    },
    Err(_) => true,
}'''),
    ])
    u.add(g)
    u.raw(FOOTER)
    u.assume('external_body', 'the and-or list child (result a function of list, shell-before, flag), Error::into_result, and the diagnostic (stderr handle, display_error: may fail) are stubs with uninterpreted results; tokio::spawn and the JoinHandle are outside the slice')
    u.assume('uninterp', 'clone_spec, exec_spec, into_result_spec')
    u.expected_min_fns = 15
    return u
