"""U4r: SimpleCommand::execute (brush-core/src/commands.rs), the whole dispatcher: the post_execute hook runs exactly once on
every exit, and the `unwrap` of the builtin registration cannot panic."""
import re
from vx.unit import Unit
from vx.extract import C

PROPS = ['C18', 'C09', 'C01']
HEADER = 'use vstd::prelude::*;\nuse vstd::std_specs::convert::*;\nverus! {\n'
FOOTER = '\n} // verus!\nfn main() {}\n'


def build(repo, findings):
    u = Unit('U4r', 'command dispatcher: post_execute hook exactly once on every exit', repo, ['C18', 'C09'], safety_props=['C01', 'C18'])
    src = u.source('brush-core/src/commands.rs')
    src.require_text(r'pub post_execute: Option<fn\(&mut Shell<SE>\) -> Result<\(\), error::Error>>,', 'projected field SimpleCommand.post_execute')
    src.require_text(r"shell: ShellForCommand<'a, SE>,", 'field SimpleCommand.shell')
    u.raw(HEADER)
    u.prelude('exec/dispatch_spec.rs')
    u.prelude('exec/dispatch_top_spec.rs')
    fn = 'execute'
    f = src.method(r"^impl<'a, SE: extensions::ShellExtensions> SimpleCommand<'a, SE> ", 'execute', 'simple_command_execute').r1().r3()
    # R5b: the receiver is split into (self_, shell)
    f.resub(r'pub fn execute\(mut self\)', 'pub fn simple_command_execute(mut self_: SimpleCommandRest, shell: &mut ShellForCommand)', 'R5b', 'receiver `mut self` split into the shell handle (a &mut parameter) and the rest of the struct')
    f.resub(r'self\.shell\.builtins\(\)\.get\(&self\.command_name\)\.cloned\(\)', 'builtins_get_cloned(&*shell, &self_.command_name)', 'R14', 'registry lookup chain -> stub', count=None)
    f.resub(r'self\.shell\.funcs\(\)\.get\(self\.command_name\.as_str\(\)\)\.cloned\(\)', 'funcs_get_cloned(&*shell, self_.command_name.as_str())', 'R14', 'registry lookup chain -> stub', count=None)
    f.resub(r'self\.shell\.options\(\)', '(*shell).options()', 'R5b', 'self.shell -> shell', count=None)
    f.resub(r'sys::fs::contains_path_separator\(&self\.command_name\)', 'contains_path_separator(&self_.command_name)', 'R14', 'sys helper -> stub', count=None)
    f.resub(r'pathsearch::search_for_executable\(path_dirs\.iter\(\), self\.command_name\.as_str\(\)\)\s*\.next\(\)', 'search_path_dirs_first(path_dirs, self_.command_name.as_str())', 'R14', 'PATH search iterator -> stub returning its first element', count=None)
    f.resub(r'self\.shell\s*\.find_first_executable_in_path_using_cache\(&self\.command_name\)', 'find_first_executable_in_path_using_cache(&mut *shell, &self_.command_name)', 'R14', 'receiver-chain call -> stub', count=None)
    f.resub(r'Self::take_last_arg\(&self\.args\)', 'take_last_arg(&self_.args)', 'R14', 'associated fn -> stub', count=None)
    f.resub(r'self\.shell\.update_last_arg_variable\(', '(*shell).update_last_arg_variable(', 'R5b', 'self.shell -> shell', count=None)
    f.resub(r'\bpost_execute\(&mut self\.shell\)', 'vx_call_post_execute(post_execute, &mut *shell)', 'R14', 'call through the fn pointer -> stub', count=None)
    f.resub(r'ErrorKind::CommandNotFound\(self\.command_name\)\.into\(\)', 'error_command_not_found(self_.command_name)', 'R14', 'error construction -> stub', count=None)
    f.resub(r'PathBuf::from\(self\.command_name\.clone\(\)\)', 'pathbuf_from(self_.command_name.clone())', 'R14', 'PathBuf::from -> stub', count=None)
    f.resub(r'command_name\.as_path\(\)', '&command_name', 'R14', 'PathBuf::as_path -> the stub path type itself', count=None)
    f.resub(r'self\.(execute_via_\w+)\(', r'\1(self_, &mut *shell, ', 'R5b', 'method on the consumed receiver -> stub taking (rest, shell)', count=None)
    f.resub(r'\bself\.', 'self_.', 'R5b', 'self -> self_', count=None)
    f.sig('simple_command_execute', ret='res', ensures=[
        C('C18,C09 post-execute-exactly-once-on-every-exit', 'hook_once(*old(shell), *final(shell), self_.post_execute)')])
    if re.search(r'\.is_some_and\(\|r\| ', f.text):
        m = re.search(r'\.is_some_and\(\|r\| (.*?)\)\n', f.text, re.S)
        f.closure(r'\.is_some_and\(\|r\|', '&BuiltinRegistration', 'b: bool', 'b == (%s)' % ' '.join(m.group(1).split()), fn_name='simple_command_execute')
    u.add(f)
    u.raw(FOOTER)
    u.assume('external_body', 'registry / PATH lookups, error construction and PathBuf are stubs with arbitrary results; execute_via_builtin / execute_via_function / execute_via_external are stubs carrying the hook contract (proved for the tails of all three paths in U4m)')
    u.assume('uninterp', 'ShellForCommand::hooks (ghost), ShellForCommand::posix')
    u.assume('assume_specification', 'Option::is_some_and (std documented behaviour)')
    u.assume('stub', 'the owned-shell branch of execute_via_builtin is NOT verified for the hook (it has no parent shell to run it on)')
    u.expected_min_fns = 1
    return u
