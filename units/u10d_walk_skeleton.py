"""U10d: the component loop of Pattern::expand (brush-core/src/patterns.rs) as a skeleton (R6 slice; the directory I/O of each branch
behind R14 stubs): every listing made for a glob component is told to show dot-files iff the option says so or THAT component's text
starts with a dot."""
import re
from vx.unit import Unit
from vx.extract import C

PROPS = ['C08', 'C05']
HEADER = '#![feature(pattern)]\nuse vstd::prelude::*;\nuse vstd::std_specs::iter::IteratorSpec;\nverus! {\n'
FOOTER = '\n} // verus!\nfn main() {}\n'


def build(repo, findings):
    u = Unit('U10d', 'pathname expansion walk: the dot-file decision of each listing belongs to the component being listed; each listing is sorted before it joins the result', repo, ['C08', 'C05'], safety_props=['C08'])
    src = u.source('brush-core/src/patterns.rs')
    src.require_text(r'pub\(crate\) struct FilenameExpansionOptions \{\s*pub require_dot_in_pattern_to_match_dot_files: bool,\s*\}', 'projection FilenameExpansionOptions')
    u.raw(HEADER)
    u.prelude('std/str_ops.rs')
    u.add(src.item(r'^pub\(crate\) enum PatternPiece ', 'PatternPiece').r1(keep_derive=()).r11())
    u.prelude('patterns/dotfiles_spec.rs')
    u.prelude('patterns/walk_spec.rs')
    fn = 'walk_components'
    f = src.slice('expand', r'^\s*\S', r'^\s*for component in components \{$',
                  'fn walk_components(self_: &Pattern, components: &Vec<Vec<PatternPiece>>, paths_so_far: &mut Vec<PathBuf>, options: &FilenameExpansionOptions, log: &mut WalkLog) -> Result<(), error::Error>', fn,
                  after_re=r'prefix_to_remove = Some\(working_dir_str\);\n\s*vec!\[working_dir\.to_path_buf\(\)\]\n\s*\};\n')
    f.r1()
    f.resub(r'\bself\.', 'self_.', 'R6', 'slice wrapper: self -> self_', count=None)
    f.resub(r'for component in components \{', 'for component in components.iter() {', 'R24', 'consuming iteration -> by reference', count=None)
    f.resub(r'!component\.iter\(\)\.any\(\|piece\| \{.*?\}\)', '!component_needs_expansion(self_, component)', 'R14', 'the glob-or-not predicate over the pieces -> stub (its body is unit U10)', flags=16)
    f.resub(r'let flattened = component\s*\.iter\(\)\s*\.map\(\|piece\| piece\.as_str\(\)\)\s*\.collect::<String>\(\);\s*paths_so_far\.retain_mut\(\|p\| \{.*?\n\s*\}\);', 'literal_component_step(paths_so_far, component);', 'R14', 'literal component: push the text onto every candidate and keep the existing ones -> stub', flags=16)
    f.resub(r'std::mem::take\(&mut paths_so_far\)', 'take_paths(paths_so_far)', 'R14', 'std::mem::take on the candidate list -> stub', count=None)
    f.resub(r'for current_path in current_paths \{', 'for current_path in current_paths.iter() {', 'R24', 'consuming iteration -> by reference', count=None)
    f.resub(r'Self::from\(&component\)\s*\.set_extended_globbing\(self_\.enable_extended_globbing\)\s*\.set_case_insensitive\(self_\.case_insensitive\)', 'subpattern_of(self_, component)', 'R14', 'sub-pattern built from the component -> stub (same pieces)', count=None)
    f.resub(r'\b(\w+)\s*\.iter\(\)\s*\.map\(\|piece\| piece\.as_str\(\)\)\s*\.collect::<String>\(\)', r'pieces_flatten(\1)', 'R14', 'pieces.iter().map(as_str).collect::<String>() -> pieces_flatten stub', count=None)
    f.resub(r'let matches_dotfile_policy = \|dir_entry: &std::fs::DirEntry\| \{\s*!dir_entry\.file_name\(\)\.to_string_lossy\(\)\.starts_with\(\'\.\'\) \|\| (\w+)\s*\};\s*let regex = subpattern\.to_regex\(true, true\)\?;.*?\.filter\(matches_regex\)\s*\.filter\(matches_dotfile_policy\)\s*\.map\(\|entry\| entry\.path\(\)\)\s*\.collect\(\);',
            r'let mut matching_paths_in_dir = list_matching(log, current_path, &subpattern, \1)?;', 'R14', 'the dot-file closure, the regex and the read_dir / filter / collect chain -> one stub that records what it was told about dot-files', flags=16)
    f.resub(r"\b(\w+)(?:\s*\.pieces)?\s*\.iter\(\)\s*\.any\(\|piece\| piece\.as_str\(\)\.starts_with\('(.)'\)\)", r"pieces_any_starts_with(\1, '\2')", 'R14', 'pieces.iter().any(starts_with) -> stub', count=None)
    f.resub(r"\b(\w+)(?:\s*\.pieces)?\s*\.first\(\)\s*\.is_some_and\(\|piece\| piece\.as_str\(\)\.starts_with\('(.)'\)\)", r"pieces_first_starts_with(&\1.pieces, '\2')", 'R14', 'pieces.first().is_some_and(starts_with) -> stub', count=None)
    f.resub(r'matching_paths_in_dir\.sort\(\);', 'sort_paths(&mut matching_paths_in_dir);', 'R14', 'Vec::sort -> stub', count=None)
    f.resub(r'\b(\w+)\.sort_unstable\(\);', r'sort_paths(&mut \1);', 'R14', 'Vec::sort_unstable -> stub (same order as sort for distinct paths)', count=None)
    f.resub(r'\b(\w+)\.sort(?:_unstable)?_by\(\|(\w+), (\w+)\| \2\.cmp\(&?\3\)\);', r'sort_paths(&mut \1);', 'R14', 'sort_by with the natural ordering -> stub', count=None)
    n_open = len(re.findall(r'\b\w+\.sort(?:_unstable)?_by(?:_key)?\(', f.text))
    f.resub(r'\b(\w+)\.sort(?:_unstable)?_by(?:_key)?\((?:[^;]|\n)*?\);', r'reorder_paths_somehow(\1);', 'R14', 'sort with a caller-supplied ordering this unit does not read -> some reordering (left open)', count=None)
    if n_open:
        # an ordering the unit cannot read may well be the right one: a failed obligation then counts only with a replayed failing input
        u.violation_needs_replay = True
        u.notes.append('walk_components: %d sort(s) with a caller-supplied ordering left open' % n_open)
    f.resub(r'paths_so_far\.append\(&mut matching_paths_in_dir\);', 'append_paths(paths_so_far, &mut matching_paths_in_dir);', 'R14', 'Vec::append -> stub', count=None)
    f.resub(r'^([ \t]*)(\w+) \|= (.*?);$', r'\1\2 = { let __t = \3; \2 || __t };', 'R10', '`a |= e` on bools spelled out (e is still evaluated)', flags=re.M | re.S, count=None)
    f.resub(r'\n\}$', '\n    Ok(())\n}', 'R6', 'wrapper epilogue `Ok(())`', count=1)
    f.r13(fn, f.loop_ordinal(fn, r'for component in components\.iter\(\)'))
    f.sig(fn, ret='res', attrs=['#[verifier::loop_isolation(false)]'], ensures=[
        C('C08,C05 every-listing-hides-dot-files-unless-its-own-component-starts-with-a-dot',
          'old(log).listings().is_prefix_of(final(log).listings()) && listings_ok_from(final(log).listings(), old(log).listings().len() as int, *options)')])
    INV = [C('C08,C05 listings-so-far-follow-their-own-component', 'old(log).listings().is_prefix_of(log.listings()) && listings_ok_from(log.listings(), old(log).listings().len() as int, *options)')]
    f.at_body_start(fn, 'broadcast use axiom_str_starts_with_char;')
    k_out = f.loop_ordinal(fn, r'__it\.next\(\)')
    f.loop(k_out, fn_name=fn, invariant=INV + [
        C('aux', '0 <= gi && gi + __it.remaining().len() == components@.len()'),
        C('aux', '__it.obeys_prophetic_iter_laws()'),
    ], decreases='components@.len() - gi', body_first='let ghost r0 = __it.remaining();')
    f.before(r'^\s*let mut __it = ', 'let ghost mut gi: int = 0;', fn_name=fn)
    f.after_line(r'^\s*None => break,\n\s*\};', 'proof { assert(r0.len() > 0); assert(__it.remaining() =~= r0.skip(1)); gi = gi + 1; }', fn_name=fn)
    k_in = f.loop_ordinal(fn, r'for current_path in current_paths\.iter\(\)')
    f.loop(k_in, fn_name=fn, iter_name='itp', invariant=INV)
    u.add(f)
    u.raw(FOOTER)
    u.assume('external_body', 'R14 stubs: the literal-component step, mem::take, the sub-pattern builder (same pieces), the listing (regex, read_dir, filters, collect) which records the dot-file flag it was given, sort, append; the predicate of the literal branch is unit U10')
    u.assume('assume_specification', 'str::starts_with(char) (contracts/std/str_ops.rs)')
    u.assume('uninterp', 'WalkLog::listings (ghost), str_starts_with_spec / str_ends_with_spec, sorted_paths (what Vec::sort establishes)')
    u.assume('axiom', 'str::starts_with(char) / ends_with(char) look at the first / last character')
    u.assume('stub', 'what a listing returns (regex match per entry, the filters themselves) is NOT verified here; that per-directory sorting of full paths gives bash\'s overall order is an argument (directories are visited in sorted order), not a proof')
    u.expected_min_fns = 1
    from .common import replay_scripts
    u.counterexample = replay_scripts(repo, [
        ('d=$(mktemp -d); cd "$d"; mkdir a b; : > a/y.txt; : > a/z.txt; : > b/a.txt; : > b/x.txt; echo */*.txt; echo ?/[a-z].*; cd /; rm -rf "$d"', 'a/y.txt a/z.txt b/a.txt b/x.txt\na/y.txt a/z.txt b/a.txt b/x.txt\n'),
        ('d=$(mktemp -d); cd "$d"; : > b; : > a; : > .h; : > c; echo *; cd /; rm -rf "$d"', 'a b c\n'),
    ])
    return u
