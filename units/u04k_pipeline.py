"""U4k: the errexit / `!` / ERR-trap core of Pipeline::execute (brush-core/src/interp.rs), an R6 slice."""
from vx.extract import C
from .exec_common import exec_unit, begin_ast, end_ast, FOOTER

PROPS = ['C03', 'C02', 'C16', 'C01']


def build(repo, findings):
    u, interp = exec_unit('U4k', 'pipeline boundary: `!`, errexit applied once, ERR trap', repo,
                          [], 'pub enum Node { Spawn(ast::Pipeline), Wait(ast::Pipeline), TrapErr }\n', props=('C03', 'C02'),
                          aux='pub struct Aux { pub handles_err: bool }\n')
    ast = u.source('brush-parser/src/ast.rs')
    tr = u.source('brush-core/src/traps.rs')
    ast.require_text(r'pub struct Pipeline \{(?:[^}]|\n)*?pub bang: bool,', 'projected field Pipeline.bang')
    tr.require_text(r'pub enum TrapSignal \{(?:[^}]|\n)*?\bErr,', 'projected variant TrapSignal::Err')
    begin_ast(u)
    # the real Pipeline, Command and CompoundCommand (payloads opaque): which commands merely group others is read off the real enums
    u.raw(''.join('#[verifier::external_body]\npub struct %s { _p: u8 }\n' % t for t in (
        'PipelineTimed', 'SimpleCommand', 'RedirectList', 'FunctionDefinition', 'ArithmeticCommand', 'ArithmeticForClauseCommand', 'BraceGroupCommand',
        'SubshellCommand', 'ForClauseCommand', 'CaseClauseCommand', 'IfClauseCommand', 'WhileOrUntilClauseCommand', 'CoprocessCommand', 'ExtendedTestExprCommand')))
    u.add(ast.item(r'^pub struct Pipeline ', 'Pipeline').r1(keep_derive=()))
    u.add(ast.item(r'^pub enum Command ', 'Command').r1(keep_derive=()))
    u.add(ast.item(r'^pub enum CompoundCommand ', 'CompoundCommand').r1(keep_derive=()))
    end_ast(u, 'C03')
    u.prelude('exec/pipeline_spec.rs')
    # ---- which pipelines are one grouping compound command
    g = interp.item(r'^fn pipeline_only_groups_commands\(', 'pipeline_only_groups_commands').r1()
    g.sig('pipeline_only_groups_commands', ret='r', ensures=[
        C('C03 only-a-lone-brace-group-loop-if-or-case-counts-as-grouping', 'r == groups_only(*pipeline)')])
    u.add(g)
    fn = 'pipeline_core'
    imp = interp.item(r'^impl Execute for ast::Pipeline ', 'impl Execute for ast::Pipeline', with_attrs=False)
    from vx.extract import Source
    tmp = Source.__new__(Source)
    tmp.repo, tmp.rel, tmp.path, tmp.text = interp.repo, interp.rel, interp.path, imp.text
    f = tmp.slice('execute', r'^\s*let mut params = params\.clone\(\);', r'^\s*// If requested, report timing\.',
                  'fn pipeline_core(self_: &ast::Pipeline, shell: &mut Shell, params: &ExecutionParameters) -> Result<ExecutionResult, error::Error>', fn)
    f.line += imp.line - 1
    f.r1().r3()
    f.resub(r'\bself\b', 'self_', 'R5', 'trait method body as free fn: self -> self_', count=None)
    f.resub(r'\bcrate::traps::', 'traps::', 'R4', 'crate path', count=None)
    # the slice ends in the middle of the function: the wrapper returns the live variable `result`
    f.resub(r'\n\}$', '\n    Ok(result)\n}', 'R6', 'wrapper epilogue `Ok(result)` (the value the rest of the function returns)', count=1)
    f.sig(fn, ret='res', ensures=[
        C('aux trace-extends', 'old(shell).trace().is_prefix_of(final(shell).trace())'),
        C('C03,C02 pipeline-boundary', '''({
    let t = new_events(old(shell).trace(), final(shell).trace());
    match res {
        Ok(r) => pipeline_ok(t, *self_, params.suppress_errexit, r, final(shell).status(), final(shell).errexit_on()),
        Err(_) => pipeline_err(t, *self_, params.suppress_errexit),
    }
})'''),
    ])
    f.at_body_start(fn, 'broadcast use lemma_new_events_push;\nproof { lemma_new_events_empty(old(shell).trace()); }\nlet ghost outer = params.suppress_errexit;')
    u.add(f)
    u.raw(FOOTER)
    u.assume('external_body', 'spawn_pipeline_processes / wait_for_pipeline_processes_and_update_status are abstract children (one event each; pipefail folding inside wait is NOT verified); Shell::apply_errexit_if_enabled and invoke_trap_handler carry the contracts proved for them in U3 / the traps unit; the timing prologue/epilogue of Pipeline::execute (closures, write!) is outside the slice')
    u.assume('uninterp', 'Shell::traps_spec, errexit_on, TrapHandlerConfig::handles_err')
    u.expected_min_fns = 16
    from .common import replay_scripts
    u.counterexample = replay_scripts(repo, [
        ('set -e; for i in 1; do false && true; done; echo after', 'after\n'),
        ('set -e; { ! true; }; echo after', 'after\n'),
        ('set -e; if true; then false && true; fi; case x in x) false && true;; esac; echo after', 'after\n'),
        ('set -e; ( false && true ); echo after', ''),
        ('set -e; { (( 0 )); }; echo after', ''),
        ('set -e; true | { false && true; }; echo after', ''),
        ('trap "echo ERR" ERR; { false; }; for i in 1; do false && true; done; echo "after $?"', 'ERR\nafter 1\n'),
        ('set -e; ! false; echo a; ! true; echo b; false; echo c', 'a\nb\n'),
    ])
    return u
