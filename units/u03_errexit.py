"""U3 errexit/nounset decision functions (brush-core/src/shell.rs, expansion.rs)."""
from vx.unit import Unit
from vx.extract import C, ExtractError
from .common import HEADER, FOOTER, results_items

PROPS = ['C03', 'C01']


def build(repo, findings):
    u = Unit('U3', 'errexit and nounset decision functions', repo, ['C03'], safety_props=['C01', 'C03'])
    u.raw(HEADER)
    sh = u.source('brush-core/src/shell.rs')
    op = u.source('brush-core/src/options.rs')
    ex = u.source('brush-core/src/expansion.rs')
    for src, rx, why in [(sh, r'^\s+options: RuntimeOptions,', 'Shell.options'),
                         (op, r'^\s+pub exit_on_nonzero_command_exit: bool,', 'RuntimeOptions.exit_on_nonzero_command_exit'),
                         (op, r'^\s+pub treat_unset_variables_as_error: bool,', 'RuntimeOptions.treat_unset_variables_as_error'),
                         (ex, r'^\s+shell: &.a mut Shell<SE>,', 'WordExpander.shell')]:
        src.require_text(rx, 'projected field ' + why)
    results_items(u, 'C03')
    u.prelude('errexit/spec.rs')
    f = sh.method_anywhere('apply_errexit_if_enabled').r1().r4().r11()
    f.sig('apply_errexit_if_enabled', ensures=[
        C('C03 errexit-decision', '*final(result) == errexit_spec(self.options.exit_on_nonzero_command_exit, *old(result))'),
    ])
    u.raw('impl Shell {')
    u.add(f)
    u.raw('}\n')
    g = ex.method_anywhere('undefined_expansion').r1().r4().r11()
    g.sig('undefined_expansion', ret='res', ensures=[
        C('C03 nounset-decision', '''match res {
    Ok(e) => e.is_undefined() && (allow_unset_vars || !self.shell.options.treat_unset_variables_as_error),
    Err(err) => err.fatal() && err.unset_var() && !allow_unset_vars && self.shell.options.treat_unset_variables_as_error,
}'''),
    ])
    u.raw("impl<'a> WordExpander<'a> {")
    u.add(g)
    u.raw('}\n')
    u.raw(FOOTER)
    u.assume('external_body', 'Shell / RuntimeOptions / WordExpander are projections (listed fields only); error::Error, into_fatal, From<ErrorKind>, Parameter::to_string, Expansion::undefined are opaque stubs')
    u.assume('uninterp', 'Error::fatal, Error::unset_var, Expansion::is_undefined')
    u.expected_min_fns = 16
    return u
