"""U27: the here-document body branch of Tokenizer::next_token_until (brush-parser/src/tokenizer.rs, R6 block slice)."""
from vx.unit import Unit
from vx.extract import C

PROPS = ['C10', 'C01']
HEADER = '#![feature(pattern)]\nuse vstd::prelude::*;\nverus! {\n'
FOOTER = '\n} // verus!\nfn main() {}\n'


def build(repo, findings):
    u = Unit('U27', 'here-document body: a character is dropped iff it is a leading tab and the document being read was written with <<-', repo, ['C10'], safety_props=['C01', 'C10'])
    src = u.source('brush-parser/src/tokenizer.rs')
    src.require_text(r'let next_here_tag = &self\.cross_state\.current_here_tags\[0\];', 'remove_here_end_tag compares the body with the FIRST pending tag')
    src.require_text(r'current_here_tags: Vec<HereTag>,', 'projected field CrossTokenParseState.current_here_tags')
    u.raw(HEADER)
    u.prelude('std/str_ops.rs')
    u.prelude('std/option_ops.rs')
    ht = src.item(r'^struct HereTag ', 'HereTag').r1(keep_derive=()).r11().pub_fields()
    u.add(ht)
    u.prelude('tokenizer/heredoc_spec.rs')
    fn = 'here_doc_body_step'
    f = src.block_slice(r'^\s*\} else if matches!\(self\.cross_state\.here_state, HereState::InHereDocs\) \{$',
                        'fn here_doc_body_step(self_: &mut Tokenizer, state: &mut TokenParseState, result: &mut Option<TokenizeResult>, c: char) -> Result<(), TokenizerError>',
                        fn, within_fn='next_token_until')
    f.r1()
    f.resub(r'\bself\b', 'self_', 'R6', 'slice wrapper: self -> self_', count=None)
    f.resub(r'&mut state\b', '&mut *state', 'R6', 'the local `state` is a `&mut` parameter of the wrapper', count=None)
    f.resub(r'&mut result\b', '&mut *result', 'R6', 'the local `result` is a `&mut` parameter of the wrapper', count=None)
    f.resub(r'\n\}$', '\n    Ok(())\n}', 'R6', 'wrapper epilogue `Ok(())` (the loop continues)', count=1)
    f.at_body_start(fn, 'broadcast use axiom_str_ends_with_char;')
    f.sig(fn, ret='res', ensures=[
        C('C10 exactly-one-character-is-consumed', 'res is Ok ==> final(self_).consumed == old(self_).consumed + 1'),
        C('C10 leading-tab-dropped-iff-the-document-being-read-uses-dash', '''res is Ok ==> final(state).appended() ==
    (if strips(old(self_).cross_state.current_here_tags@, old(state).token(), c) { old(state).appended() } else { old(state).appended().push(c) })'''),
    ])
    u.add(f)
    u.raw(FOOTER)
    u.assume('external_body', 'Tokenizer::consume_char / remove_here_end_tag and TokenParseState accessors are stubs read off their bodies (consume one character; the end-tag check appends nothing)')
    u.assume('assume_specification', 'str::ends_with(char) (contracts/std/str_ops.rs); Option::is_some_and (std documented behaviour)')
    u.assume('uninterp', 'TokenParseState::token / appended (ghost), str_starts_with_spec / str_ends_with_spec')
    u.assume('axiom', 'str::starts_with(char) / ends_with(char) look at the first / last character')
    u.assume('stub', 'the rest of the tokenizer (operator recognition, here-tag collection, delimiter matching in remove_here_end_tag, the order in which bodies follow their operators) is NOT verified; that the body being read belongs to current_here_tags[0] is read off remove_here_end_tag (text anchor)')
    u.expected_min_fns = 1
    return u
