"""U2 cf-builtins: break / continue / return / exit (brush-builtins/src/{break_,continue_,return_,exit}.rs)."""
from vx.unit import Unit
from vx.extract import C
from .common import HEADER, FOOTER, results_items

PROPS = ['C02', 'C16', 'C01']


def builtin(u, rel, struct, fn):
    src = u.source(rel)
    st = src.item(r'^pub\(crate\) struct %s ' % struct, struct).r1(keep_derive=()).r11().pub_fields()
    u.add(st)
    src.require_text(r'impl builtins::Command for %s \{\s*type Error = brush_core::Error;' % struct, 'associated type Error = brush_core::Error')
    f = src.method(r'^impl builtins::Command for %s ' % struct, 'execute', fn)
    f.r1().r3()
    f.replace('<SE: brush_core::ShellExtensions>', '', 'R4', 'extension generic erased')
    f.replace("brush_core::ExecutionContext<'_, SE>", "brush_core::ExecutionContext<'_>", 'R4', 'extension generic erased')
    f.replace('Self::Error', 'brush_core::Error', 'R5', 'associated type of the trait impl resolved (text checked)')
    f.resub(r'^[ \t]*let _ = writeln!\((?:[^;]|\n)*?\);\n', '', 'R2', 'diagnostic to stderr whose result is discarded dropped', count=None)
    f.resub(r'\(code_32bit & (0x[0-9A-Fa-f]+)\)', r'(*code_32bit & \1)', 'R10', 'operator impl `&iN & iN` resolved to an explicit deref (Verus has no BitAnd for references)', count=None)
    f.resub(r'\b_context\b', 'context', 'R6', 'the context parameter is called `context` whether or not the source marks it unused (`_context`)', count=None)
    f.r5_self(struct, fn)
    return f


def build(repo, findings):
    u = Unit('U2', 'break/continue/return/exit builtins', repo, ['C02', 'C16'], safety_props=['C01', 'C02'])
    u.raw(HEADER)
    cm = u.source('brush-core/src/commands.rs')
    cm.require_text(r"pub struct ExecutionContext<'a, SE[^>]*> \{\s*(///[^\n]*\n\s*)*pub shell: &'a mut Shell<SE>,", 'projected field ExecutionContext.shell')
    results_items(u, 'C02')
    u.prelude('builtins/cf_spec.rs')
    for rel, struct, fn, flow in [('brush-builtins/src/break_.rs', 'BreakCommand', 'break_execute', 'BreakLoop'),
                                  ('brush-builtins/src/continue_.rs', 'ContinueCommand', 'continue_execute', 'ContinueLoop')]:
        f = builtin(u, rel, struct, fn)
        import re as _re
        mctx = _re.search(r'(\w+): brush_core::ExecutionContext', f.text)
        CTX = mctx.group(1) if mctx else 'context'      # the context parameter's name as written in the source (`_context` today)
        f.sig(fn, ret='res', ensures=[
            C('C02 %s-n-within-the-enclosing-loops' % flow, ('(1 <= self_.which_loop <= old(context.shell).loop_depth()) ==> res is Ok && res->Ok_0.exit_code is Success && res->Ok_0.next_control_flow == (ExecutionControlFlow::%s { levels: (self_.which_loop - 1) as usize })' % flow).replace('context.shell', CTX + '.shell')),
            C('C02 %s-levels-clamped-to-the-enclosing-loops kf=C02:loop-levels-not-clamped' % flow, ('''{{KF:C02:loop-levels-not-clamped}} || (self_.which_loop >= 1 ==> res is Ok && res->Ok_0.exit_code is Success && (
    if old(context.shell).loop_depth() == 0 { res->Ok_0.next_control_flow is Normal }
    else if self_.which_loop as int > old(context.shell).loop_depth() { res->Ok_0.next_control_flow == (ExecutionControlFlow::%s { levels: (old(context.shell).loop_depth() - 1) as usize }) }
    else { true }))''' % flow).replace('context.shell', CTX + '.shell')),
            C('C02 %s-n-nonpositive kf=C02:loop-count-nonpositive' % flow, '{{KF:C02:loop-count-nonpositive}} || (self_.which_loop <= 0 ==> res is Ok && res->Ok_0.exit_code is GeneralError && res->Ok_0.next_control_flow is BreakLoop)'),
            C('C02 %s-never-errs' % flow, 'res is Ok'),
        ])
        u.add(f)
    f = builtin(u, 'brush-builtins/src/return_.rs', 'ReturnCommand', 'return_execute')
    f.sig('return_execute', ret='res', ensures=[
        C('C02 return-in-function', '''(old(context.shell).in_fn() || old(context.shell).in_src()) ==> res is Ok
    && res->Ok_0.next_control_flow is ReturnFromFunctionOrScript
    && u8_of(res->Ok_0.exit_code) == (match self_.code { Some(c) => mod256(c as int), None => old(context.shell).status() })'''),
        C('C02 return-outside-function', '!(old(context.shell).in_fn() || old(context.shell).in_src()) ==> res is Ok && res->Ok_0.next_control_flow is Normal && !(res->Ok_0.exit_code is Success)'),
    ])
    ret_lemma = 'lemma_and_ff_i64' if 'code: Option<i64>' in open(__import__('os').path.join(repo, 'brush-builtins/src/return_.rs')).read() else 'lemma_and_ff_i32'    # the field's integer type, as written
    f.before(r'^\s*let code_8bit = ', 'proof { if self_.code is Some { %s(self_.code->Some_0); }' % ret_lemma + ' lemma_exit_code_round_trip(mod256(self_.code->Some_0 as int)); lemma_exit_code_round_trip(context.shell.status()); }', fn_name='return_execute')
    u.add(f)
    f = builtin(u, 'brush-builtins/src/exit.rs', 'ExitCommand', 'exit_execute')
    f.sig('exit_execute', ret='res', ensures=[
        C('C02 exit-code-and-flow', '''res is Ok && res->Ok_0.next_control_flow is ExitShell
    && u8_of(res->Ok_0.exit_code) == (match self_.code { Some(c) => mod256(c as int), None => old(context.shell).status() })'''),
        C('C16 exit-only-asks-the-shell-to-leave-it-runs-no-exit-trap-itself', 'final(context.shell).on_exit_runs() == old(context.shell).on_exit_runs()'),
    ])
    f.before(r'^\s*let code_8bit = ', 'proof { if self_.code is Some { lemma_and_ff_i64(self_.code->Some_0); } lemma_exit_code_round_trip(mod256(self_.code->Some_0 as int)); lemma_exit_code_round_trip(context.shell.status()); }', fn_name='exit_execute')
    u.add(f)
    u.prelude('results/lemmas.rs')
    u.raw(FOOTER)
    u.assume('external_body', 'Shell (last_exit_status / in_function / in_sourced_script are views of uninterpreted state), CtxRest opaque; clap argument parsing (`break 200`, `return -1` are rejected by clap today) is outside')
    u.assume('uninterp', 'Shell::status, in_fn, in_src')
    u.expected_min_fns = 18
    return u
