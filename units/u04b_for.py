"""U4b: for-in executor (brush-core/src/interp.rs)."""
from vx.extract import C, ExtractError
from .exec_common import exec_unit, begin_ast, end_ast, child_stub, FOOTER

PROPS = ['C02', 'C03', 'C16', 'C01']

RUN = 'for_run(new_events(old(shell).trace(), %s.trace()), *self_, outer, args0)'


def build(repo, findings):
    u, interp = exec_unit(
        'U4b', 'for-in executor vs POSIX fold semantics', repo, ['CompoundList', 'SourceSpan', 'Word'],
        'pub enum Node { List(ast::CompoundList), ExpandSplit(ast::Word), Assign(String) }\n',
        aux='pub struct Aux { pub strs: Seq<String>, pub s: String, pub anywhere_global: bool }\n')
    ast = u.source('brush-parser/src/ast.rs')
    env = u.source('brush-core/src/env.rs')
    var = u.source('brush-core/src/variables.rs')
    var.require_text(r'pub enum ShellValueLiteral \{\s*(///[^\n]*\n\s*)*Scalar\(String\),', 'projection ShellValueLiteral::Scalar(String)')
    begin_ast(u)
    u.add(ast.item(r'^pub struct ForClauseCommand ', 'ForClauseCommand').r1(keep_derive=()))
    u.add(ast.item(r'^pub struct DoGroupCommand ', 'DoGroupCommand').r1(keep_derive=()))
    end_ast(u)
    u.add(env.item(r'^pub enum EnvironmentLookup ', 'EnvironmentLookup').r1())
    u.add(env.item(r'^pub enum EnvironmentScope ', 'EnvironmentScope').r1())
    u.prelude('exec/for_spec.rs')
    u.raw(child_stub('CompoundList', 'Node::List(*self)'))
    fn = 'for_clause_execute'
    f = interp.method(r'^impl Execute for ast::ForClauseCommand ', 'execute', fn)
    f.r1().r2_xtrace().r3().r4().r5_self('ast::ForClauseCommand', fn)
    f.resub(r'shell\.env_mut\(\)\.update_or_add\(\s*', 'env_mut__update_or_add(shell, ', 'R14',
            'receiver chain shell.env_mut().m(args) flattened to stub call env_mut__m(shell, args)', count=1)
    f.replace('|_| Ok(())', '|_u| Ok(())', 'R10', 'unused closure parameter `_` named (Verus rejects `_` closure params)')
    f.sig(fn, ret='res', ensures=[
        C('aux trace-extends', 'old(shell).trace().is_prefix_of(final(shell).trace())'),
        C('C02,C03 for-fold', '''({
    let st = for_run(new_events(old(shell).trace(), final(shell).trace()), *self_, params.suppress_errexit, old(shell).args());
    match res {
        Ok(r) => for_finished(st, r) && final(shell).status() == u8_of(r.exit_code),
        Err(_) => st is Err,
    }
})'''),
    ])
    f.at_body_start(fn, 'broadcast use {lemma_new_events_push, lemma_for_run_push};\nproof { lemma_new_events_empty(old(shell).trace()); }\nlet ghost outer = params.suppress_errexit;\nlet ghost args0 = shell.args();')
    f.ascribe(r'^\s*let mut expanded_values = vec!\[\];', 'Vec<String>', fn_name=fn)
    f.loop(0, fn_name=fn, iter_name='it', invariant=[
        C('aux', 'outer == params.suppress_errexit && args0 == old(shell).args()'),
        C('aux', 'self_.values == Some(*unexpanded_values)'),
        C('aux', 'it.index@ + it.iter.remaining().len() == unexpanded_values@.len()'),
        C('aux', 'forall|i: int| 0 <= i < it.iter.remaining().len() ==> *(#[trigger] it.iter.remaining()[i]) == unexpanded_values@[it.index@ + i]'),
        C('aux', 'old(shell).trace().is_prefix_of(shell.trace())'),
        C('C02 for-expanding', (RUN % 'shell') + ' == expand_state(unexpanded_values@, it.index@ as int, expanded_values@)'),
    ], body_first='broadcast use {lemma_new_events_push, lemma_for_run_push};\nproof { assert(*value == unexpanded_values@[it.index@ as int]); }')
    f.before(r'^\s*expanded_values\.extend_from_slice\(shell\.current_shell_args\(\)\);', 'let ghost pre_ext = expanded_values@;', fn_name=fn, optional=True)
    f.after_line(r'^\s*expanded_values\.extend_from_slice\(shell\.current_shell_args\(\)\);', '''proof {
    assert(pre_ext.len() == 0);
    assert forall|i: int| 0 <= i < args0.len() implies expanded_values@[i] == args0[i] by { assert(cloned::<String>(args0[i], expanded_values@[i])); }
    assert(expanded_values@ =~= args0);
}''', fn_name=fn, optional=True)
    f.before_loop(fn, 1, 'let ghost vals = expanded_values@;\nproof { assert(%s == (St::Loop { vals, i: 0, assigned: false, code: ExecutionExitCode::Success })); }' % (RUN % 'shell'))
    f.loop(1, fn_name=fn, iter_name='it', invariant_except_break=[
        C('aux', 'it.index@ + it.iter.remaining().len() == vals.len()'),
        C('aux', 'forall|i: int| 0 <= i < it.iter.remaining().len() ==> (#[trigger] it.iter.remaining()[i]) == vals[it.index@ + i]'),
        C('aux', 'result.next_control_flow is Normal'),
        C('C02,C03 for-fold-running', (RUN % 'shell') + ' == (St::Loop { vals, i: it.index@ as int, assigned: false, code: result.exit_code })'),
    ], invariant=[
        C('aux', 'outer == params.suppress_errexit && args0 == old(shell).args()'),
        C('aux', 'old(shell).trace().is_prefix_of(shell.trace())'),
    ], ensures=[
        C('C02,C03 for-fold-done', 'for_finished(%s, result)' % (RUN % 'shell')),
    ], body_first='broadcast use {lemma_new_events_push, lemma_for_run_push};\nproof { assert(value == vals[it.index@ as int]); }')
    u.add(f)
    u.raw(FOOTER)
    u.assume('external_body', 'full_expand_and_split_word (word expansion) and env_mut__update_or_add (variable assignment) are abstract children (one event each); Shell::current_shell_args is a view of args(); ShellVariable opaque')
    u.assume('uninterp', 'Shell::args')
    u.expected_min_fns = 18
    return u
