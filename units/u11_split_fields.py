"""U11 split-fields: WordExpander::split_fields == nested fold over (field, piece, char) (brush-core/src/expansion.rs)."""
from vx.unit import Unit
from vx.extract import C

PROPS = ['C04', 'C05', 'C01']
HEADER = 'use vstd::prelude::*;\nuse vstd::string::*;\nuse vstd::std_specs::iter::IteratorSpec;\nverus! {\n'
FOOTER = '\n} // verus!\nfn main() {}\n'
MK = 'mk(fsv(fields@), fv(current_field))'
PVMAP = 'map_values(|p: ExpansionPiece| pv(p))'


def build(repo, findings):
    u = Unit('U11', 'field splitting == POSIX fold; quoted pieces never cut', repo, ['C04', 'C05'], safety_props=['C01', 'C04', 'C05'])
    ex = u.source('brush-core/src/expansion.rs')
    ex.require_text(r"shell: &'a mut Shell<SE>,", 'projected field WordExpander.shell')
    u.raw(HEADER)
    u.prelude('split/assumes.rs')
    u.add(ex.item(r'^enum ExpansionPiece ', 'ExpansionPiece').r1(keep_derive=()).r11())
    u.add(ex.item(r'^struct WordField\(', 'WordField').r1(keep_derive=('Default',)).r11().resub(r'struct WordField\(Vec', 'struct WordField(pub Vec', 'R11', 'tuple field made visible'))
    wf = ex.item(r'^impl WordField ', 'impl WordField').r1()
    wf.keep_only_fns(['new'], 'len() uses Iterator::fold with a closure — replaced by a stub whose contract is read off its body (contracts/split/spec.rs)')
    wf.sig('new', ret='r', ensures=[C('aux new-empty', 'r.0@.len() == 0')])
    u.add(wf)
    u.add(ex.item(r'^struct Expansion ', 'Expansion').r1(keep_derive=()).r11().pub_fields())
    u.prelude('split/ctx.rs')
    u.prelude('split/spec.rs')
    fn = 'split_fields'
    g = ex.method_anywhere(fn).r1()
    g.sig(fn, ret='fields', ensures=[
        C('C04,C05 split-equals-fold', 'fsv(fields@) == sf_fields(sf0(), fsv(expansion.fields@), self.ifs_spec()).done')])
    g.after_line(r'^\s*let mut current_field = WordField::new\(\);', 'proof { lemma_map_empty(); assert(fields@ =~= Seq::<WordField>::empty()); assert(current_field.0@ =~= Seq::<ExpansionPiece>::empty()); }', fn_name=fn)
    g.loop(0, fn_name=fn, iter_name='it1', invariant=[
        C('aux', 'ifs@ == self.ifs_spec()'),
        C('C04,C05 fold-over-fields', MK + ' == sf_fields(sf0(), fsv(it1.history@), ifs@)'),
        C('aux', 'it1.history@ + it1.iter.remaining() == expansion.fields@'),
    ], body_first='let ghost st0 = %s;\nlet ghost gf = existing_field;\nlet ghost h1 = it1.history@;\nproof { lemma_map_empty(); }' % MK,
        body_last='''proof {
    let hf = fsv(h1.push(gf));
    assert(hf.drop_last() =~= fsv(h1));
    assert(hf.last() == fv(gf));
    assert(%s == sf_fields(sf0(), hf, ifs@));
}''' % MK)
    g.loop(1, fn_name=fn, iter_name='it2', invariant=[
        C('aux', 'ifs@ == self.ifs_spec()'),
        C('C04,C05 fold-over-pieces', MK + ' == sf_pieces(st0, it2.history@.%s, ifs@)' % PVMAP),
        C('aux', 'it2.history@ + it2.iter.remaining() == gf.0@'),
    ], body_first='''let ghost st1 = %s;
let ghost h2 = it2.history@;
let ghost gp = piece;
proof { lemma_fv_push(h2, piece); lemma_fv_push(current_field.0@, piece); assert(h2.push(piece).drop_last() =~= h2); }''' % MK,
        body_last='''proof {
    match gp {
        ExpansionPiece::Unsplittable(_) => { assert(%s == sf_piece(st1, pv(gp), ifs@)); }
        ExpansionPiece::Splittable(gs) => { assert(pv(gp) == Piece::S(gs@)); assert(%s == sf_piece(st1, pv(gp), ifs@)); }
    }
    let hm = h2.push(gp).%s;
    assert(hm.drop_last() =~= h2.%s);
    assert(hm.last() == pv(gp));
    assert(%s == sf_pieces(st0, hm, ifs@));
}''' % (MK, MK, PVMAP, PVMAP, MK))
    g.loop(2, fn_name=fn, iter_name='it3', invariant=[
        C('aux', 'ifs@ == self.ifs_spec()'),
        C('C04,C05 fold-over-chars', MK + ' == sf_chars(st1, it3.history@, ifs@)'),
        C('aux', 'it3.history@ + it3.iter.remaining() == s@'),
    ], body_first='''broadcast use {axiom_char_to_string, axiom_wordfield_default};
let ghost h3 = it3.history@;
let ghost pre_st = %s;
let ghost pre_cur = fv(current_field);
proof { assert(h3.push(c).drop_last() =~= h3); lemma_fsv_push(fields@, current_field); }''' % MK,
        body_last='''proof {
    if is_ifs(ifs@, c) {
        if pre_cur.len() > 0 { assert(fv(current_field) =~= Seq::<Piece>::empty()); } else { assert(fv(current_field).len() == 0); }
        assert(%s == flush(pre_st));
    } else {
        assert(fv(current_field) == add_char(pre_cur, c));
    }
    assert(%s == sf_char(sf_chars(st1, h3, ifs@), c, ifs@));
}''' % (MK, MK))
    # after the character loop: the whole Splittable string has been folded
    g.after_loop(fn, 1, '''broadcast use axiom_wordfield_default;
proof { lemma_fsv_push(fields@, current_field); lemma_fsv_push(h1, gf); assert(h1.push(gf).drop_last() =~= h1); }
let ghost pre = %s;
proof { assert(gf.0@.%s =~= fv(gf)); assert(pre == sf_pieces(st0, fv(gf), ifs@)); }''' % (MK, PVMAP))
    g.after_line(r'^\s*fields\.push\(std::mem::take\(&mut current_field\)\);', 'proof { assert(fv(current_field) =~= Seq::<Piece>::empty()); }', nth=1, fn_name=fn, optional=True)
    u.raw("impl<'a> WordExpander<'a> {")
    u.add(g)
    u.raw('}\n')
    u.raw(FOOTER)
    u.assume('assume_specification', 'str::contains(char) is an uninterpreted membership predicate of the IFS string (so the proof holds for EVERY IFS); std::mem::take returns the old value and leaves Default::default()')
    u.assume('axiom', 'char::to_string() is the one-character string (Display for char); derived Default of WordField is the empty Vec')
    u.assume('uninterp', 'str_contains_spec, default_spec, Shell::ifs_spec')
    u.assume('external_body', 'Shell::ifs() is a stub returning the IFS string (real return type Cow<str>); WordExpander is projected to its shell reference; WordField::len is a stub read off its body (bytes of all pieces together)')
    u.assume('stub', 'brace / tilde / parameter / command expansion, coalescing and pathname expansion are NOT verified (C05 is decided for the field-splitting stage only)')
    u.expected_min_fns = 25
    return u
