"""U78: the prefix Pattern::expand strips from the matches of a relative pattern (brush-core/src/patterns.rs, R6 slice): the working
directory's text with a slash added only when it does not end in one — so that with `/` as working directory the prefix is `/`, the
matches lose it, and `*` there expands to `etc`, not `/etc`."""
from vx.unit import Unit
from vx.extract import C
from .common import replay_scripts

PROPS = ['C05', 'C08']
HEADER = '#![feature(pattern)]\nuse vstd::prelude::*;\nverus! {\n'
FOOTER = '\n} // verus!\nfn main() {}\n'


def build(repo, findings):
    u = Unit('U78', 'pathname expansion: the working-directory prefix stripped from relative matches ends in exactly one slash', repo, PROPS, safety_props=[])
    pt = u.source('brush-core/src/patterns.rs')
    pt.require_text(r'prefix_to_remove = Some\(working_dir_str\);\n\s*vec!\[working_dir\.to_path_buf\(\)\]', 'the text built here is the prefix to remove; the walk starts at the working directory')
    u.raw(HEADER)
    u.prelude('std/str_ops.rs')
    u.raw('''#[verifier::external_body] pub struct Path { _p: u8 }
pub uninterp spec fn lossy_spec(p: &Path) -> Seq<char>;
pub uninterp spec fn norm_spec(s: Seq<char>) -> Seq<char>;
#[verifier::external_body] pub fn path_to_string_lossy(p: &Path) -> (r: String) ensures r@ == lossy_spec(p) { unimplemented!() }                  // Path::to_string_lossy (Cow erased)
#[verifier::external_body] pub fn normalize_path_separators(s: &String) -> (r: String) ensures r@ == norm_spec(s@) { unimplemented!() }          // sys::fs::normalize_path_separators(..).into_owned()
''')
    fn = 'removal_prefix'
    f = pt.slice('expand', r'^\s*let working_dir_str = working_dir\.to_string_lossy\(\);', r'^\s*prefix_to_remove = Some\(working_dir_str\);', 'fn removal_prefix(working_dir: &Path) -> String', fn)
    f.r1()
    f.resub(r'\bworking_dir\.to_string_lossy\(\)', 'path_to_string_lossy(working_dir)', 'R17', 'Path::to_string_lossy -> stub (Cow erased)', count=1)
    f.resub(r'sys::fs::normalize_path_separators\(&working_dir_str\)\.into_owned\(\)', 'normalize_path_separators(&working_dir_str)', 'R17', 'Cow::into_owned on the normalised text -> stub returning the owned text', count=1)
    f.resub(r'\n\s*prefix_to_remove = Some\(working_dir_str\);\n\}$', '\n    working_dir_str\n}', 'R6', 'wrapper epilogue: the text that becomes the prefix', count=1)
    f.sig(fn, ret='r', ensures=[
        C('C05,C08 the-prefix-is-the-working-directory-with-one-slash-added-only-when-it-has-none', '''({ let n = norm_spec(lossy_spec(working_dir));
    r@ == (if n.len() > 0 && n.last() == '/' { n } else { n.push('/') }) })'''),
    ])
    f.at_body_start(fn, 'broadcast use axiom_str_ends_with_char;')
    u.add(f)
    u.raw(FOOTER)
    u.assume('external_body', 'Path::to_string_lossy and sys::fs::normalize_path_separators are stubs with uninterpreted results')
    u.assume('assume_specification', 'str::ends_with(char) (contracts/std/str_ops.rs)')
    u.assume('uninterp', 'lossy_spec, norm_spec, str_ends_with_spec')
    u.assume('axiom', 'str::ends_with(char) looks at the last character')
    u.assume('stub', 'that the matches are stripped of this prefix with strip_prefix (a miss leaves them absolute) is read off the end of Pattern::expand, not proved')
    u.expected_min_fns = 1
    u.counterexample = replay_scripts(repo, [
        ('cd /; echo et[c]; echo ./tm[p]; cd /usr; echo bi[n]', 'etc\n./tmp\nbin\n'),
    ])
    return u
