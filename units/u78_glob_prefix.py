"""U78: the prefix Pattern::expand strips from the matches of a relative pattern (brush-core/src/patterns.rs, R6 slice): the working
directory's text with a slash added only when it does not end in one — so that with `/` as working directory the prefix is `/`, the
matches lose it, and `*` there expands to `etc`, not `/etc`."""
from vx.unit import Unit
from vx.extract import C
from .common import replay_scripts

PROPS = ['C05', 'C08', 'C04']
HEADER = '#![feature(pattern)]\nuse vstd::prelude::*;\nverus! {\n'
FOOTER = '\n} // verus!\nfn main() {}\n'


def build(repo, findings):
    u = Unit('U78', 'pathname expansion: the working-directory prefix stripped from relative matches ends in exactly one slash', repo, PROPS, safety_props=[])
    pt = u.source('brush-core/src/patterns.rs')
    pt.require_text(r'prefix_to_remove = Some\(working_dir_str\);\n\s*vec!\[working_dir\.to_path_buf\(\)\]', 'the text built here is the prefix to remove; the walk starts at the working directory')
    u.raw(HEADER)
    u.prelude('std/str_ops.rs')
    u.raw('''#[verifier::external_body] pub struct Path { _p: u8 }
pub uninterp spec fn lossy_spec(p: &Path) -> Seq<char>;
pub uninterp spec fn norm_spec(s: Seq<char>) -> Seq<char>;
#[verifier::external_body] pub fn path_to_string_lossy(p: &Path) -> (r: String) ensures r@ == lossy_spec(p) { unimplemented!() }                  // Path::to_string_lossy (Cow erased)
#[verifier::external_body] pub fn normalize_path_separators(s: &String) -> (r: String) ensures r@ == norm_spec(s@) { unimplemented!() }          // sys::fs::normalize_path_separators(..).into_owned()
''')
    fn = 'removal_prefix'
    f = pt.slice('expand', r'^\s*let working_dir_str = working_dir\.to_string_lossy\(\);', r'^\s*prefix_to_remove = Some\(working_dir_str\);', 'fn removal_prefix(working_dir: &Path) -> String', fn)
    f.r1()
    f.resub(r'\bworking_dir\.to_string_lossy\(\)', 'path_to_string_lossy(working_dir)', 'R17', 'Path::to_string_lossy -> stub (Cow erased)', count=1)
    f.resub(r'sys::fs::normalize_path_separators\(&working_dir_str\)\.into_owned\(\)', 'normalize_path_separators(&working_dir_str)', 'R17', 'Cow::into_owned on the normalised text -> stub returning the owned text', count=1)
    f.resub(r'\n\s*prefix_to_remove = Some\(working_dir_str\);\n\}$', '\n    working_dir_str\n}', 'R6', 'wrapper epilogue: the text that becomes the prefix', count=1)
    f.sig(fn, ret='r', ensures=[
        C('C05,C08 the-prefix-is-the-working-directory-with-one-slash-added-only-when-it-has-none', '''({ let n = norm_spec(lossy_spec(working_dir));
    r@ == (if n.len() > 0 && n.last() == '/' { n } else { n.push('/') }) })'''),
    ])
    f.at_body_start(fn, 'broadcast use axiom_str_ends_with_char;')
    u.add(f)
    # ---- whether the pattern is rooted: decided from the text of the WHOLE first path component
    import re
    from vx.extract import ExtractError
    u.add(pt.item(r'^pub\(crate\) enum PatternPiece ', 'PatternPiece').r1(keep_derive=()).r11_pub())
    u.raw('''pub type PatternWord = Vec<PatternPiece>;
#[verifier::external_body] pub struct PathBuf { _p: u8 }
pub open spec fn piece_text(p: PatternPiece) -> Seq<char> { match p { PatternPiece::Pattern(s) => s@, PatternPiece::Literal(s) => s@ } }
pub open spec fn flat_text(ps: Seq<PatternPiece>) -> Seq<char> decreases ps.len() { if ps.len() == 0 { Seq::empty() } else { flat_text(ps.drop_last()) + piece_text(ps.last()) } }
pub uninterp spec fn root_spec(text: Seq<char>) -> Option<PathBuf>;
impl PatternPiece { #[verifier::external_body] pub fn as_str(&self) -> (r: &str) ensures r@ == piece_text(*self) { unimplemented!() } }
#[verifier::external_body] pub fn pieces_flatten(ps: &Vec<PatternPiece>) -> (r: String) ensures r@ == flat_text(ps@) { unimplemented!() }        // ps.iter().map(|p| p.as_str()).collect::<String>()
#[verifier::external_body] pub fn pattern_path_root(text: &str) -> (r: Option<PathBuf>) ensures r == root_spec(text@) { unimplemented!() }        // sys::fs::pattern_path_root
#[verifier::external_body] pub fn vx_first<T>(v: &Vec<T>) -> (r: Option<&T>) ensures v@.len() == 0 ==> r is None, v@.len() > 0 ==> r == Some(&v@[0]) { unimplemented!() }   // <[T]>::first
''')
    fn2 = 'absolute_root_of'
    g = pt.slice('expand', r'^\s*let absolute_root = ', r'^\s*let absolute_root = ', 'fn absolute_root_of(components: &Vec<PatternWord>) -> Option<PathBuf>', fn2)
    g.r1()
    g.resub(r'\b(\w+)\s*\.iter\(\)\s*\.map\(\|p\| p\.as_str\(\)\)\s*\.collect\(\)', r'pieces_flatten(\1)', 'R14', 'pieces.iter().map(as_str).collect::<String>() -> stub', count=None)
    g.resub(r'sys::fs::pattern_path_root\(&flattened\)', 'pattern_path_root(flattened.as_str())', 'R14', 'sys helper -> stub; deref coercion spelled out', count=None)
    g.resub(r'sys::fs::pattern_path_root\(', 'pattern_path_root(', 'R14', 'sys helper -> stub', count=None)
    g.resub(r'\b(\w+)\s*\.first\(\)', r'vx_first(\1)', 'R14', '<[T]>::first -> stub', count=None)
    # Option::and_then(recv, |v| e) -> match recv { Some(v) => e, None => None }, innermost receiver first (std)
    m = re.search(r'let absolute_root = (.*);\n', g.text, re.S)
    if not m:
        raise ExtractError('unsupported: the statement defining absolute_root changed shape')
    expr = m.group(1)
    for _ in range(6):
        k = expr.find('.and_then(|')
        if k < 0:
            break
        # the receiver is everything before (the first call of the chain comes first); the closure runs to the matching parenthesis
        o = k + len('.and_then')
        depth, j = 0, o
        while True:
            if expr[j] == '(':
                depth += 1
            elif expr[j] == ')':
                depth -= 1
                if depth == 0:
                    break
            j += 1
        clos = expr[o + 1:j]
        bar = clos.index('|', 1)
        param = clos[1:bar]
        body = clos[bar + 1:].strip()
        expr = 'match %s { Some(%s) => %s, None => None }' % (expr[:k].rstrip(), param, body) + expr[j + 1:]
    g.resub(re.escape(m.group(1)), expr.replace('\\', '\\\\'), 'R14', 'Option::and_then(recv, |v| e) -> match recv { Some(v) => e, None => None } (std), applied from the outermost call inwards', count=1)
    g.resub(r'\n\}$', '\n    absolute_root\n}', 'R6', 'wrapper epilogue: the live variable', count=1)
    g.sig(fn2, ret='r', ensures=[
        C('C04,C05,C08 a-pattern-is-rooted-only-when-the-text-of-its-whole-first-component-says-so', 'r == (if components@.len() == 0 { None::<PathBuf> } else { root_spec(flat_text(components@[0]@)) })'),
    ])
    u.add(g)
    u.raw(FOOTER)
    u.assume('external_body', 'sys::fs::pattern_path_root (uninterpreted), the flattening of a component and <[T]>::first are stubs')
    u.assume('external_body', 'Path::to_string_lossy and sys::fs::normalize_path_separators are stubs with uninterpreted results')
    u.assume('assume_specification', 'str::ends_with(char) (contracts/std/str_ops.rs)')
    u.assume('uninterp', 'lossy_spec, norm_spec, str_ends_with_spec, root_spec')
    u.assume('axiom', 'str::ends_with(char) looks at the last character')
    u.assume('stub', 'that the matches are stripped of this prefix with strip_prefix (a miss leaves them absolute) is read off the end of Pattern::expand, not proved')
    u.expected_min_fns = 2
    u.counterexample = replay_scripts(repo, [
        ('cd /; echo et[c]; echo ./tm[p]; cd /usr; echo bi[n]', 'etc\n./tmp\nbin\n'),
    ])
    return u
