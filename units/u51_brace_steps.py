"""U51: the two closures of expand_brace_expr_member (brush-core/src/braceexpansion.rs) that produce the next element of a descending
range (R6 block slices of the closure bodies): each step is strictly smaller than the element before, by exactly the increment, and
not below the end — so the sequence is finite and has bash's elements."""
from vx.unit import Unit
from vx.extract import C

PROPS = ['C01', 'C05']
HEADER = 'use vstd::prelude::*;\nuse vstd::std_specs::cmp::OrdSpec;\nverus! {\n'
FOOTER = '\n} // verus!\nfn main() {}\n'


def build(repo, findings):
    u = Unit('U51', 'descending brace ranges: every step is strictly smaller, by the increment, and not below the end', repo, ['C01', 'C05'], safety_props=['C01'])
    bx = u.source('brush-core/src/braceexpansion.rs')
    # the increment the closures capture is at least 1 (text of the two set-up statements)
    bx.require_text(r'let mut increment = increment\.unsigned_abs\(\) as usize;\s*if increment == 0 \{\s*increment = 1;\s*\}', 'the increment is made non-zero before use')
    bx.require_text(r'let increment = i64::try_from\(increment\)\.unwrap_or\(i64::MAX\);', 'the i64 increment of the descending number walk is the usize one, capped')
    bx.require_text(r'let increment = u32::try_from\(increment\)\.unwrap_or\(u32::MAX\);', 'the u32 increment of the descending letter walk is the usize one, capped')
    u.raw(HEADER)
    u.prelude('std/int_ops.rs')
    u.prelude('brace/steps_spec.rs')
    for var, ty, fn, open_re, ens, none_extra in [
        ('n', 'i64', 'descending_number_step', r'^\s*std::iter::successors\(Some\(start\), move \|&n\| \{$', 'r->Some_0 == n - increment && r->Some_0 >= end', ''),
        # (a step that would land on a surrogate code point also ends the walk; the word parser only builds letter ranges)
        ('c', 'char', 'descending_letter_step', r'^\s*std::iter::successors\(Some\(start\), move \|&c\| \{$', '(r->Some_0 as u32) == (c as u32) - increment && r->Some_0 >= end', ' || 0xD800 <= (c as int) - increment <= 0xDFFF'),
    ]:
        inc_ty = 'i64' if ty == 'i64' else 'u32'
        f = bx.block_slice(open_re, 'fn %s(%s: %s, increment: %s, end: %s) -> Option<%s>' % (fn, var, ty, inc_ty, ty, ty), fn, within_fn='expand_brace_expr_member')
        f.r1()
        f.resub(r'\((\w+ >= end)\)\.then_some\((\w+)\)', r'vx_then_some(\1, \2)', 'R14', 'bool::then_some -> stub', count=None)
        f.sig(fn, ret='r', requires=[C('aux increment-is-positive', 'increment >= 1')], ensures=[
            C('C01 a-descending-step-is-strictly-smaller-so-the-sequence-ends', 'r is Some ==> r->Some_0 < %s' % var),
            C('C05 a-descending-step-goes-down-by-the-increment-and-stops-before-passing-the-end', '(r is Some ==> %s) && (r is None ==> ((%s as int) - increment < (end as int)%s))' % (ens, var, none_extra)),
        ])
        u.add(f)
    u.raw(FOOTER)
    u.assume('assume_specification', 'char::from_u32 (Some exactly for Unicode scalar values); contracts/std/int_ops.rs (discharged by Kani in the thorough tier)')
    u.assume('stub', 'the ascending arms (RangeInclusive::step_by, std), std::iter::successors itself (calls the closure on the last element until it yields None) and the Child arm are NOT verified here; the first elements of each arm are checked by the bounded harnesses of unit U21')
    u.expected_min_fns = 2
    return u
