"""U19 callstack: CallStack pushes/pop keep the depth counters exact (brush-core/src/callstack.rs)."""
from vx.unit import Unit
from vx.extract import C

PROPS = ['C18', 'C16', 'C01']
HEADER = '#![feature(allocator_api)]\nuse vstd::prelude::*;\nuse std::collections::{VecDeque, HashSet};\nuse std::sync::Arc;\nverus! {\n'
FOOTER = '\n} // verus!\nfn main() {}\n'

PUSH_PRE = [C('aux wf-in', 'old(self).wf()'), C('aux room', 'old(self).frames@.len() < usize::MAX')]


def push_post(ft, extra=None):
    cl = [
        C('C18 wf-preserved', 'final(self).wf()'),
        C('C18 push-adds-one-frame-at-front', 'final(self).frames@.len() == old(self).frames@.len() + 1 && final(self).frames@.drop_first() == old(self).frames@'),
        C('C18 pushed-frame-kind', 'final(self).frames@[0].frame_type %s' % ft),
        C('C16 suppress-count-untouched', 'final(self).trap_delivery_suppress_count == old(self).trap_delivery_suppress_count'),
    ]
    return cl + (extra or [])


def build(repo, findings):
    u = Unit('U19', 'call stack: pushes and pop keep depth counters exact', repo, ['C18', 'C16'], safety_props=['C01', 'C18'])
    src = u.source('brush-core/src/callstack.rs')
    tr = u.source('brush-core/src/traps.rs')
    tr.require_text(r'pub enum TrapSignal \{(?:[^}]|\n)*?Signal\(sys::signal::Signal\),(?:[^}]|\n)*?Debug,(?:[^}]|\n)*?Err,(?:[^}]|\n)*?Exit,(?:[^}]|\n)*?Return,', 'projection TrapSignal')
    u.raw(HEADER)
    u.add(src.item(r'^pub enum ScriptCallType ', 'ScriptCallType').r1())
    sc = src.item(r'^pub struct ScriptCall ', 'ScriptCall').r1(keep_derive=())
    sc.resub(r'\bcrate::SourceInfo\b', 'SourceInfo', 'R4', 'crate path flattened', count=None)
    u.add(sc)
    u.add(src.item(r'^pub enum FrameType ', 'FrameType').r1(keep_derive=()))
    fc = src.item(r'^pub struct FunctionCall ', 'FunctionCall').r1(keep_derive=())
    u.add(fc)
    fr = src.item(r'^pub struct Frame ', 'Frame').r1(keep_derive=())
    fr.resub(r'\bcrate::SourceInfo\b', 'SourceInfo', 'R4', 'crate path flattened', count=None)
    fr.resub(r'\bcrate::SourcePosition\b', 'SourcePosition', 'R4', 'crate path flattened', count=None)
    u.add(fr)
    u.add(src.item(r'^pub struct CallStack ', 'CallStack').r1(keep_derive=()).r11().pub_fields())
    u.prelude('callstack/spec.rs')
    u.prelude('callstack/wf.rs')
    ft = src.item(r'^impl FrameType ', 'impl FrameType').r1()
    ft.keep_only_fns(['is_function', 'is_script', 'is_trap_handler', 'is_interactive_session', 'is_command_string', 'is_sourced_script', 'is_run_script'],
                     'name() builds a Cow — NOT verified')
    ft.r11()
    for fn, sp in [('is_function', '*self is Function'), ('is_script', '*self is Script'), ('is_trap_handler', '*self is TrapHandler'),
                   ('is_interactive_session', '*self is InteractiveSession'), ('is_command_string', '*self is CommandString'),
                   ('is_sourced_script', '*self is Script && self->Script_0.call_type is Source'),
                   ('is_run_script', '*self is Script && self->Script_0.call_type is Run')]:
        ft.sig(fn, ret='r', ensures=[C('C18 frame-kind-test', 'r == (%s)' % sp)])
    u.add(ft)
    im = src.item(r'^impl CallStack \{(?=\n    /// Creates a new empty script call stack\.)', 'impl CallStack').r1()
    im.keep_only_fns(['pop', 'push_script', 'push_trap_handler', 'push_eval', 'push_command_string', 'push_interactive_session', 'push_function',
                      'function_call_depth', 'script_source_depth', 'current_frame', 'is_trap_signal_active', 'is_trap_delivery_suppressed',
                      'acquire_trap_delivery_block', 'release_trap_delivery_block', 'depth', 'is_empty'],
                     'constructors via Default, iterator-returning accessors, source-position helpers — NOT verified')
    # R10: generic parameters instantiated; R15: initialisers no contract mentions -> arbitrary value
    im.replace('args: impl IntoIterator<Item = String>,', 'args: Vec<String>,', 'R10', 'impl IntoIterator<Item = String> instantiated at Vec<String>', count=2)
    im.replace('name: impl Into<String>,', 'name: String,', 'R10', 'impl Into<String> instantiated at String')
    im.replace('function_name: name.into(),', 'function_name: name,', 'R10', '.into() on String is the identity')
    im.replace('args: args.into_iter().collect(),', 'args: vx_any(),', 'R15', 'frame args (iterator collect) -> arbitrary value', count=2)
    im.replace('source_info: source_info.to_owned(),', 'source_info: vx_any(),', 'R15', 'source info copy -> arbitrary value', count=2)
    im.replace('function: function.to_owned(),', 'function: vx_any(),', 'R15', 'registration copy -> arbitrary value')
    im.replace('source_info: function.source().clone(),', 'source_info: vx_any(),', 'R15', 'source info -> arbitrary value')
    im.replace('entry: function.definition().location().map(|span| span.start),', 'entry: vx_any(),', 'R15', 'entry position (closure) -> arbitrary value')
    im.resub(r'source_info: crate::SourceInfo::from\("[a-z]+"\),[^\n]*', 'source_info: vx_any(),', 'R15', 'source info literal -> arbitrary value', count=3)
    im.resub(r'        let source_info =\n            handler\.map_or_else\(crate::SourceInfo::default, \|h\| h\.source_info\.clone\(\)\);\n', '        let source_info: SourceInfo = vx_any();\n', 'R15', 'handler source info (closure) -> arbitrary value', count=1)
    im.resub(r'\bcrate::SourceInfo\b', 'SourceInfo', 'R4', 'crate path flattened', count=None)
    im.r11()
    im.sig('pop', ret='r', requires=[C('aux wf-in', 'old(self).wf()')], ensures=[
        C('C18 wf-preserved', 'final(self).wf()'),
        C('C18 pop-empty-is-noop', 'old(self).frames@.len() == 0 ==> r is None && final(self).frames@ == old(self).frames@'),
        C('C18 pop-removes-exactly-the-front', 'old(self).frames@.len() > 0 ==> r is Some && r->Some_0 == old(self).frames@[0] && final(self).frames@ == old(self).frames@.drop_first()'),
        C('C16,C18 pop-of-handler-frame-reactivates-signal', '(old(self).frames@.len() > 0 && old(self).frames@[0].frame_type is TrapHandler) ==> final(self).active_trap_signals@ == old(self).active_trap_signals@.remove(old(self).frames@[0].frame_type->TrapHandler_0)'),
        C('C16 pop-other-frames-keep-active-set', '(old(self).frames@.len() == 0 || !(old(self).frames@[0].frame_type is TrapHandler)) ==> final(self).active_trap_signals@ == old(self).active_trap_signals@'),
        C('C16 suppress-count-untouched', 'final(self).trap_delivery_suppress_count == old(self).trap_delivery_suppress_count'),
    ])
    im.at_body_start('is_trap_signal_active', 'broadcast use axiom_trap_signal_key_model;')
    im.at_body_start('pop', 'broadcast use axiom_trap_signal_key_model;\nproof { lemma_counts_bounded(self.frames@); if self.frames@.len() > 0 { assert(self.frames@ =~= seq![self.frames@[0]] + self.frames@.drop_first()); lemma_push_front_counts(self.frames@.drop_first(), self.frames@[0]); } }')
    hint = 'broadcast use axiom_trap_signal_key_model;\nproof { lemma_counts_bounded(self.frames@); }\nlet ghost f0 = self.frames@;'
    tail = 'proof { assert(self.frames@ =~= seq![self.frames@[0]] + f0); lemma_push_front_counts(f0, self.frames@[0]); assert(self.frames@.drop_first() =~= f0); }'
    for fn, kind, extra in [
        ('push_eval', 'is Eval', None), ('push_command_string', 'is CommandString', None), ('push_interactive_session', 'is InteractiveSession', None),
        ('push_script', 'is Script && final(self).frames@[0].frame_type->Script_0.call_type == call_type', None),
        ('push_function', 'is Function', [C('C18 function-depth-plus-one', 'final(self).func_call_depth == old(self).func_call_depth + 1')]),
        ('push_trap_handler', '== FrameType::TrapHandler(signal)', [C('C16 handler-signal-marked-active', 'final(self).active_trap_signals@ == old(self).active_trap_signals@.insert(signal)')]),
    ]:
        im.sig(fn, requires=PUSH_PRE, ensures=push_post(kind, extra))
        im.at_body_start(fn, hint)
        # the hint after the push_front statement
        im.after_line(r'^\s*\}\);$', tail, fn_name=fn)
    im.sig('function_call_depth', ret='r', ensures=[C('C18 depth-accessor', 'r == self.func_call_depth')])
    im.sig('script_source_depth', ret='r', ensures=[C('C18 depth-accessor', 'r == self.script_source_depth')])
    im.sig('is_trap_signal_active', ret='r', ensures=[C('C16,C01 active-test (the guard that keeps a trap handler from re-entering itself without bound)', 'r == self.active_trap_signals@.contains(signal)')])
    im.sig('is_trap_delivery_suppressed', ret='r', ensures=[C('C16 suppressed-test', 'r == (self.trap_delivery_suppress_count > 0)')])
    im.sig('acquire_trap_delivery_block', requires=[C('aux room', 'old(self).trap_delivery_suppress_count < usize::MAX')], ensures=[
        C('C16 block-count-plus-one', 'final(self).trap_delivery_suppress_count == old(self).trap_delivery_suppress_count + 1 && final(self).frames == old(self).frames && final(self).func_call_depth == old(self).func_call_depth && final(self).script_source_depth == old(self).script_source_depth && final(self).active_trap_signals == old(self).active_trap_signals')])
    im.sig('release_trap_delivery_block', ensures=[
        C('C16 block-count-minus-one', 'final(self).trap_delivery_suppress_count == (if old(self).trap_delivery_suppress_count > 0 { (old(self).trap_delivery_suppress_count - 1) as usize } else { 0usize }) && final(self).frames == old(self).frames && final(self).func_call_depth == old(self).func_call_depth && final(self).script_source_depth == old(self).script_source_depth && final(self).active_trap_signals == old(self).active_trap_signals')])
    im.sig('depth', ret='r', ensures=[C('C18 depth-is-frame-count', 'r == self.frames@.len()')])
    im.sig('is_empty', ret='r', ensures=[C('C18 empty-test', 'r == (self.frames@.len() == 0)')])
    u.add(im)
    u.raw(FOOTER)
    u.assume('axiom', 'derived Hash/Eq of TrapSignal obey the key model vstd needs for HashSet specs')
    u.assume('assume_specification', 'VecDeque::is_empty() == (len == 0) (std documented behaviour)')
    u.assume('external_body', 'SourceInfo, SourcePosition, functions::Registration, TrapHandler, OS Signal are opaque; vx_any (rule R15) stands for frame fields no contract mentions')
    u.assume('stub', 'callers are not under contract here: `old(self).wf()` and frames.len() < usize::MAX are preconditions (CallStack::default() is wf: all zero/empty)')
    u.expected_min_fns = 20
    return u
