"""U36: WaitCommand::execute (brush-builtins/src/wait.rs): `wait %n ...` leaves the job table's ids exactly as they were (jobs leave the
table only through JobManager::wait_all's sweep, unit U18)."""
from vx.unit import Unit
from vx.extract import C

PROPS = ['C17']
HEADER = '#![feature(allocator_api)]\nuse vstd::prelude::*;\nuse vstd::std_specs::iter::IteratorSpec;\nuse std::collections::VecDeque;\nverus! {\n'
FOOTER = '\n} // verus!\nfn main() {}\n'


def build(repo, findings):
    u = Unit('U36', 'wait builtin: waiting for job specs removes no job from the table', repo, ['C17'], safety_props=['C01', 'C17'])
    wt = u.source('brush-builtins/src/wait.rs')
    jb = u.source('brush-core/src/jobs.rs')
    sh = u.source('brush-core/src/shell.rs')
    jb.require_text(r'pub struct JobManager \{\s*(///[^\n]*\n\s*)*pub jobs: Vec<Job>,\s*\}', 'JobManager has the one public field `jobs`')
    sh.require_text(r'pub fn jobs_mut\(&mut self\) -> &mut jobs::JobManager \{\s*&mut self\.jobs\s*\}', 'Shell::jobs_mut is `&mut self.jobs`')
    sh.require_text(r'pub fn jobs\(&self\) -> &jobs::JobManager \{\s*&self\.jobs\s*\}', 'Shell::jobs is `&self.jobs`')
    for fld in ('wait_for_terminate: bool,', 'wait_for_first_or_next: bool,', 'variable_to_receive_id: Option<String>,', 'ids: Vec<String>,'):
        wt.require_text(r'\n\s*' + fld.replace('<', r'\<').replace('>', r'\>'), 'field WaitCommand.' + fld)
    wt.require_text(r'impl builtins::Command for WaitCommand \{\s*type Error = brush_core::Error;', 'associated type Error = brush_core::Error')
    u.raw(HEADER)
    u.add(jb.item(r'^pub enum JobAnnotation ', 'JobAnnotation').r1(keep_derive=()))
    u.add(jb.item(r'^pub enum JobState ', 'JobState').r1(keep_derive=()))
    u.add(jb.item(r'^pub struct Job ', 'Job').r1(keep_derive=()).r11().pub_fields())
    u.prelude('jobs/wait_builtin_spec.rs')
    u.add(wt.item(r'^pub\(crate\) struct WaitCommand ', 'WaitCommand').r1(keep_derive=()).r11().pub_fields())
    fn = 'wait_execute'
    f = wt.method(r'^impl builtins::Command for WaitCommand ', 'execute', fn)
    f.r1().r3()
    f.replace('<SE: brush_core::ShellExtensions>', '', 'R4', 'extension generic erased')
    f.replace("context: brush_core::ExecutionContext<'_, SE>", "context: ExecutionContext<'_>", 'R4', 'extension generic erased; context projected to its shell')
    f.replace('Self::Error', 'brush_core::Error', 'R5', 'associated type of the trait impl resolved (text checked)')
    f.resub(r'\bcontext\.shell\.jobs_mut\(\)', 'context.shell.jobs', 'R22', 'accessor inlined: jobs_mut() is `&mut self.jobs` (text checked)', count=None)
    f.resub(r'\bcontext\.shell\.jobs\(\)', 'context.shell.jobs', 'R22', 'accessor inlined: jobs() is `&self.jobs`', count=None)
    f.resub(r'\bcontext\.shell\.options\(\)\.', 'context.shell.options.', 'R22', 'accessor inlined', count=None)
    f.resub(r"\bid\.starts_with\('%'\)", "string_starts_with_char(id, '%')", 'R14', 'str::starts_with(char) -> stub (uninterpreted)', count=None)
    f.resub(r'writeln!\(\s*context\.stderr\(\),\s*"\{\}: no such job: \{\}",\s*context\.command_name,\s*id\s*\)\?;', 'vx_report_no_such_job(&context, id)?;', 'R8', 'diagnostic -> stub with the same error path', count=None)
    f.resub(r'writeln!\(context\.stdout\(\), "\{job\}"\)\?;', 'vx_print_job(&context, job)?;', 'R8', 'job listing line -> stub with the same error path', count=None)
    f.resub(r'for job in jobs \{', 'for job in jobs.iter() {', 'R24', 'consuming iteration -> by reference', count=None)
    f.r5_self('WaitCommand', fn)
    f.sig(fn, ret='res', attrs=['#[verifier::loop_isolation(false)]'], ensures=[
        C('C17 plain-wait-goes-through-wait-all-whatever-the-table-looks-like', '''(self_.ids@.len() == 0 && !self_.wait_for_terminate && !self_.wait_for_first_or_next && self_.variable_to_receive_id is None)
    ==> final(context.shell).jobs.all_waited@ == old(context.shell).jobs.all_waited@ + 1'''),
        C('C17,C02 what-a-waited-job-did-never-becomes-control-flow-of-the-waiting-shell', 'res is Ok ==> res->Ok_0.normal_flow'),
        C('C17 waiting-for-job-specs-removes-no-job-from-the-table', 'self_.ids@.len() > 0 ==> ids(final(context.shell).jobs.jobs@) == ids(old(context.shell).jobs.jobs@)'),
    ])
    k = f.loop_ordinal(fn, r'resolve_job_spec')
    f.loop(k, fn_name=fn, iter_name='it', invariant=[
        C('C17 table-ids-unchanged-so-far', 'ids(context.shell.jobs.jobs@) == ids(old(context.shell).jobs.jobs@)'),
        C('C17,C02 the-result-so-far-carries-no-control-flow', 'result.normal_flow'),
    ], body_first='let ghost js0 = context.shell.jobs.jobs@;', body_last='''proof {
    assert(ids(context.shell.jobs.jobs@) =~= ids(js0));
}''')
    u.add(f)
    u.raw(FOOTER)
    u.assume('external_body', 'resolve_job_spec (a reference into the table; the table changes only through it), Job::wait (U18b), wait_all (U18), the two message stubs')
    u.assume('stub', 'clap parsing; `wait PID`, -f / -n / -p end in `unimplemented`')
    u.expected_min_fns = 1
    return u
