"""U10c: the dot-file decision of Pattern::expand (brush-core/src/patterns.rs, R6 slice)."""
from vx.unit import Unit
from vx.extract import C

PROPS = ['C08', 'C05']
HEADER = '#![feature(pattern)]\nuse vstd::prelude::*;\nverus! {\n'
FOOTER = '\n} // verus!\nfn main() {}\n'


def build(repo, findings):
    u = Unit('U10c', 'pathname expansion: dot-files are hidden unless the component text starts with a dot', repo, ['C08', 'C05'], safety_props=['C01', 'C08'])
    src = u.source('brush-core/src/patterns.rs')
    src.require_text(r'pub\(crate\) struct FilenameExpansionOptions \{\s*pub require_dot_in_pattern_to_match_dot_files: bool,\s*\}', 'projection FilenameExpansionOptions')
    u.raw(HEADER)
    u.prelude('std/str_ops.rs')
    u.add(src.item(r'^pub\(crate\) enum PatternPiece ', 'PatternPiece').r1(keep_derive=()).r11())
    u.prelude('patterns/dotfiles_spec.rs')
    fn = 'dot_file_policy'
    f = src.slice('expand', r'^\s*let subpattern_starts_with_dot = ', r'^\s*let allow_dot_files = ',
                  'fn dot_file_policy(component: &Vec<PatternPiece>, subpattern: &Vec<PatternPiece>, options: &FilenameExpansionOptions) -> bool', fn, tail='allow_dot_files')
    f.r1()
    f.resub(r'\b(\w+)\s*\.iter\(\)\s*\.map\(\|piece\| piece\.as_str\(\)\)\s*\.collect::<String>\(\)', r'pieces_flatten(\1)', 'R14', 'pieces.iter().map(as_str).collect::<String>() -> pieces_flatten stub', count=None)
    f.resub(r"\b(\w+)(?:\s*\.pieces)?\s*\.iter\(\)\s*\.any\(\|piece\| piece\.as_str\(\)\.starts_with\('(.)'\)\)", r"pieces_any_starts_with(\1, '\2')", 'R14', 'pieces.iter().any(starts_with) -> stub', count=None)
    f.resub(r"\b(\w+)(?:\s*\.pieces)?\s*\.first\(\)\s*\.is_some_and\(\|piece\| piece\.as_str\(\)\.starts_with\('(.)'\)\)", r"pieces_first_starts_with(\1, '\2')", 'R14', 'pieces.first().is_some_and(starts_with) -> stub', count=None)
    f.sig(fn, ret='r', requires=[C('aux subpattern-has-the-components-pieces', 'subpattern@ == component@')], ensures=[
        C('C08 dot-files-hidden-unless-the-component-text-starts-with-a-dot', 'r == (!options.require_dot_in_pattern_to_match_dot_files || component_starts_with_dot(component@))'),
    ])
    f.at_body_start(fn, 'broadcast use axiom_str_starts_with_char;')
    u.add(f)
    u.raw(FOOTER)
    u.assume('external_body', 'R14 stubs for the iterator chains over a component\'s pieces (flatten / any / first); the directory walk, the regex match of each entry and the sort are NOT covered by this unit')
    u.assume('assume_specification', 'str::starts_with(char) (contracts/std/str_ops.rs)')
    u.assume('uninterp', 'str_starts_with_spec / str_ends_with_spec (generic Pattern instance; axioms give the char instance)')
    u.assume('axiom', 'str::starts_with(char) / ends_with(char) look at the first / last character')
    u.assume('stub', '`subpattern` is built from `component` (Self::from(&component)): assumed to hold the same pieces')
    u.expected_min_fns = 1
    return u
