"""U48: the tail of apply_assignment (brush-core/src/interp.rs), from the lookup of the existing variable to the end (R6 tail slice):
where an assignment lands, that it never gets past a readonly variable, and what happens to the export attribute."""
from vx.unit import Unit
from vx.extract import C
from .common import replay_scripts

PROPS = ['C09']
HEADER = 'use vstd::prelude::*;\nuse vstd::std_specs::convert::*;\nverus! {\n'
FOOTER = '\n} // verus!\nfn main() {}\n'
V0, V1 = 'old(shell).env.vars@', 'final(shell).env.vars@'
A0, A1 = 'old(shell).env.adds@', 'final(shell).env.adds@'


def build(repo, findings):
    u = Unit('U48', 'where an assignment lands: never past a readonly variable; the export attribute is kept', repo, ['C09'], safety_props=['C09'])
    ip = u.source('brush-core/src/interp.rs')
    va = u.source('brush-core/src/variables.rs')
    en = u.source('brush-core/src/env.rs')
    er = u.source('brush-core/src/error.rs')
    asrc = u.source('brush-parser/src/ast.rs')
    er.require_text(r'\n\s*ReadonlyVariable,', 'projected variant ErrorKind::ReadonlyVariable')
    asrc.require_text(r'pub struct Assignment \{[^}]*?\n\s*pub append: bool,', 'projected field Assignment.append')
    va.require_text(r'pub struct ShellVariable \{(?:[^}]|\n)*?\n\s*value: ShellValue,(?:[^}]|\n)*?\n\s*exported: bool,(?:[^}]|\n)*?\n\s*readonly: bool,', 'projected fields ShellVariable.value / exported / readonly')
    va.require_text(r'pub enum ShellValue \{(?:[^}]|\n)*?\n\s*String\(String\),', 'projected variant ShellValue::String')
    u.raw(HEADER)
    u.add(en.item(r'^pub enum EnvironmentScope ', 'EnvironmentScope').r1())
    u.add(va.item(r'^pub struct ArrayLiteral\(', 'ArrayLiteral').r1(keep_derive=()))
    u.add(va.item(r'^pub enum ShellValueLiteral ', 'ShellValueLiteral').r1(keep_derive=()))
    u.prelude('assign/tail_spec.rs')
    fn = 'assignment_tail'
    # the tail starts at the statement that asks whether the innermost scope holds the name; without such a statement it starts at the lookup
    start_re = r'^\s*let in_innermost_scope = ' if ip.has(r'^\s*let in_innermost_scope = ') else r'^\s*if let Some\(\(existing_value_scope, existing_value\)\) =\s*$'
    f = ip.slice('apply_assignment', start_re, None,
                 'fn assignment_tail(assignment: &ast::Assignment, shell: &mut Shell, variable_name: &String, array_index: Option<String>, new_value: ShellValueLiteral, mut export: bool, export_variables_on_modification: bool, required_scope: Option<EnvironmentScope>, creation_scope: EnvironmentScope) -> Result<(), error::Error>', fn)
    f.r1().r3()
    f.resub(r'\bshell\.options\(\)\.', 'shell.options.', 'R22', 'accessor inlined', count=None)
    f.resub(r'\bshell\.env\(\)\.', 'shell.env.', 'R22', 'accessor inlined', count=None)
    f.sig(fn, ret='res', ensures=[
        C('C09 an-assignment-never-gets-past-a-readonly-variable-temporary-assignments-included kf=C09:temporary-assignment-shadows-readonly',
          '{{KF:C09:temporary-assignment-shadows-readonly}} || ((%s.contains_key(variable_name@) && %s[variable_name@].1.readonly) ==> res is Err && %s == %s && %s == %s)' % (V0, V0, V1, V0, A1, A0)),
        C('C09 only-the-named-variable-is-touched', '%s.remove(variable_name@) =~= %s.remove(variable_name@)' % (V1, V0)),
        C('C09 a-temporary-assignment-creates-its-own-variable-in-the-innermost-scope-instead-of-writing-to-the-one-it-shadows', '''(%s.contains_key(variable_name@) && required_scope is Some
    && (required_scope->Some_0 != %s[variable_name@].0 || !old(shell).env.top_has@.contains(variable_name@)) && res is Ok)
    ==> %s.len() == %s.len() + 1 && %s == %s''' % (V0, V0, A1, A0, 'final(shell).env.vars@.remove(variable_name@)', 'old(shell).env.vars@.remove(variable_name@)')),
        C('C09 an-appending-temporary-assignment-starts-from-the-value-of-the-variable-it-shadows', '''(%s.contains_key(variable_name@) && required_scope is Some && (required_scope->Some_0 != %s[variable_name@].0 || !old(shell).env.top_has@.contains(variable_name@))
    && assignment.append && array_index is None && res is Ok) ==> %s.last().1.value == assigned(%s[variable_name@].1.value, new_value, true)''' % (V0, V0, A1, V0)),
        C('C09 assigning-to-the-visible-variable-never-drops-its-export-attribute', '''(%s.contains_key(variable_name@) && res is Ok && %s == %s) ==> %s.contains_key(variable_name@)
    && %s[variable_name@].1.readonly == %s[variable_name@].1.readonly
    && %s[variable_name@].1.exported == (%s[variable_name@].1.exported || export || (export_variables_on_modification && array_index is None && !(new_value is Array)))''' % (V0, A1, A0, V1, V1, V0, V1, V0)),
        C('C09 a-new-variable-goes-to-the-creation-scope-exported-when-asked', '''(res is Ok && %s != %s) ==> %s.len() == %s.len() + 1 && %s.last().0 == variable_name@ && %s.last().2 == creation_scope
    && (export ==> %s.last().1.exported) && !%s.last().1.readonly''' % (A1, A0, A1, A0, A1, A1, A1, A1)),
    ])
    u.add(f)
    u.raw(FOOTER)
    u.assume('external_body', 'Env::get_mut (the visible variable and its scope), Env::add (logged), ShellVariable::new / assign / assign_at_index (readonly guard first: U34; attributes left alone: ASSUMED), ShellValue::indexed_array_from_literals, error::unimp')
    u.assume('uninterp', 'assigned (what ShellVariable::assign makes of a value)')
    u.assume('stub', 'the first half of apply_assignment (expansion: U43; subscript evaluation) and Env::add itself are NOT verified here')
    u.expected_min_fns = 1
    u.counterexample = replay_scripts(repo, [
        ('readonly r=1; r=2 env | grep "^r="; echo "rc=$? r=$r"', 'rc=1 r=1\n'),
        ('x=1; x=2 env | grep "^x="; echo "$x"', 'x=2\n1\n'),
        ('export x=1; x=2; env | grep "^x="', 'x=2\n'),
    ])
    return u
