"""U9 affix-removal: remove_{smallest,largest}_matching_{prefix,suffix} (brush-core/src/patterns.rs).
BOUNDED stand-in (Kani): strings enumerated concretely (all 40 strings of <= 3 characters over {a, e-acute, rocket}), the match
predicate fully symbolic (a 64-bit table indexed by candidate byte length).  Verus cannot take these functions (str byte slicing,
char_indices().offset())."""
import os

from vx.unit import Unit

PROPS = ['C06', 'C08', 'C05', 'C01']

ALPHABET = ['a', 'é', '\U0001F680']

PRELUDE = '''#![allow(unused, dead_code)]
// ---- stubs: the compiled regex is an ARBITRARY predicate on the candidate; for a fixed subject string a candidate prefix or
// suffix is determined by its byte length, so a table indexed by that length is fully general
pub mod error { #[derive(Debug, PartialEq)] pub struct Error; }
// `to_regex(strict_prefix_match, strict_suffix_match)`: with both anchors the candidate must match as a whole (table bit at its length).
// With only the start anchored the regex matches a candidate iff SOME prefix of it matches as a whole, and `find` returns one such
// prefix — which one is the engine's preference order (leftmost-first alternation, greedy / lazy repetition), NOT necessarily the
// longest: the stub picks any of them.  With only the end anchored, `find` returns the leftmost start (the longest matching suffix).
// These readings are valid for candidates that are prefixes (resp. suffixes) of the subject, which is how the table is indexed.
pub struct Re { table: u64, anchor_start: bool, anchor_end: bool }
pub struct Match { start: usize, end: usize }
impl Match { pub fn start(&self) -> usize { self.start } pub fn end(&self) -> usize { self.end } }
impl Re {
    fn bit(&self, len: usize) -> bool { (self.table >> len) & 1 == 1 }
    pub fn is_match(&self, c: &str) -> Result<bool, error::Error> {
        if self.anchor_start && self.anchor_end { return Ok(self.bit(c.len())); }
        assert!(self.anchor_start || self.anchor_end, "an unanchored regex is not modelled by this stub");
        let mut k = 0;
        while k <= c.len() {
            if c.is_char_boundary(k) && self.bit(if self.anchor_start { k } else { c.len() - k }) { return Ok(true); }
            k += 1;
        }
        Ok(false)
    }
    pub fn find(&self, c: &str) -> Result<Option<Match>, error::Error> {
        assert!(self.anchor_start || self.anchor_end, "an unanchored regex is not modelled by this stub");
        if !self.is_match(c)? { return Ok(None); }
        if self.anchor_start && self.anchor_end { return Ok(Some(Match { start: 0, end: c.len() })); }
        if self.anchor_start {
            let k: usize = kani::any();
            kani::assume(k <= c.len() && c.is_char_boundary(k) && self.bit(k));
            return Ok(Some(Match { start: 0, end: k }));
        }
        let mut k = 0;
        while k <= c.len() {
            if c.is_char_boundary(k) && self.bit(c.len() - k) { return Ok(Some(Match { start: k, end: c.len() })); }
            k += 1;
        }
        Ok(None)
    }
}
pub struct Pattern { pub table: u64 }
impl Pattern { pub fn to_regex(&self, p: bool, s: bool) -> Result<Re, error::Error> { Ok(Re { table: self.table, anchor_start: p, anchor_end: s }) } }

// ---- spec, verbatim from the property: "prefix/suffix removal returns the rest of v after deleting a prefix/suffix that
// matches p and is the shortest (or longest) such, the empty one included"; no match: v unchanged
fn m(table: u64, len: usize) -> bool { (table >> len) & 1 == 1 }
fn spec_prefix(s: &str, table: u64, longest: bool) -> &str {
    let mut best: Option<usize> = None;
    let mut k = 0;
    while k <= s.len() {
        if s.is_char_boundary(k) && m(table, k) { if best.is_none() || longest { best = Some(k); } }
        k += 1;
    }
    match best { Some(k) => &s[k..], None => s }
}
fn spec_suffix(s: &str, table: u64, longest: bool) -> &str {
    // a suffix starting at boundary k has length len - k; shortest suffix = greatest k
    let mut best: Option<usize> = None;
    let mut k = 0;
    while k <= s.len() {
        if s.is_char_boundary(k) && m(table, s.len() - k) { if best.is_none() || !longest { best = Some(k); } }
        k += 1;
    }
    match best { Some(k) => &s[..k], None => s }
}
fn check_all(s: &str) {
    let table: u64 = kani::any();
    let p = Pattern { table };
    assert!(remove_smallest_matching_prefix(s, Some(&p)) == Ok(spec_prefix(s, table, false)));
    assert!(remove_largest_matching_prefix(s, Some(&p)) == Ok(spec_prefix(s, table, true)));
    assert!(remove_smallest_matching_suffix(s, Some(&p)) == Ok(spec_suffix(s, table, false)));
    assert!(remove_largest_matching_suffix(s, Some(&p)) == Ok(spec_suffix(s, table, true)));
    assert!(remove_smallest_matching_prefix(s, None) == Ok(s));
}
'''


def strings():
    out = ['']
    for n in (1, 2, 3):
        def rec(prefix, k):
            if k == 0:
                out.append(prefix)
                return
            for c in ALPHABET:
                rec(prefix + c, k - 1)
        rec('', n)
    return out


def build(repo, findings):
    u = Unit('U9', 'shortest/longest prefix and suffix removal; set / unset / null classification (bounded, Kani)', repo, ['C06', 'C08', 'C05'], safety_props=['C01', 'C06'])
    u.kani_only = True
    src = u.source('brush-core/src/patterns.rs')
    fns = []
    for n in ('remove_largest_matching_prefix', 'remove_smallest_matching_prefix', 'remove_largest_matching_suffix', 'remove_smallest_matching_suffix'):
        it = src.item(r'^pub\(crate\) fn %s<' % n, n).r1().r11()
        u.items.append(it)
        fns.append(it.text)
    ss = strings()

    def gen(workdir):
        d = os.path.join(workdir, 'kani_u9')
        os.makedirs(os.path.join(d, 'src'), exist_ok=True)
        os.makedirs(os.path.join(d, '.cargo'), exist_ok=True)
        body = PRELUDE + '\n// ---- extracted verbatim from brush-core/src/patterns.rs (attributes and doc comments dropped, visibility normalised)\n' + '\n\n'.join(fns) + '\n\n'
        for i, s in enumerate(ss):
            lit = ''.join('\\u{%x}' % ord(c) for c in s)
            body += '#[cfg(kani)]\n#[kani::proof]\n#[kani::unwind(16)]\nfn affix_%02d() { check_all("%s"); }\n' % (i, lit)
        open(os.path.join(d, 'src', 'lib.rs'), 'w').write(body)
        open(os.path.join(d, 'Cargo.toml'), 'w').write('[package]\nname = "vx_u9"\nversion = "0.0.0"\nedition = "2021"\n\n[lib]\npath = "src/lib.rs"\n\n[workspace]\n')
        open(os.path.join(d, '.cargo', 'config.toml'), 'w').write('[net]\noffline = true\n')
        return d

    tier = os.environ.get('VERIF_TIER_EFFECTIVE', 'quick')
    sel = [i for i, s in enumerate(ss) if tier == 'thorough' or len(s) <= 2]
    u.bounded.append({
        'name': 'affix-removal', 'build': gen, 'harnesses': ['affix_%02d' % i for i in sel], 'timeout': 240, 'workers': 10,
        'label': 'bounded', 'bound': 'subject strings: all %d strings of <= %d characters over {a, U+00E9, U+1F680} (1-, 2-, 4-byte) [quick: <= 2 chars, thorough: <= 3 chars]; match predicate: fully symbolic (64-bit table by candidate byte length); unwind 16 with unwinding assertions' % (len(sel), 3 if tier == 'thorough' else 2),
        'props': ['C06', 'C08'], 'quick': True,
    })
    # ---- second bounded job: Expansion::classify (set / unset / null), closures over iterators — not Verus material
    ex = u.source('brush-core/src/expansion.rs')
    cl_items = [ex.item(r'^enum ExpansionPiece ', 'ExpansionPiece').r1(plain=True),
                ex.item(r'^struct WordField\(', 'WordField').r1(plain=True),
                ex.item(r'^struct Expansion ', 'Expansion').r1(plain=True),
                ex.item(r'^enum ParameterState ', 'ParameterState').r1(plain=True)]
    # whole impl blocks, verbatim: a helper that classify calls (len, polymorphic_len, ..) runs as the real code
    cl_impls = [ex.item(r'^impl Expansion \{', 'impl Expansion').r1(),
                ex.item(r'^impl WordField \{', 'impl WordField').r1(),
                ex.item(r'^impl From<ExpansionPiece> for WordField ', 'From<ExpansionPiece> for WordField').r1(),
                ex.item(r'^impl From<String> for WordField ', 'From<String> for WordField').r1(),
                ex.item(r'^impl ExpansionPiece \{', 'impl ExpansionPiece').r1()]
    for it in cl_items + cl_impls:
        u.items.append(it)

    def gen_classify(workdir):
        d = os.path.join(workdir, 'kani_u9b')
        os.makedirs(os.path.join(d, 'src'), exist_ok=True)
        os.makedirs(os.path.join(d, '.cargo'), exist_ok=True)
        body = '#![allow(unused, dead_code)]\nuse std::cmp::min;\n// ---- extracted verbatim from brush-core/src/expansion.rs (types and whole impl blocks)\n' + '\n\n'.join(i.text for i in cl_items + cl_impls) + '\n'
        body += '''
// every expansion with <= 2 fields of <= 2 pieces each (shape concrete per harness; quoting, emptiness and flags symbolic)
fn any_piece() -> (ExpansionPiece, bool) {
    let nonempty: bool = kani::any();
    let s = if nonempty { String::from("x") } else { String::new() };
    if kani::any() { (ExpansionPiece::Splittable(s), nonempty) } else { (ExpansionPiece::Unsplittable(s), nonempty) }
}
fn check(fields: Vec<WordField>, some_nonempty: bool) {
    let undefined: bool = kani::any();
    let no_fields = fields.is_empty();
    // bash tests the JOINED value: two or more elements joined by a non-empty separator are non-null even when every element is
    // empty (a=("" ""); "${a[@]:-d}" is " ").  brush differs there: known finding C06:all-empty-list-counts-as-null, checked
    // by the harness classify_all_empty_two_fields below and excluded here.
    kani::assume(!(fields.len() >= 2 && !some_nonempty));
    let e = Expansion { fields, concatenate: kani::any(), from_array: kani::any(), undefined };
    // C06 set/unset/null: non-null iff SOME element has SOME non-empty piece (bash: "${a[@]:-d}" with a=("" x) is not null)
    let got = e.classify();
    assert!(matches!(got, ParameterState::NonZeroLength) == (!undefined && some_nonempty));
    assert!(matches!(got, ParameterState::Undefined) == (undefined || (!some_nonempty && no_fields)));
}
#[cfg(kani)]
#[kani::proof]
#[kani::unwind(4)]
fn classify_shape_0() {
    let mut ne = false;
    let mut fields = Vec::new();
    check(fields, ne);
}
#[cfg(kani)]
#[kani::proof]
#[kani::unwind(4)]
fn classify_shape_1() {
    let mut ne = false;
    let mut fields = Vec::new();
    { let mut v = Vec::new(); fields.push(WordField(v)); }
    check(fields, ne);
}
#[cfg(kani)]
#[kani::proof]
#[kani::unwind(4)]
fn classify_shape_2() {
    let mut ne = false;
    let mut fields = Vec::new();
    { let mut v = Vec::new(); { let (p, n) = any_piece(); ne |= n; v.push(p); } fields.push(WordField(v)); }
    check(fields, ne);
}
#[cfg(kani)]
#[kani::proof]
#[kani::unwind(4)]
fn classify_shape_3() {
    let mut ne = false;
    let mut fields = Vec::new();
    { let mut v = Vec::new(); { let (p, n) = any_piece(); ne |= n; v.push(p); } { let (p, n) = any_piece(); ne |= n; v.push(p); } fields.push(WordField(v)); }
    check(fields, ne);
}
#[cfg(kani)]
#[kani::proof]
#[kani::unwind(4)]
fn classify_shape_4() {
    let mut ne = false;
    let mut fields = Vec::new();
    { let mut v = Vec::new(); fields.push(WordField(v)); }
    { let mut v = Vec::new(); fields.push(WordField(v)); }
    check(fields, ne);
}
#[cfg(kani)]
#[kani::proof]
#[kani::unwind(4)]
fn classify_shape_5() {
    let mut ne = false;
    let mut fields = Vec::new();
    { let mut v = Vec::new(); fields.push(WordField(v)); }
    { let mut v = Vec::new(); { let (p, n) = any_piece(); ne |= n; v.push(p); } fields.push(WordField(v)); }
    check(fields, ne);
}
#[cfg(kani)]
#[kani::proof]
#[kani::unwind(4)]
fn classify_shape_6() {
    let mut ne = false;
    let mut fields = Vec::new();
    { let mut v = Vec::new(); fields.push(WordField(v)); }
    { let mut v = Vec::new(); { let (p, n) = any_piece(); ne |= n; v.push(p); } { let (p, n) = any_piece(); ne |= n; v.push(p); } fields.push(WordField(v)); }
    check(fields, ne);
}
#[cfg(kani)]
#[kani::proof]
#[kani::unwind(4)]
fn classify_shape_7() {
    let mut ne = false;
    let mut fields = Vec::new();
    { let mut v = Vec::new(); { let (p, n) = any_piece(); ne |= n; v.push(p); } fields.push(WordField(v)); }
    { let mut v = Vec::new(); fields.push(WordField(v)); }
    check(fields, ne);
}
#[cfg(kani)]
#[kani::proof]
#[kani::unwind(4)]
fn classify_shape_8() {
    let mut ne = false;
    let mut fields = Vec::new();
    { let mut v = Vec::new(); { let (p, n) = any_piece(); ne |= n; v.push(p); } fields.push(WordField(v)); }
    { let mut v = Vec::new(); { let (p, n) = any_piece(); ne |= n; v.push(p); } fields.push(WordField(v)); }
    check(fields, ne);
}
#[cfg(kani)]
#[kani::proof]
#[kani::unwind(4)]
fn classify_shape_9() {
    let mut ne = false;
    let mut fields = Vec::new();
    { let mut v = Vec::new(); { let (p, n) = any_piece(); ne |= n; v.push(p); } fields.push(WordField(v)); }
    { let mut v = Vec::new(); { let (p, n) = any_piece(); ne |= n; v.push(p); } { let (p, n) = any_piece(); ne |= n; v.push(p); } fields.push(WordField(v)); }
    check(fields, ne);
}
#[cfg(kani)]
#[kani::proof]
#[kani::unwind(4)]
fn classify_shape_10() {
    let mut ne = false;
    let mut fields = Vec::new();
    { let mut v = Vec::new(); { let (p, n) = any_piece(); ne |= n; v.push(p); } { let (p, n) = any_piece(); ne |= n; v.push(p); } fields.push(WordField(v)); }
    { let mut v = Vec::new(); fields.push(WordField(v)); }
    check(fields, ne);
}
#[cfg(kani)]
#[kani::proof]
#[kani::unwind(4)]
fn classify_shape_11() {
    let mut ne = false;
    let mut fields = Vec::new();
    { let mut v = Vec::new(); { let (p, n) = any_piece(); ne |= n; v.push(p); } { let (p, n) = any_piece(); ne |= n; v.push(p); } fields.push(WordField(v)); }
    { let mut v = Vec::new(); { let (p, n) = any_piece(); ne |= n; v.push(p); } fields.push(WordField(v)); }
    check(fields, ne);
}
#[cfg(kani)]
#[kani::proof]
#[kani::unwind(4)]
fn classify_shape_12() {
    let mut ne = false;
    let mut fields = Vec::new();
    { let mut v = Vec::new(); { let (p, n) = any_piece(); ne |= n; v.push(p); } { let (p, n) = any_piece(); ne |= n; v.push(p); } fields.push(WordField(v)); }
    { let mut v = Vec::new(); { let (p, n) = any_piece(); ne |= n; v.push(p); } { let (p, n) = any_piece(); ne |= n; v.push(p); } fields.push(WordField(v)); }
    check(fields, ne);
}
#[cfg(kani)]
#[kani::proof]
#[kani::unwind(4)]
fn classify_all_empty_two_fields() {
    let mut fields = Vec::new();
    { let mut v = Vec::new(); let s = String::new(); v.push(if kani::any() { ExpansionPiece::Splittable(s) } else { ExpansionPiece::Unsplittable(s) }); fields.push(WordField(v)); }
    { let mut v = Vec::new(); let s = String::new(); v.push(if kani::any() { ExpansionPiece::Splittable(s) } else { ExpansionPiece::Unsplittable(s) }); fields.push(WordField(v)); }
    let e = Expansion { fields, concatenate: kani::any(), from_array: kani::any(), undefined: false };
    // bash: "${a[@]:-d}" with a=("" "") is the joined value " " (IFS not empty), i.e. NOT null
    assert!(matches!(e.classify(), ParameterState::NonZeroLength));
}
'''
        open(os.path.join(d, 'src', 'lib.rs'), 'w').write(body)
        open(os.path.join(d, 'Cargo.toml'), 'w').write('[package]\nname = "vx_u9b"\nversion = "0.0.0"\nedition = "2021"\n\n[lib]\npath = "src/lib.rs"\n\n[workspace]\n')
        open(os.path.join(d, '.cargo', 'config.toml'), 'w').write('[net]\noffline = true\n')
        return d

    u.bounded.append({
        'name': 'classify-set-unset-null', 'build': gen_classify, 'harnesses': ['classify_shape_%d' % i for i in (range(13) if tier == 'thorough' else (0, 1, 2, 4, 5, 7, 8))], 'timeout': 300, 'workers': 13,
        'label': 'bounded', 'bound': 'all expansions with <= 2 fields of <= 2 pieces [quick: <= 1 piece per field] (one harness per shape), each piece quoted or unquoted, empty or one character; undefined / concatenate / from_array symbolic',
        'props': ['C06', 'C05'], 'quick': True,
    })
    u.bounded.append({
        'name': 'classify-all-empty-list', 'build': gen_classify, 'harnesses': ['classify_all_empty_two_fields'], 'timeout': 300, 'workers': 1,
        'label': 'bounded', 'bound': 'the two-element list of empty elements (quoting and flags symbolic)',
        'props': ['C06'], 'quick': True, 'kf': 'C06:all-empty-list-counts-as-null', 'expected_failures': ['classify_all_empty_two_fields'],
    })
    u.assume('stub', 'Pattern::to_regex / Regex::is_match are replaced by an arbitrary predicate on the candidate (so the result does not depend on regex semantics); BOUNDED in the subject string, complete in the predicate; not counted as proved')
    return u
