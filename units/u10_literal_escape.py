"""U10 literal-escape: quoted => Unsplittable => Literal => regex-escaped (expansion.rs, patterns.rs, regex.rs, pattern.rs)."""
from vx.unit import Unit
from vx.extract import C

PROPS = ['C04', 'C08', 'C01']
HEADER = 'use vstd::prelude::*;\nuse vstd::std_specs::iter::IteratorSpec;\nuse vstd::std_specs::convert::*;\nverus! {\n'
FOOTER = '\n} // verus!\nfn main() {}\n'


def build(repo, findings):
    u = Unit('U10', 'literal pieces stay literal: tagging, escaping, metacharacter tables', repo, ['C04', 'C08'], safety_props=['C01', 'C04'])
    ex = u.source('brush-core/src/expansion.rs')
    pt = u.source('brush-core/src/patterns.rs')
    rx = u.source('brush-core/src/regex.rs')
    pp = u.source('brush-parser/src/pattern.rs')
    u.raw(HEADER)
    u.prelude('patterns/tables.rs')
    u.prelude('patterns/regex_stub.rs')
    # --- regex.rs
    u.raw('pub mod regex {\nuse vstd::prelude::*;\nuse super::*;')
    u.add(rx.item(r'^pub\(crate\) enum RegexPiece ', 'RegexPiece').r1(keep_derive=()).r11())
    f = rx.item(r'^pub\(crate\) const fn regex_char_is_special\(', 'regex_char_is_special').r1().r11_pub()
    f.sig(ret='r', ensures=[C('C04,C08 regex-special-table', 'r == rx_special(c)')])
    u.add(f)
    # compile_regex: assumed contract, flag set read from the source text on every run
    import re as _re
    cr = rx.item(r'^pub\(crate\) fn compile_regex\(', 'compile_regex(text anchor)')
    m = _re.search(r'if multiline \{(?:[^{}]|\n)*?std::format!\("\(\?([a-zA-Z]*)\)\{regex_str\}"\)', cr.text)
    if not m:
        from vx.extract import ExtractError
        raise ExtractError('compile_regex: text anchor lost (flags literal under `if multiline`)')
    flags = m.group(1)
    u.notes.append('compile_regex multiline flags read from source: (?%s)' % flags)
    u.raw('''pub open spec fn flags_of(multiline: bool) -> Set<char> {
    // GENERATED from brush-core/src/regex.rs compile_regex: `if multiline { format!("(?%s){regex_str}") }`
    if multiline { Set::<char>::empty()%s } else { Set::<char>::empty() }
}
#[verifier::external_body]
pub fn compile_regex(regex_str: String, case_insensitive: bool, multiline: bool) -> (r: Result<fancy_regex::Regex, error::Error>)
    ensures r is Ok ==> r->Ok_0.text() == fix_brackets(regex_str@) && r->Ok_0.flags() == flags_of(multiline) && r->Ok_0.ci() == case_insensitive
{ unimplemented!() }
// C08: whatever `multiline` is, ^ and $ keep their whole-string meaning; and with multiline on, `.`/`*` span newlines
pub proof fn lemma_whole_string_anchoring(multiline: bool)
    ensures
        //@ regex.rs:compile_regex:flags | C08 anchors-are-whole-string (the m flag must never be set)
        !flags_of(multiline).contains('m'),
        //@ regex.rs:compile_regex:flags | C08 star-spans-newlines (the s flag is set for shell patterns)
        flags_of(true).contains('s'),
{}
''' % (flags, ''.join(".insert('%s')" % c for c in flags)))
    u.raw('}\n')
    # --- brush-parser pattern.rs
    f = pp.item(r'^pub const fn regex_char_needs_escaping\(', 'regex_char_needs_escaping').r1().r11()
    f.sig(ret='r', ensures=[C('C04,C08 translator-escape-table', 'r == tr_keeps_escape(c)')])
    u.add(f)
    # --- patterns.rs
    u.raw('pub mod patterns {\nuse vstd::prelude::*;\nuse vstd::std_specs::iter::IteratorSpec;\nuse super::*;')
    u.add(pt.item(r'^pub\(crate\) enum PatternPiece ', 'PatternPiece').r1(keep_derive=()).r11())
    u.add(pt.item(r'^type PatternWord = ', 'PatternWord').r1().r11_pub())
    u.add(pt.item(r'^pub struct Pattern ', 'Pattern').r1(keep_derive=()).r11().pub_fields())
    u.raw('''#[verifier::external_body]
fn pattern_to_regex_str(pattern: &str, enable_extended_globbing: bool) -> (r: Result<String, error::Error>)
    ensures match r { Ok(s) => translate_spec(pattern@, enable_extended_globbing) == Ok::<Seq<char>, error::Error>(s@), Err(e) => translate_spec(pattern@, enable_extended_globbing) == Err::<Seq<char>, error::Error>(e) }
{ unimplemented!() }
// sibling helper of patterns.rs (delegates to the PEG grammar): abstract
pub uninterp spec fn requires_expansion_spec(s: Seq<char>, ext: bool) -> bool;
pub open spec fn raw_piece_text(p: PatternPiece) -> Seq<char> { match p { PatternPiece::Pattern(s) => s@, PatternPiece::Literal(s) => s@ } }
#[verifier::external_body]
fn requires_expansion(s: &str, enable_extended_globbing: bool) -> (r: bool) ensures r == requires_expansion_spec(s@, enable_extended_globbing) { unimplemented!() }
''')
    u.raw('''// the From impls below carry their contracts as plain `ensures`; no from_spec is claimed for them
impl vstd::std_specs::convert::FromSpecImpl<PatternWord> for Pattern { open spec fn obeys_from_spec() -> bool { false } open spec fn from_spec(p: PatternWord) -> Self { arbitrary() } }
impl<'a> vstd::std_specs::convert::FromSpecImpl<&'a PatternWord> for Pattern { open spec fn obeys_from_spec() -> bool { false } open spec fn from_spec(p: &'a PatternWord) -> Self { arbitrary() } }
impl<'a> vstd::std_specs::convert::FromSpecImpl<&'a str> for Pattern { open spec fn obeys_from_spec() -> bool { false } open spec fn from_spec(p: &'a str) -> Self { arbitrary() } }
impl vstd::std_specs::convert::FromSpecImpl<String> for Pattern { open spec fn obeys_from_spec() -> bool { false } open spec fn from_spec(p: String) -> Self { arbitrary() } }
''')
    u.raw('''// R14: Vec<PatternPiece>::clone (derived Clone of the elements): an equal vector
#[verifier::external_body]
pub fn vx_clone_pieces(v: &PatternWord) -> (r: PatternWord) ensures r@ == v@ { unimplemented!() }
''')
    # constructors: every way of making a Pattern starts from the defaults — `*` spans newlines (multiline), no extglob, case-sensitive
    dflt = pt.item(r'^impl Default for Pattern ', 'impl Default for Pattern').r1()
    dflt.sig('default', ret='r', ensures=[C('C08 a-new-pattern-lets-star-span-newlines-and-has-no-options-set', 'r.multiline && !r.enable_extended_globbing && !r.case_insensitive && r.pieces@.len() == 0')], no_canary=True)
    u.add(dflt)
    for hdr, nm in [(r'^impl From<PatternWord> for Pattern ', 'From<PatternWord> for Pattern'), (r'^impl From<&PatternWord> for Pattern ', 'From<&PatternWord> for Pattern'),
                    (r'^impl From<&str> for Pattern ', 'From<&str> for Pattern'), (r'^impl From<String> for Pattern ', 'From<String> for Pattern')]:
        it = pt.item(hdr, nm).r1()
        it.resub(r'\bvalue\.clone\(\)', 'vx_clone_pieces(value)', 'R14', 'Vec<PatternPiece>::clone -> stub (an equal vector)', count=None)
        it.resub(r'\.\.Default::default\(\)', '..Self::default()', 'R5', '`Default::default()` in a struct update of Self is `Self::default()` (the impl above)', count=None)
        it.sig('from', ret='r', ensures=[C('C08 every-constructor-keeps-the-defaults-star-spans-newlines', 'r.multiline && !r.enable_extended_globbing && !r.case_insensitive')], no_canary=True)
        u.add(it)
    g = pt.method_anywhere('to_regex_str').r1().r11()
    g.r13('to_regex_str', 0)
    fn = 'to_regex_str'
    g.sig(fn, ret='res', ensures=[
        C('C04,C08 translator-input-and-anchors', '''match res {
    Ok(r) => translate_spec(pieces_text(self.pieces@), self.enable_extended_globbing) is Ok
        && r@ == (if strict_prefix_match { seq!['^'] } else { Seq::<char>::empty() })
                + translate_spec(pieces_text(self.pieces@), self.enable_extended_globbing)->Ok_0
                + (if strict_suffix_match { seq!['$'] } else { Seq::<char>::empty() }),
    Err(_) => translate_spec(pieces_text(self.pieces@), self.enable_extended_globbing) is Err,
}''')])
    # the loop over pieces is put in its language-defined loop/next form (R13) so that a `continue` in it stays within Verus's subset
    g2 = None
    g.loop(0, fn_name=fn, ensures=[
        C('C04 all-pieces-escaped', 'current_pattern@ == pieces_text(self.pieces@.take(self.pieces@.len() as int))'),
    ], invariant_except_break=[
        C('aux', '0 <= gi && gi + __it.remaining().len() == self.pieces@.len()'),
        C('aux', 'forall|i: int| 0 <= i < __it.remaining().len() ==> *(#[trigger] __it.remaining()[i]) == self.pieces@[gi + i]'),
        C('aux', '__it.obeys_prophetic_iter_laws()'),
        C('C04 literal-pieces-escaped', 'current_pattern@ == pieces_text(self.pieces@.take(gi))'),
    ], decreases='self.pieces@.len() - gi', body_first='let ghost r0 = __it.remaining();\nlet ghost n = gi;',
       body_last='''proof {
    let hn = self.pieces@.take(n + 1);
    assert(hn.drop_last() =~= self.pieces@.take(n));
    assert(hn.last() == *piece);
    assert(current_pattern@ =~= pieces_text(hn));
}''')
    g.before(r'^\s*let mut __it = ', 'let ghost mut gi: int = 0;\nproof { assert(self.pieces@.take(0) =~= Seq::<PatternPiece>::empty()); }', fn_name=fn)
    g.after_line(r'^\s*None => break,\n\s*\};', 'proof { assert(r0.len() > 0); assert(*piece == *r0[0]); assert(__it.remaining() =~= r0.skip(1)); assert(*piece == self.pieces@[n]); gi = gi + 1; }\nlet ghost cp0 = current_pattern@;', fn_name=fn)
    g.loop(1, fn_name=fn, iter_name='it2', invariant=[
        C('C04 literal-chars-escaped', 'current_pattern@ == cp0 + esc(it2.history@)'),
        C('aux', 'it2.history@ + it2.iter.remaining() == s@'),
    ], body_first='let ghost h2 = it2.history@;\nproof { assert(h2.push(c).drop_last() =~= h2); }')
    g.after_line(r'^\s*current_pattern\.push\(c\);', 'proof { assert(current_pattern@ =~= cp0 + esc(h2.push(c))); }', fn_name=fn, optional=True)
    # end of the outer loop body: the match statement's closing brace is followed by the loop's; use the statement after the loop
    g.before(r'^\s*let regex_piece =', 'proof { assert(self.pieces@.take(self.pieces@.len() as int) =~= self.pieces@); }\nlet ghost pre = regex_str@;', fn_name=fn)
    g.before(r'^\s*Ok\(regex_str\)$', "proof { assert(regex_str@ =~= pre + regex_piece@ + (if strict_suffix_match { seq!['$'] } else { Seq::<char>::empty() })); }", fn_name=fn)
    u.raw('impl Pattern {')
    u.add(g)
    # the three `mut self` builder setters are not taken by Verus ("mut self" unsupported) — NOT verified
    tr = pt.method_anywhere('to_regex').r1().r2().r11()
    T = 'translate_spec(pieces_text(self.pieces@), self.enable_extended_globbing)'
    TXT = "(if strict_prefix_match { seq!['^'] } else { Seq::<char>::empty() }) + %s->Ok_0 + (if strict_suffix_match { seq!['$'] } else { Seq::<char>::empty() })" % T
    tr.sig('to_regex', ret='res', ensures=[
        C('C08 regex-text-and-flags', 'res is Ok ==> %s is Ok && res->Ok_0.text() == fix_brackets(%s) && res->Ok_0.flags() == regex::flags_of(self.multiline) && res->Ok_0.ci() == self.case_insensitive' % (T, TXT))])
    u.add(tr)
    em = pt.method_anywhere('exactly_matches').r1().r11()
    em.sig('exactly_matches', ret='res', ensures=[
        C('C08 exact-match-is-anchored-both-ends', '''res is Ok ==> %s is Ok
    && match_sem(fix_brackets(seq!['^'] + %s->Ok_0 + seq!['$']), regex::flags_of(self.multiline), self.case_insensitive, value@) == Some(res->Ok_0)''' % (T, T))])
    u.add(em)
    u.raw('}\n')
    # --- the glob-or-not decision of Pattern::expand: the predicate handed to `iter().any(..)` at its two sites (R6 block slices of the
    #     closure bodies).  Only an UNQUOTED piece can ask for pathname expansion.
    ip = pt.item(r'^impl PatternPiece ', 'impl PatternPiece').r1().r11()
    ip.sig('as_str', ret='r', ensures=[C('aux piece-string', 'r@ == raw_piece_text(*self)')])
    u.add(ip)
    for k, (open_re, nm) in enumerate([(r'^\s*\} else if !self\.pieces\.iter\(\)\.any\(\|piece\| \{$', 'whole_word_glob_predicate'),
                                      (r'^\s*if !component\.iter\(\)\.any\(\|piece\| \{$', 'component_glob_predicate')]):
        d = pt.block_slice(open_re, 'fn %s(self_: &Pattern, piece: &PatternPiece) -> bool' % nm, nm, within_fn='expand')
        d.r1().resub(r'\bself\.', 'self_.', 'R6', 'slice wrapper: self -> self_', count=None)
        d.sig(nm, ret='r', ensures=[
            C('C04,C05,C08 only-an-unquoted-piece-can-ask-for-pathname-expansion', 'r == (*piece is Pattern && requires_expansion_spec(raw_piece_text(*piece), self_.enable_extended_globbing))')])
        u.add(d)
    u.raw('}\n')
    # --- expansion.rs
    u.add(ex.item(r'^enum ExpansionPiece ', 'ExpansionPiece').r1(keep_derive=()).r11())
    u.prelude('patterns/text_spec.rs')
    for hdr, nm in [(r'^impl From<ExpansionPiece> for patterns::PatternPiece ', 'From<ExpansionPiece> for PatternPiece'),
                    (r'^impl From<ExpansionPiece> for crate::regex::RegexPiece ', 'From<ExpansionPiece> for RegexPiece'),
                    (r'^impl From<ExpansionPiece> for String ', 'From<ExpansionPiece> for String')]:
        it = ex.item(hdr, nm).r1()
        it.default_label = 'C04 tag-decides-literal'
        it.table.append((nm + ':from:ensures#0', 'C04 tag-decides-literal', 'ensures', 'from'))
        u.add(it)
    im = ex.item(r'^impl ExpansionPiece ', 'impl ExpansionPiece').r1().r11()
    im.keep_only_fns(['as_str', 'make_unsplittable'], 'other helpers not needed by the chain')
    im.sig('as_str', ret='r', ensures=[C('C04 piece-string', 'r@ == piece_str(*self)@')])
    im.sig('make_unsplittable', ret='r', ensures=[C('C04 quoting-keeps-string', 'r == ExpansionPiece::Unsplittable(piece_str(self))')])
    u.add(im)
    u.raw(FOOTER)
    u.assume('external_body', 'pattern_to_regex_str (the peg::parser! glob-to-regex translator) is a stub: an uninterpreted function translate_spec of its input; error::Error opaque')
    u.assume('uninterp', 'translate_spec, match_sem, fix_brackets, Regex::text/flags/ci')
    u.assume('external_body', 'compile_regex is a stub whose contract (text unchanged up to bracket escaping; inline flags = the literal found in the source under `if multiline`) is ASSUMED and tied to the source by a text anchor; fancy_regex::Regex::is_match is the uninterpreted match_sem')
    u.assume('model', 'regex-dialect semantics: ^/$ anchor at text boundaries iff m is not set, `.` matches newline iff s is set (documented behaviour of regex-syntax / fancy_regex)')
    u.assume('stub', 'that the translator implements its escape_sequence / pattern_piece rules as written (macro-generated code) and fancy_regex semantics are assumed; process_double_quoted_pieces, coalesce_expansions, "$@" structure are NOT verified')
    u.expected_min_fns = 9
    return u
