"""U20d: highlight_program / highlight_word_piece (brush-interactive/src/highlighting.rs), alignment only: every offset handed to
append_span / skip_ahead is a character boundary of the input line.  The span builder is stubbed with exactly that requirement (order
and coverage: U20c; the builder itself: U20).  Same extraction and rewrites as U20c."""
from vx.unit import Unit
from vx.extract import C

PROPS = ['C19']
HEADER = 'use vstd::prelude::*;\nuse vstd::std_specs::iter::IteratorSpec;\nverus! {\n'
FOOTER = '\n} // verus!\nfn main() {}\n'
T0 = T1 = TI = 'true'
IN = 'self.input_line@'


def build(repo, findings):
    u = Unit('U20d', 'highlighter callers: every offset handed to the span builder is a character boundary of the line', repo, ['C19'], safety_props=['C19'])
    src = u.source('brush-interactive/src/highlighting.rs')
    wsrc = u.source('brush-parser/src/word.rs')
    u.raw(HEADER)
    u.prelude('std/utf8.rs')
    u.add(src.item(r'^pub enum HighlightKind ', 'HighlightKind').r1())
    u.add(src.item(r'^pub struct HighlightSpan ', 'HighlightSpan').r1(keep_derive=()))
    hs = src.item(r'^impl HighlightSpan ', 'impl HighlightSpan').r1().r11()
    hs.sig('new', ret='r', ensures=[C('C19 span-new', 'r.range == range && r.kind == kind')])
    u.add(hs)
    u.add(wsrc.item(r'^pub struct WordPieceWithSource ', 'WordPieceWithSource').r1(keep_derive=()))
    u.add(wsrc.item(r'^pub enum WordPiece ', 'WordPiece').r1(keep_derive=()))
    u.raw('''pub uninterp spec fn range_is_empty_spec<Idx>(r: std::ops::Range<Idx>) -> bool;
pub assume_specification<Idx> [std::ops::Range::<Idx>::is_empty] (r: &std::ops::Range<Idx>) -> (e: bool)
    where Idx: std::cmp::PartialOrd + std::cmp::PartialOrd,
    ensures e == range_is_empty_spec(*r);
pub broadcast axiom fn axiom_range_is_empty_usize(r: std::ops::Range<usize>)
    ensures #[trigger] range_is_empty_spec(r) == !(r.start < r.end);
pub assume_specification<Idx: Clone> [<std::ops::Range<Idx> as Clone>::clone] (r: &std::ops::Range<Idx>) -> (c: std::ops::Range<Idx>)
    ensures c == *r;
''')
    u.prelude('spans/align_spec.rs')
    st = src.item(r'^struct Highlighter<', 'Highlighter').r1()
    st.replace("<'a, SE: brush_core::ShellExtensions>", "<'a>", 'R4', 'extension generic erased')
    st.replace('brush_core::Shell<SE>', 'Shell', 'R4', 'Shell<SE> -> context stub')
    st.r11().pub_fields()
    u.add(st)
    u.raw("""impl<'a> Highlighter<'a> {
    // classification of a word (command lookup, keywords): an arbitrary kind; reads the shell only
    #[verifier::external_body]
    fn get_kind_for_word(&self, w: &str, token_range: &std::ops::Range<usize>, saw_command_token: &mut bool) -> HighlightKind { unimplemented!() }
    // the span builder: every offset it is given must be a character boundary of the line (debug builds assert it in append_span)
    #[verifier::external_body]
    fn append_span(&mut self, kind: HighlightKind, range: std::ops::Range<usize>)
        requires boundary(old(self).input_line@, range.start as int), boundary(old(self).input_line@, range.end as int)
        ensures final(self).input_line == old(self).input_line
    { unimplemented!() }
    #[verifier::external_body]
    fn skip_ahead(&mut self, dest: usize)
        requires boundary(old(self).input_line@, dest as int)
        ensures final(self).input_line == old(self).input_line
    { unimplemented!() }
    #[verifier::external_body]
    fn set_next_missing_kind(&mut self, kind: HighlightKind) ensures final(self).input_line == old(self).input_line { unimplemented!() }
}
""")
    im = src.item(r"^impl<'a, SE: brush_core::ShellExtensions> Highlighter<'a, SE> ", 'impl Highlighter').r1()
    im.replace("impl<'a, SE: brush_core::ShellExtensions> Highlighter<'a, SE>", "impl<'a> Highlighter<'a>", 'R4', 'extension generic erased')
    im.replace('brush_core::Shell<SE>', 'Shell', 'R4', 'Shell<SE> -> context stub')
    im.keep_only_fns(['highlight_program', 'highlight_word_piece'],
                     'the span builder (append_span, skip_ahead, set_next_missing_kind: units U20 / U20c) and get_kind_for_word are stubs here')
    im.resub(r'^[ \t]*debug_assert!\((?:[^;]|\n)*?\);\n', '', 'R2', 'debug_assert! dropped: release-build semantics (the debug build is the subject of unit U20)', count=None)
    # highlight_program: the char-index -> byte-offset table and its closure
    im.resub(r'let char_byte_offsets: Vec<usize> = line\s*\.char_indices\(\).*?\.collect\(\);', 'let char_byte_offsets = char_byte_offsets_of(line);', 'R14', 'iterator chain building the char->byte offset table -> stub', flags=16)
    im.resub(r'[ \t]*let byte_offset = \|char_offset: usize\| \{.*?\n[ \t]*\};\n', '', 'R14', 'lookup closure over the table -> named stub byte_offset_of (calls rewritten)', flags=16)
    im.resub(r'\bbyte_offset\(([^()]*(?:\([^()]*\))?[^()]*)\)', r'byte_offset_of(&char_byte_offsets, \1)', 'R14', 'closure call -> stub call', count=None)
    im.resub(r'\bline\s*\.get\((\w+)\.\.(\w+)\)\s*\.unwrap_or\(""\)', r'str_get_or_empty(line, \1, \2)', 'R19', 'str::get(range).unwrap_or("") -> stub', count=None)
    im.resub(r'str_get_or_empty\(line, (\w+), (\w+)\)\s*\.trim(?:_start|_end)?(?:_matches)?\((?:[^()]|\([^()]*\))*\)', r'str_some_trimmed(str_get_or_empty(line, \1, \2))', 'R14', 'a trim of the raw slice -> stub (some sub-slice of it)', count=None)
    im.resub(r'tokens\.sort_by_key\(\|token\| token\.location\(\)\.start\.index\);', 'sort_tokens_by_start(&mut tokens);', 'R14', 'slice::sort_by_key with a key closure -> stub (stable permutation sorted by start offset)', count=None)
    im.resub(r'input_line\s*\.get\(((?:(?!\.\.)[^\n])+?)\.\.((?:(?!\.\.)[^\n])+?)\)\s*\.unwrap_or\(command\.as_str\(\)\)', r'str_get_or(input_line, \1, \2, command.as_str())', 'R19', 'str::get(range).unwrap_or(fallback) -> stub (None unless both ends are character boundaries within the text)', count=None)
    im.resub(r'str_get_or\(input_line, ([^,]+), (\w+(?:\.\w+)*)\.saturating_sub\(1\), command', r'str_get_or(input_line, \1, if \2 >= 1 { \2 - 1 } else { 0 }, command', 'R19', 'usize::saturating_sub(1) spelled out', count=None)
    im.resub(r'\bline\.len\(\)', 'str_len(line)', 'R19', 'str::len -> str_len stub (byte length)', count=None)
    # R24: by-value traversal of the token / piece trees -> by reference (ownership is not observable in the spans)
    im.resub(r'for token in tokens \{', 'for token in tokens.iter() {', 'R24', 'consuming iteration -> by reference', count=None)
    im.resub(r'for word_piece in word_pieces \{', 'for word_piece in word_pieces.iter() {', 'R24', 'consuming iteration -> by reference', count=None)
    im.resub(r'word_piece: brush_parser::word::WordPieceWithSource,', 'word_piece: &brush_parser::word::WordPieceWithSource,', 'R24', 'by-value parameter -> reference', count=None)
    im.resub(r'match word_piece\.piece \{', 'match &word_piece.piece {', 'R24', 'match on the owned field -> on a reference to it', count=None)
    im.r11()
    SL = 'is_slice(%s, global_offset as int, line@)'
    im.sig('highlight_program', attrs=['#[verifier::exec_allows_no_decreases_clause]'], requires=[
        C('C19 the-text-is-the-part-of-the-input-line-at-the-offset-given', 'is_slice(old(self).input_line@, global_offset as int, line@)'),
    ], ensures=[C('aux frame', 'final(self).input_line == old(self).input_line')])
    im.sig('highlight_word_piece', attrs=['#[verifier::exec_allows_no_decreases_clause]'], requires=[
        C('C19 the-piece-is-aligned-in-a-text-that-is-part-of-the-input-line', 'exists|text: Seq<char>| is_slice(old(self).input_line@, global_offset as int, text) && piece_al(*word_piece, text)'),
    ], ensures=[C('aux frame', 'final(self).input_line == old(self).input_line')])
    fn = 'highlight_program'
    im.at_body_start(fn, 'proof { axiom_str_fits_usize(self.input_line); lemma_slice_fits(self.input_line@, global_offset as int, line@); lemma_whole_is_slice(line@); lemma_boundary_lifts(self.input_line@, global_offset as int, line@, 0); lemma_boundary_lifts(self.input_line@, global_offset as int, line@, byte_len(line@)); }')
    im.loop(0, fn_name=fn, iter_name='it', invariant=[
        C('aux', 'self.input_line == old(self).input_line && char_byte_offsets.text() == line@'),
        C('aux', 'is_slice(self.input_line@, global_offset as int, line@) && global_offset + byte_len(line@) <= isize::MAX'),
    ], body_first='''proof {
    let sp = token_span(*token);
    lemma_table_entries_are_boundaries(line@, sp.start.index as int);
    lemma_table_entries_are_boundaries(line@, sp.end.index as int);
    lemma_boundary_lifts(self.input_line@, global_offset as int, line@, byte_offset_spec(line@, sp.start.index as int));
    lemma_boundary_lifts(self.input_line@, global_offset as int, line@, byte_offset_spec(line@, sp.end.index as int));
    lemma_boundary_within(line@, byte_offset_spec(line@, sp.start.index as int));
    lemma_boundary_within(line@, byte_offset_spec(line@, sp.end.index as int));
}''')
    im.loop(1, fn_name=fn, iter_name='itp', invariant=[
        C('aux', 'self.input_line == old(self).input_line'),
        C('aux', 'forall|i: int| 0 <= i < word_pieces@.len() ==> piece_al(#[trigger] word_pieces@[i], raw_word_text@)'),
        C('aux', 'itp.index@ + itp.iter.remaining().len() == word_pieces@.len()'),
        C('aux', 'forall|k: int| 0 <= k < itp.iter.remaining().len() ==> *(#[trigger] itp.iter.remaining()[k]) == word_pieces@[itp.index@ + k]'),
        C('C19 the-word-text-is-the-part-of-the-input-line-at-the-start-of-the-token', 'is_slice(self.input_line@, token_range.start as int, raw_word_text@)'),
    ], body_first='proof { assert(*word_piece == word_pieces@[itp.index@ as int]); assert(piece_al(word_pieces@[itp.index@ as int], raw_word_text@)); }')
    im.before(r'^\s*if let Ok\(word_pieces\) =', '''proof {
    if start_byte <= end_byte {
        lemma_slice_of_slice(self.input_line@, global_offset as int, line@, start_byte as int, raw_word_text@);
    } else {
        lemma_empty_is_slice(self.input_line@, (global_offset + start_byte) as int, raw_word_text@);
    }
}''', fn_name=fn)
    fn = 'highlight_word_piece'
    im.at_body_start(fn, '''let ghost text = choose|text: Seq<char>| is_slice(self.input_line@, global_offset as int, text) && piece_al(*word_piece, text);
proof {
    axiom_str_fits_usize(self.input_line);
    lemma_slice_fits(self.input_line@, global_offset as int, text);
    lemma_boundary_within(text, word_piece.start_index as int);
    lemma_boundary_within(text, word_piece.end_index as int);
    lemma_boundary_lifts(self.input_line@, global_offset as int, text, word_piece.start_index as int);
    lemma_boundary_lifts(self.input_line@, global_offset as int, text, word_piece.end_index as int);
}''')
    im.loop(0, fn_name=fn, iter_name='its', invariant=[
        C('aux', 'self.input_line == old(self).input_line'),
        C('aux', 'is_slice(self.input_line@, global_offset as int, text)'),
        C('aux', 'forall|i: int| 0 <= i < subpieces@.len() ==> piece_al(#[trigger] subpieces@[i], text)'),
        C('aux', 'its.index@ + its.iter.remaining().len() == subpieces@.len()'),
        C('aux', 'forall|k: int| 0 <= k < its.iter.remaining().len() ==> *(#[trigger] its.iter.remaining()[k]) == subpieces@[its.index@ + k]'),
    ], body_first='proof { assert(*subpiece == subpieces@[its.index@ as int]); assert(piece_al(subpieces@[its.index@ as int], text)); }')
    im.before(r'^\s*self\.highlight_program\(', '''proof {
    if word_piece.piece is CommandSubstitution {
        lemma_slice_of_slice(self.input_line@, global_offset as int, text, word_piece.start_index + 2, word_piece.piece->CommandSubstitution_0@);
    }
    if word_piece.piece is BackquotedCommandSubstitution {
        lemma_boundary_lifts(self.input_line@, global_offset as int, text, word_piece.start_index + 1);
        lemma_boundary_lifts(self.input_line@, global_offset as int, text, word_piece.end_index - 1);
    }
}''', fn_name=fn, nth=None, optional=True)
    u.add(im)
    u.raw(FOOTER)
    u.assume('external_body', 'the span builder (append_span / skip_ahead REQUIRE boundary offsets; set_next_missing_kind), get_kind_for_word, brush_parser::tokenize_str_with_options (nothing assumed), brush_parser::word::parse (pieces ASSUMED aligned: piece_al), the offset table and str::get stubs')
    u.assume('assume_specification', 'Range::<usize>::is_empty, Range::clone; String::len is the length in bytes')
    u.assume('axiom', 'meaning of Range::is_empty at usize; a string has at most isize::MAX bytes')
    u.assume('uninterp', 'range_is_empty_spec, CharByteOffsets::text')
    u.assume('exec_allows_no_decreases_clause', 'termination of highlight_program / highlight_word_piece is not checked in this unit: it is proved in U20c (same extraction)')
    u.assume('stub', 'termination of the two mutually recursive functions is proved in U20c, not here (exec_allows_no_decreases_clause); that the word parser\'s piece offsets are character boundaries with one-byte delimiters is ASSUMED (piece_al)')
    u.expected_min_fns = 2
    u.rlimit = 60
    return u
