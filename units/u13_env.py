"""U13 env-scopes: scope stack discipline and dynamic lookup (brush-core/src/env.rs)."""
from vx.unit import Unit
from vx.extract import C

PROPS = ['C09', 'C18', 'C01']
HEADER = 'use vstd::prelude::*;\nuse vstd::std_specs::iter::IteratorSpec;\nuse vstd::std_specs::convert::*;\nverus! {\n'
FOOTER = '\n} // verus!\nfn main() {}\n'


def build(repo, findings):
    u = Unit('U13', 'environment scope stack: push/pop, dynamic lookup, readonly unset', repo, ['C09', 'C18'], safety_props=['C01', 'C09'])
    src = u.source('brush-core/src/env.rs')
    er = u.source('brush-core/src/error.rs')
    for v in ('UnexpectedScopeType', 'MissingScope', 'MissingScopeForNewVariable', 'ReadonlyVariable'):
        er.require_text(r'\b%s\b' % v, 'projected variant ErrorKind::' + v)
    u.raw(HEADER)
    u.add(src.item(r'^pub enum EnvironmentLookup ', 'EnvironmentLookup').r1())
    u.add(src.item(r'^pub enum EnvironmentScope ', 'EnvironmentScope').r1())
    u.prelude('env/spec.rs')
    u.add(src.item(r'^pub struct ShellEnvironment ', 'ShellEnvironment').r1(keep_derive=()).r11().pub_fields())
    im = src.item(r'^impl ShellEnvironment ', 'impl ShellEnvironment').r1()
    im.keep_only_fns(['new', 'push_scope', 'pop_scope', 'get', 'try_unset_in_map'],
                     'iter_mut().rev() mutable iteration (add, unset, get_mut*), HashMap::entry / filter closures (iter*), Cow (get_str), assign paths (update_or_add*) — NOT verified')
    im.replace('pub fn get<S: AsRef<str>>(&self, name: S)', 'pub fn get(&self, name: &str)', 'R10', 'generic S: AsRef<str> instantiated at &str')
    im.replace('map.get(name.as_ref())', 'map.get(name)', 'R10', '.as_ref() on &str is the identity')
    im.r11()
    im.sig('new', ret='r', ensures=[
        C('C09 global-scope-at-bottom', 'r.scopes@.len() == 1 && r.scopes@[0].0 is Global && r.scopes@[0].1@ == Map::<Seq<char>, ShellVariable>::empty()')])
    im.sig('push_scope', ensures=[
        C('C09,C18 push-adds-one-empty-scope', 'final(self).scopes@.len() == old(self).scopes@.len() + 1 && final(self).scopes@.drop_last() == old(self).scopes@'),
        C('C09 pushed-scope-kind-and-empty', 'final(self).scopes@.last().0 == scope_type && final(self).scopes@.last().1@ == Map::<Seq<char>, ShellVariable>::empty()'),
        C('aux frame', 'final(self).entry_count == old(self).entry_count && final(self).export_variables_on_modification == old(self).export_variables_on_modification')])
    im.sig('pop_scope', ret='r', ensures=[
        C('C09,C18 pop-removes-exactly-the-top', 'old(self).scopes@.len() > 0 ==> final(self).scopes@ == old(self).scopes@.drop_last()'),
        C('C18 pop-on-empty-is-error', 'old(self).scopes@.len() == 0 ==> final(self).scopes@ == old(self).scopes@ && r is Err'),
        C('C09 pop-ok-iff-kind-matches', 'r is Ok <==> (old(self).scopes@.len() > 0 && old(self).scopes@.last().0 == expected_scope_type)')])
    im.sig('get', ret='r', ensures=[
        C('C09 lookup-none-iff-nowhere', 'r is None <==> (forall|k: int| 0 <= k < self.scopes@.len() ==> !holds(self.scopes@, k, name@))'),
        C('C09 lookup-innermost-first', '''r is Some ==> exists|k: int| 0 <= k < self.scopes@.len()
    && #[trigger] holds(self.scopes@, k, name@)
    && (forall|j: int| k < j < self.scopes@.len() ==> !holds(self.scopes@, j, name@))
    && r->Some_0.0 == self.scopes@[k].0 && *r->Some_0.1 == self.scopes@[k].1@[name@]''')])
    im.loop(0, fn_name='get', iter_name='it', invariant=[
        C('aux', 'it.history@.len() + it.iter.remaining().len() == self.scopes@.len()'),
        C('aux', 'forall|i: int| 0 <= i < it.iter.remaining().len() ==> *(#[trigger] it.iter.remaining()[i]) == self.scopes@[self.scopes@.len() - 1 - it.history@.len() - i]'),
        C('C09 all-inner-scopes-miss', 'forall|j: int| self.scopes@.len() - it.history@.len() <= j < self.scopes@.len() ==> !holds(self.scopes@, j, name@)'),
    ], body_first='proof { assert(holds(self.scopes@, self.scopes@.len() - 1 - it.history@.len(), name@) == map@.contains_key(name@)); }')
    im.sig('try_unset_in_map', ret='r', ensures=[
        C('C09 readonly-not-removed', '(old(map)@.contains_key(name@) && old(map)@[name@].readonly()) ==> r is Err && final(map)@ == old(map)@'),
        C('C09 unset-removes-only-that-name', '(old(map)@.contains_key(name@) && !old(map)@[name@].readonly()) ==> r == Ok::<Option<ShellVariable>, error::Error>(Some(old(map)@[name@])) && final(map)@ == old(map)@.remove(name@)'),
        C('C09 unset-missing-is-noop', '!old(map)@.contains_key(name@) ==> r == Ok::<Option<ShellVariable>, error::Error>(None) && final(map)@ == old(map)@')])
    im.closure(r'\|v\| v\.is_readonly\(\)', '&ShellVariable', 'r: bool', 'r == v.readonly()', fn_name='try_unset_in_map')
    u.add(im)
    u.raw(FOOTER)
    u.assume('external_body', 'ShellVariableMap is opaque with ASSUMED map contracts on get / unset / default (one-line HashMap delegations); ShellVariable is opaque except is_readonly')
    u.assume('uninterp', 'ShellVariableMap::view, ShellVariable::readonly')
    u.assume('stub', 'ShellEnvironment::add / unset / get_mut* / update_or_add* (iter_mut().rev(), closures) and the value writers ShellVariable::assign / assign_at_index / unset_index are NOT verified: the readonly clause for value writers is out of reach (DESIGN.md C09)')
    u.expected_min_fns = 8
    return u
