"""U13 env-scopes: scope stack discipline and dynamic lookup (brush-core/src/env.rs)."""
from vx.unit import Unit
from vx.extract import C

PROPS = ['C09', 'C18', 'C01']
HEADER = 'use vstd::prelude::*;\nuse vstd::std_specs::iter::IteratorSpec;\nuse vstd::std_specs::convert::*;\nverus! {\n'
FOOTER = '\n} // verus!\nfn main() {}\n'


def build(repo, findings):
    u = Unit('U13', 'environment scope stack: push/pop, dynamic lookup, readonly unset', repo, ['C09', 'C18'], safety_props=['C01', 'C09'])
    src = u.source('brush-core/src/env.rs')
    er = u.source('brush-core/src/error.rs')
    for v in ('UnexpectedScopeType', 'MissingScope', 'MissingScopeForNewVariable', 'ReadonlyVariable'):
        er.require_text(r'\b%s\b' % v, 'projected variant ErrorKind::' + v)
    u.raw(HEADER)
    u.add(src.item(r'^pub enum EnvironmentLookup ', 'EnvironmentLookup').r1())
    u.add(src.item(r'^pub enum EnvironmentScope ', 'EnvironmentScope').r1())
    u.prelude('env/spec.rs')
    u.add(src.item(r'^pub struct ShellEnvironment ', 'ShellEnvironment').r1(keep_derive=()).r11().pub_fields())
    im = src.item(r'^impl ShellEnvironment ', 'impl ShellEnvironment').r1()
    im.keep_only_fns(['new', 'push_scope', 'pop_scope', 'get', 'unset', 'try_unset_in_map', 'add'],
                     'iter_mut().rev() mutable iteration returning references (get_mut*), HashMap::entry / filter closures (iter*), Cow (get_str), assign paths (update_or_add*) — NOT verified')
    im.replace('pub fn get<S: AsRef<str>>(&self, name: S)', 'pub fn get(&self, name: &str)', 'R10', 'generic S: AsRef<str> instantiated at &str')
    im.replace('map.get(name.as_ref())', 'map.get(name)', 'R10', '.as_ref() on &str is the identity')
    im.resub(r'pub fn add<N: Into<String>>\(\s*&mut self,\s*name: N,', 'pub fn add(\n        &mut self,\n        name: &str,', 'R10', 'generic N: Into<String> instantiated at &str (the map stub takes the name by reference)', count=None)
    im.r11()
    im.r16_rev_pairs('unset', 0, suffix='u')
    im.r16_rev_pairs('add', 0, suffix='a')
    im.resub(r'(\n\s*)mut var: ShellVariable,', r'\1var_: ShellVariable,', 'R29', '`mut` by-value parameter -> plain parameter plus `let mut var = var_;` as the first statement (what `mut` on a parameter means)', count=None)
    im.resub(r'\*&mut self\.scopes\[__ka\]\.0', 'self.scopes[__ka].0', 'R16', 'a dereferenced place is the place itself (`*scope_type` with scope_type = &mut scopes[k].0)', count=None)
    im.resub(r'ShellVariable::new\(ShellValue::Unset\(ShellValueUnsetType::Untyped\)\)', 'vx_unset_placeholder()', 'R14', 'construction of the declared-but-unset placeholder -> stub', count=None)
    im.sig('new', ret='r', ensures=[
        C('C09 global-scope-at-bottom', 'r.scopes@.len() == 1 && r.scopes@[0].0 is Global && r.scopes@[0].1@ == Map::<Seq<char>, ShellVariable>::empty()')])
    im.sig('push_scope', ensures=[
        C('C09,C18 push-adds-one-empty-scope', 'final(self).scopes@.len() == old(self).scopes@.len() + 1 && final(self).scopes@.drop_last() == old(self).scopes@'),
        C('C09 pushed-scope-kind-and-empty', 'final(self).scopes@.last().0 == scope_type && final(self).scopes@.last().1@ == Map::<Seq<char>, ShellVariable>::empty()'),
        C('aux frame', 'final(self).entry_count == old(self).entry_count && final(self).export_variables_on_modification == old(self).export_variables_on_modification')])
    im.sig('pop_scope', ret='r', ensures=[
        C('C09,C18 pop-removes-exactly-the-top', 'old(self).scopes@.len() > 0 ==> final(self).scopes@ == old(self).scopes@.drop_last()'),
        C('C18 pop-on-empty-is-error', 'old(self).scopes@.len() == 0 ==> final(self).scopes@ == old(self).scopes@ && r is Err'),
        C('C09 pop-ok-iff-kind-matches', 'r is Ok <==> (old(self).scopes@.len() > 0 && old(self).scopes@.last().0 == expected_scope_type)')])
    im.sig('get', ret='r', ensures=[
        C('C09 lookup-none-iff-nowhere', 'r is None <==> (forall|k: int| 0 <= k < self.scopes@.len() ==> !holds(self.scopes@, k, name@))'),
        C('C09 lookup-innermost-first', '''r is Some ==> exists|k: int| 0 <= k < self.scopes@.len()
    && #[trigger] holds(self.scopes@, k, name@)
    && (forall|j: int| k < j < self.scopes@.len() ==> !holds(self.scopes@, j, name@))
    && r->Some_0.0 == self.scopes@[k].0 && *r->Some_0.1 == self.scopes@[k].1@[name@]''')])
    im.loop(0, fn_name='get', iter_name='it', invariant=[
        C('aux', 'it.history@.len() + it.iter.remaining().len() == self.scopes@.len()'),
        C('aux', 'forall|i: int| 0 <= i < it.iter.remaining().len() ==> *(#[trigger] it.iter.remaining()[i]) == self.scopes@[self.scopes@.len() - 1 - it.history@.len() - i]'),
        C('C09 all-inner-scopes-miss', 'forall|j: int| self.scopes@.len() - it.history@.len() <= j < self.scopes@.len() ==> !holds(self.scopes@, j, name@)'),
    ], body_first='proof { assert(holds(self.scopes@, self.scopes@.len() - 1 - it.history@.len(), name@) == map@.contains_key(name@)); }')
    SC0, SC1 = 'old(self).scopes@', 'final(self).scopes@'
    im.sig('unset', ret='res', requires=[C('aux fewer-than-2^31-scopes', 'old(self).scopes@.len() < 0x7fff_ffff')], ensures=[
        C('C09 unset-of-an-unknown-name-changes-nothing', "(forall|k: int| 0 <= k < %s.len() ==> !holds(%s, k, name@)) ==> res == Ok::<Option<ShellVariable>, error::Error>(None) && same_but(%s, %s, -1)" % (SC0, SC0, SC1, SC0)),
        C('C09 readonly-variable-cannot-be-removed', "forall|k: int| #[trigger] innermost(%s, k, name@) && %s[k].1@[name@].readonly() ==> res is Err && same_but(%s, %s, -1)" % (SC0, SC0, SC1, SC0)),
        C('C09 unset-acts-on-the-innermost-scope-only', "forall|k: int| #[trigger] innermost(%s, k, name@) && !%s[k].1@[name@].readonly() ==> res == Ok::<Option<ShellVariable>, error::Error>(Some(%s[k].1@[name@])) && same_but(%s, %s, k) && %s[k].0 == %s[k].0" % (SC0, SC0, SC0, SC1, SC0, SC1, SC0)),
        C('C09 unset-local-of-the-running-function-stays-local', "forall|k: int| #[trigger] innermost(%s, k, name@) && !%s[k].1@[name@].readonly() && topmost_local(%s, k) ==> %s[k].1@.contains_key(name@) && %s[k].1@[name@].is_placeholder() && %s[k].1@.remove(name@) == %s[k].1@.remove(name@)" % (SC0, SC0, SC0, SC1, SC1, SC1, SC0)),
        C('C09 unset-elsewhere-removes-the-entry', "forall|k: int| #[trigger] innermost(%s, k, name@) && !%s[k].1@[name@].readonly() && !topmost_local(%s, k) ==> %s[k].1@ == %s[k].1@.remove(name@)" % (SC0, SC0, SC0, SC1, SC0)),
    ])
    im.loop(0, fn_name='unset', invariant=[
        C('aux', '__nu <= self.scopes@.len() && self.scopes@.len() == old(self).scopes@.len() && self.scopes@.len() < 0x7fff_ffff'),
        C('aux nothing-changed-so-far', 'same_but(self.scopes@, old(self).scopes@, -1)'),
        C('C09 inner-scopes-do-not-hold-the-name', 'forall|j: int| __nu <= j < self.scopes@.len() ==> !holds(old(self).scopes@, j, name@)'),
        C('aux local-count', '0 <= local_count <= self.scopes@.len() - __nu && ((local_count == 0) <==> (forall|j: int| __nu <= j < self.scopes@.len() ==> !(old(self).scopes@[j].0 is Local)))'),
    ], decreases='__nu', body_first='let ghost sc_before = self.scopes@;')
    HINT = '''proof {
    let k = __ku as int;
    assert(self.scopes@.len() == sc_before.len());
    assert forall|j: int| 0 <= j < sc_before.len() && j != k implies #[trigger] self.scopes@[j] == sc_before[j] by {}
    assert(self.scopes@[k].0 == sc_before[k].0);
    assert(sc_before[k].1@ == old(self).scopes@[k].1@ && sc_before[k].0 == old(self).scopes@[k].0);
    assert(holds(old(self).scopes@, k, name@) == sc_before[k].1@.contains_key(name@));
    assert forall|k2: int| innermost(old(self).scopes@, k2, name@) && holds(old(self).scopes@, k, name@) implies k2 == k by {
        if k2 < k { assert(!holds(old(self).scopes@, k, name@)); }
    }
    assert(topmost_local(old(self).scopes@, k) == (old(self).scopes@[k].0 is Local && local_count == 1));
}'''
    im.before(r'^\s*let unset_result = Self::try_unset_in_map\(', '''let ghost sc_mid = self.scopes@;
proof {
    let k = __ku as int;
    assert(sc_mid[k].1@ == old(self).scopes@[k].1@ && sc_mid[k].0 == old(self).scopes@[k].0);
    assert(holds(old(self).scopes@, k, name@) == sc_mid[k].1@.contains_key(name@));
    assert forall|k2: int| innermost(old(self).scopes@, k2, name@) && holds(old(self).scopes@, k, name@) implies k2 == k by {
        if k2 < k { assert(!holds(old(self).scopes@, k, name@)); }
    }
    assert(topmost_local(old(self).scopes@, k) == (old(self).scopes@[k].0 is Local && local_count == 1));
}''', fn_name='unset', optional=True)
    im.after_line(r'^\s*let unset_result = Self::try_unset_in_map\(', HINT, fn_name='unset', optional=True)
    im.before(r'^\s*return Ok\(unset_result\);', '''proof {
    let k = __ku as int;
    assert forall|j: int| 0 <= j < sc_before.len() && j != k implies #[trigger] self.scopes@[j] == sc_before[j] by {}
    assert(self.scopes@[k].0 == sc_before[k].0);
}''', fn_name='unset', optional=True)
    im.sig('add', ret='res', requires=[C('aux entry-count-fits', 'old(self).entry_count < usize::MAX')], ensures=[
        C('C09 a-scope-of-the-kind-asked-for-takes-the-variable', 'forall|k: int| #[trigger] innermost_of_kind(%s, k, target_scope) ==> res is Ok' % SC0),
        C('C09 a-new-variable-leaves-every-other-scope-alone', 'forall|k: int| #[trigger] innermost_of_kind(%s, k, target_scope) ==> same_but(%s, %s, k) && %s[k].0 == %s[k].0' % (SC0, SC1, SC0, SC1, SC0)),
        C('C09 a-new-variable-goes-into-the-innermost-scope-of-the-kind-asked-for', '''forall|k: int| #[trigger] innermost_of_kind(%s, k, target_scope) ==>
    %s[k].1@ == %s[k].1@.insert(name@, if old(self).export_variables_on_modification { var_.exported_version() } else { var_ })''' % (SC0, SC1, SC0)),
        C('C09 without-a-scope-of-that-kind-nothing-is-added', '(forall|k: int| 0 <= k < %s.len() ==> %s[k].0 != target_scope) ==> res is Err && same_but(%s, %s, -1)' % (SC0, SC0, SC1, SC0)),
    ])
    im.at_body_start('add', 'let mut var = var_;\nlet ghost var0 = var_;')
    im.loop(0, fn_name='add', invariant=[
        C('aux', '__na <= self.scopes@.len() && self.scopes@ == old(self).scopes@ && self.entry_count == old(self).entry_count && self.entry_count < usize::MAX && self.export_variables_on_modification == old(self).export_variables_on_modification'),
        C('C09 no-inner-scope-of-that-kind', 'forall|j: int| __na <= j < self.scopes@.len() ==> self.scopes@[j].0 != target_scope'),
        C('aux the-variable-as-it-will-be-stored', 'var0 == var_ && var == (if old(self).export_variables_on_modification { var0.exported_version() } else { var0 })'),
    ], decreases='__na', body_first='let ghost sc_before = self.scopes@;')
    im.before(r'^\s*return Ok\(\(\)\);', '''proof {
    let k = __ka as int;
    assert forall|j: int| 0 <= j < sc_before.len() && j != k implies #[trigger] self.scopes@[j] == sc_before[j] by {}
    assert(self.scopes@[k].0 == sc_before[k].0);
    assert forall|k2: int| innermost_of_kind(old(self).scopes@, k2, target_scope) implies k2 == k by {
        if k2 < k { assert(old(self).scopes@[k].0 == target_scope); }
    }
}''', fn_name='add', optional=True)
    im.sig('try_unset_in_map', ret='r', ensures=[
        C('C09 readonly-not-removed', '(old(map)@.contains_key(name@) && old(map)@[name@].readonly()) ==> r is Err && final(map)@ == old(map)@'),
        C('C09 unset-removes-only-that-name', '(old(map)@.contains_key(name@) && !old(map)@[name@].readonly()) ==> r == Ok::<Option<ShellVariable>, error::Error>(Some(old(map)@[name@])) && final(map)@ == old(map)@.remove(name@)'),
        C('C09 unset-missing-is-noop', '!old(map)@.contains_key(name@) ==> r == Ok::<Option<ShellVariable>, error::Error>(None) && final(map)@ == old(map)@')])
    im.closure(r'\|v\| v\.is_readonly\(\)', '&ShellVariable', 'r: bool', 'r == v.readonly()', fn_name='try_unset_in_map')
    u.add(im)
    u.raw(FOOTER)
    u.assume('external_body', 'ShellVariableMap is opaque with ASSUMED map contracts on get / unset / default (one-line HashMap delegations); ShellVariable is opaque except is_readonly')
    u.assume('uninterp', 'ShellVariableMap::view, ShellVariable::readonly')
    u.assume('stub', 'ShellEnvironment::get_mut* / update_or_add* (iter_mut().rev(), closures) and the value writers ShellVariable::assign / assign_at_index / unset_index are NOT verified: the readonly clause for value writers is out of reach (DESIGN.md C09)')
    u.expected_min_fns = 8
    return u
