"""U27c: the two action blocks of the PEG rule `io_here` (brush-parser/src/parser/peg.rs, R6 block slices): the here-document node the
parser builds says "expand the body" iff no character of the delimiter word is quoted, and "strip tabs" iff the operator was <<-."""
from vx.unit import Unit
from vx.extract import C

PROPS = ['C10']
HEADER = '#![feature(pattern)]\nuse vstd::prelude::*;\nuse vstd::std_specs::convert::*;\nverus! {\n'
FOOTER = '\n} // verus!\nfn main() {}\n'


def build(repo, findings):
    u = Unit('U27c', 'here-document node: expansion governed solely by the delimiter\'s form, tab stripping by the operator', repo, ['C10'], safety_props=['C10'])
    pg = u.source('brush-parser/src/parser/peg.rs')
    ast = u.source('brush-parser/src/ast.rs')
    u.raw(HEADER)
    u.prelude('std/str_ops.rs')
    u.raw('pub mod ast {\nuse vstd::prelude::*;\npub use super::Word;')
    u.add(ast.item(r'^pub struct IoHereDocument ', 'IoHereDocument').r1(keep_derive=()))
    u.raw('}\n')
    u.prelude('parser/io_here_spec.rs')
    for op, fn, dash in (('<<-', 'io_here_dash_action', 'true'), ('<<', 'io_here_action', 'false')):
        g = pg.block_slice(r'^\s*specific_operator\("%s"\) here_tag:here_tag\(\) doc:\[_\] closing_tag:here_tag\(\) \{$' % op,
                           'fn %s(here_tag: &Token, doc: &Token, closing_tag: &Token) -> ast::IoHereDocument' % fn, fn)
        g.r1()
        g.resub(r"(\w+(?:\.\w+\(\))*)\.contains\(\[('\\?.'), ('\\?.'), ('\\?.')\]\)", r'str_contains_any3(\1, [\2, \3, \4])', 'R14', 'str::contains([char; 3]) -> stub', count=None)
        g.sig(fn, ret='r', ensures=[C('C10 expansion-iff-the-delimiter-is-unquoted-and-tab-stripping-iff-dash', 'here_doc_ok(r, %s, *here_tag, *doc)' % dash)])
        u.add(g)
    u.raw(FOOTER)
    u.assume('external_body', 'Token::to_str, From<&Token> for Word, str::contains([char; 3]) are stubs stating their documented result')
    u.assume('uninterp', 'Token::text, Word::of')
    u.assume('assume_specification', 'str::starts_with / ends_with (contracts/std/str_ops.rs, uninterpreted for patterns other than a char)')
    u.assume('axiom', 'str::starts_with(char) / ends_with(char) look at the first / last character')
    u.assume('stub', 'the PEG rule around the two action blocks (operator and tag recognition), and that the tokenizer delimits the body with the same quoting test (text of tokenizer.rs, unit U27b extracts it), are NOT verified')
    u.expected_min_fns = 2
    return u
