"""U43: the statement of apply_assignment (brush-core/src/interp.rs) that expands the right side of an assignment (R6 slice): a scalar
value and the value of a keyed array element go through the assignment expander (one string, never split or globbed); a plain array
element goes through the command-word expander and contributes its fields; everything left to right."""
from vx.unit import Unit
from vx.extract import C
from .common import replay_scripts

PROPS = ['C04', 'C05']
HEADER = 'use vstd::prelude::*;\nuse vstd::std_specs::iter::IteratorSpec;\nverus! {\n'
FOOTER = '\n} // verus!\nfn main() {}\n'
PRE = 'pre(unexpanded_values@, %s, log0)'


def build(repo, findings):
    u = Unit('U43', 'assignment values: scalar and keyed-element values are never split or globbed', repo, ['C04', 'C05'], safety_props=['C04'])
    ip = u.source('brush-core/src/interp.rs')
    asrc = u.source('brush-parser/src/ast.rs')
    va = u.source('brush-core/src/variables.rs')
    asrc.require_text(r'pub struct Assignment \{[^}]*?\n\s*pub value: AssignmentValue,[^}]*?\n\s*pub append: bool,', 'projected fields Assignment.value / append')
    u.raw(HEADER)
    u.add(asrc.item(r'^pub enum AssignmentValue ', 'AssignmentValue').r1(keep_derive=()))
    u.add(va.item(r'^pub struct ArrayLiteral\(', 'ArrayLiteral').r1(keep_derive=()))
    u.add(va.item(r'^pub enum ShellValueLiteral ', 'ShellValueLiteral').r1(keep_derive=()))
    u.prelude('assign/value_spec.rs')
    fn = 'assignment_new_value'
    f = ip.slice('apply_assignment', r'^\s*let new_value = match &assignment\.value \{$', r'^\s*let new_value = match &assignment\.value \{$',
                 'fn assignment_new_value(assignment: &ast::Assignment, shell: &mut Shell, params: &ExecutionParameters) -> Result<ShellValueLiteral, error::Error>', fn)
    f.r1().r3()
    f.resub(r'\n\}$', '\n    Ok(new_value)\n}', 'R6', 'wrapper epilogue returning the live variable `new_value`', count=1)
    f.resub(r'\b(\w+)\.join\(("[^"]*")\)', r'vx_join(&\1, \2)', 'R14', 'Vec<String>::join(&str) -> stub', count=None)
    f.sig(fn, ret='res', attrs=['#[verifier::loop_isolation(false)]'], ensures=[
        C('C04,C05 every-part-of-the-value-goes-through-the-expander-of-its-kind-left-to-right', 'final(shell).log@ == value_spec(assignment.value, old(shell).log@).log'),
        C('C04 scalar-value-is-the-one-string-of-the-assignment-expander', '''assignment.value is Scalar ==> match assign_result(old(shell).log@, assignment.value->Scalar_0) {
    Ok(s) => res is Ok && res->Ok_0 is Scalar && res->Ok_0->Scalar_0@ == s,
    Err(e) => res is Err,
}'''),
        C('C04,C05 keyed-element-is-one-unsplit-value-and-plain-elements-are-the-fields-in-order', '''assignment.value is Array ==> ((res is Ok) == value_spec(assignment.value, old(shell).log@).ok)
    && (res is Ok ==> res->Ok_0 is Array && elems_view(res->Ok_0->Array_0.0@) =~= value_spec(assignment.value, old(shell).log@).els)'''),
    ])
    k = f.loop_ordinal(fn, r'for \(unexpanded_key, unexpanded_value\) in')
    k2 = f.loop_ordinal(fn, r'for value in values \{')
    # inner loop first (positions of the outer one do not move)
    f.loop(k2, fn_name=fn, iter_name='it2', invariant=[
        C('aux', 'it2.index@ + it2.iter.remaining().len() == values@.len()'),
        C('aux', 'forall|j: int| 0 <= j < it2.iter.remaining().len() ==> (#[trigger] it2.iter.remaining()[j]) == values@[it2.index@ + j]'),
        C('aux', 'values@.len() == ss.len() && (forall|j: int| 0 <= j < ss.len() ==> (#[trigger] values@[j])@ == ss[j])'),
        C('C05 fields-appended-in-order', 'elems_view(elements@) =~= els0 + unkeyed(ss.take(it2.index@ as int))'),
    ], body_first='proof { assert(value == values@[it2.index@ as int]); assert(ss.take(it2.index@ + 1) =~= ss.take(it2.index@ as int).push(ss[it2.index@ as int])); }\nlet ghost e0 = elems_view(elements@);',
        body_last='proof { assert(elems_view(elements@) =~= e0.push((None::<Seq<char>>, ss[it2.index@ as int]))); }')
    f.before(r'^\s*for value in [^\n]*it2: ', 'let ghost els0 = elems_view(elements@);\nlet ghost ss = split_result(p0.log, *unexpanded_value)->Ok_0;', fn_name=fn)
    f.loop(k, fn_name=fn, iter_name='it', invariant=[
        C('aux', 'n == unexpanded_values@.len() && log0 == old(shell).log@'),
        C('aux', 'it.index@ + it.iter.remaining().len() == n'),
        C('aux', 'forall|j: int| 0 <= j < it.iter.remaining().len() ==> *(#[trigger] it.iter.remaining()[j]) == unexpanded_values@[it.index@ + j]'),
        C('C04,C05 elements-so-far-are-what-the-rules-give', '%s.ok && %s.log == shell.log@ && %s.els =~= elems_view(elements@)' % ((PRE % 'it.index@ as int',) * 3)),
    ], body_first='''let ghost i = it.index@ as int;
let ghost p0 = pre(unexpanded_values@, i, log0);
proof {
    assert(0 <= i < n);
    assert(unexpanded_values@[i] == (*unexpanded_key, *unexpanded_value));
    if !pre(unexpanded_values@, i + 1, log0).ok { lemma_stuck(unexpanded_values@, i + 1, n, log0); }
}''')
    f.before(r'^\s*for \(unexpanded_key, unexpanded_value\) in [^\n]*it: ', 'let ghost log0 = shell.log@;\nlet ghost n = unexpanded_values@.len() as int;', fn_name=fn)
    f.before(r'^\s*elements\.push\(\(key, value\)\);', 'let ghost e0 = elems_view(elements@);', fn_name=fn, optional=True)
    f.after_line(r'^\s*elements\.push\(\(key, value\)\);', 'proof { assert(elems_view(elements@) =~= e0.push((Some(key->Some_0@), value@))); }', fn_name=fn, optional=True)
    u.add(f)
    u.raw(FOOTER)
    u.assume('external_body', 'expansion::basic_expand_assignment_word / full_expand_and_split_word are stubs: results uninterpreted (functions of the word and of the calls made so far), each call logged in a ghost field; ast::Word, error::Error opaque')
    u.assume('uninterp', 'assign_result, split_result, join_spec')
    u.assume('stub', 'that basic_expand_assignment_word itself neither splits nor globs (expansion.rs) is NOT verified here; the rest of apply_assignment (subscript evaluation, scopes, attributes) is outside this slice')
    u.expected_min_fns = 1
    u.counterexample = replay_scripts(repo, [
        ("x='a  b\tc'; a=([0]=$x); echo \"<${a[0]}> ${#a[@]}\"", '<a  b\tc> 1\n'),
        ("cd /; x='/e*c'; declare -A m; m=([k]=$x); echo \"<${m[k]}>\"", '</e*c>\n'),
        ("x='a  b'; y=$x; echo \"<$y>\"", '<a  b>\n'),
        ("x='p q'; a=($x [5]=$x); echo \"${#a[@]} <${a[5]}>\"", '3 <p q>\n'),
    ])
    return u
