"""U56: Shell::home_dir (brush-core/src/shell/fs.rs) — what a bare `~` stands for — and the statement of
WordExpander::process_double_quoted_pieces (brush-core/src/expansion.rs) that picks the character joining the elements of `"$*"`."""
from vx.unit import Unit
from vx.extract import C
from .common import replay_scripts

PROPS = ['C05']
HEADER = 'use vstd::prelude::*;\nuse vstd::string::*;\nverus! {\n'
FOOTER = '\n} // verus!\nfn main() {}\n'


def build(repo, findings):
    u = Unit('U56', 'a set HOME is used as it is; "$*" joins with the first character of IFS whatever it is', repo, ['C05'], safety_props=['C05'])
    fs = u.source('brush-core/src/shell/fs.rs')
    ex = u.source('brush-core/src/expansion.rs')
    u.raw(HEADER)
    u.prelude('expansion/tilde_ifs_spec.rs')
    u.raw('impl Shell {')
    fn = 'home_dir'
    f = fs.method_anywhere(fn).r1().r11()
    f.resub(r'PathBuf::from\((\w+)\.to_string\(\)\)', r'PathBuf::from(\1)', 'R17', 'Cow<str>::to_string() of the erased Cow is the String itself', count=None)
    f.sig(fn, ret='r', ensures=[
        C('C05 a-set-home-is-used-as-it-is-empty-or-not', 'match env_str(self.env, "HOME"@) { Some(h) => r == Some(path_of(h)), None => r == os_home() }'),
    ])
    u.add(f)
    u.raw('}\n')
    fn = 'star_joiner'
    g = ex.slice('process_double_quoted_pieces', r'^\s*let concatenation_joiner = ', r'^\s*let concatenation_joiner = ',
                 'fn star_joiner(self_: &WordExpander) -> char', fn)
    g.r1().resub(r'\bself\.', 'self_.', 'R6', 'slice wrapper: self -> self_', count=None)
    g.resub(r'\n\}$', '\n    concatenation_joiner\n}', 'R6', 'wrapper epilogue returning the live variable', count=1)
    g.sig(fn, ret='r', ensures=[C('C05 star-joins-with-the-first-character-of-ifs-whatever-it-is', 'r == self_.shell.ifs_first()')])
    u.add(g)
    u.raw(FOOTER)
    u.assume('external_body', 'Env::get_str (the value as text, None when not set), users::get_current_user_home_dir, PathBuf::from, Shell::get_ifs_first_char: results uninterpreted')
    u.assume('assume_specification', 'Option::filter (std documented behaviour)')
    u.assume('uninterp', 'env_str, os_home, path_of, Shell::ifs_first')
    u.assume('stub', 'the tilde arm that calls home_dir (U23) and the rest of process_double_quoted_pieces (where the joiner is put between the elements) are NOT covered here')
    u.expected_min_fns = 2
    u.counterexample = replay_scripts(repo, [
        ('HOME=; x=~; y=~/x; echo "<$x> <$y>"', '<> </x>\n'),
        ("IFS=$'\\n'; set -- a 'b c' d; x=\"$*\"; set -- \"$x\"; echo $#; printf '%s' \"$x\" | tr '\\n' '|'; echo", '1\na|b c|d\n'),
    ])
    return u
