"""U56: Shell::home_dir (brush-core/src/shell/fs.rs) — what a bare `~` stands for — and the statement of
WordExpander::process_double_quoted_pieces (brush-core/src/expansion.rs) that picks the character joining the elements of `"$*"`."""
from vx.unit import Unit
from vx.extract import C
from .common import replay_scripts

PROPS = ['C05']
HEADER = 'use vstd::prelude::*;\nuse vstd::string::*;\nverus! {\n'
FOOTER = '\n} // verus!\nfn main() {}\n'


def build(repo, findings):
    u = Unit('U56', 'a set HOME is used as it is; "$*" joins with the first character of IFS whatever it is', repo, ['C05'], safety_props=['C05'])
    fs = u.source('brush-core/src/shell/fs.rs')
    ex = u.source('brush-core/src/expansion.rs')
    u.raw(HEADER)
    u.prelude('expansion/tilde_ifs_spec.rs')
    u.raw('impl Shell {')
    fn = 'home_dir'
    f = fs.method_anywhere(fn).r1().r11()
    f.resub(r'PathBuf::from\((\w+)\.to_string\(\)\)', r'PathBuf::from(\1)', 'R17', 'Cow<str>::to_string() of the erased Cow is the String itself', count=None)
    f.sig(fn, ret='r', ensures=[
        C('C05 a-set-home-is-used-as-it-is-empty-or-not', 'match env_str(self.env, "HOME"@) { Some(h) => r == Some(path_of(h)), None => r == os_home() }'),
    ])
    u.add(f)
    u.raw('}\n')
    sx = u.source('brush-core/src/shell/expansion.rs')
    joiner_ty = 'Option<char>' if sx.has(r'fn get_ifs_first_char\(&self\) -> Option<char>') else ('String' if sx.has(r'fn get_ifs_first_char\(&self\) -> String') else 'char')
    u.raw('pub type StarJoiner = %s;\n' % ('String' if joiner_ty != 'char' else 'char'))
    u.raw('impl Shell {')
    h = sx.method_anywhere('ifs').r1().r11()
    h.resub(r"Cow<'_, str>", 'String', 'R17', 'Cow<str> erased to its owned form', count=None)
    h.resub(r'\.unwrap_or_else\(\|\| " \\t\\n"\.into\(\)\)', '.unwrap_or(vx_default_ifs())', 'R14', 'unwrap_or_else(closure yielding the default IFS) -> unwrap_or(stub with that text)', count=None)
    h.sig('ifs', ret='r', ensures=[C('C05 ifs-is-the-variable-or-space-tab-newline-when-unset', 'r@ == self.ifs_text()')])
    u.add(h)
    k = sx.method_anywhere('get_ifs_first_char').r1().r11()
    k.resub(r'self\.ifs\(\)\.chars\(\)\.next\(\)', 'vx_first_char(&self.ifs())', 'R14', 'chars().next() -> stub (the first character, if any)', count=None)
    k.sig('get_ifs_first_char', ret='r', ensures=[C('C05 first-character-of-ifs', 'self.ifs_text().len() > 0 ==> r.vx_sep() == seq![self.ifs_text()[0]]')])
    u.add(k)
    u.raw('}\n')
    fn = 'star_joiner'
    g = ex.slice('process_double_quoted_pieces', r'^\s*let concatenation_joiner = ', r';$',
                 'fn star_joiner(self_: &WordExpander) -> StarJoiner', fn)
    g.r1().resub(r'\bself\b(?!_)', 'self_', 'R6', 'slice wrapper: self -> self_', count=None)
    g.resub(r'self_\s*\.shell\s*\.get_ifs_first_char\(\)\s*\.map\(String::from\)\s*\.unwrap_or_default\(\)', 'vx_char_opt_to_string(self_.shell.get_ifs_first_char())', 'R14', 'Option<char>::map(String::from).unwrap_or_default() -> stub (that character as a string, or the empty string)', count=None)
    g.resub(r'\n\}$', '\n    concatenation_joiner\n}', 'R6', 'wrapper epilogue returning the live variable', count=1)
    g.sig(fn, ret='r', ensures=[C('C05 star-joins-with-the-first-character-of-ifs-whatever-it-is-and-with-nothing-when-ifs-is-empty kf=C05:star-with-empty-ifs-joins-with-a-space',
                               '{{KF:C05:star-with-empty-ifs-joins-with-a-space}} || r.vx_sep() == self_.shell.star_separator()')])
    u.add(g)
    u.raw(FOOTER)
    u.assume('external_body', 'Env::get_str (the value as text, None when not set), users::get_current_user_home_dir, PathBuf::from, Shell::env_str: results uninterpreted; the R14 stubs')
    u.assume('assume_specification', 'Option::filter (std documented behaviour)')
    u.assume('uninterp', 'env_str, os_home, path_of')
    u.assume('stub', 'the tilde arm that calls home_dir (U23) and the rest of process_double_quoted_pieces (where the joiner is put between the elements) are NOT covered here')
    u.expected_min_fns = 4
    u.counterexample = replay_scripts(repo, [
        ('HOME=; x=~; y=~/x; echo "<$x> <$y>"', '<> </x>\n'),
        ("IFS=$'\\n'; set -- a 'b c' d; x=\"$*\"; set -- \"$x\"; echo $#; printf '%s' \"$x\" | tr '\\n' '|'; echo", '1\na|b c|d\n'),
    ])
    return u
