"""U35: TrapCommand::execute (brush-builtins/src/trap.rs): with two or more operands whose first is not `-`, the first operand is the
action — whatever it looks like — installed for exactly the conditions that follow; nothing is reset."""
from vx.unit import Unit
from vx.extract import C

PROPS = ['C16']
HEADER = 'use vstd::prelude::*;\nuse vstd::std_specs::iter::IteratorSpec;\nverus! {\n'
FOOTER = '\n} // verus!\nfn main() {}\n'


def build(repo, findings):
    u = Unit('U35', 'trap builtin: the first of several operands is the action, installed for the conditions that follow, nothing else reset', repo, ['C16'], safety_props=['C01', 'C16'])
    tr = u.source('brush-builtins/src/trap.rs')
    for fld in ('list_signals: bool,', 'print_trap_commands: bool,', 'args: Vec<String>,'):
        tr.require_text(r'\n\s*' + fld.replace('<', r'\<').replace('>', r'\>'), 'projected field TrapCommand.' + fld)
    tr.require_text(r'impl builtins::Command for TrapCommand \{\s*type Error = brush_core::Error;', 'associated type Error = brush_core::Error')
    u.raw(HEADER)
    u.prelude('traps/builtin_spec.rs')
    fn = 'trap_execute'
    f = tr.method(r'^impl builtins::Command for TrapCommand ', 'execute', fn)
    f.r1().r3()
    f.replace('<SE: brush_core::ShellExtensions>', '', 'R4', 'extension generic erased')
    f.replace("mut context: brush_core::ExecutionContext<'_, SE>", 'context: &mut ExecutionContext', 'R5b', 'the context taken by value becomes a `&mut` parameter so that its ghost log can be read after the call; extension generic erased')
    f.replace('Self::Error', 'brush_core::Error', 'R5', 'associated type of the trait impl resolved (text checked)')
    f.resub(r'brush_core::traps::format_signals\(context\.stdout\(\), TrapSignal::iterator\(\)\)\s*\.map\(\|\(\)\| ExecutionResult::success\(\)\)', 'vx_format_signals(&context)', 'R14', 'signal listing -> stub', count=None)
    f.resub(r'\b(\w+(?:\.\w+|\[\d+\])*)\.parse(?:::<TrapSignal>)?\(\)', r'parse_signal(\1.as_str())', 'R14', 'str::parse::<TrapSignal> -> stub', count=None)
    f.resub(r'let signal = self\.args\[0\]\.as_str\(\);', 'let signal = &self.args[0];', 'R14', 'the single operand kept as &String (parse_signal takes its text)', count=None)
    f.resub(r'self\.args\[0\] == "-"', 'string_is(&self.args[0], "-")', 'R14', 'String == &str -> stub', count=None)
    f.resub(r'&mut context\b', '&mut *context', 'R5b', 'reborrow of the `&mut` parameter', count=None)
    f.resub(r'&context\b', '&*context', 'R5b', 'reborrow of the `&mut` parameter', count=None)
    f.resub(r'&self\.args\[1\.\.\]', 'vec_tail(&self.args)', 'R14', 'slice of a Vec from index 1 -> stub (the elements after the first)', count=None)
    f.resub(r'\bSelf::(\w+)\(', r'TrapCommand::\1(', 'R5', 'Self:: spelled out (the function is taken out of its impl block)', count=None)
    f.r5_self('TrapCommand', fn)
    f.sig(fn, ret='res', attrs=['#[verifier::loop_isolation(false)]'], ensures=[
        C('C16 first-of-several-operands-is-the-action-and-nothing-is-reset', '''(!self_.list_signals && !self_.print_trap_commands && self_.args@.len() >= 2 && !is_dash(self_.args@[0]@)) ==>
    match signals_of(self_.args@, 1, self_.args@.len() as int) {
        Some(sigs) => res is Ok && final(context).ops() == old(context).ops().push(Op::Register(sigs, self_.args@[0]@)),
        None => res is Err && final(context).ops() == old(context).ops(),
    }'''),
        C('C16 dash-resets-exactly-the-named-conditions', '''(!self_.list_signals && !self_.print_trap_commands && self_.args@.len() >= 2 && is_dash(self_.args@[0]@) && res is Ok) ==>
    signals_of(self_.args@, 1, self_.args@.len() as int) is Some && final(context).ops() == old(context).ops() + removes(signals_of(self_.args@, 1, self_.args@.len() as int)->Some_0)'''),
        C('C16 one-operand-resets-that-condition', '''(!self_.list_signals && !self_.print_trap_commands && self_.args@.len() == 1 && res is Ok) ==>
    parse_spec(self_.args@[0]@) is Some && final(context).ops() == old(context).ops().push(Op::Remove(parse_spec(self_.args@[0]@)->Some_0))'''),
    ])
    f.at_body_start(fn, 'proof { reveal_strlit("-"); assert("-"@ =~= seq![\'-\']); }')
    N = 'self_.args@.len() as int'
    IT = lambda it: [
        C('aux', '%s.index@ + %s.iter.remaining().len() == self_.args@.len() - 1' % (it, it)),
        C('aux', 'forall|k: int| 0 <= k < %s.iter.remaining().len() ==> *(#[trigger] %s.iter.remaining()[k]) == self_.args@[1 + %s.index@ + k]' % (it, it, it)),
    ]
    k_show, k_reset, k_parse = f.loop_ordinal(fn, r'display_handlers_for'), f.loop_ordinal(fn, r'vec_tail\(&self_\.args\).*remove_all_handlers'), f.loop_ordinal(fn, r'signal_types\.push')
    f.loop(k_show, fn_name=fn, iter_name='it0', invariant=[C('C16 listing-changes-nothing', 'context.ops() == old(context).ops()')])
    f.loop(k_reset, fn_name=fn, iter_name='it1', invariant=IT('it1') + [
        C('C16 conditions-so-far-reset-in-order', 'signals_of(self_.args@, 1, 1 + it1.index@) is Some && context.ops() == old(context).ops() + removes(signals_of(self_.args@, 1, 1 + it1.index@)->Some_0)'),
    ], body_first='let ghost k1 = it1.index@ as int;\nlet ghost ops1 = context.ops();\nproof { assert(*signal == self_.args@[1 + k1]); }',
       body_last="""proof {
    let p = signals_of(self_.args@, 1, 1 + k1)->Some_0;
    let t = parse_spec(self_.args@[1 + k1]@)->Some_0;
    assert(signals_of(self_.args@, 1, 1 + k1 + 1) == Some(p.push(t)));
    assert(removes(p.push(t)) =~= removes(p).push(Op::Remove(t)));
    assert(context.ops() =~= old(context).ops() + removes(p.push(t)));
}""")
    f.before_loop(fn, k_reset, 'proof { assert(removes(Seq::<TrapSignal>::empty()) =~= Seq::<Op>::empty()); assert(old(context).ops() + Seq::<Op>::empty() =~= old(context).ops()); }')
    f.loop(k_parse, fn_name=fn, iter_name='it2', invariant=IT('it2') + [
        C('C16 conditions-so-far-parsed-in-order', 'signals_of(self_.args@, 1, 1 + it2.index@) == Some(signal_types@) && context.ops() == old(context).ops()'),
    ], body_first='let ghost k2 = it2.index@ as int;\nproof { assert(*signal == self_.args@[1 + k2]); if parse_spec(self_.args@[1 + k2]@) is None { lemma_signals_none(self_.args@, 1, %s, 1 + k2); } }' % N)
    f.before_loop(fn, k_parse, 'proof { assert(signal_types@ =~= Seq::<TrapSignal>::empty()); }')
    u.add(f)
    u.raw(FOOTER)
    u.assume('external_body', 'TrapSignal parsing (uninterpreted), remove_all_handlers / register_handler (logged in a ghost sequence), the display functions, format_signals')
    u.assume('uninterp', 'parse_spec, ExecutionContext::ops')
    u.assume('stub', 'clap argument parsing (which words end up in `args`), the trap table itself (brush-core/src/traps.rs) and register_handler\'s loop are NOT verified')
    u.expected_min_fns = 1
    return u
