"""U18 jobs: the job table (brush-core/src/jobs.rs): distinct ids, nothing lost or duplicated when sweeping/polling."""
from vx.unit import Unit
from vx.extract import C

PROPS = ['C17', 'C01']
HEADER = '#![feature(allocator_api)]\nuse vstd::prelude::*;\nuse vstd::std_specs::iter::IteratorSpec;\nuse std::collections::VecDeque;\nverus! {\n'
FOOTER = '\n} // verus!\nfn main() {}\n'


def build(repo, findings):
    u = Unit('U18', 'job table: distinct ids, sweep/poll lose or duplicate nothing', repo, ['C17'], safety_props=['C01', 'C17'])
    src = u.source('brush-core/src/jobs.rs')
    u.raw(HEADER)
    u.add(src.item(r'^pub enum JobAnnotation ', 'JobAnnotation').r1(keep_derive=()))
    u.add(src.item(r'^pub enum JobState ', 'JobState').r1(keep_derive=()))
    u.add(src.item(r'^pub struct Job ', 'Job').r1(keep_derive=()).r11().pub_fields())
    u.add(src.item(r'^pub struct JobManager ', 'JobManager').r1(keep_derive=()).r11())
    u.prelude('jobs/spec.rs')
    # add_as_current: the part after the annotation loop (R6 slice); the `for j in &mut self.jobs { .. break }` loop needs IterMut
    # resolution facts vstd does not provide and is NOT verified (its only writes are to `annotation`)
    t = src.slice('add_as_current', r'^\s*let mut id = 1;', None,
                  'fn add_as_current_tail(self_: &mut JobManager, mut job: Job) -> &Job', 'add_as_current_tail')
    t.r1().resub(r'\bself\b', 'self_', 'R6', 'slice wrapper: self -> self_', count=None)
    t.sig(ret='r', requires=[
        C('aux ids-below-max', 'forall|i: int| 0 <= i < old(self_).jobs@.len() ==> (#[trigger] old(self_).jobs@[i]).id < usize::MAX'),
        C('aux table-distinct', 'ids_distinct(old(self_).jobs@)'),
        C('aux no-current-left', 'no_current(old(self_).jobs@)'),
    ], ensures=[
        C('C17 old-jobs-untouched', 'final(self_).jobs@.len() == old(self_).jobs@.len() + 1 && final(self_).jobs@.drop_last() == old(self_).jobs@'),
        C('C17 new-job-is-current', 'final(self_).jobs@.last().annotation is Current && *r == final(self_).jobs@.last()'),
        C('C17 new-id-above-all-live-ids', 'forall|i: int| 0 <= i < old(self_).jobs@.len() ==> (#[trigger] old(self_).jobs@[i]).id < final(self_).jobs@.last().id'),
        C('C17 live-ids-distinct', 'ids_distinct(final(self_).jobs@) && final(self_).jobs@.last().id >= 1'),
        C('C17 at-most-one-current', 'at_most_one_current(final(self_).jobs@)'),
    ])
    t.loop(0, iter_name='it', invariant=[
        C('aux', 'it.index@ + it.iter.remaining().len() == self_.jobs@.len()'),
        C('aux', 'forall|i: int| 0 <= i < it.iter.remaining().len() ==> *(#[trigger] it.iter.remaining()[i]) == self_.jobs@[it.index@ + i]'),
        C('aux', 'self_.jobs@ == old(self_).jobs@ && forall|i: int| 0 <= i < self_.jobs@.len() ==> (#[trigger] self_.jobs@[i]).id < usize::MAX'),
        C('C17 id-above-all-seen', 'id >= 1 && forall|i: int| 0 <= i < it.index@ ==> (#[trigger] self_.jobs@[i]).id < id'),
    ], body_first='proof { assert(*j == self_.jobs@[it.index@ as int]); }')
    u.add(t)
    im = src.item(r'^impl JobManager ', 'impl JobManager').r1().r3()
    im.keep_only_fns(['poll', 'sweep_completed_jobs'], 'constructors, iterator find() accessors, async wait paths and the annotation loop of add_as_current — NOT verified')
    im.r11()
    fn = 'sweep_completed_jobs'
    im.sig(fn, ret='completed_jobs', ensures=[
        C('C17 sweep-loses-nothing', 'completed_jobs@.len() + final(self).jobs@.len() == old(self).jobs@.len()'),
        C('C17 sweep-removes-only-finished', 'forall|i: int| 0 <= i < completed_jobs@.len() ==> (#[trigger] completed_jobs@[i]).tasks@.len() == 0'),
        C('C17 sweep-keeps-all-unfinished', 'forall|i: int| 0 <= i < final(self).jobs@.len() ==> (#[trigger] final(self).jobs@[i]).tasks@.len() != 0'),
        C('C17 sweep-keeps-order-and-identity', 'exists|f: Seq<int>| is_subseq_by(final(self).jobs@, old(self).jobs@, f)'),
        C('C17 sweep-keeps-ids-distinct', 'ids_distinct(old(self).jobs@) ==> ids_distinct(final(self).jobs@)'),
    ])
    im.ascribe(r'^\s*let mut completed_jobs = vec!\[\];', 'Vec<Job>', fn_name=fn)
    im.before(r'^\s*let mut i = 0;', 'let ghost mut fmap: Seq<int> = Seq::new(self.jobs@.len(), |k: int| k);\nlet ghost mut removed: int = 0;', fn_name=fn)
    im.loop(0, fn_name=fn, invariant=[
        C('aux', 'i <= self.jobs@.len()'),
        C('C17 sweep-count', 'completed_jobs@.len() + self.jobs@.len() == old(self).jobs@.len() && removed == completed_jobs@.len()'),
        C('aux', 'forall|k: int| 0 <= k < completed_jobs@.len() ==> (#[trigger] completed_jobs@[k]).tasks@.len() == 0'),
        C('aux', 'forall|k: int| 0 <= k < i ==> (#[trigger] self.jobs@[k]).tasks@.len() != 0'),
        C('C17 sweep-subsequence', 'is_subseq_by(self.jobs@, old(self).jobs@, fmap)'),
    ], decreases='self.jobs@.len() - i')
    im.before(r'^\s*completed_jobs\.push\(self\.jobs\.remove\(i\)\);', 'let ghost before = self.jobs@;\nlet ghost fm0 = fmap;', fn_name=fn, optional=True)
    im.after_line(r'^\s*completed_jobs\.push\(self\.jobs\.remove\(i\)\);', '''proof {
    fmap = fm0.remove(i as int);
    removed = removed + 1;
    assert(self.jobs@ =~= before.remove(i as int));
    assert forall|a: int| 0 <= a < self.jobs@.len() implies 0 <= #[trigger] fmap[a] < old(self).jobs@.len() && self.jobs@[a] == old(self).jobs@[fmap[a]] by {
        if a < i { assert(fmap[a] == fm0[a]); assert(self.jobs@[a] == before[a]); } else { assert(fmap[a] == fm0[a + 1]); assert(self.jobs@[a] == before[a + 1]); }
    }
    assert forall|a: int, b: int| 0 <= a < b < self.jobs@.len() implies fmap[a] < fmap[b] by {
        let a2 = if a < i { a } else { a + 1 }; let b2 = if b < i { b } else { b + 1 };
        assert(fmap[a] == fm0[a2] && fmap[b] == fm0[b2] && a2 < b2);
    }
}''', fn_name=fn, optional=True)
    im.before(r'^\s*completed_jobs$', 'proof { if ids_distinct(old(self).jobs@) { lemma_subseq_distinct(self.jobs@, old(self).jobs@, fmap); } }', fn_name=fn)
    # poll
    fn = 'poll'
    im.sig(fn, ret='res', ensures=[
        C('C17 poll-loses-nothing', 'res is Ok ==> res->Ok_0@.len() + final(self).jobs@.len() == old(self).jobs@.len()'),
        C('C17 poll-removes-only-done', 'res is Ok ==> forall|k: int| 0 <= k < res->Ok_0@.len() ==> (#[trigger] res->Ok_0@[k]).0.state is Done'),
        C('C17 poll-keeps-ids', 'res is Ok ==> (ids_distinct(old(self).jobs@) ==> ids_distinct(final(self).jobs@))'),
    ])
    im.ascribe(r'^\s*let mut results = Vec::with_capacity\(self\.jobs\.len\(\)\);', 'Vec<JobResult>', fn_name=fn)
    im.before(r'^\s*let mut i = 0;', 'let ghost mut fmap: Seq<int> = Seq::new(self.jobs@.len(), |k: int| k);', fn_name=fn)
    REMOVE_HINT = '''proof {
    fmap = fm0.remove(i as int);
    assert(self.jobs@ =~= before.remove(i as int));
    assert forall|a: int| 0 <= a < self.jobs@.len() implies 0 <= #[trigger] fmap[a] < old(self).jobs@.len() && self.jobs@[a].id == old(self).jobs@[fmap[a]].id by {
        if a < i { assert(fmap[a] == fm0[a]); assert(self.jobs@[a] == before[a]); } else { assert(fmap[a] == fm0[a + 1]); assert(self.jobs@[a] == before[a + 1]); }
    }
    assert forall|a: int, b: int| 0 <= a < b < self.jobs@.len() implies fmap[a] < fmap[b] by {
        let a2 = if a < i { a } else { a + 1 }; let b2 = if b < i { b } else { b + 1 };
        assert(fmap[a] == fm0[a2] && fmap[b] == fm0[b2] && a2 < b2);
    }
}'''
    im.loop(0, fn_name=fn, invariant=[
        C('aux', 'i <= self.jobs@.len()'),
        C('C17 poll-count', 'results@.len() + self.jobs@.len() == old(self).jobs@.len()'),
        C('C17 poll-only-done-removed', 'forall|k: int| 0 <= k < results@.len() ==> (#[trigger] results@[k]).0.state is Done'),
        C('C17 poll-ids-subsequence', 'ids_subseq_by(self.jobs@, old(self).jobs@, fmap)'),
    ], decreases='self.jobs@.len() - i', body_first='let ghost before0 = self.jobs@;')
    im.after_line(r'^\s*if let Some\(result\) = self\.jobs\[i\]\.poll_done\(\)\? \{', 'let ghost before = self.jobs@;\nlet ghost fm0 = fmap;\nproof { assert(before.len() == before0.len()); assert forall|a: int| 0 <= a < before.len() implies before[a].id == before0[a].id by { if a != i { assert(before[a] == before0[a]); } } }', fn_name=fn, optional=True)
    im.after_line(r'^\s*let job = self\.jobs\.remove\(i\);', REMOVE_HINT, fn_name=fn, optional=True)
    im.before(r'^\s*results\.push\(\(self\.jobs\.remove\(i\), Ok\(ExecutionResult::success\(\)\)\)\);', 'let ghost before = self.jobs@;\nlet ghost fm0 = fmap;', fn_name=fn, optional=True)
    im.after_line(r'^\s*results\.push\(\(self\.jobs\.remove\(i\), Ok\(ExecutionResult::success\(\)\)\)\);', REMOVE_HINT, fn_name=fn, optional=True)
    im.before(r'^\s*Ok\(results\)$', 'proof { if ids_distinct(old(self).jobs@) { lemma_ids_subseq_distinct(self.jobs@, old(self).jobs@, fmap); } }', fn_name=fn)
    u.add(im)
    u.raw(FOOTER)
    u.assume('assume_specification', 'VecDeque::is_empty() == (len == 0); Vec::with_capacity(n) is empty (std documented behaviour)')
    u.assume('external_body', 'Job::poll_done is a stub (touches tasks/state only; id and annotation preserved); JobTask, ExecutionResult, Error opaque')
    u.assume('stub', 'the annotation loop of add_as_current (`for j in &mut self.jobs { .. break }`) is NOT verified: vstd has no resolution spec for a partially consumed IterMut; its effect is assumed to be limited to `annotation` fields and to leave no job Current (precondition no_current of the verified tail). wait_all / tokio scheduling / output visibility are out of reach.')
    u.expected_min_fns = 5
    return u
