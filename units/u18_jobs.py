"""U18 jobs: the job table (brush-core/src/jobs.rs): distinct ids, nothing lost or duplicated when sweeping/polling,
`wait_all` awaits every job before it sweeps."""
from vx.unit import Unit
from vx.extract import C

PROPS = ['C17', 'C18', 'C01']
HEADER = '#![feature(allocator_api)]\nuse vstd::prelude::*;\nuse vstd::std_specs::iter::IteratorSpec;\nuse std::collections::VecDeque;\nverus! {\n'
FOOTER = '\n} // verus!\nfn main() {}\n'

# The property asks for distinct live job numbers.  The table invariant that carries it may be plain distinctness or the
# stronger "strictly increasing ids" (which the current code also maintains): the unit holds if the operations are inductive
# for either (the second is tried only when the first fails), so a change relying on sortedness is not a false alarm.
INVS = {'distinct': 'ids_distinct(js)', 'sorted': 'ids_sorted(js)'}


def build(repo, findings, inv='distinct'):
    u = Unit('U18', 'job table: distinct ids, sweep/poll lose or duplicate nothing, wait_all awaits every job [table invariant: %s]' % inv,
             repo, ['C17', 'C18'], safety_props=['C01', 'C17'])
    src = u.source('brush-core/src/jobs.rs')
    u.raw(HEADER)
    u.add(src.item(r'^pub enum JobAnnotation ', 'JobAnnotation').r1(keep_derive=()))
    u.add(src.item(r'^pub enum JobState ', 'JobState').r1(keep_derive=()))
    u.add(src.item(r'^pub struct Job ', 'Job').r1(keep_derive=()).r11().pub_fields())
    u.add(src.item(r'^pub struct JobManager ', 'JobManager').r1(keep_derive=()).r11())
    u.prelude('jobs/spec.rs')
    u.raw('pub open spec fn table_inv(js: Seq<Job>) -> bool { %s }\n' % INVS[inv])
    im = src.item(r'^impl JobManager ', 'impl JobManager').r1().r3()
    im.keep_only_fns(['add_as_current', 'wait_all', 'poll', 'sweep_completed_jobs'],
                     'constructors, iterator find() accessors, job-spec resolution — NOT verified')
    im.r11()
    im.r16('add_as_current', 0, suffix='a')
    im.r16('wait_all', 0, suffix='w', optional=True)
    # ---------------------------------------------------------------- add_as_current (whole function)
    fn = 'add_as_current'
    im.sig(fn, ret='r', requires=[
        C('aux ids-below-max', 'forall|i: int| 0 <= i < old(self).jobs@.len() ==> (#[trigger] old(self).jobs@[i]).id < usize::MAX'),
        C('aux table-invariant', 'table_inv(old(self).jobs@)'),
        C('aux one-current', 'at_most_one_current(old(self).jobs@)'),
    ], ensures=[
        C('C17 old-jobs-kept', 'final(self).jobs@.len() == old(self).jobs@.len() + 1 && same_ids(final(self).jobs@.drop_last(), old(self).jobs@)'),
        C('C17 old-jobs-untouched-but-annotation', 'forall|i: int| 0 <= i < old(self).jobs@.len() ==> (#[trigger] final(self).jobs@[i]).tasks == old(self).jobs@[i].tasks && final(self).jobs@[i].state == old(self).jobs@[i].state'),
        C('C17 new-job-is-current', 'final(self).jobs@.last().annotation is Current && *r == final(self).jobs@.last()'),
        C('C17 new-id-differs-from-all-live-ids', 'forall|i: int| 0 <= i < old(self).jobs@.len() ==> (#[trigger] old(self).jobs@[i]).id != final(self).jobs@.last().id'),
        C('C17 live-ids-distinct', 'table_inv(final(self).jobs@) && ids_distinct(final(self).jobs@)'),
        C('C17 at-most-one-current', 'at_most_one_current(final(self).jobs@)'),
    ])
    AINV = [
        C('aux', 'same_ids(self.jobs@, old(self).jobs@)'),
        C('aux', 'forall|i: int| 0 <= i < self.jobs@.len() ==> (#[trigger] self.jobs@[i]).tasks == old(self).jobs@[i].tasks && self.jobs@[i].state == old(self).jobs@[i].state'),
    ]
    im.loop(0, fn_name=fn, invariant_except_break=[
        C('aux', '__na <= self.jobs@.len()'),
        C('aux', 'self.jobs@ == old(self).jobs@'),
        C('aux', 'at_most_one_current(self.jobs@)'),
        C('C17 no-current-among-seen', 'forall|i: int| 0 <= i < __na ==> !((#[trigger] self.jobs@[i]).annotation is Current)'),
    ], ensures=AINV + [
        C('C17 previous-current-demoted', 'no_current(self.jobs@)'),
    ], decreases='self.jobs@.len() - __na')
    im.loop(1, fn_name=fn, iter_name='it', invariant=[
        C('aux', 'it.index@ + it.iter.remaining().len() == self.jobs@.len()'),
        C('aux', 'forall|i: int| 0 <= i < it.iter.remaining().len() ==> *(#[trigger] it.iter.remaining()[i]) == self.jobs@[it.index@ + i]'),
        C('aux', 'forall|i: int| 0 <= i < self.jobs@.len() ==> (#[trigger] self.jobs@[i]).id < usize::MAX'),
        C('aux', 'no_current(self.jobs@) && table_inv(self.jobs@)'),
    ] + AINV + [
        C('C17 id-above-all-seen', 'id >= 1 && forall|i: int| 0 <= i < it.index@ ==> (#[trigger] self.jobs@[i]).id < id'),
    ], body_first='proof { assert(*j == self.jobs@[it.index@ as int]); }', optional=True)
    im.before(r'^\s*self\.jobs\.push\(job\);', 'let ghost pre_push = self.jobs@;', fn_name=fn, optional=True)
    im.after_line(r'^\s*self\.jobs\.push\(job\);', 'proof { assert(self.jobs@.drop_last() =~= pre_push); }', fn_name=fn, optional=True)
    # ---------------------------------------------------------------- wait_all
    fn = 'wait_all'
    im.sig(fn, ret='res', ensures=[
        C('C17 wait-returns-only-after-every-job-was-awaited', 'res is Ok ==> forall|i: int| 0 <= i < final(self).jobs@.len() ==> (#[trigger] final(self).jobs@[i]).state is Stopped'),
        C('C17 wait-loses-no-job', 'res is Ok ==> res->Ok_0@.len() + final(self).jobs@.len() == old(self).jobs@.len()'),
        C('C17 wait-reports-only-finished-jobs', 'res is Ok ==> forall|k: int| 0 <= k < res->Ok_0@.len() ==> (#[trigger] res->Ok_0@[k]).tasks@.len() == 0'),
        C('C17 wait-keeps-ids-distinct', 'res is Ok ==> (table_inv(old(self).jobs@) ==> table_inv(final(self).jobs@))'),
    ])
    if '__nw' in im.text:       # R16 applied (the loop is `for job in &mut self.jobs`)
      im.loop(0, fn_name=fn, invariant=[
        C('aux', '__nw <= self.jobs@.len()'),
        C('aux', 'same_ids(self.jobs@, old(self).jobs@)'),
        C('C17 every-job-so-far-awaited', 'forall|i: int| 0 <= i < __nw ==> awaited(#[trigger] self.jobs@[i])'),
    ], decreases='self.jobs@.len() - __nw', optional=True)
    im.before(r'^\s*Ok\(self\.sweep_completed_jobs\(\)\)', 'proof { if table_inv(old(self).jobs@) { lemma_same_ids_inv(self.jobs@, old(self).jobs@); } }', fn_name=fn, optional=True)
    # ---------------------------------------------------------------- sweep_completed_jobs
    fn = 'sweep_completed_jobs'
    im.sig(fn, ret='completed_jobs', ensures=[
        C('C17 sweep-loses-nothing', 'completed_jobs@.len() + final(self).jobs@.len() == old(self).jobs@.len()'),
        C('C17 sweep-removes-only-finished', 'forall|i: int| 0 <= i < completed_jobs@.len() ==> (#[trigger] completed_jobs@[i]).tasks@.len() == 0'),
        C('C17,C18 sweep-keeps-all-unfinished-no-finished-job-stays-in-the-table', 'forall|i: int| 0 <= i < final(self).jobs@.len() ==> (#[trigger] final(self).jobs@[i]).tasks@.len() != 0'),
        C('C17 sweep-keeps-each-job-once', 'exists|f: Seq<int>| is_inj_by(final(self).jobs@, old(self).jobs@, f)'),
        C('C17 sweep-keeps-only-old-jobs', 'forall|i: int| 0 <= i < final(self).jobs@.len() ==> old(self).jobs@.contains(#[trigger] final(self).jobs@[i])'),
        C('C17 sweep-keeps-ids-distinct', 'table_inv(old(self).jobs@) ==> table_inv(final(self).jobs@)'),
    ])
    im.ascribe(r'^\s*let mut completed_jobs = vec!\[\];', 'Vec<Job>', fn_name=fn)
    im.before(r'^\s*let mut i = 0;', 'let ghost mut fmap: Seq<int> = Seq::new(self.jobs@.len(), |k: int| k);', fn_name=fn)
    im.loop(0, fn_name=fn, invariant=[
        C('aux', 'i <= self.jobs@.len()'),
        C('C17,C18 sweep-count', 'completed_jobs@.len() + self.jobs@.len() == old(self).jobs@.len()'),
        C('aux', 'forall|k: int| 0 <= k < completed_jobs@.len() ==> (#[trigger] completed_jobs@[k]).tasks@.len() == 0'),
        C('aux', 'forall|k: int| 0 <= k < i ==> (#[trigger] self.jobs@[k]).tasks@.len() != 0'),
        C('C17 sweep-each-kept-job-is-an-old-job-once', 'is_inj_by(self.jobs@, old(self).jobs@, fmap)'),
        C('C17 sweep-table-invariant', 'table_inv(old(self).jobs@) ==> table_inv(self.jobs@)'),
    ], decreases='self.jobs@.len() - i')
    REMOVE = r'^\s*completed_jobs\.push\(self\.jobs\.remove\(i\)\);'
    SWAPRM = r'^\s*completed_jobs\.push\(self\.jobs\.swap_remove\(i\)\);'
    im.before(REMOVE, 'let ghost before = self.jobs@;\nlet ghost fm0 = fmap;', fn_name=fn, optional=True)
    im.after_line(REMOVE, 'proof { fmap = fm0.remove(i as int); lemma_remove_inj(before, self.jobs@, old(self).jobs@, fm0, fmap, i as int); }', fn_name=fn, optional=True)
    im.before(SWAPRM, 'let ghost before = self.jobs@;\nlet ghost fm0 = fmap;', fn_name=fn, optional=True)
    im.after_line(SWAPRM, 'proof { fmap = fm0.update(i as int, fm0.last()).drop_last(); lemma_swap_remove_inj(before, self.jobs@, old(self).jobs@, fm0, fmap, i as int); if ids_distinct(before) { lemma_swap_remove_keeps_distinct(before, self.jobs@, i as int); } }', fn_name=fn, optional=True)
    im.before(r'^\s*completed_jobs$', 'proof { assert forall|a: int| 0 <= a < self.jobs@.len() implies old(self).jobs@.contains(#[trigger] self.jobs@[a]) by { assert(old(self).jobs@[fmap[a]] == self.jobs@[a]); } }', fn_name=fn, optional=True)
    # ---------------------------------------------------------------- poll
    fn = 'poll'
    im.sig(fn, ret='res', ensures=[
        C('C17 poll-loses-nothing', 'res is Ok ==> res->Ok_0@.len() + final(self).jobs@.len() == old(self).jobs@.len()'),
        C('C17 poll-removes-only-done', 'res is Ok ==> forall|k: int| 0 <= k < res->Ok_0@.len() ==> (#[trigger] res->Ok_0@[k]).0.state is Done'),
        C('C17 poll-keeps-each-live-id-once', 'res is Ok ==> exists|f: Seq<int>| ids_inj_by(final(self).jobs@, old(self).jobs@, f)'),
        C('C17 poll-keeps-ids-distinct', 'res is Ok ==> (table_inv(old(self).jobs@) ==> table_inv(final(self).jobs@))'),
    ])
    im.ascribe(r'^\s*let mut results = Vec::with_capacity\(self\.jobs\.len\(\)\);', 'Vec<JobResult>', fn_name=fn)
    im.before(r'^\s*let mut i = 0;', 'let ghost mut fmap: Seq<int> = Seq::new(self.jobs@.len(), |k: int| k);', fn_name=fn)
    im.loop(0, fn_name=fn, invariant=[
        C('aux', 'i <= self.jobs@.len()'),
        C('C17 poll-count', 'results@.len() + self.jobs@.len() == old(self).jobs@.len()'),
        C('C17 poll-only-done-removed', 'forall|k: int| 0 <= k < results@.len() ==> (#[trigger] results@[k]).0.state is Done'),
        C('C17 poll-each-live-id-is-an-old-id-once', 'ids_inj_by(self.jobs@, old(self).jobs@, fmap)'),
        C('C17 poll-table-invariant', 'table_inv(old(self).jobs@) ==> table_inv(self.jobs@)'),
    ], decreases='self.jobs@.len() - i', body_first='let ghost before0 = self.jobs@;')
    im.after_line(r'^\s*if let Some\(result\) = self\.jobs\[i\]\.poll_done\(\)\? \{',
                  'let ghost before = self.jobs@;\nlet ghost fm0 = fmap;\nproof { lemma_same_ids_map(before0, before, old(self).jobs@, fm0); if table_inv(old(self).jobs@) { lemma_same_ids_inv(before, before0); } }', fn_name=fn, optional=True)
    for rx in (r'^\s*let job = self\.jobs\.remove\(i\);',):
        im.after_line(rx, 'proof { fmap = fm0.remove(i as int); lemma_remove_ids_inj(before, self.jobs@, old(self).jobs@, fm0, fmap, i as int); }', fn_name=fn, optional=True)
    im.after_line(r'^\s*let job = self\.jobs\.swap_remove\(i\);', 'proof { fmap = fm0.update(i as int, fm0.last()).drop_last(); lemma_swap_remove_ids_inj(before, self.jobs@, old(self).jobs@, fm0, fmap, i as int); if ids_distinct(before) { lemma_swap_remove_keeps_distinct(before, self.jobs@, i as int); } }', fn_name=fn, optional=True)
    R2 = r'^\s*results\.push\(\(self\.jobs\.remove\(i\), Ok\(ExecutionResult::success\(\)\)\)\);'
    im.before(R2, 'let ghost before = self.jobs@;\nlet ghost fm0 = fmap;\nproof { lemma_same_ids_map(before0, before, old(self).jobs@, fm0); if table_inv(old(self).jobs@) { lemma_same_ids_inv(before, before0); } }', fn_name=fn, optional=True)
    im.after_line(R2, 'proof { fmap = fm0.remove(i as int); lemma_remove_ids_inj(before, self.jobs@, old(self).jobs@, fm0, fmap, i as int); }', fn_name=fn, optional=True)
    R3 = r'^\s*results\.push\(\(self\.jobs\.swap_remove\(i\), Ok\(ExecutionResult::success\(\)\)\)\);'
    im.before(R3, 'let ghost before = self.jobs@;\nlet ghost fm0 = fmap;\nproof { lemma_same_ids_map(before0, before, old(self).jobs@, fm0); if table_inv(old(self).jobs@) { lemma_same_ids_inv(before, before0); } }', fn_name=fn, optional=True)
    im.after_line(R3, 'proof { fmap = fm0.update(i as int, fm0.last()).drop_last(); lemma_swap_remove_ids_inj(before, self.jobs@, old(self).jobs@, fm0, fmap, i as int); if ids_distinct(before) { lemma_swap_remove_keeps_distinct(before, self.jobs@, i as int); } }', fn_name=fn, optional=True)
    im.before(r'^\s*i \+= 1;', 'proof { lemma_same_ids_map(before0, self.jobs@, old(self).jobs@, fmap); if table_inv(old(self).jobs@) { lemma_same_ids_inv(self.jobs@, before0); } }', fn_name=fn, optional=True)
    u.add(im)
    u.raw(FOOTER)
    u.assume('assume_specification', 'VecDeque::is_empty() == (len == 0); Vec::with_capacity(n) is empty; Option::map_or(o, d, f) is d / f(x) (std documented behaviour)')
    u.assume('external_body', 'Job::poll_done and Job::wait are stubs whose contracts are read off their bodies (touch tasks/state only; id and annotation preserved; wait returns Ok only with no task left or state Stopped); JobTask, ExecutionResult, Error opaque')
    u.assume('stub', 'tokio scheduling, the happens-before of a background task\'s effects relative to the JoinHandle await inside JobTask::wait, and output visibility are out of reach of a per-function contract (see DESIGN.md, C17 scope)')
    u.expected_min_fns = 6
    if inv == 'distinct':
        u.alternatives = [lambda: build(repo, findings, 'sorted')]
    return u
