"""U16c: the two octal arms of expand_backslash_escapes (brush-core/src/escape.rs, R6 block slices): digits consumed in $'...'."""
from vx.unit import Unit
from vx.extract import C

PROPS = ['C13', 'C06', 'C01']
HEADER = 'use vstd::prelude::*;\nverus! {\n'
FOOTER = '\n} // verus!\nfn main() {}\n'
TAKE = (r'it\s*\.take_while_ref\(\|(\w+)\| \{\s*if taken_so_far (<=?) ([\w]+) && matches!\(\*?\1, \'0\'\.\.=\'7\'\) \{\s*taken_so_far \+= 1;\s*true\s*\} else \{\s*false\s*\}\s*\}\)')


def limit(m):
    op, bound = m.group(2), m.group(3)
    return 'take_octal_while(it, %s - taken_so_far)' % (bound if op == '<' else '(%s + 1)' % bound)


def build(repo, findings):
    u = Unit('U16c', "octal escapes of $'...' read at most three digits in all", repo, ['C13', 'C06'], safety_props=['C01', 'C13'])
    src = u.source('brush-core/src/escape.rs')
    u.raw(HEADER)
    u.prelude('quoting/octal_reader_spec.rs')
    import re
    # ---- `\0nn`
    fn = 'octal_zero_arm'
    f = src.block_slice(r"^\s*'0' => \{$", 'fn octal_zero_arm(it: &mut CharCursor, mode: EscapeExpansionMode, result: &mut Vec<u8>) -> Result<(), Error>', fn, within_fn='expand_backslash_escapes')
    f.r1()
    f.text = re.sub(TAKE + r'\s*\.collect\(\)', limit, f.text, flags=re.S)
    f._log('R14', 'it.take_while_ref(<counting closure>).collect() -> take_octal_while(it, limit)')
    f.resub(r'let mut taken_so_far = 0;', 'let mut taken_so_far: usize = 0;', 'R10', 'integer literal typed (usize)', count=None)
    f.resub(r'int_utils::parse::<u8>\((\w+)\.as_str\(\), 8\)', r'parse_u8_octal(\1.as_str())', 'R14', 'int_utils::parse::<u8>(s, 8) -> stub', count=None)
    f.resub(r'\n\}$', '\n    Ok(())\n}', 'R6', 'wrapper epilogue `Ok(())`', count=1)
    f.sig(fn, ret='res', ensures=[
        C('C13,C06 ansi-c-octal-escape-has-at-most-three-digits', 'mode is AnsiCQuotes ==> old(it).rest().len() - final(it).rest().len() <= 2'),
        C('C13,C06 consumed-digits-are-a-prefix-of-octal-digits', 'final(it).rest() == old(it).rest().skip(old(it).rest().len() - final(it).rest().len())'),
        C('aux echo-mode-takes-up-to-three-more', 'mode is EchoBuiltin ==> old(it).rest().len() - final(it).rest().len() <= 3'),
    ])
    f.at_body_start(fn, 'proof { lemma_oct_run_bound(it.rest(), 2); lemma_oct_run_bound(it.rest(), 3); }')
    u.add(f)
    # ---- `\nnn`, n = 1..7
    fn = 'octal_nonzero_arm'
    g = src.block_slice(r"^\s*first_octal @ '1'\.\.='7' if matches!\(mode, EscapeExpansionMode::AnsiCQuotes\) => \{$",
                        'fn octal_nonzero_arm(it: &mut CharCursor, first_octal: char, result: &mut Vec<u8>) -> Result<(), Error>', fn, within_fn='expand_backslash_escapes')
    g.r1()
    g.text = re.sub(r'for (\w+) in ' + TAKE + r' \{\s*octal_chars\.push\(\1\);\s*\}', lambda m: 'octal_chars.push_str(' + limit(type('M', (), {'group': lambda self, k: m.group(k + 1)})()) + '.as_str());', g.text, flags=re.S)
    g._log('R14', 'for c in it.take_while_ref(<counting closure>) { s.push(c) } -> s.push_str(take_octal_while(it, limit))')
    g.resub(r'let mut taken_so_far = 1;', 'let mut taken_so_far: usize = 1;', 'R10', 'integer literal typed (usize)', count=None)
    g.resub(r'int_utils::parse::<u8>\((\w+)\.as_str\(\), 8\)', r'parse_u8_octal(\1.as_str())', 'R14', 'int_utils::parse::<u8>(s, 8) -> stub', count=None)
    g.resub(r'\n\}$', '\n    Ok(())\n}', 'R6', 'wrapper epilogue `Ok(())`', count=1)
    g.sig(fn, ret='res', ensures=[
        C('C13,C06 ansi-c-octal-escape-has-at-most-three-digits', 'old(it).rest().len() - final(it).rest().len() <= 2'),
        C('C13,C06 consumed-digits-are-a-prefix-of-octal-digits', 'final(it).rest() == old(it).rest().skip(old(it).rest().len() - final(it).rest().len())'),
    ])
    g.at_body_start(fn, 'proof { lemma_oct_run_bound(it.rest(), 2); lemma_oct_run_bound(it.rest(), 3); }')
    u.add(g)
    u.raw(FOOTER)
    u.assume('external_body', 'take_octal_while stands for itertools take_while_ref with the counting closure of the original (R14); parse_u8_octal for int_utils::parse::<u8>(s, 8); the character cursor is std::str::Chars with ghost remaining text')
    u.assume('uninterp', 'CharCursor::rest')
    u.assume('stub', 'the rest of expand_backslash_escapes (named escapes, \\\\x \\\\u \\\\c, NUL truncation) is NOT verified')
    u.expected_min_fns = 2
    return u
