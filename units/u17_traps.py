"""U17 traps: invoke_trap_handler, on_exit, run_dash_c_command (brush-core/src/shell/traps.rs, shell/execution.rs)."""
from vx.unit import Unit
from vx.extract import C

PROPS = ['C16', 'C18', 'C03', 'C01']
HEADER = 'use vstd::prelude::*;\nverus! {\n'
FOOTER = '\n} // verus!\nfn main() {}\n'


def build(repo, findings):
    u = Unit('U17', 'trap handler invocation and the -c front-end exit hook', repo, ['C16', 'C18', 'C03'], safety_props=['C01', 'C16'])
    tr = u.source('brush-core/src/shell/traps.rs')
    ex = u.source('brush-core/src/shell/execution.rs')
    sh = u.source('brush-core/src/shell.rs')
    tp = u.source('brush-core/src/traps.rs')
    tp.require_text(r'pub struct TrapHandler \{\s*(///[^\n]*\n\s*)*pub command: String,\s*(///[^\n]*\n\s*)*pub source_info: crate::SourceInfo,', 'projection TrapHandler')
    for f in ('call_stack: ', 'traps: ', 'last_exit_status: u8', 'last_pipeline_statuses: Vec<u8>', 'options: RuntimeOptions'):
        sh.require_text(r'^\s+(pub(\(crate\))? )?' + f, 'projected field Shell.' + f)
    u.raw(HEADER)
    u.prelude('traps/spec.rs')
    u.raw('impl Shell {')
    for nm in ('call_stack', 'options'):
        a = sh.method_anywhere(nm).r1().r11()
        a.resub(r'&crate::callstack::CallStack', '&CallStack', 'R4', 'crate path flattened', count=None)
        a.sig(nm, ret='r', ensures=[C('aux accessor', '*r == self.%s' % nm)])
        u.add(a)
    dp = ex.method_anywhere('default_exec_params').r1().r11()
    dp.resub(r'let mut params = ExecutionParameters::default\(\);', 'let mut params: ExecutionParameters = vx_default_params();', 'R15', 'derived Default of ExecutionParameters -> arbitrary value (no contract mentions it)', count=1)
    dp.sig('default_exec_params', ret='r', ensures=[C('aux', 'true')])
    u.add(dp)
    inh = tr.method_anywhere('is_trap_inherited_in_current_scope').r1().r11()
    inh.sig('is_trap_inherited_in_current_scope', ret='r', ensures=[
        C('C16 exit-trap-always-inherited', 'signal is Exit ==> r'),
        C('C16 signals-always-inherited', 'signal is Signal ==> r')])
    u.add(inh)
    f = tr.method_anywhere('invoke_trap_handler').r1().r3().r11()
    fn = 'invoke_trap_handler'
    f.sig(fn, ret='res', ensures=[
        C('C16 status-preserved', 'final(self).last_exit_status == old(self).last_exit_status'),
        C('C16,C18 stack-balanced', 'final(self).call_stack.depth() == old(self).call_stack.depth()'),
        C('C16 never-reenters-itself', 'old(self).call_stack.active(signal) ==> final(self).runs() == old(self).runs()'),
        C('C16 blocked-delivery-runs-nothing', 'old(self).call_stack.suppressed() ==> final(self).runs() == old(self).runs()'),
        C('C16 at-most-once', 'final(self).runs().len() <= old(self).runs().len() + 1 && old(self).runs().is_prefix_of(final(self).runs())'),
        C('C16 runs-the-registered-command', '''final(self).runs().len() == old(self).runs().len() + 1
    ==> old(self).traps.handler(signal) is Some && final(self).runs().last().text == old(self).traps.handler(signal)->Some_0.command@'''),
        C('C16 exit-handler-runs-when-due', '(signal is Exit && exit_due(*old(self))) ==> final(self).runs().len() == old(self).runs().len() + 1'),
        C('C03 a-trap-handler-is-no-errexit-exempt-context-of-its-own-it-runs-under-the-exemption-of-the-interrupted-flow', 'final(self).runs().len() == old(self).runs().len() + 1 ==> final(self).runs().last().exempt == params.suppress_errexit'),
    ])
    u.add(f)
    g = tr.method_anywhere('on_exit').r1().r3().r11()
    g.sig('on_exit', ret='res', ensures=[
        C('C16 exit-hook-runs-handler-iff-due', '''if exit_due(*old(self)) {
    final(self).runs().len() == old(self).runs().len() + 1 && final(self).runs().drop_last() == old(self).runs()
        && final(self).runs().last().text == old(self).traps.handler(TrapSignal::Exit)->Some_0.command@
} else { final(self).runs() == old(self).runs() }'''),
        C('C16 status-preserved', 'final(self).last_exit_status == old(self).last_exit_status'),
        C('C16 stack-balanced', 'final(self).call_stack.depth() == old(self).call_stack.depth()'),
    ])
    u.add(g)
    d = ex.method_anywhere('run_dash_c_command').r1().r3().r11()
    d.replace('pub async fn run_dash_c_command<S: Into<String>>(', 'pub async fn run_dash_c_command(', 'R10', 'generic S: Into<String> instantiated at String') if 'pub async fn run_dash_c_command<S: Into<String>>(' in d.text else d.replace('fn run_dash_c_command<S: Into<String>>(', 'fn run_dash_c_command(', 'R10', 'generic S: Into<String> instantiated at String')
    d.replace('command: S,', 'command: String,', 'R10', 'generic S instantiated at String')
    d.replace('self.run_string(command, &source_info, &params)', 'self.run_string(&command, &source_info, &params)', 'R10', 'stub takes the command by reference (Into<String> at String is the identity)')
    d.sig('run_dash_c_command', ret='res', requires=[
        C('aux fresh-front-end', '!old(self).call_stack.active(TrapSignal::Exit)')], ensures=[
        C('C16 exit-hook-exactly-once-on-dash-c', '''res is Ok ==> ({
    let n = old(self).runs().len() as int;
    let t = final(self).runs();
    &&& t.len() >= n + 1 && t.take(n) == old(self).runs()
    &&& t[n].text == command@                                     // the -c command runs first
    &&& (t[n].exit_due_after ==> t.len() == n + 2 && t[n + 1].text == t[n].exit_cmd_after)   // then the EXIT handler, exactly once
    &&& (!t[n].exit_due_after ==> t.len() == n + 1)
})'''),
        C('C16 dash-c-stack-balanced', 'res is Ok ==> final(self).call_stack.depth() == old(self).call_stack.depth()'),
    ])
    u.add(d)
    u.raw('}\n#[verifier::external_body]\npub fn vx_default_params() -> ExecutionParameters { unimplemented!() }\n')
    # ---- source_file: the frame of the sourced script (R6 slice from the push to the end of the function)
    fn = 'source_file_tail'
    sf = ex.slice('source_file', r'^\s*self\.call_stack\s*$', None,
                  'fn source_file_tail(self_: &mut Shell, parse_result: Result<Program, ParseError>, source_info: &SourceInfo, params: &ExecutionParameters, call_type: ScriptCallType, script_positional_args: ScriptArgs) -> Result<ExecutionResult, Error>', fn)
    sf.r1().r3()
    sf.resub(r'\bself\b', 'self_', 'R6', 'slice wrapper: self -> self_', count=None)
    sf.sig(fn, ret='res', ensures=[C('C18,C16 the-frame-of-a-sourced-file-is-popped-on-every-exit', 'final(self_).call_stack.depth() == old(self_).call_stack.depth()')])
    u.add(sf)
    u.raw(FOOTER)
    u.assume('external_body', 'run_string / run_parsed_result carry an ASSUMED frame contract (call stack left as found, on Ok and on Err); enter/leave_trap_handler and start/end_command_string_mode carry the CallStack push/pop contracts proved in U19; CallStack, TrapHandlerConfig, SourceInfo, Rest are opaque')
    u.assume('uninterp', 'CallStack::active/suppressed/depth/top_is_command_string, TrapHandlerConfig::handler, Rest::runs (ghost log)')
    u.assume('stub', 'the interactive front-end, run_script, brush-shell entry.rs (tokio runtime, signals), "after all other output", exec, and `exit` inside nested constructs reaching the front-end are NOT verified')
    u.assume('assume_specification', 'Option::copied / Option::<u8>::unwrap_or_default (std documented behaviour; available so that a status restore written with them is verified rather than refused)')
    u.expected_min_fns = 8
    return u
