"""U3d: the nounset tolerance decision of ${#parameter} (brush-core/src/expansion.rs, ParameterLength arm; R6 slice of one statement):
a bare name is never tolerated."""
from vx.unit import Unit
from vx.extract import C

PROPS = ['C03']
HEADER = 'use vstd::prelude::*;\nverus! {\n'
FOOTER = '\n} // verus!\nfn main() {}\n'


def build(repo, findings):
    u = Unit('U3d', '${#name} under nounset: only a subscripted form on an existing variable tolerates an unset value', repo, ['C03'], safety_props=['C03'])
    ex = u.source('brush-core/src/expansion.rs')
    wd = u.source('brush-parser/src/word.rs')
    u.raw(HEADER)
    u.add(wd.item(r'^pub enum Parameter ', 'Parameter').r1(keep_derive=()))
    u.prelude('errexit/length_unset_spec.rs')
    fn = 'length_tolerates_unset'
    f = ex.slice('expand_parameter_expr', r'^\s*let allow_unset = match &parameter \{', r'^\s*let allow_unset = match &parameter \{',
                 'fn length_tolerates_unset(self_: &WordExpander, parameter: &Parameter) -> bool', fn, after_re=r'ParameterExpr::ParameterLength \{')
    f.r1()
    f.resub(r'self\.shell\.env\(\)\.get\((\w+)\)\.is_some\(\)', r'env_has(self_, \1)', 'R14', 'environment lookup -> stub (uninterpreted)', count=None)
    f.resub(r'match &parameter \{', 'match parameter {', 'R6', 'the wrapper receives the parameter by reference', count=None)
    f.resub(r'\n\}$', '\n    allow_unset\n}', 'R6', 'wrapper epilogue returning the live variable', count=1)
    f.sig(fn, ret='r', ensures=[
        C('C03 length-of-a-bare-name-never-tolerates-unset', 'r ==> (*parameter is NamedWithIndex || *parameter is NamedWithAllIndices)'),
        C('C03 subscripted-length-tolerates-unset-iff-the-variable-exists', '''match *parameter {
    Parameter::NamedWithIndex { name, .. } => r == self_.has_var(name@),
    Parameter::NamedWithAllIndices { name, .. } => r == self_.has_var(name@),
    _ => !r,
}'''),
    ])
    u.add(f)
    ex.require_text(r'let expansion = if allow_unset \{\s*self\.expand_parameter_allowing_unset\(&parameter, indirect\)\s*\.await\?\s*\} else \{\s*self\.expand_parameter\(&parameter, indirect\)\.await\?\s*\};', 'the decision selects between the tolerant and the strict expansion (unit U3b)')
    u.raw(FOOTER)
    u.assume('external_body', 'the environment lookup is a stub with an uninterpreted result')
    u.assume('uninterp', 'WordExpander::has_var')
    u.assume('stub', 'the other arms of expand_parameter_expr (which operator calls which wrapper) are NOT verified')
    u.expected_min_fns = 1
    return u
