"""U80: the loop of WordExpander::process_double_quoted_pieces (brush-core/src/expansion.rs, R6 slice) that appends the fields of one
expanded piece inside double quotes: whatever it adds — to the field being built or as fields of their own — is unsplittable."""
import re
from vx.unit import Unit
from vx.extract import C, ExtractError

PROPS = ['C04', 'C05']
HEADER = 'use vstd::prelude::*;\nverus! {\n'
FOOTER = '\n} // verus!\nfn main() {}\n'


def build(repo, findings):
    u = Unit('U80', 'inside double quotes every appended piece is unsplittable, also the first field that continues the one being built', repo, PROPS, safety_props=['C04', 'C05'])
    ex = u.source('brush-core/src/expansion.rs')
    u.raw(HEADER)
    u.add(ex.item(r'^enum ExpansionPiece ', 'ExpansionPiece').r1(keep_derive=()).r11_pub())
    u.add(ex.item(r'^struct WordField\(', 'WordField').r1(keep_derive=()).replace('struct WordField(Vec<ExpansionPiece>);', 'pub struct WordField(pub Vec<ExpansionPiece>);', 'R11', 'visibility widened (single-file crate)'))
    u.prelude('expansion/quoted_append_spec.rs')
    fn = 'append_quoted_fields'
    anchor = r'^\s*for \(i, WordField\((?:mut )?next_pieces\)\) in fields_to_append\.into_iter\(\)\.enumerate\(\) \{$'
    f = ex.slice('process_double_quoted_pieces', anchor, anchor, 'fn append_quoted_fields(fields: &mut Vec<WordField>, fields_to_append: Vec<WordField>)', fn)
    f.r1()
    m = re.search(r'for \(i, (WordField\((?:mut )?next_pieces\))\) in fields_to_append\.into_iter\(\)\.enumerate\(\) \{', f.text)
    if not m:
        raise ExtractError('unsupported: the append loop header changed shape')
    f.resub(re.escape(m.group(0)), 'let mut __rest = fields_to_append;\n    let mut __n: usize = 0;\n    while __rest.len() > 0 {\n        let i = __n;\n        __n += 1;\n        let %s = __rest.remove(0);' % m.group(1),
            'R12', 'consuming `for (i, PAT) in V.into_iter().enumerate()` -> counted `while` taking the front element (counter advanced at the top, so `continue` keeps its meaning)', count=1)
    f.resub(r'\bnext_pieces\s*\.into_iter\(\)\s*\.map\(\|piece\| piece\.make_unsplittable\(\)\)\s*\.collect\(\)', 'vx_all_unsplittable(next_pieces)', 'R14', 'map(make_unsplittable).collect() -> stub (every piece unsplittable, same number)', count=None)
    f.sig(fn, ensures=[
        C('C04,C05 whatever-is-added-inside-double-quotes-is-unsplittable-also-what-continues-the-field-being-built', 'quoted_tail(fsv(final(fields)@), fsv(old(fields)@))'),
    ])
    f.at_body_start(fn, 'let ghost old_f = fsv(fields@);\nproof { assert(old_f.len() > 0 ==> old_f.last().skip(old_f.last().len() as int) =~= Seq::<ExpansionPiece>::empty()); }')
    f.before_loop(fn, 0, 'proof { axiom_vec_len_fits(__rest); }\nlet ghost total = __rest@.len();')
    f.loop(0, fn, body_first='let ghost cur0 = fsv(fields@);\nlet ghost fields0 = fields@;', invariant=[
        C('aux', 'old_f == fsv(old(fields)@) && __n + __rest@.len() == total && total <= usize::MAX'),
        C('C04,C05 added-so-far-is-unsplittable', 'quoted_tail(fsv(fields@), old_f)'),
    ], decreases='__rest@.len()')
    f.before(r'^\s*last_pieces\.append\(&mut next_pieces\);', 'let ghost extra_g = next_pieces@;', fn_name=fn)
    f.before(r'^\s*continue;', '''proof {
    assert(fields0.len() > 0);
    assert(fsv(fields@) =~~= cur0.drop_last().push(cur0.last() + extra_g));
    lemma_glue(cur0, old_f, extra_g);
}''', fn_name=fn)
    f.before(r'^\s*fields\.push\(WordField\(next_pieces\)\);', 'let ghost extra_p = next_pieces@;', fn_name=fn)
    f.after_line(r'fields\.push\(WordField\(next_pieces\)\);', '''proof {
    assert(fsv(fields@) =~~= cur0.push(extra_p));
    lemma_push(cur0, old_f, extra_p);
}''', fn_name=fn)
    u.add(f)
    u.raw(FOOTER)
    u.assume('external_body', 'vx_all_unsplittable stands for map(make_unsplittable).collect() (make_unsplittable itself: U10)')
    u.assume('axiom', 'the length of a Vec fits a usize (Vec::len)')
    u.assume('stub', 'the concatenating branch before the loop (`"$*"`: iterator adapters with intersperse) is NOT under contract')
    u.expected_min_fns = 1
    return u
