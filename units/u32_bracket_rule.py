"""U32: the shape of a bracket expression in the glob-to-regex grammar (PEG rule `bracket_expression` of brush-parser/src/pattern.rs).
The rule is a macro invocation, not a function: its element sequence (and the two one-line sub-rules it names) is read into a Verus
constant on every run, and a small PEG-sequence semantics over that constant is proved equal, for every input string and position,
to the POSIX shape  '[' ['!'|'^'] [']'] members ']'  — which captures are bound included."""
import re
from vx.unit import Unit
from vx.extract import C, ExtractError

PROPS = ['C08']
HEADER = 'use vstd::prelude::*;\nverus! {\n'
FOOTER = '\n} // verus!\nfn main() {}\n'
RULES = {'invert_char': 'InvertChar', 'leading_close_bracket': 'LeadingCloseBracket', 'bracket_member': 'BracketMember'}
LABELS = {'invert': 'Invert', 'leading': 'Leading', 'rest': 'Rest', None: 'NoLabel'}
ELEM = re.compile(r'\s*(?:"(?P<lit>.)"|(?P<l1>\w+):\((?P<r1>\w+)\(\)(?P<q1>[?*])\)|(?:(?P<l2>\w+):)?(?P<r2>\w+)\(\)(?P<q2>[?*])?)')


def parse_rule(text):
    m = re.search(r'rule bracket_expression\(\) -> String =\n\s*(.*?) \{\?\n', text)
    if not m:
        raise ExtractError('bracket rule: `rule bracket_expression() -> String =` with a `{?` action not found')
    seq, pos, elems = m.group(1), 0, []
    while pos < len(seq):
        t = ELEM.match(seq, pos)
        if not t or t.end() == pos:
            raise ExtractError('bracket rule: unsupported element at %r' % seq[pos:])
        pos = t.end()
        if t.group('lit'):
            elems.append(('Lit', t.group('lit'), None, None))
        else:
            label, rule, q = (t.group('l1'), t.group('r1'), t.group('q1')) if t.group('r1') else (t.group('l2'), t.group('r2'), t.group('q2'))
            elems.append(({'?': 'Opt', '*': 'Star', None: 'One'}[q], None, RULES.get(rule, 'Other'), LABELS.get(label, 'OtherLabel')))
    m2 = re.search(r"rule invert_char\(\) -> bool =\n\s*\[((?:'.'\s*\|?\s*)+)\] \{ true \}", text)
    if not m2:
        raise ExtractError('bracket rule: `rule invert_char()` is not a character set')
    inv = re.findall(r"'(.)'", m2.group(1))
    m3 = re.search(r'rule leading_close_bracket\(\) -> String =\n\s*"(.)" \{', text)
    if not m3:
        raise ExtractError('bracket rule: `rule leading_close_bracket()` is not a one-character literal')
    return elems, inv, m3.group(1), seq


def chr_lit(c):
    return "'\\%s'" % c if c in "'\\" else "'%s'" % c


def build(repo, findings):
    u = Unit('U32', 'bracket expression: the PEG rule has the POSIX shape [ !^? ]? members ] for every input', repo, ['C08'], safety_props=['C08'])
    pp = u.source('brush-parser/src/pattern.rs')
    elems, inv, lead, seq = parse_rule(pp.text)
    u.raw(HEADER)
    u.prelude('patterns/bracket_rule_spec.rs')
    out = ['// GENERATED on every run from `rule bracket_expression()`, `rule invert_char()`, `rule leading_close_bracket()` of brush-parser/src/pattern.rs',
           '//   sequence read: %s' % seq,
           'pub open spec fn n_elems() -> int { %d }' % len(elems), 'pub open spec fn elem(i: int) -> Elem {']
    for k, (kind, lit, rule, label) in enumerate(elems):
        head = ('if i == %d' % k) if k == 0 else ('else if i == %d' % k)
        if k == len(elems) - 1:
            head = 'else' if k else ''
        body = 'Elem::Lit(%s)' % chr_lit(lit) if kind == 'Lit' else 'Elem::%s(Rule::%s, Label::%s)' % (kind, rule, label)
        out.append('    %s { %s }' % (head, body))
    out.append('}')
    out.append('pub open spec fn is_invert_char(c: char) -> bool { %s }' % (' || '.join('c == %s' % chr_lit(c) for c in inv) or 'false'))
    out.append('pub open spec fn leading_close_char() -> char { %s }' % chr_lit(lead))
    n = len(elems)
    out.append('pub open spec fn seq_match_%d(s: Seq<char>, pos: int, c: Caps) -> Option<(int, Caps)> { Some((pos, c)) }' % n)
    for k in range(n - 1, -1, -1):
        out.append('''pub open spec fn seq_match_%(k)d(s: Seq<char>, pos: int, c: Caps) -> Option<(int, Caps)> {
    match elem(%(k)d) {
        Elem::Lit(ch) => if 0 <= pos < s.len() && s[pos] == ch { seq_match_%(n)d(s, pos + 1, c) } else { None },
        Elem::One(r, l) => match rule_match(r, s, pos) { Some(p) => seq_match_%(n)d(s, p, bind(c, l, true, pos, p)), None => None },
        Elem::Opt(r, l) => match rule_match(r, s, pos) { Some(p) => seq_match_%(n)d(s, p, bind(c, l, true, pos, p)), None => seq_match_%(n)d(s, pos, bind(c, l, false, pos, pos)) },
        Elem::Star(r, l) => if r is BracketMember { seq_match_%(n)d(s, members_end(s, pos), bind(c, l, true, pos, members_end(s, pos))) } else { None },
    }
}''' % dict(k=k, n=k + 1))
    out.append('''pub proof fn bracket_rule_has_the_posix_shape(s: Seq<char>, pos: int)
    ensures
        //@ pattern.rs:bracket_expression:shape | C08 bracket-expression-is-open-then-negation-then-leading-close-bracket-then-members-then-close
        seq_match_0(s, pos, caps0()) == posix_bracket(s, pos),
{
    // the member axiom at the positions a two-character prefix can reach (explicit instances, no quantifier)
    axiom_member(s, pos + 1); axiom_member(s, pos + 2); axiom_member(s, pos + 3);
    axiom_member(s, members_end(s, pos + 1)); axiom_member(s, members_end(s, pos + 2)); axiom_member(s, members_end(s, pos + 3));
}''')
    u.raw('\n'.join(out) + '\n', origin='generated from brush-parser/src/pattern.rs rule bracket_expression')
    u.raw(FOOTER)
    u.notes.append('bracket rule: %d elements read: %s' % (len(elems), seq))
    u.assume('dependency', 'peg sequences: elements in order, `?` and `*` greedy and not re-entered; labels bind results. The action block (iterator chains assembling the regex text) and the member rules (ranges, classes, escapes) are NOT verified')
    u.assume('axiom', 'a bracket member never starts at `]` and consumes at least one character (read off rule single_char_bracket_member, char_class_expression, char_range)')
    u.assume('uninterp', 'member_match, members_end')
    u.assume('generated', 'the element constant is produced by units/u32_bracket_rule.py from the rule text (element forms outside the recognised set stop the run undecided)')
    u.expected_min_fns = 0
    u.counterexample = counterexample_for(repo)
    if len(elems) > 7:
        raise ExtractError('bracket rule: %d elements (the proof unfolds at most 7)' % len(elems))
    return u


# ---- failing-input search: a pattern on which the rule read from the source and the POSIX shape disagree, tried on the real binary
def _members_end(s, p):
    while p < len(s) and s[p] != ']':
        p += 1
    return p


def _peg(elems, inv, lead, s):
    pos, caps = 0, {'invert': False, 'leading': False, 'rest': (-1, -1)}
    for kind, lit, rule, label in elems:
        if kind == 'Lit':
            if pos < len(s) and s[pos] == lit:
                pos += 1
                continue
            return None
        if rule == 'InvertChar':
            ok = pos < len(s) and s[pos] in inv
            nxt = pos + 1
        elif rule == 'LeadingCloseBracket':
            ok = pos < len(s) and s[pos] == lead
            nxt = pos + 1
        elif rule == 'BracketMember':
            ok = pos < len(s) and s[pos] != ']'
            nxt = pos + 1
        else:
            return None
        if kind == 'Star':
            if rule != 'BracketMember':
                return None
            e = _members_end(s, pos)
            if label == 'Rest':
                caps['rest'] = (pos, e)
            pos = e
            continue
        if kind == 'One' and not ok:
            return None
        if label == 'Invert':
            caps['invert'] = ok
        elif label == 'Leading':
            caps['leading'] = ok
        if ok:
            pos = nxt
    return pos, caps


def _posix(s):
    if not s or s[0] != '[':
        return None
    p = 1
    inv = p < len(s) and s[p] in '!^'
    if inv:
        p += 1
    lead = p < len(s) and s[p] == ']'
    if lead:
        p += 1
    e = _members_end(s, p)
    if e < len(s) and s[e] == ']':
        return e + 1, {'invert': inv, 'leading': lead, 'rest': (p, e)}
    return None


def counterexample_for(repo):
    def cb(failure, workdir):
        import itertools, os, subprocess
        try:
            elems, inv, lead, _ = parse_rule(open(os.path.join(repo, 'brush-parser/src/pattern.rs')).read())
        except Exception:
            return None
        cand = None
        for n in range(2, 6):
            for t in itertools.product('a]!^', repeat=n - 1):
                s = '[' + ''.join(t)
                want = _posix(s)
                if want is None or want[0] != len(s):
                    continue
                if _peg(elems, inv, lead, s) != want:
                    cand = (s, want[1])
                    break
            if cand:
                break
        if not cand:
            return None
        pat, caps = cand
        members = set(pat[caps['rest'][0]:caps['rest'][1]]) | ({']'} if caps['leading'] else set())
        expect = dict((c, (c in members) != caps['invert']) for c in 'a]!^b')
        text = 'candidate pattern: %s   (POSIX: %s set {%s})\n' % (pat, 'complement of the' if caps['invert'] else 'the', ' '.join(sorted(members)))
        if not os.path.exists(os.path.join(repo, 'Cargo.lock')) or os.environ.get('VERIF_NO_REPLAY_BUILD'):
            failure.replay_note = text + 'not replayed: the tree under check is a source export without a build set-up'
            return None
        try:
            b = subprocess.run(['cargo', 'build', '--offline', '-q', '-p', 'brush-shell'], cwd=repo, capture_output=True, text=True, timeout=1800)
            if b.returncode != 0:
                failure.replay_note = text + 'not replayed: cargo build failed'
                return None
            bad = []
            for c, want in expect.items():
                out = subprocess.run([os.path.join(repo, 'target/debug/brush'), '--norc', '--noprofile', '-c', 'p=$1; case "$2" in $p) echo match;; *) echo no;; esac', '_', pat, c],
                                     capture_output=True, text=True, timeout=20).stdout.strip()
                if (out == 'match') != want:
                    bad.append('  case %r in %s): brush says %s, expected %s' % (c, pat, out or '(nothing)', 'match' if want else 'no'))
        except Exception as e:
            failure.replay_note = text + 'not replayed: %r' % e
            return None
        if not bad:
            failure.replay_note = text + 'replayed on target/debug/brush: all five subjects behave as expected — candidate does not fail'
            return None
        return text + 'replayed on %s/target/debug/brush (built from the tree under check):\n' % repo + '\n'.join(bad)
    return cb
