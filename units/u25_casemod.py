"""U25: WordExpander::pattern_to_first_char (brush-core/src/expansion.rs): ${x^} / ${x,} replace the first character and keep the
rest by characters; no byte slicing off a character boundary."""
from vx.unit import Unit
from vx.extract import C

PROPS = ['C01', 'C06']
HEADER = 'use vstd::prelude::*;\nuse vstd::string::*;\nverus! {\n'
FOOTER = '\n} // verus!\nfn main() {}\n'


def build(repo, findings):
    u = Unit('U25', 'case modification of the first character: result = mapped first char + the rest, never a slice inside a character', repo, ['C01', 'C06'], safety_props=['C01'])
    ex = u.source('brush-core/src/expansion.rs')
    u.raw(HEADER)
    u.prelude('std/utf8.rs')
    u.prelude('vars/casemod_spec.rs')
    fn = 'pattern_to_first_char'
    f = ex.method_anywhere(fn).r1()
    f.resub(r'\b(\w+)\.chars\(\)\.next\(\)', r'str_first_char(&\1)', 'R14', 's.chars().next() -> str_first_char stub', count=None)
    f.resub(r'\bresult\.extend\((\w+)\.chars\(\)\.skip\(1\)\)', r'string_extend_chars_skip1(&mut result, &\1)', 'R14', 'result.extend(s.chars().skip(1)) -> stub appending all characters but the first', count=None)
    f.resub(r'&(\w+)\[(.+?)\.\.\]', r'str_slice_from(&\1, \2)', 'R19', '&s[k..] -> str_slice_from(s, k): the panic condition (k not a char boundary) becomes a precondition', count=None)
    f.resub(r'&(\w+)\[\.\.(.+?)\]', r'str_slice_to(&\1, \2)', 'R19', '&s[..k] -> str_slice_to(s, k)', count=None)
    f.sig(fn, ret='res', requires=[C('aux transform-is-total', 'forall|c: char| transform.requires((c,))')], ensures=[
        C('C06 not-applicable-leaves-the-value', 'applicable(s@, pattern) == Ok::<bool, error::Error>(false) ==> res is Ok && res->Ok_0@ == s@'),
        C('C06 rest-of-the-value-is-kept-by-characters', '(res is Ok && s@.len() > 0) ==> res->Ok_0@.len() >= 1 && (res->Ok_0@ == s@ || res->Ok_0@.skip(1) == s@.skip(1))'),
        C('C06 pattern-error-propagates', 'applicable(s@, pattern) is Err ==> res is Err'),
    ])
    f.at_body_start(fn, 'broadcast use axiom_char_to_string;\nproof { lemma_first_char_boundary(s@); lemma_boundary_unique_all(s@); }')
    f.before(r'^\s*return Ok\(result\);', 'proof { assert(result@.skip(1) =~= s@.skip(1)); }', fn_name=fn, optional=True)
    u.add(f)
    u.raw(FOOTER)
    u.assume('external_body', 'patterns::Pattern::is_empty / exactly_matches are stubs with uninterpreted results; str_first_char and string_extend_chars_skip1 (R14) state std\'s documented behaviour of chars().next() / extend(chars().skip(1)); R19 slicing stubs carry the panic condition as a precondition')
    u.assume('uninterp', 'Pattern::empty_spec, Pattern::matches_spec')
    u.assume('axiom', 'char::to_string() is the one-character string')
    u.assume('stub', 'the case mapping itself (char::to_uppercase / to_lowercase, passed in as `transform`) is an arbitrary total function here; pattern_to_string (whole-value forms ${x^^}) uses fancy_regex replace_all with a closure and is NOT verified')
    u.expected_min_fns = 1
    return u
