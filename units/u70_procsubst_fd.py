"""U70: the descriptor search at the end of setup_process_substitution (brush-core/src/interp.rs, R6 slice): the number handed to
`<( .. )` / `>( .. )` is the highest one from 63 down that the command's own descriptor table does not hold — a function of that table
alone, so that running the same command again takes the same number again instead of one more descriptor each time."""
from vx.unit import Unit
from vx.extract import C

PROPS = ['C18', 'C03', 'C01']
HEADER = 'use vstd::prelude::*;\nverus! {\n'
FOOTER = '\n} // verus!\nfn main() {}\n'


def build(repo, findings):
    u = Unit('U70', 'process substitution: the descriptor number is the highest free one of the command\'s table, from 63 down', repo, PROPS, safety_props=['C01'])
    interp = u.source('brush-core/src/interp.rs')
    u.raw(HEADER)
    u.raw('''pub mod error { use vstd::prelude::*; #[verifier::external_body] pub struct Error { _p: u8 }
    #[verifier::external_body] pub fn unimp<T>(msg: &str) -> (r: Result<T, Error>) ensures r is Err { unimplemented!() } }
#[verifier::external_body] pub struct Shell { _p: u8 }
#[verifier::external_body] pub struct OpenFiles { _p: u8 }
#[verifier::external_body] pub struct OpenFile { _p: u8 }
pub struct ExecutionParameters { pub open_files: OpenFiles }
impl OpenFiles {
    pub uninterp spec fn fds(&self) -> Set<int>;
    #[verifier::external_body] pub fn contains_fd(&self, fd: i32) -> (r: bool) ensures r == self.fds().contains(fd as int) { unimplemented!() }
}
impl Shell {
    // the shell's own (persistent) table: whatever it holds must not influence the choice
    #[verifier::external_body] pub fn persistent_open_files(&self) -> &OpenFiles { unimplemented!() }
}
''')
    fn = 'pick_substitution_fd'
    f = interp.slice('setup_process_substitution', r'^\s*let mut candidate_fd_num = ', None,
                     'fn pick_substitution_fd(shell: &Shell, params: &ExecutionParameters, target_file: OpenFile) -> Result<(i32, OpenFile), error::Error>', fn)
    f.r1()
    f.sig(fn, ret='res', ensures=[
        C('C18 the-number-is-the-highest-from-63-down-that-the-commands-own-table-does-not-hold', '''res is Ok ==> ({ let n = res->Ok_0.0 as int;
    1 <= n <= 63 && !params.open_files.fds().contains(n) && (forall|k: int| n < k <= 63 ==> params.open_files.fds().contains(k)) })'''),
        C('C18 it-fails-only-when-every-number-is-taken', 'res is Err ==> (forall|k: int| 1 <= k <= 63 ==> params.open_files.fds().contains(k))'),
    ])
    f.loop(0, fn, invariant=[
        C('aux', '1 <= candidate_fd_num <= 63'),
        C('C18 every-number-above-the-candidate-is-taken', 'forall|k: int| candidate_fd_num < k <= 63 ==> params.open_files.fds().contains(k)'),
    ], decreases='candidate_fd_num')
    u.add(f)
    # ---- the head: the subshell of a process substitution is a plain clone of the shell, its parameters those of the command
    from .common import runtime_options_item
    runtime_options_item(u)
    u.raw('''pub uninterp spec fn clone_spec(sh: Shell) -> Shell;
impl Clone for Shell { #[verifier::external_body] fn clone(&self) -> (r: Self) ensures r == clone_spec(*self) { unimplemented!() } }
impl Shell {
    #[verifier::external_body] pub fn options(&self) -> &RuntimeOptions { unimplemented!() }
    // handing out a mutable view of the options: whatever is done through it, the shell is no longer known to be the clone it was
    #[verifier::external_body] pub fn options_mut(&mut self) -> &mut RuntimeOptions { unimplemented!() }
}
pub enum ProcessGroupPolicy { NewProcessGroup, SameProcessGroup }
pub struct ChildParameters { pub suppress_errexit: bool, pub process_group_policy: ProcessGroupPolicy }
impl ExecutionParameters { #[verifier::external_body] pub fn clone_child(&self) -> (r: ChildParameters) ensures r.suppress_errexit == self.vx_suppress() { unimplemented!() }
    pub uninterp spec fn vx_suppress(&self) -> bool; }
''')
    fn2 = 'process_substitution_subshell'
    g = interp.slice('setup_process_substitution', r'^\s*let mut subshell = shell\.clone\(\);', r'^\s*child_params\.process_group_policy = ',
                     'fn process_substitution_subshell(shell: &Shell, params: &ExecutionParameters) -> (Shell, ChildParameters)', fn2)
    g.r1()
    g.resub(r'\bparams\.clone\(\)', 'params.clone_child()', 'R14', 'derived Clone of ExecutionParameters -> stub (projection: the exemption flag and the process-group policy)', count=1)
    g.resub(r'\n\}$', '\n    (subshell, child_params)\n}', 'R6', 'wrapper epilogue: the two live variables', count=1)
    g.sig(fn2, ret='r', ensures=[
        C('C03 the-body-of-a-process-substitution-runs-in-a-plain-copy-of-the-shell-with-its-options-errexit-included', 'r.0 == clone_spec(*shell)'),
        C('C03 and-under-the-errexit-exemption-of-the-command-it-belongs-to', 'r.1.suppress_errexit == params.vx_suppress()'),
    ])
    u.add(g)
    u.raw(FOOTER)
    u.assume('external_body', 'OpenFiles is opaque with an abstract set of descriptor numbers; error::unimp returns Err')
    u.assume('uninterp', 'OpenFiles::fds, clone_spec, ExecutionParameters::vx_suppress')
    u.assume('stub', 'the rest of setup_process_substitution (pipe, subshell task) and what `exec` persists are outside this unit (U28)')
    u.expected_min_fns = 2
    return u
