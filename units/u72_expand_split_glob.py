"""U72: WordExpander::full_expand_with_splitting (brush-core/src/expansion.rs), whole function: the words of a command argument are the
basic expansion of the word, split into fields, each field then replaced — in order — by its own text (noglob) or by its pathname
expansion; an error of any step is the error of the whole.  The three steps are abstract (U63 / U11 / U69 look inside them)."""
from vx.unit import Unit
from vx.extract import C

PROPS = ['C05', 'C04']
HEADER = 'use vstd::prelude::*;\nuse vstd::std_specs::iter::IteratorSpec;\nverus! {\n'
FOOTER = '\n} // verus!\nfn main() {}\n'


def build(repo, findings):
    u = Unit('U72', 'expand, split, glob: every field contributes its words in order, nothing is dropped or reordered', repo, PROPS, safety_props=[])
    ex = u.source('brush-core/src/expansion.rs')
    u.raw(HEADER)
    u.raw('''pub mod error { use vstd::prelude::*; #[verifier::external_body] pub struct Error { _p: u8 } }
#[verifier::external_body] pub struct Shell { _p: u8 }
#[verifier::external_body] pub struct Expansion { _p: u8 }
#[verifier::external_body] pub struct WordField { _p: u8 }
pub struct RuntimeOptionsP { pub disable_filename_globbing: bool }
pub struct WordExpander { pub shell: Shell, pub disable_pathname_expansion: bool }
pub uninterp spec fn basic_spec(ex: WordExpander, word: Seq<char>) -> Result<(Expansion, WordExpander), error::Error>;   // value and the expander afterwards (expansions assign)
pub uninterp spec fn split_spec(ex: WordExpander, e: Expansion) -> Seq<WordField>;
pub uninterp spec fn paths_spec(ex: WordExpander, f: WordField) -> Result<Vec<String>, error::Error>;
pub uninterp spec fn field_string(f: WordField) -> String;
pub uninterp spec fn noglob_opt(sh: Shell) -> bool;
impl Shell { #[verifier::external_body] pub fn options(&self) -> (r: RuntimeOptionsP) ensures r.disable_filename_globbing == noglob_opt(*self) { unimplemented!() } }
impl WordExpander {
    #[verifier::external_body]
    pub fn basic_expand(&mut self, word: &str) -> (r: Result<Expansion, error::Error>)
        ensures match basic_spec(*old(self), word@) { Ok((e, ex)) => r == Ok::<Expansion, error::Error>(e) && *final(self) == ex, Err(_) => r is Err } { unimplemented!() }
    #[verifier::external_body]
    pub fn split_fields(&self, e: Expansion) -> (r: Vec<WordField>) ensures r@ == split_spec(*self, e) { unimplemented!() }
    #[verifier::external_body]
    pub fn expand_pathnames_in_field(&self, f: WordField) -> (r: Result<Vec<String>, error::Error>) ensures r == paths_spec(*self, f) { unimplemented!() }
}
#[verifier::external_body] pub fn wordfield_to_string(f: WordField) -> (r: String) ensures r == field_string(f) { unimplemented!() }     // From<WordField> for String
#[verifier::external_body] pub fn vec_extend(v: &mut Vec<String>, more: Vec<String>) ensures final(v)@ == old(v)@ + more@ { unimplemented!() }   // Vec::extend(Vec)
// POSIX 2.6: "... field splitting ... pathname expansion ... shall be performed ... in that order"; each field stands where it stood
pub open spec fn words_of(ex: WordExpander, fields: Seq<WordField>, noglob: bool) -> Option<Seq<String>> decreases fields.len() {
    if fields.len() == 0 { Some(Seq::empty()) }
    else { match words_of(ex, fields.drop_last(), noglob) {
        None => None,
        Some(w) => if noglob { Some(w.push(field_string(fields.last()))) } else { match paths_spec(ex, fields.last()) { Ok(p) => Some(w + p@), Err(_) => None } },
    } }
}
pub broadcast proof fn lemma_words_push(ex: WordExpander, fields: Seq<WordField>, f: WordField, noglob: bool)
    ensures #[trigger] words_of(ex, fields.push(f), noglob) == (match words_of(ex, fields, noglob) {
        None => None::<Seq<String>>,
        Some(w) => if noglob { Some(w.push(field_string(f))) } else { match paths_spec(ex, f) { Ok(p) => Some(w + p@), Err(_) => None } } }),
{ assert(fields.push(f).drop_last() =~= fields); }
// once a field fails, the whole fails
pub proof fn lemma_none_extends(ex: WordExpander, fields: Seq<WordField>, k: int, noglob: bool)
    requires 0 <= k <= fields.len(), words_of(ex, fields.take(k), noglob) is None,
    ensures words_of(ex, fields, noglob) is None,
    decreases fields.len() - k,
{
    if k < fields.len() {
        lemma_words_push(ex, fields.take(k), fields[k], noglob);
        assert(fields.take(k + 1) =~= fields.take(k).push(fields[k]));
        lemma_none_extends(ex, fields, k + 1, noglob);
    } else { assert(fields.take(k) =~= fields); }
}
''')
    fn = 'full_expand_with_splitting'
    f = ex.method_anywhere(fn).r1().r3()
    f.resub(r'\bString::from\(field\)', 'wordfield_to_string(field)', 'R14', 'From<WordField> for String -> stub', count=None)
    f.resub(r'\bresult\.extend\((.*)\);', r'vec_extend(&mut result, \1);', 'R14', 'Vec::extend(Vec) -> stub (appends in order)', count=None)
    f.sig(fn, ret='res', attrs=['#[verifier::loop_isolation(false)]'], ensures=[
        C('C05,C04 the-words-are-those-of-the-fields-in-order-each-field-in-its-place', '''match basic_spec(*old(self), word@) {
    Err(_) => res is Err,
    Ok((e, ex)) => match words_of(ex, split_spec(ex, e), ex.disable_pathname_expansion || noglob_opt(ex.shell)) {
        Some(w) => res is Ok && res->Ok_0@ == w && *final(self) == ex,
        None => res is Err,
    },
}'''),
    ])
    f.at_body_start(fn, 'broadcast use lemma_words_push;')
    f.before_loop(fn, 0, 'let ghost ex0 = *self;\nlet ghost all = fields@;\nproof { assert(all.take(0) =~= Seq::<WordField>::empty()); }')
    f.loop(0, fn, iter_name='it', invariant=[
        C('aux', '*self == ex0 && it.index@ + it.iter.remaining().len() == all.len()'),
        C('aux', 'forall|i: int| 0 <= i < it.iter.remaining().len() ==> (#[trigger] it.iter.remaining()[i]) == all[it.index@ + i]'),
        C('C05,C04 words-so-far-are-those-of-the-fields-so-far', 'words_of(ex0, all.take(it.index@ as int), ex0.disable_pathname_expansion || noglob_opt(ex0.shell)) == Some(result@)'),
    ], body_first='''broadcast use lemma_words_push;
proof {
    let i = it.index@ as int;
    let ng = ex0.disable_pathname_expansion || noglob_opt(ex0.shell);
    assert(all.take(i + 1) =~= all.take(i).push(all[i]));
    if !ng && paths_spec(ex0, all[i]) is Err { lemma_none_extends(ex0, all, i + 1, ng); }
}''')
    f.after_loop(fn, 0, 'proof { assert(all.take(all.len() as int) =~= all); }')
    u.raw('impl WordExpander {')
    u.add(f)
    u.raw('}\n')
    u.raw(FOOTER)
    u.assume('external_body', 'basic_expand, split_fields (U11), expand_pathnames_in_field (U69) and From<WordField> for String are abstract steps with uninterpreted results; Vec::extend appends in order')
    u.assume('uninterp', 'basic_spec, split_spec, paths_spec, field_string, noglob_opt')
    u.expected_min_fns = 1
    return u
