"""U4j: the Subshell arm of CompoundCommand::execute (brush-core/src/interp.rs), an R6 slice."""
from vx.extract import C
from .exec_common import exec_unit, begin_ast, end_ast, FOOTER

PROPS = ['C02', 'C03', 'C16', 'C01']


def build(repo, findings):
    u, interp = exec_unit('U4j', 'subshell arm: any control flow becomes a plain status', repo,
                          ['CompoundList'], 'pub enum Node { List(ast::CompoundList) }\n', props=('C02', 'C03'))
    begin_ast(u)
    end_ast(u, 'C02')
    u.prelude('exec/subshell_spec.rs')
    fn = 'subshell_arm'
    f = interp.block_slice(r'^\s*Self::Subshell\(ast::SubshellCommand \{ list, \.\. \}\) => \{$',
                           'fn subshell_arm(shell: &mut Shell, params: &ExecutionParameters, list: &ast::CompoundList) -> Result<ExecutionResult, error::Error>', fn)
    f.r1().r3()
    f.resub(r'^[ \t]*let mut stderr = params\.stderr\(shell\);\n', '', 'R2', 'stderr handle used only by the dropped diagnostic', count=None)
    f.resub(r'^[ \t]*let _ = shell\.display_error\([^;]*\);\n', '', 'R2', 'diagnostic whose result is discarded dropped', count=None)
    f.sig(fn, ret='res', ensures=[
        C('C02 subshell-flow-normal', 'res is Ok && res->Ok_0.next_control_flow is Normal'),
        C('C02,C03 subshell-runs-its-list-under-the-exemption-of-its-context-and-hands-back-its-status', 'res is Ok ==> res->Ok_0.exit_code == list_code(*list, clone_spec(*old(shell)), params.suppress_errexit)'),
        C('C02 subshell-parent-untouched', '*final(shell) == *old(shell)'),
    ])
    u.add(f)
    u.raw(FOOTER)
    u.assume('external_body', 'Shell::clone, the list child (result a function of list, shell-before, flag) and Error::into_result are stubs with uninterpreted results')
    u.assume('uninterp', 'clone_spec, exec_spec, into_result_spec')
    u.expected_min_fns = 15
    return u
