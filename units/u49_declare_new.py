"""U49: the branch of DeclareCommand::process_declaration (brush-builtins/src/declare.rs) that creates a variable (R6 block slice of
the else branch): scope of the new variable and where its export attribute comes from."""
from vx.unit import Unit
from vx.extract import C
from .common import replay_scripts

PROPS = ['C09']
HEADER = 'use vstd::prelude::*;\nverus! {\n'
FOOTER = '\n} // verus!\nfn main() {}\n'
A0, A1 = 'old(context).shell.env.adds@', 'final(context).shell.env.adds@'


def build(repo, findings):
    u = Unit('U49', 'a declaration that creates a variable: scope, and the export attribute a new local inherits', repo, ['C09'], safety_props=['C09'])
    dc = u.source('brush-builtins/src/declare.rs')
    va = u.source('brush-core/src/variables.rs')
    va.require_text(r'pub enum ShellValueUnsetType \{\s*(///[^\n]*\n\s*)*Untyped,\s*(///[^\n]*\n\s*)*AssociativeArray,\s*(///[^\n]*\n\s*)*IndexedArray,\s*\}', 'enum ShellValueUnsetType as projected')
    va.require_text(r'pub struct ShellVariable \{(?:[^}]|\n)*?\n\s*value: ShellValue,(?:[^}]|\n)*?\n\s*exported: bool,(?:[^}]|\n)*?\n\s*readonly: bool,', 'projected fields ShellVariable.value / exported / readonly')
    dc.require_text(r'\n\s*make_indexed_array: MakeIndexedArrayFlag,', 'projected field DeclareCommand.make_indexed_array')
    dc.require_text(r'\n\s*make_associative_array: MakeAssociativeArrayFlag,', 'projected field DeclareCommand.make_associative_array')
    u.raw(HEADER)
    u.add(dc.item(r'^enum DeclareVerb ', 'DeclareVerb').r1().r11_pub())
    u.prelude('vars/declare_new_spec.rs')
    fn = 'declare_new_variable'
    f = dc.block_slice(r'^\s*\} else \{$(?=\n\s*let unset_type = if self\.make_indexed_array\.is_some\(\) \{)',
                       'fn declare_new_variable(self_: &DeclareCommand, context: &mut ExecutionContext, verb: DeclareVerb, create_var_local: bool, name: String, name_is_array: bool, initial_value: Option<ShellValueLiteral>) -> Result<(), brush_core::Error>',
                       fn, within_fn='process_declaration', wrap=('{', '; Ok(()) }'))
    f.r1()
    f.resub(r'\bself\b', 'self_', 'R6', 'slice wrapper: self -> self_', count=None)
    f.resub(r'context\s*\.shell\s*\.env\(\)\s*\.get\(name\.as_str\(\)\)\s*\.is_some_and\(\|\(_, shadowed\)\| shadowed\.is_exported\(\)\)', 'vx_visible_is_exported(context, name.as_str())', 'R14', 'Option::is_some_and(closure) on the visible variable -> stub', count=None)
    f.resub(r'\bcontext\.shell\.options\(\)\.', 'context.shell.options.', 'R22', 'accessor inlined', count=None)
    E1 = '(create_var_local && old(context).shell.env.visible_exported@.contains(name@))'
    f.sig(fn, ret='res', ensures=[
        C('C09 a-declaration-creates-one-variable-local-when-asked-global-otherwise', 'res is Ok ==> %s.len() == %s.len() + 1 && %s.last().0 == name@ && %s.last().2 == (if create_var_local { EnvironmentScope::Local } else { EnvironmentScope::Global })' % (A1, A0, A1, A1)),
        C('C09 a-new-local-starts-with-the-export-attribute-of-the-variable-it-shadows-then-the-flags-apply', '''res is Ok ==> ({
    let e2 = self_.exported_before(%s);
    let v = %s.last().1;
    if old(context).shell.options.export_variables_on_modification { v.exported == self_.exported_after(verb, e2) || v.exported == self_.exported_after(verb, true) }
    else { v.exported == self_.exported_after(verb, e2) }
})''' % (E1, A1)),
    ])
    u.add(f)
    u.raw(FOOTER)
    u.assume('external_body', 'apply_attributes_before_update / after_update (effect on the export attribute: uninterpreted functions of the flags), ShellVariable::new / assign, Env::add (logged), vx_visible_is_exported')
    u.assume('uninterp', 'DeclareCommand::exported_before / exported_after, ShellValue::array_spec, Env::visible_exported')
    u.assume('stub', 'the branch for an existing variable, declaration_to_name_and_value and the display paths are NOT covered by this unit')
    u.expected_min_fns = 1
    u.counterexample = replay_scripts(repo, [
        ('export x=1; f() { local x=2; env | grep "^x="; declare -p x; }; f; declare -p x', 'x=2\ndeclare -x x="2"\ndeclare -x x="1"\n'),
        ('export x=1; f() { local x; declare -p x; env | grep "^x="; x=5; env | grep "^x="; }; f', 'declare -x x\nx=1\nx=5\n'),
        ('x=1; f() { local x=2; env | grep "^x=" || echo none; }; f', 'none\n'),
    ])
    return u
