"""Registry: unit id -> (builder, properties served); property id -> info for the evidence file."""
from . import u01_results

UNITS = {
    'U1': (u01_results.build, u01_results.PROPS),
}

PROPERTIES = {
    'C01': {'level': 'proof'},
    'C02': {'level': 'proof'},
    'C03': {'level': 'proof'},
}
