"""Registry: unit id -> (builder, properties served); property id -> info for the evidence file."""
from . import u13_env, u11_split_fields, u10_literal_escape, u02_cf_builtins, u03_errexit, u01_results, u05_arith_eval, u06_arith_literal, u20_spans, u04a_while, u04e_andor, u04d_if, u04c_arithfor, u04g_list, u04h_program, u04f_case, u04b_for, u04i_fntail, u04j_subshell, u04k_pipeline, u15_fd_table, u16_quoting

UNITS = {
    'U1': (u01_results.build, u01_results.PROPS),
    'U2': (u02_cf_builtins.build, u02_cf_builtins.PROPS),
    'U3': (u03_errexit.build, u03_errexit.PROPS),
    'U4a': (u04a_while.build, u04a_while.PROPS),
    'U4b': (u04b_for.build, u04b_for.PROPS),
    'U4c': (u04c_arithfor.build, u04c_arithfor.PROPS),
    'U4d': (u04d_if.build, u04d_if.PROPS),
    'U4e': (u04e_andor.build, u04e_andor.PROPS),
    'U4f': (u04f_case.build, u04f_case.PROPS),
    'U4g': (u04g_list.build, u04g_list.PROPS),
    'U4h': (u04h_program.build, u04h_program.PROPS),
    'U4i': (u04i_fntail.build, u04i_fntail.PROPS),
    'U4j': (u04j_subshell.build, u04j_subshell.PROPS),
    'U4k': (u04k_pipeline.build, u04k_pipeline.PROPS),
    'U5': (u05_arith_eval.build, u05_arith_eval.PROPS),
    'U6': (u06_arith_literal.build, u06_arith_literal.PROPS),
    'U10': (u10_literal_escape.build, u10_literal_escape.PROPS),
    'U11': (u11_split_fields.build, u11_split_fields.PROPS),
    'U13': (u13_env.build, u13_env.PROPS),
    'U15': (u15_fd_table.build, u15_fd_table.PROPS),
    'U16': (u16_quoting.build, u16_quoting.PROPS),
    'U20': (u20_spans.build, u20_spans.PROPS),
}

PROPERTIES = {
    'C01': {'level': 'proof'},
    'C02': {'level': 'proof'},
    'C03': {'level': 'proof'},
    'C04': {'level': 'proof'},
    'C05': {'level': 'proof'},
    'C07': {'level': 'proof'},
    'C08': {'level': 'proof'},
    'C09': {'level': 'proof'},
    'C10': {'level': 'proof'},
    'C13': {'level': 'proof'},
    'C18': {'level': 'proof'},
    'C19': {'level': 'proof'},
}
