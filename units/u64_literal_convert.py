"""U64: ShellVariable::convert_value_literal_for_assignment and convert_value_str_for_assignment (brush-core/src/variables.rs): the
attribute transforms touch the values of a literal, each on its own, and never the keys, the number or the order of the elements of an
array literal.  The closure of `.into_iter().map(closure).collect()` is hoisted into a function of its own (R31) and is real code."""
import re
from vx.unit import Unit
from vx.extract import C, ExtractError
from .common import replay_scripts

PROPS = ['C13', 'C09']
HEADER = 'use vstd::prelude::*;\nverus! {\n'
FOOTER = '\n} // verus!\nfn main() {}\n'


def build(repo, findings):
    u = Unit('U64', 'attribute transforms change the values of a literal, never the keys or the shape of an array literal', repo, PROPS, safety_props=[])
    vs = u.source('brush-core/src/variables.rs')
    u.raw(HEADER)
    u.add(vs.item(r'^pub enum ShellValueLiteral ', 'ShellValueLiteral').r1(keep_derive=()))
    u.add(vs.item(r'^pub struct ArrayLiteral\(', 'ArrayLiteral').r1(keep_derive=()))
    u.prelude('vars/literal_convert_spec.rs')
    fn = 'convert_value_literal_for_assignment'
    f = vs.method_anywhere(fn).r1()
    m = re.search(r'\.into_iter\(\)\s*\.map\(\|\((mut )?(\w+), (mut )?(\w+)\)\| (.*?)\)\s*\.collect\(\)', f.text, re.S)
    if not m:
        raise ExtractError('unsupported: %s: no `.into_iter().map(|(k, v)| ..).collect()` over the literal\'s elements' % fn)
    k, v, body = m.group(2), m.group(4), m.group(5).strip()
    if body.endswith(','):
        body = body[:-1]
    hoisted = '''// R31: the closure `|(%s%s, %s%s)| ..` of convert_value_literal_for_assignment hoisted into a method (body text unchanged)
pub open spec fn map_element_post(v: ShellVariable, a: (Option<String>, String), b: (Option<String>, String)) -> bool { pair_converted(v, a, b) }
impl ShellVariable {
pub fn map_element(&self, __p: (Option<String>, String)) -> (r: (Option<String>, String))
    ensures
        //@ variables.rs:map_element:ensures#0 | C13,C09 an-attribute-transform-changes-the-value-of-an-element-and-leaves-its-key-alone
        map_element_post(*self, __p, r),
{
    let (%s%s, %s%s) = __p;
    %s
}
}
''' % (m.group(1) or '', k, m.group(3) or '', v, m.group(1) or '', k, m.group(3) or '', v, body)
    f.resub(re.escape(m.group(0)), '.vx_identity()', 'R31', 'map(closure).collect() -> the closure hoisted into map_element, the call becomes the elementwise stub', count=1)
    f.resub(r'literals\s*\.0\s*\.vx_identity\(\)', 'vx_map_collect(self, literals.0)', 'R31', 'elementwise application stub', count=1)
    f.sig(fn, ret='r', ensures=[
        C('C09 a-scalar-is-transformed-as-the-attributes-say', 'value is Scalar ==> r is Scalar && r->Scalar_0@ == conv_spec(*self, value->Scalar_0@)'),
        C('C13,C09 an-array-literal-keeps-its-keys-its-length-and-its-order', '''value is Array ==> r is Array && r->Array_0.0@.len() == value->Array_0.0@.len()
        && (forall|i: int| 0 <= i < value->Array_0.0@.len() ==> pair_converted(*self, value->Array_0.0@[i], #[trigger] r->Array_0.0@[i]))'''),
    ])
    g = vs.method_anywhere('convert_value_str_for_assignment').r1()
    g.resub(r'\bmut s: String\b', 's_: String', 'R29', '`mut` by-value parameter -> plain parameter plus a local', count=1)
    g.at_body_start('convert_value_str_for_assignment', 'let mut s = s_;')
    g.sig('convert_value_str_for_assignment', ret='r', ensures=[C('C09 a-string-is-transformed-with-the-attributes-of-the-variable', 'r@ == conv_spec(*self, s_@)')])
    u.raw(hoisted, origin='hoisted from %s fn %s' % (vs.rel, fn))
    u.raw('impl ShellVariable {')
    u.add(g)
    u.add(f)
    u.raw('}\n')
    u.raw(FOOTER)
    u.assume('external_body', 'ShellVariable is opaque; apply_value_transforms (uninterpreted result: U8 for the integer attribute, U25 for case), is_treated_as_integer and get_update_transform are stubs')
    u.assume('stub', 'vx_map_collect: `into_iter().map(f).collect()` applies f to every element in order (std), with f = the hoisted closure')
    u.assume('uninterp', 'transform_spec, int_spec, update_transform_spec')
    u.expected_min_fns = 3
    u.counterexample = replay_scripts(repo, [
        ('declare -Au m=([Key]=other [key]=val); declare -p m | sort; eval "$(declare -p m | sed s/m=/n=/)"; echo "${#n[@]}"', 'declare -Au m=([Key]="OTHER" [key]="VAL" )\n2\n'),
    ])
    return u
