"""U8 indexed-key + U22 int-append (brush-core/src/variables.rs)."""
from vx.unit import Unit
from vx.extract import C

PROPS = ['C06', 'C07', 'C01']
HEADER = '#![feature(allocator_api)]\nuse vstd::prelude::*;\nuse vstd::std_specs::cmp::OrdSpec;\nuse std::collections::BTreeMap;\nverus! {\n'
FOOTER = '\n} // verus!\nfn main() {}\n'


def build(repo, findings):
    u = Unit('U8', 'negative array subscripts; integer-attribute append', repo, ['C06', 'C07'], safety_props=['C01', 'C06', 'C07'])
    src = u.source('brush-core/src/variables.rs')
    er = u.source('brush-core/src/error.rs')
    er.require_text(r'\bArrayIndexOutOfRange\(String\)', 'projected variant ErrorKind::ArrayIndexOutOfRange')
    u.raw(HEADER)
    u.prelude('std/int_ops.rs')
    u.prelude('vars/spec.rs')
    f = src.item(r'^fn get_key_for_indexed_array\(', 'get_key_for_indexed_array').r1().r11()
    f.resub(r'\b(\w+)\.parse::<i64>\(\)\.unwrap_or\(0\)', r'parse_i64_or_0(\1)', 'R14', 'call chain E.parse::<i64>().unwrap_or(0) -> stub parse_i64_or_0(E)', count=None)
    f.sig(ret='res', ensures=[
        C('C06 nonnegative-subscript-is-itself', 'parse_or_0(index_str@) >= 0 ==> res == Ok::<u64, error::Error>(parse_or_0(index_str@) as u64)'),
        C('C06 negative-subscript-counts-from-past-highest-index', '''forall|pe: u64| (parse_or_0(index_str@) < 0 && past_end(btree_keys(values), pe) && pe <= i64::MAX as u64) ==>
    (if parse_or_0(index_str@) + pe >= 0 { res == Ok::<u64, error::Error>((parse_or_0(index_str@) + pe) as u64) } else { res is Err })'''),
    ])
    f.at_body_start('get_key_for_indexed_array', 'broadcast use axiom_btree_max_u64;')
    u.add(f)
    # U22: the three integer-append statements (R6 statement slices)
    a = src.slice('assign', r'^\s*let int_value = base\b', r';$',
                  'fn int_append_scalar(base: &String, suffix: &String) -> i64', 'int_append_scalar')
    a.resub(r'\b(\w+)\s*\.parse::<i64>\(\)\s*\.unwrap_or\(0\)', r'parse_i64_or_0(\1)', 'R14', 'call chain E.parse::<i64>().unwrap_or(0) -> stub parse_i64_or_0(E)', count=None)
    a.r1().resub(r'\n\}$', '\n    int_value\n}', 'R6', 'wrapper epilogue returning the live variable `int_value`', count=1)
    a.sig(ret='r', ensures=[C('C07 integer-append-is-wrapping-add', 'r == parse_or_0(base@).wrapping_add(parse_or_0(suffix@))')])
    u.add(a)
    # filling an indexed array from a literal `([k]=v w ..)`: the index after the largest possible one must not overflow (C01)
    u.add(src.item(r'^pub struct ArrayLiteral\(', 'ArrayLiteral').r1(keep_derive=()))
    fn = 'update_indexed_array_from_literals'
    g = src.method_anywhere(fn).r1().r11()
    g.resub(r'\bkey\.parse\(\)\.unwrap_or\(0\)', 'parse_u64_or_0(key.as_str())', 'R14', 'call chain parse::<u64>().unwrap_or(0) -> stub', count=None)
    g.resub(r'for \(key, value\) in literal_values\.0 \{', 'for (key, value) in literal_values.0.into_iter() {', 'R24', 'consuming iteration spelled out', count=None)
    g.sig(fn, ensures=[C('C01 array-literal-indexes-never-overflow', 'true')])
    u.add(g)
    # the integer attribute on a plain assignment (R6 block slice of apply_value_transforms)
    fn = 'integer_attribute_value'
    b = src.block_slice(r'^\s*if treat_as_int \{$(?=\n\s*\*s = )', 'fn integer_attribute_value(s: &mut String)', fn, within_fn='apply_value_transforms')
    b.r1()
    b.resub(r'\(\*s\)\.parse::<i64>\(\)\.unwrap_or\(0\)\.to_string\(\)', 'i64_to_string(parse_i64_or_0(s.as_str()))', 'R14', 'call chain parse::<i64>().unwrap_or(0).to_string() -> stubs', count=None)
    b.sig(fn, ensures=[
        C('C07 integer-attribute-assignment-stores-the-value-of-the-text-as-an-arithmetic-expression kf=C07:integer-attribute-assignment-not-evaluated',
          '{{KF:C07:integer-attribute-assignment-not-evaluated}} || final(s)@ == int_text(arith_value(old(s)@))'),
    ])
    b.at_body_start(fn, 'broadcast use axiom_plain_decimal_evaluates_to_itself;')
    u.add(b)
    u.raw(FOOTER)
    u.assume('assume_specification', 'BTreeMap::last_key_value returns the entry with the largest key (std documented behaviour); contracts/std/int_ops.rs (discharged by Kani in the thorough tier)')
    u.assume('axiom', 'btree_is_max at u64 keys means: no key is larger; a plain decimal literal (no leading zero) evaluates to itself')
    u.assume('uninterp', 'parse_or_0 (text -> integer, default 0), btree_keys, btree_is_max, arith_value (the value of a text as an arithmetic expression), int_text')
    u.assume('external_body', 'parse_i64_or_0 stands for `E.parse::<i64>().unwrap_or(0)` (rule R14); error::Error is opaque; From<ErrorKind> for Error is a stub')
    u.assume('stub', 'assign_at_index / assign themselves (ShellValue with fn-pointer fields, BTreeMap through closures) are NOT verified; only the sliced statements are. The two array-element append statements have the same shape and are covered by the mutant battery only.')
    u.expected_min_fns = 4
    return u
