"""U46: (a) the three places of ExportCommand::process_decl (brush-builtins/src/export.rs) that set or clear the export attribute — the
`export NAME` branch, the `export NAME+=v` block and the closure handed to update_or_add (R6 slices); (b) the body of the loop of
compose_std_command (brush-core/src/commands.rs) that hands the exported variables to a child process."""
from vx.unit import Unit
from vx.extract import C
from .common import replay_scripts

PROPS = ['C09']
HEADER = 'use vstd::prelude::*;\nuse vstd::string::*;\nverus! {\n'
FOOTER = '\n} // verus!\nfn main() {}\n'
ATTR = 'final(%s).exported == !self_.unexport && final(%s).readonly == old(%s).readonly'


def build(repo, findings):
    u = Unit('U46', 'export marks exactly the named variable; every set exported variable reaches the child with its value', repo, ['C09'], safety_props=['C09'])
    xp = u.source('brush-builtins/src/export.rs')
    vs = u.source('brush-core/src/variables.rs')
    cm = u.source('brush-core/src/commands.rs')
    asrc = u.source('brush-parser/src/ast.rs')
    vs.require_text(r'pub struct ShellVariable \{(?:[^}]|\n)*?\n\s*value: ShellValue,(?:[^}]|\n)*?\n\s*exported: bool,(?:[^}]|\n)*?\n\s*readonly: bool,', 'projected fields ShellVariable.value / exported / readonly')
    xp.require_text(r'\n\s*names_are_functions: bool,', 'projected field ExportCommand.names_are_functions')
    xp.require_text(r'\n\s*unexport: bool,', 'projected field ExportCommand.unexport')
    asrc.require_text(r'pub struct Assignment \{[^}]*?\n\s*pub append: bool,', 'projected field Assignment.append')
    u.raw(HEADER)
    u.prelude('vars/export_spec.rs')
    u.raw('impl ShellVariable {')
    for nm, val in (('export', 'true'), ('unexport', 'false')):
        f = vs.method_anywhere(nm).r1()
        f.sig(nm, ret='r', ensures=[C('C09 %s-sets-only-the-export-attribute' % nm, 'r.exported == %s && r.readonly == old(self).readonly && r.value == old(self).value && *final(self) == *final(r)' % val)])
        u.add(f)
    u.raw('}\n')
    # (a1) `export NAME` on an existing variable
    fn = 'export_existing_variable'
    a = xp.block_slice(r'^\s*else if let Some\(\(_, variable\)\) = context\.shell\.env_mut\(\)\.get_mut\(s\) \{$',
                       'fn export_existing_variable(self_: &ExportCommand, variable: &mut ShellVariable)', fn, within_fn='process_decl')
    a.r1().resub(r'\bself\.', 'self_.', 'R6', 'slice wrapper: self -> self_', count=None)
    a.sig(fn, ensures=[C('C09 export-name-marks-the-variable-and-n-unmarks-it', ATTR % (('variable',) * 3))])
    u.add(a)
    # (a2) `export NAME+=v`
    fn = 'export_append'
    b = xp.slice('process_decl', r'^\s*if assignment\.append$', r'^\s*return Ok\(ExecutionResult::success\(\)\);\s*\n\s*\}',
                 'fn export_append(self_: &ExportCommand, context: &mut ExecutionContext, assignment: &Assignment, name: &String, value: variables::ShellValueLiteral) -> Result<ExecutionResult, brush_core::Error>', fn)
    b.r1().resub(r'\bself\.', 'self_.', 'R6', 'slice wrapper: self -> self_', count=None)
    b.resub(r'\.get_mut\(name\)', '.get_mut(name.as_str())', 'R14', 'AsRef<str> argument made explicit', count=None)
    b.resub(r'\n\}$', '\n    Ok(vx_fell_through())\n}', 'R6', 'wrapper epilogue: the statement falls through to the code after it', count=1)
    V0, V1 = 'old(context).shell.env.vars@', 'final(context).shell.env.vars@'
    b.sig(fn, ret='res', ensures=[
        C('C09 export-append-on-an-existing-variable-leaves-it-exported', '''(assignment.append && %s.contains_key(name@)) ==> (res is Ok ==> !res->Ok_0.fell_through
    && %s.contains_key(name@) && %s[name@].exported == !self_.unexport && %s[name@].readonly == %s[name@].readonly)''' % (V0, V1, V1, V1, V0)),
        C('C09 export-append-touches-only-the-named-variable', '%s.remove(name@) =~= %s.remove(name@)' % (V1, V0)),
        C('C09 otherwise-the-general-path-takes-over', '!(assignment.append && %s.contains_key(name@)) ==> res is Ok && res->Ok_0.fell_through && %s == %s' % (V0, V1, V0)),
    ])
    u.add(b)
    # (a3) the updater closure of the general path
    fn = 'export_updater'
    c = xp.block_slice(r'^\s*\|var\| \{$', 'fn export_updater(self_: &ExportCommand, var: &mut ShellVariable) -> Result<(), brush_core::Error>', fn, within_fn='process_decl')
    c.r1().resub(r'\bself\.', 'self_.', 'R6', 'slice wrapper: self -> self_', count=None)
    c.sig(fn, ret='res', ensures=[C('C09 export-with-a-value-marks-the-variable-and-n-unmarks-it', 'res is Ok && ' + ATTR % (('var',) * 3))])
    u.add(c)
    # (b) what a child process gets
    fn = 'child_env_entry'
    d = cm.block_slice(r'^\s*for \(k, v\) in context\.shell\.env\(\)\.iter_exported\(\) \{$',
                       'fn child_env_entry(context: &ChildContext, cmd: &mut Command, k: &String, v: &ShellVariable)', fn, within_fn='compose_std_command')
    d.r1()
    d.resub(r'\bv\.value\(\)', 'v.value', 'R22', 'accessor inlined: value() is `&self.value`', count=None)
    d.resub(r'\.to_cow_str\(context\.shell\)\.as_ref\(\)', '.to_cow_str(context.shell).as_str()', 'R17', 'Cow<str>::as_ref -> String::as_str (Cow erased)', count=None)
    d.resub(r'\b(\w+)\.as_ref\(\)', r'\1.as_str()', 'R17', 'Cow<str>::as_ref -> String::as_str (Cow erased)', count=None)
    d.sig(fn, ensures=[
        C('C09 a-set-exported-variable-reaches-the-child-with-its-value-empty-or-not', 'v.value.set_spec() ==> final(cmd).env@ == old(cmd).env@.insert(k@, v.value.text())'),
        C('C09 a-declared-but-unset-variable-does-not', '!v.value.set_spec() ==> final(cmd).env@ == old(cmd).env@'),
    ])
    u.add(d)
    vs.require_text(r'pub const fn value\(&self\) -> &ShellValue \{\s*&self\.value\s*\}', 'ShellVariable::value is `&self.value`')
    # (c) which variable of a scope may stand for its name in iter_exported: the filter closure, read into a generated function
    import re
    from vx.extract import ExtractError, fn_span
    ev = u.source('brush-core/src/env.rs')
    b, o, e = fn_span(ev.text, 'iter_exported')
    m = re.search(r'\.filter\(\|\(_, v\)\| ([^\n]*?)\)\s*\{?\s*\n', ev.text[o:e])
    if not m or '.filter(' in ev.text[o:e][m.end():]:
        raise ExtractError('unsupported: iter_exported no longer picks the variables of a scope with exactly one `.filter(|(_, v)| ..)`')
    body = m.group(1).strip()
    body = re.sub(r'\bv\.value\(\)', 'v.value', body)
    body = re.sub(r'\bv\.is_exported\(\)', 'v.exported', body)
    u.raw('''// GENERATED on every run from the closure of `.filter(..)` in ShellEnvironment::iter_exported (brush-core/src/env.rs); accessors inlined (R22)
fn stands_for_its_name_in_the_export_list(v: &ShellVariable) -> (r: bool)
    ensures
        //@ env.rs:iter_exported:filter | C09 an-exported-variable-without-a-value-does-not-hide-an-outer-exported-one-that-has-one
        r == (v.exported && v.value.set_spec()),
{ %s }
''' % body, origin='generated from brush-core/src/env.rs fn iter_exported')
    u.raw(FOOTER)
    u.assume('external_body', 'Env::get_mut (the visible variable, or None), ShellVariable::assign (attributes left alone: ASSUMED), ShellValue::is_set / to_cow_str (uninterpreted), Command::env (inserts one entry)')
    u.assume('uninterp', 'ShellValue::set_spec, ShellValue::text')
    u.assume('stub', 'the scope walk of iter_exported (innermost first, first variable per name that passes the filter: read, not proved), update_or_add (calls the updater on the variable it finds or creates), the function branch of export and clap parsing are NOT verified here')
    u.expected_min_fns = 7
    u.counterexample = replay_scripts(repo, [
        ('export E=; F= env | grep -c "^[EF]=$"', '2\n'),
        ('V=a; export V+=b; declare -p V; env | grep "^V="', 'declare -x V="ab"\nV=ab\n'),
        ('V=a; export V; export -n V+=b; declare -p V', 'declare -- V="ab"\n'),
    ])
    return u
