// ---- prelude: the reader that collects the output of a command substitution (brush-core/src/sys/unix/async_pipe.rs).
//  C04: "$(cmd) arrives byte-exact apart from trailing newlines": everything the pipe delivers until end of file is decoded as ONE
//  UTF-8 text (a character may straddle any read boundary), or the read fails.
pub mod io { use vstd::prelude::*; #[verifier::external_body] pub struct Error { _p: u8 } pub type Result<T> = core::result::Result<T, Error>; }
pub mod pipe {
    use vstd::prelude::*;
    #[verifier::external_body] pub struct Receiver { _p: u8 }
    impl Receiver {
        pub uninterp spec fn pending(&self) -> Seq<u8>;                 // ghost: the bytes that will arrive before end of file
        // tokio AsyncReadExt::read_to_string: reads to end of file, appends the bytes decoded as UTF-8, fails (appending nothing) if they are not valid
        #[verifier::external_body]
        pub fn read_to_string(&mut self, buf: &mut String) -> (r: super::io::Result<usize>)
            ensures match super::utf8_decode(old(self).pending()) {
                Some(t) => r is Ok && final(buf)@ == old(buf)@ + t && final(self).pending().len() == 0,
                None => r is Err && final(buf)@ == old(buf)@,
            }
        { unimplemented!() }
    }
}
pub uninterp spec fn utf8_decode(b: Seq<u8>) -> Option<Seq<char>>;
pub struct AsyncPipeReader(pub pipe::Receiver);                        // the real struct: one field (checked)
