// ---- prelude (C09): the tail of apply_assignment (interp.rs): where an assignment lands.
//  "a readonly variable's value and attributes cannot be changed or removed by any construct": an assignment to a name whose visible
//  variable is readonly fails — also a temporary assignment `r=2 cmd`, which would otherwise put a second `r` in front of it (bash:
//  "r: readonly variable", the command is not run).  "`NAME=v cmd` changes only cmd's view": a temporary assignment creates its variable
//  in the scope of ITS OWN command (the innermost one) and never writes to the variable it shadows — also when that variable is the
//  temporary one of an enclosing command (`x=1 f` where f runs `x=2 g`: afterwards f still sees 1).  Attributes: an assignment never drops the export attribute.
pub mod error {
    use vstd::prelude::*;
    #[verifier::external_body] pub struct Error { _p: u8 }
    #[verifier::external_body] pub fn unimp<T>(msg: &'static str) -> (r: Result<T, Error>) ensures r is Err { unimplemented!() }
    pub enum ErrorKind { ReadonlyVariable }                    // projection (variant checked)
    impl vstd::std_specs::convert::FromSpecImpl<ErrorKind> for Error {
        open spec fn obeys_from_spec() -> bool { false }
        open spec fn from_spec(k: ErrorKind) -> Self { arbitrary() }
    }
    impl From<ErrorKind> for Error { #[verifier::external_body] fn from(k: ErrorKind) -> Self { unimplemented!() } }
}
pub mod ast { pub struct Assignment { pub append: bool } }                                  // projection (field checked)
pub enum ShellValue { String(String), Other(u8) }                                            // projection: the variant the tail builds itself
impl ShellValue {
    #[verifier::external_body] pub fn indexed_array_from_literals(l: ArrayLiteral) -> (r: Self) { unimplemented!() }
}
pub struct ShellVariable { pub value: ShellValue, pub exported: bool, pub readonly: bool }   // projection (fields checked)
// what ShellVariable::assign makes of a value (NOT verified here)
pub uninterp spec fn assigned(v: ShellValue, lit: ShellValueLiteral, append: bool) -> ShellValue;
impl ShellVariable {
    #[verifier::external_body]
    pub fn new(value: ShellValue) -> (r: Self) ensures r.value == value, !r.exported, !r.readonly { unimplemented!() }
    pub fn is_readonly(&self) -> (r: bool) ensures r == self.readonly { self.readonly }
    pub fn is_exported(&self) -> (r: bool) ensures r == self.exported { self.exported }
    // value writers: readonly guard first (unit U34), attributes left alone (ASSUMED)
    #[verifier::external_body]
    pub fn assign(&mut self, value: ShellValueLiteral, append: bool) -> (r: Result<(), error::Error>)
        ensures final(self).exported == old(self).exported, final(self).readonly == old(self).readonly,
            old(self).readonly ==> r is Err && *final(self) == *old(self),
            r is Ok ==> final(self).value == assigned(old(self).value, value, append)
    { unimplemented!() }
    // derived Clone: an equal value (ASSUMED)
    #[verifier::external_body]
    pub fn clone(&self) -> (r: Self) ensures r == *self { unimplemented!() }
    #[verifier::external_body]
    pub fn assign_at_index(&mut self, array_index: String, value: String, append: bool) -> (r: Result<(), error::Error>)
        ensures final(self).exported == old(self).exported, final(self).readonly == old(self).readonly,
            old(self).readonly ==> r is Err && *final(self) == *old(self)
    { unimplemented!() }
    pub fn export(&mut self) -> (r: &mut Self)
        ensures r.exported && r.readonly == old(self).readonly && r.value == old(self).value && *final(self) == *final(r)
    { self.exported = true; self }
    pub fn unexport(&mut self) -> (r: &mut Self)
        ensures !r.exported && r.readonly == old(self).readonly && r.value == old(self).value && *final(self) == *final(r)
    { self.exported = false; self }
}
pub struct Env {
    pub vars: Ghost<Map<Seq<char>, (EnvironmentScope, ShellVariable)>>,          // the variable visible under each name, and the scope it lives in
    pub adds: Ghost<Seq<(Seq<char>, ShellVariable, EnvironmentScope)>>,          // variables created through add()
    pub top_has: Ghost<Set<Seq<char>>>,                                          // the names the innermost scope holds
    pub u: u8,
}
impl Env {
    // env.rs innermost_scope_has: does the last scope pushed hold the name
    #[verifier::external_body]
    pub fn innermost_scope_has(&self, name: &str) -> (r: bool) ensures r == self.top_has@.contains(name@) { unimplemented!() }
    #[verifier::external_body]
    pub fn get_mut<'a>(&'a mut self, name: &str) -> (r: Option<(EnvironmentScope, &'a mut ShellVariable)>)
        ensures
            final(self).adds == old(self).adds, final(self).top_has == old(self).top_has,
            (r is None) == !old(self).vars@.contains_key(name@),
            r is None ==> final(self).vars@ == old(self).vars@,
            r is Some ==> r->Some_0.0 == old(self).vars@[name@].0 && *r->Some_0.1 == old(self).vars@[name@].1
                && final(self).vars@ == old(self).vars@.insert(name@, (old(self).vars@[name@].0, *final(r->Some_0.1))),
    { unimplemented!() }
    // env.rs add: puts the variable into the innermost scope of that kind (NOT verified here); the visible map is left abstract
    #[verifier::external_body]
    pub fn add(&mut self, name: &String, var: ShellVariable, target_scope: EnvironmentScope) -> (r: Result<(), error::Error>)
        ensures final(self).adds@ == old(self).adds@.push((name@, var, target_scope)), final(self).vars@.remove(name@) =~= old(self).vars@.remove(name@)
    { unimplemented!() }
}
pub struct RuntimeOptions { pub export_variables_on_modification: bool }
pub struct Shell { pub env: Env, pub options: RuntimeOptions }
impl Shell {
    pub fn env_mut(&mut self) -> (r: &mut Env) ensures *r == old(self).env, *final(r) == final(self).env, final(self).options == old(self).options { &mut self.env }
}
