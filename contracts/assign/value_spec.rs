// ---- prelude: how the value of an assignment is expanded (interp.rs apply_assignment, the statement computing `new_value`).
//  POSIX XCU 2.9.1 / bash manual, Shell Parameters: "[in an assignment] value ... undergoes tilde expansion, parameter and variable
//  expansion, command substitution, arithmetic expansion, and quote removal ... Word splitting and filename expansion are not
//  performed" — `y=$x` copies $x exactly (C04).  bash manual, Arrays: in a compound assignment `name=(v1 v2 ...)` each plain element
//  is expanded like a command word (split, globbed), whereas in `[subscript]=value` the value is expanded like the right side of an
//  assignment: one element, not split, not globbed.
pub mod error { use vstd::prelude::*; #[verifier::external_body] pub struct Error { _p: u8 } }
pub mod ast {
    use vstd::prelude::*;
    #[verifier::external_body] pub struct Word { _p: u8 }
    pub use super::AssignmentValue;
    pub struct Assignment { pub value: AssignmentValue, pub append: bool }          // projection (fields checked)
}
use ast::Word;
pub enum Ev { Assign(ast::Word), Split(ast::Word) }          // which expander was applied to which word
pub struct Shell { pub log: Ghost<Seq<Ev>>, pub u: u8 }      // projection: ghost log of expander calls
pub struct ExecutionParameters { pub u: u8 }
pub uninterp spec fn assign_result(log: Seq<Ev>, w: ast::Word) -> Result<Seq<char>, error::Error>;
pub uninterp spec fn split_result(log: Seq<Ev>, w: ast::Word) -> Result<Seq<Seq<char>>, error::Error>;
pub mod expansion {
    use vstd::prelude::*;
    use super::*;
    // expansion.rs basic_expand_assignment_word: assignment semantics (one string; no field splitting, no pathname expansion) — NOT verified here
    #[verifier::external_body]
    pub fn basic_expand_assignment_word(shell: &mut Shell, params: &ExecutionParameters, word: &ast::Word) -> (r: Result<String, error::Error>)
        ensures final(shell).log@ == old(shell).log@.push(Ev::Assign(*word)),
            match assign_result(old(shell).log@, *word) { Ok(s) => r is Ok && r->Ok_0@ == s, Err(e) => r == Err::<String, error::Error>(e) }
    { unimplemented!() }
    // expansion.rs full_expand_and_split_word: command-word semantics (fields) — NOT verified here
    #[verifier::external_body]
    pub fn full_expand_and_split_word(shell: &mut Shell, params: &ExecutionParameters, word: &ast::Word) -> (r: Result<Vec<String>, error::Error>)
        ensures final(shell).log@ == old(shell).log@.push(Ev::Split(*word)),
            match split_result(old(shell).log@, *word) {
                Ok(ss) => r is Ok && r->Ok_0@.len() == ss.len() && (forall|i: int| 0 <= i < ss.len() ==> (#[trigger] r->Ok_0@[i])@ == ss[i]),
                Err(e) => r == Err::<Vec<String>, error::Error>(e),
            }
    { unimplemented!() }
}
pub type Elem = (Option<Seq<char>>, Seq<char>);
pub struct St { pub els: Seq<Elem>, pub log: Seq<Ev>, pub ok: bool }
pub open spec fn unkeyed(ss: Seq<Seq<char>>) -> Seq<Elem> { Seq::new(ss.len(), |i: int| (None::<Seq<char>>, ss[i])) }
// one element of a compound assignment, left to right: a keyed element expands key and value with assignment semantics (one element);
// a plain element contributes the fields of its expansion
pub open spec fn step(p: St, k: Option<ast::Word>, v: ast::Word) -> St {
    match k {
        Some(kw) => match assign_result(p.log, kw) {
            Ok(ks) => match assign_result(p.log.push(Ev::Assign(kw)), v) {
                Ok(vs) => St { els: p.els.push((Some(ks), vs)), log: p.log.push(Ev::Assign(kw)).push(Ev::Assign(v)), ok: true },
                Err(_) => St { els: p.els, log: p.log.push(Ev::Assign(kw)).push(Ev::Assign(v)), ok: false },
            },
            Err(_) => St { els: p.els, log: p.log.push(Ev::Assign(kw)), ok: false },
        },
        None => match split_result(p.log, v) {
            Ok(ss) => St { els: p.els + unkeyed(ss), log: p.log.push(Ev::Split(v)), ok: true },
            Err(_) => St { els: p.els, log: p.log.push(Ev::Split(v)), ok: false },
        },
    }
}
pub open spec fn pre(vals: Seq<(Option<ast::Word>, ast::Word)>, i: int, log0: Seq<Ev>) -> St decreases i {
    if i <= 0 { St { els: Seq::empty(), log: log0, ok: true } } else {
        let p = pre(vals, i - 1, log0);
        if !p.ok { p } else { step(p, vals[i - 1].0, vals[i - 1].1) }
    }
}
pub open spec fn elems_view(v: Seq<(Option<String>, String)>) -> Seq<Elem> {
    Seq::new(v.len(), |i: int| (match v[i].0 { Some(s) => Some(s@), None => None::<Seq<char>> }, v[i].1@))
}
pub proof fn lemma_stuck(vals: Seq<(Option<ast::Word>, ast::Word)>, i: int, n: int, log0: Seq<Ev>)
    requires 0 <= i <= n, !pre(vals, i, log0).ok
    ensures pre(vals, n, log0) == pre(vals, i, log0)
    decreases n - i
{ if i < n { lemma_stuck(vals, i, n - 1, log0); } }
// the whole statement
pub open spec fn value_spec(a: AssignmentValue, log0: Seq<Ev>) -> St {
    match a {
        AssignmentValue::Scalar(w) => St { els: Seq::empty(), log: log0.push(Ev::Assign(w)), ok: assign_result(log0, w) is Ok },
        AssignmentValue::Array(vals) => pre(vals@, vals@.len() as int, log0),
    }
}
// R14: `v.join(sep)` on a Vec<String> -> stub (the texts joined by the separator; uninterpreted beyond the one-element case)
pub uninterp spec fn join_spec(ss: Seq<Seq<char>>, sep: Seq<char>) -> Seq<char>;
#[verifier::external_body]
pub fn vx_join(v: &Vec<String>, sep: &str) -> (r: String)
    ensures r@ == join_spec(Seq::new(v@.len(), |i: int| v@[i]@), sep@), v@.len() == 1 ==> r@ == v@[0]@
{ unimplemented!() }
